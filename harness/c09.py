"""C09 — isolated-margin liquidation happens exactly at the liquidation price.

proof:   Props/C09.v over the GENERATED liquidation_price / bankruptcy_price / candle_includes_price and Model/Liquidation.v
tie:     kernel validation; Model/Liquidation.check_liquidation vs the real _check_for_liquidations on real
         Position / FuturesExchange objects (single and averaged entries, all leverages, candles that approach / touch / jump over)
search:  monitors over real isolated-margin backtests (1m routes): every forced close is justified and at the bankruptcy price,
         and no position survives a minute whose range contains its liquidation price
"""
import json
from fractions import Fraction

from . import common as C
from . import kernels

PID = 'C09'
THEOREMS = ['C09_formulas', 'C09_price_ordering', 'C09_price_ordering_binary64_coefficients', 'C09_exactly_when', 'C09_only_isolated',
            'C09_liquidation_effect']


def qq(x):
    fr = Fraction(float(x))
    return f'(q {C.cz(fr.numerator)} {C.cz(fr.denominator)})'


def direct_cases(rng, n):
    from . import driver
    C.use_repo()
    import numpy as np
    from jesse.modes.backtest_mode import _check_for_liquidations
    from jesse.store import store
    out = []
    for _ in range(n):
        mode = rng.choice(['isolated', 'isolated', 'isolated', 'cross'])
        lev = rng.choice([1, 2, 3, 5, 10, 20, 25, 50, 75, 100, 125])
        fee = rng.choice([0.0, 0.0, 0.001, 0.0004])
        e = driver.session('futures', fee=fee, leverage=lev, mode=mode, balance=1_000_000.0)
        p = driver.position('BTC-USDT')
        entry = rng.choice([100.0, 64.0, 250.0, 37.5])
        p.current_price = entry
        long = rng.random() < 0.5
        q1 = rng.choice([1.0, 2.0, 0.5, 4.0])
        driver.submit('BTC-USDT', 'buy' if long else 'sell', 'MARKET', q1, entry).execute()
        if rng.random() < 0.5:                                   # averaged entry
            p2 = entry + rng.choice([-8.0, -4.0, 4.0, 8.0, 2.0])
            driver.submit('BTC-USDT', 'buy' if long else 'sell', 'LIMIT', rng.choice([1.0, 2.0, 0.5]), p2).execute()
        if rng.random() < 0.1:                                   # flat position: nothing may happen
            driver.submit('BTC-USDT', 'sell' if long else 'buy', 'MARKET', abs(p.qty), entry).execute()
        pq, pe = float(p.qty), float(p.entry_price) if p.entry_price is not None else 0.0
        w = float(e.wallet_balance)
        lp = pe * (1 - 1 / lev + 0.004) if pq > 0 else pe * (1 + 1 / lev - 0.004)
        style = rng.choice(['touch_low', 'touch_high', 'inside', 'miss', 'jump', 'exact'])
        d = max(abs(lp) * 0.001, 0.01)
        if style == 'exact':
            lo, hi = lp, lp + d
            if rng.random() < 0.5: lo, hi = lp - d, lp
        elif style == 'touch_low':
            lo, hi = lp, lp + 5 * d
        elif style == 'touch_high':
            lo, hi = lp - 5 * d, lp
        elif style == 'inside':
            lo, hi = lp - 3 * d, lp + 3 * d
        elif style == 'miss':
            lo, hi = (lp + d, lp + 4 * d) if rng.random() < 0.5 else (lp - 4 * d, lp - d)
        else:
            lo, hi = (lp - 9 * d, lp - 6 * d) if pq > 0 else (lp + 6 * d, lp + 9 * d)      # jumped over entirely
        o_, c_ = rng.choice([(lo, hi), (hi, lo), ((lo + hi) / 2, (lo + hi) / 2)])
        candle = np.array([store.app.time, o_, c_, hi, lo, 1.0])
        nb = len(store.orders.get_orders('Sandbox', 'BTC-USDT'))
        liq0 = store.app.total_liquidations
        try:
            _check_for_liquidations(candle, 'Sandbox', 'BTC-USDT')
            new = store.orders.get_orders('Sandbox', 'BTC-USDT')[nb:]
            liq = store.app.total_liquidations - liq0
            ob = (liq == 1 and len(new) == 1, float(new[0].price) if new else 0.0, float(p.qty), float(e.wallet_balance),
                  (new[0].type, new[0].side, bool(new[0].reduce_only), abs(float(new[0].qty)), new[0].status) if new else None, liq, len(new))
        except Exception as ex:
            ob = ('error', type(ex).__name__)
        out.append((mode, lev, fee, (pq, pe), w, (o_, c_, hi, lo), ob))
    return out


def trace_monitors(rng, tier):
    """isolated-margin sessions on 1m routes with high leverage: liquidations do happen"""
    from . import engine as E
    bad, n_liq, n_obs, checks = [], 0, 0, []
    sessions = 40 if tier == 'quick' else 400
    for k in range(sessions):
        sc = E.gen_script(rng, rng.randrange(1 << 30))
        sc['liquidate_every'] = 0
        sc['exit_style'] = rng.choice(['none', 'on_open', 'on_open'])
        sc['only'] = 'tp'                                             # a protective stop would pre-empt the liquidation
        sc['tp_dist'] = rng.choice([2, 3, 4])
        sc['exit_points'] = rng.choice([1, 2])
        lev = rng.choice([25, 50, 100, 125, 10])
        mode = 'isolated' if k % 5 else 'cross'
        cs = E.gen_candles(rng, 150, style=rng.choice(['spiky', 'choppy', 'walk']))
        out = E.run_session({'BTC-USDT': cs}, [('BTC-USDT', '1m')], scripts={'BTC-USDT': sc}, leverage=lev, mode=mode, fee=rng.choice([0.0, 0.001]),
                            fast=(k % 4 == 0), balance=1_000_000.0)
        if out['error']:
            if E.benign_error(out['error']):
                continue
            bad.append({'clause': 'session_error', 'error': out['error'], 'script': sc}); continue
        tr = out['trace']
        nliq = out.get('liquidations', 0)
        n_liq += nliq
        # (A) every liquidation check the simulator made, to be decided by Coq at binary64 (decision + order price)
        for e in tr:
            if e['k'] == 'liqcheck' and e['qty'] is not None:
                checks.append((e['mode'] if e['mode'] in ('isolated', 'cross', 'spot') else 'cross', e['lev'], e['qty'], e['entry'] or 0.0, e['candle'],
                               e['liquidated'] == 1, e['price']))
                if e['liquidated'] and e['qty_after'] != 0:
                    bad.append({'clause': 'forced_close_left_position_open', 'event': e, 'script': sc})
                if e['liquidated'] not in (0, 1):
                    bad.append({'clause': 'liquidation_counted_twice', 'event': e, 'script': sc})
        # (B) no open position survives a minute whose range contains its liquidation price (1m route: `before` runs right after the check)
        for e in tr:
            if e['k'] == 'hook' and e['hook'] == 'before' and e['qty'] != 0 and mode == 'isolated':
                n_obs += 1
                v = [x for x in e['view'] if x[1] == '1m']
                if not v or len(v[0]) < 4 or not v[0][3]:
                    continue
                last = v[0][3]
                lp = e['entry'] * (1 - 1 / lev + 0.004) if e['qty'] > 0 else e['entry'] * (1 + 1 / lev - 0.004)
                if last[4] <= lp <= last[3]:
                    bad.append({'clause': 'missed_liquidation', 't': e['t'], 'qty': e['qty'], 'entry': e['entry'], 'liquidation_price': lp,
                                'minute_candle': last, 'leverage': lev, 'script': sc, 'fast_mode': k % 4 == 0})
                    break
    return bad, n_liq, n_obs, sessions, checks


def run(tier, seed, replay=None):
    res = C.Result(PID, tier, seed)
    res.trusted = ['Coq 8.16.1 kernel + vm_compute', 'translator py2v (validated bit-for-bit)', 'Model/Liquidation.v + Model/Futures.v (hand-written) tied by correspondence',
                   'harness/c09.py, driver.py, engine.py']
    res.assumptions = ['theorems in exact arithmetic (the literal 0.004 is the exact value of the double); the binary64 ordering of the coefficients is a finite '
                       'sweep over integer leverage 1..125', 'the position seen by the check is the account model of C03']
    kernels.validate(res, ['position', 'candle'], seed, 200 if tier == 'quick' else 2000)
    C.standard_proof_step(res, 'Props.C09', THEOREMS, ['theories/Props/C09.vo', 'theories/Run/C09Run.vo'])
    rng = C.rng_for(seed, PID)
    cases = direct_cases(rng, 250 if tier == 'quick' else 3000)
    hdr = 'From Coq Require Import ZArith QArith Qcanon List Bool String.\nFrom JV Require Import Base.Num Run.Harness Run.C09Run.\nImport ListNotations.\nOpen Scope string_scope.\n'
    good = [c for c in cases if c[6][0] != 'error']
    body = ';\n'.join(f'("{m}", {qq(l)}, {qq(f_)}, ({qq(pq)}, {qq(pe)}), {qq(w)}, ({qq(o)}, {qq(c_)}, {qq(h)}, {qq(lo)}), '
                      f'({C.cbool(ob[0])}, {qq(ob[1])}, {qq(ob[2])}, {qq(ob[3])}))' for (m, l, f_, (pq, pe), w, (o, c_, h, lo), ob) in good)
    f = kernels.f
    fbody = ';\n'.join(f'("{m}", {f(l)}, ({C.cbool(pq > 0)}, {C.cbool(pq < 0)}), {f(pe)}, ({f(o)}, {f(c_)}, {f(h)}, {f(lo)}), ({C.cbool(ob[0])}, {f(ob[1])}))'
                       for (m, l, f_, (pq, pe), w, (o, c_, h, lo), ob) in good)
    rc, out = C.coq_eval('c09_direct', hdr + 'From Coq Require Import PrimFloat.\nOpen Scope float_scope.\n' +
                         f'Definition cs : list lcase := [\n{body}\n].\nDefinition fs : list fcase := [\n{fbody}\n].\n'
                         'Eval vm_compute in (bad_indices (map effect_agrees cs)).\nEval vm_compute in (bad_indices (map decision_same fs)).\n'
                         'Eval vm_compute in (bad_indices (map robust cs)).\n')
    r = C.parse_results(out)
    ok_eval = rc == 0 and len(r) == 3
    res.oblige('C09 case file evaluated', ok_eval, out[-1500:])
    bad = sorted(set(C.parse_nat_list(r[0]) + C.parse_nat_list(r[1]))) if ok_eval else []
    res.extra['exact_touch_cases_decided_at_binary64_only'] = len(C.parse_nat_list(r[2])) if ok_eval else None
    shape_bad = [c for c in good if c[6][0] and c[6][4][:3] != ('MARKET', 'sell' if c[3][0] > 0 else 'buy', True)]
    shape_bad += [c for c in good if c[6][0] and (abs(c[6][4][3] - abs(c[3][0])) > 1e-12 or c[6][4][4] != 'EXECUTED')]
    errors = [c for c in cases if c[6][0] == 'error']
    res.oblige('correspondence: Model/Liquidation.check_liquidation = real _check_for_liquidations (decision, order price, position and wallet after)',
               not bad and not errors, json.dumps([good[i] for i in bad[:2]] + errors[:1], default=str)[:1500])
    tbad, n_liq, n_obs, sessions, lchecks = trace_monitors(rng, tier)
    if lchecks:
        sel = lchecks if len(lchecks) <= 4000 else [lchecks[i] for i in sorted(rng.sample(range(len(lchecks)), 4000))] + [c for c in lchecks if c[5]][:500]
        lb = ';\n'.join(f'("{m}", {f(l)}, ({C.cbool(q_ > 0)}, {C.cbool(q_ < 0)}), {f(en)}, ({f(cd[1])}, {f(cd[2])}, {f(cd[3])}, {f(cd[4])}), ({C.cbool(lq)}, {f(pr)}))'
                        for (m, l, q_, en, cd, lq, pr) in sel)
        rc2, out2 = C.coq_eval('c09_trace', hdr + 'From Coq Require Import PrimFloat.\nOpen Scope float_scope.\n' +
                               f'Definition fs : list fcase := [\n{lb}\n].\nEval vm_compute in (bad_indices (map decision_same fs)).\n', timeout=1500)
        r2 = C.parse_results(out2)
        ok2 = rc2 == 0 and len(r2) == 1
        res.oblige('liquidation checks of real sessions evaluated', ok2, out2[-1200:])
        for i in (C.parse_nat_list(r2[0]) if ok2 else [])[:3]:
            tbad.append({'clause': 'session_check_decision', 'check': sel[i]})
        res.extra['session_liquidation_checks'] = len(lchecks)
    res.add_cases(len(cases) + sessions, len({json.dumps(c[:6]) for c in cases}) + sessions, [{'direct': cases[0]}],
                  'direct: every leverage 1..125 sample, long/short, single and averaged entries, flat positions, cross mode; candles that approach, touch '
                  '(low or high exactly on the price), straddle, miss and jump over the liquidation price; sessions: isolated/cross, 1m routes, '
                  'leverage 10..125, spiky candles, take-profit ladders that fill in the liquidation minute, both simulators')
    res.extra.update({'direct_liquidations': sum(1 for c in good if c[6][0]), 'direct_cases': len(cases), 'session_liquidations': n_liq,
                      'sessions': sessions, 'monitor_evaluations': n_obs})
    seen = set()
    for i in bad[:10]:
        c = good[i]
        site = 'check_for_liquidations:' + ('forced' if c[6][0] else 'not_forced')
        if site not in seen:
            seen.add(site)
            res.violation(site, 'forced-close decision / price / effect differs from exactly-at-the-liquidation-price semantics',
                          {'mode': c[0], 'leverage': c[1], 'fee': c[2], 'position_qty_entry': c[3], 'wallet': c[4], 'candle_o_c_h_l': c[5], 'observed': c[6]})
    for c in shape_bad[:1]:
        res.violation('liquidation_order_shape', 'the liquidation order is not a reduce-only market order for the whole position on the closing side', {'case': c})
    for b in tbad:
        if b['clause'] not in seen:
            seen.add(b['clause'])
            res.violation('trace:' + b['clause'], 'C09 clause violated in a real isolated-margin backtest', b)
    return res.finish()
