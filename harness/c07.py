"""C07 — every timeframe is the exact aggregation of the one-minute candles.

proof:   Props/C07.v (get_candles = aggregation of every started window under the store invariant, for every n and store content)
tie:     Model/CandleView.step_minute / publish_partial / get_candles vs the real stores after real sessions (raw stores and view)
search:  Coq's `aggs` evaluated on what a strategy actually read (1m candles vs every other timeframe) at hook invocations incl.
         hooks fired by mid-minute fills; both simulators, warm-up on/off, lengths that are not multiples of the timeframe
"""
import json
from fractions import Fraction

from . import common as C

PID = 'C07'
THEOREMS = ['C07_step_minute_keeps_invariant', 'C07_normal_simulator_views_are_aggregations', 'C07_feed_list_is_feed', 'C07_get_candles_is_aggregation', 'C07_agg_spec', 'C07_timeframe_tables_agree']
TFM = {'1m': 1, '3m': 3, '5m': 5, '15m': 15, '30m': 30, '45m': 45, '1h': 60, '2h': 120}


def qq(x):
    fr = Fraction(float(x))
    return f'(q {C.cz(fr.numerator)} {C.cz(fr.denominator)})'


def kc(c):
    return f'(mk {C.cz(int(c[0]))} {qq(c[1])} {qq(c[2])} {qq(c[3])} {qq(c[4])} {qq(c[5])})'


def kcs(a):
    return C.clist([kc(c) for c in a])


def run_one(rng, fast, warm, fixed=None):
    """one real session; returns (views, feed) : views = [(hook, tf, 1m candles, tf candles, current candle)], feed info for the step simulator"""
    from . import engine as E
    C.use_repo()
    import numpy as np
    import jesse.helpers as jh
    from jesse import research
    from jesse.strategies import Strategy
    from jesse.store import store
    import jesse.modes.backtest_mode as bm
    tf = rng.choice(['3m', '5m', '15m'])
    extra = rng.choice([[], ['15m'], ['30m'], ['1h'], ['5m', '30m']])
    extra = [t for t in extra if t != tf]
    n_min = rng.choice([47, 60, 95, 130])
    if fixed is not None:
        # timeframes that are not multiples of one another: windows of the larger one end inside windows of the smaller one
        tf, extra = fixed[0], list(fixed[1])
        n_min = max(n_min, 3 * max(TFM[t] for t in [tf] + extra) + 7)
    views, parts = [], {}
    seed = rng.randrange(1 << 30)

    class S(Strategy):
        def _cap(self, hook, force=False):
            if not force and E.h(seed, hook, self.index) % 4:
                return
            try:
                one = [list(map(float, r)) for r in store.candles.get_candles(self.exchange, self.symbol, '1m')]
            except Exception as e:
                one = 'raise:' + type(e).__name__
            for t in [tf] + extra:
                try:
                    got = [list(map(float, r)) for r in store.candles.get_candles(self.exchange, self.symbol, t)]
                    cur = store.candles.get_current_candle(self.exchange, self.symbol, t)
                    cur = list(map(float, cur)) if len(cur) else None
                except Exception as e:
                    got, cur = 'raise:' + type(e).__name__, None
                views.append((hook, t, one, got, cur, store.app.time))

        def before(self): self._cap('before')
        def should_long(self): return E.h(seed, 'sl', self.index) % 3 == 0
        def should_cancel_entry(self): return E.h(seed, 'ce', self.index) % 2 == 0
        def go_long(self):
            off = [-1.0, -0.5, 0.0, -2.0][E.h(seed, 'off', self.index) % 4]
            self.buy = 1.0, max(1.0, self.price + off)
        def on_open_position(self, order):
            self.take_profit = 1.0, self.position.entry_price + [0.5, 1.0, 2.0][E.h(seed, 'tp', self.index) % 3]
            self.stop_loss = 1.0, max(0.5, self.position.entry_price - [0.5, 1.0, 3.0][E.h(seed, 'sl2', self.index) % 3])
            self._cap('on_open_position', True)
        def on_close_position(self, order): self._cap('on_close_position', True)
        def update_position(self): self._cap('update_position')
    cs = E.gen_candles(rng, n_min, style=rng.choice(['walk', 'choppy', 'spiky']))
    wc = None
    if warm:
        wlen = 60 * rng.choice([1, 2])
        import math as _m
        unit = 1
        for t_ in [tf] + extra: unit = unit * TFM[t_] // _m.gcd(unit, TFM[t_])
        if wlen % unit:
            wlen = unit * rng.choice([1, 2])          # the property's hypothesis: the warm-up length is aligned to every route timeframe
        w = E.gen_candles(rng, wlen, base=cs[0][1])
        for i, c in enumerate(w):
            c[0] = cs[0][0] - (wlen - i) * E.M
        wc = {jh.key('Sandbox', 'BTC-USDT'): {'exchange': 'Sandbox', 'symbol': 'BTC-USDT', 'candles': np.array(w)}}
    cfg = {'starting_balance': 100000, 'fee': 0, 'type': 'futures', 'futures_leverage': 2, 'futures_leverage_mode': 'cross', 'exchange': 'Sandbox',
           'warm_up_candles': 0 if not warm else 60}
    orig_pub = bm._update_all_routes_a_partial_candle

    def pub(exchange, symbol, candle):
        parts.setdefault(int(candle[0]), []).append([float(x) for x in candle])
        orig_pub(exchange, symbol, candle)
    final = {}
    orig_sim = bm.simulator

    def sim(*a, **k):
        r = orig_sim(*a, **k)
        for t in ['1m', tf] + extra:
            final[t] = [list(map(float, x)) for x in store.candles.storage[f'Sandbox-BTC-USDT-{t}'][:]] if len(store.candles.storage[f'Sandbox-BTC-USDT-{t}']) else []
            final['view:' + t] = [list(map(float, x)) for x in store.candles.get_candles('Sandbox', 'BTC-USDT', t)]
        return r
    bm._update_all_routes_a_partial_candle = pub
    bm.simulator = sim
    err = None
    try:
        research.backtest(cfg, [{'exchange': 'Sandbox', 'strategy': S, 'symbol': 'BTC-USDT', 'timeframe': tf}],
                          [{'exchange': 'Sandbox', 'symbol': 'BTC-USDT', 'timeframe': t} for t in extra],
                          {jh.key('Sandbox', 'BTC-USDT'): {'exchange': 'Sandbox', 'symbol': 'BTC-USDT', 'candles': np.array(cs)}},
                          warmup_candles=wc, fast_mode=fast)
    except Exception as e:
        err = type(e).__name__ + ': ' + str(e)[:150]
    finally:
        bm._update_all_routes_a_partial_candle = orig_pub
        bm.simulator = orig_sim
    return {'tf': tf, 'extra': extra, 'cs': cs, 'views': views, 'parts': parts, 'final': final, 'error': err, 'fast': fast, 'warm': warm}


def fixed(cs):
    out = []
    for i, c in enumerate(cs):
        c = list(c)
        if i > 0:
            pc = out[-1][2]
            if pc < c[1]: c[1] = pc; c[4] = min(pc, c[4])
            elif pc > c[1]: c[1] = pc; c[3] = max(pc, c[3])
        out.append(c)
    return out


def run(tier, seed, replay=None):
    res = C.Result(PID, tier, seed)
    res.trusted = ['Coq 8.16.1 kernel + vm_compute', 'Model/CandleView.v + Model/CandleStore.v (hand-written) tied by correspondence; timeframe tables regenerated',
                   'harness/c07.py, engine.py']
    res.assumptions = ['sessions start and warm-up lengths aligned to every route timeframe (as the property says)',
                       'the normal simulator is proved to keep the store invariant for every aligned series and any fills (theorem over the feed model, which is run against '
                       'the real stores); for the FAST simulator and the warm-up injection the invariant is covered by the view monitor at hook invocations, not by a theorem',
                       'volumes are integers in generated data, so numpy summation order does not matter']
    from translator import gen_all
    ok, msgs = gen_all.generate()
    msgs = gen_all.relevant(msgs, ['timeframes']); ok = not msgs
    res.oblige('translator regenerated the timeframe tables', ok, '\n'.join(msgs))
    C.standard_proof_step(res, 'Props.C07', THEOREMS, ['theories/Props/C07.vo', 'theories/Run/C07Run.vo'])
    rng = C.rng_for(seed, PID)
    FIXED = [('3m', ['5m']), ('30m', ['45m']), ('5m', ['3m', '15m']), ('45m', ['30m'])]
    runs = [run_one(rng, fast=(k % 3 == 2), warm=(k % 2 == 0), fixed=(FIXED[(k // 3) % len(FIXED)] if k % 3 != 0 and (k // 3) < 2 * len(FIXED) else None))
            for k in range(12 if tier == 'quick' else 120)]
    errors = [r for r in runs if r['error']]
    view_cases, view_meta, feed_cases, py_bad = [], [], [], []
    for r in runs:
        for (hook, t, one, got, cur, tm) in r['views']:
            if isinstance(one, str) or isinstance(got, str):
                py_bad.append({'clause': 'reading_candles_raised', 'hook': hook, 'timeframe': t, 'time': tm, 'one': one if isinstance(one, str) else None,
                               'got': got if isinstance(got, str) else None, 'fast': r['fast'], 'warm': r['warm']})
                continue
            if got and cur != got[-1]:
                py_bad.append({'clause': 'current_candle_is_not_last', 'hook': hook, 'timeframe': t, 'time': tm, 'current': cur, 'last': got[-1]})
            view_cases.append((TFM[t], one, got))
            view_meta.append({'hook': hook, 'timeframe': t, 'time': tm, 'fast': r['fast'], 'warm': r['warm'], 'n_1m': len(one), 'n_tf': len(got),
                              'last_1m': one[-3:], 'last_tf': got[-2:]})
        if not r['fast'] and not r['warm'] and not r['error']:
            fx = fixed(r['cs'])
            for t in [r['tf']] + r['extra']:
                parts = [r['parts'].get(int(c[0]), []) for c in fx]
                feed_cases.append((TFM[t], fx, parts, r['final']['1m'], r['final'][t], r['final']['view:' + t]))
    # keep the Coq input manageable: all fill-time observations, a sample of the rest
    idx = [i for i, m in enumerate(view_meta) if m['hook'] != 'before' and m['hook'] != 'update_position']
    rest = [i for i in range(len(view_meta)) if i not in set(idx)]
    cap = 150 if tier == 'quick' else 1500
    keep = idx + (rest if len(rest) <= cap else [rest[i] for i in sorted(rng.sample(range(len(rest)), cap))])
    hdr = 'From Coq Require Import ZArith QArith Qcanon List Bool Arith.\nFrom JV Require Import Base.Num Model.CandleView Run.Harness Run.C07Run.\nImport ListNotations.\n'
    jobs = []
    SH = 12
    for j in range(0, len(keep), SH):
        body = ';\n'.join(f'({C.cnat(view_cases[i][0])}, {kcs(view_cases[i][1])}, {kcs(view_cases[i][2])})' for i in keep[j:j + SH])
        jobs.append((f'c07_v_{j // SH}', ('v', j), hdr + f'Definition cs : list view_case := [\n{body}\n].\nEval vm_compute in (bad_indices (map view_is_aggregation cs)).\n'))
    for j, fc in enumerate(feed_cases):
        n, fx, parts, s1, sn, got = fc
        body = f'({C.cnat(n)}, {kcs(fx)}, {C.clist([kcs(p) for p in parts])}, {kcs(s1)}, {kcs(sn)}, {kcs(got)})'
        jobs.append((f'c07_f_{j}', ('f', j), hdr + f'Definition c : feed_case := {body}.\nEval vm_compute in (bad_indices [feed_agrees c]).\n'))
    # the candle-generation helper, called directly: lengths that are and are not multiples of the timeframe
    from . import engine as E_
    import numpy as np_
    from jesse.services import candle as candle_service
    helper_cases, helper_err = [], []
    for (tfh, nh) in [('5m', 17), ('3m', 10), ('15m', 50), ('45m', 100), ('1h', 130), ('5m', 20), ('2h', 250), ('30m', 61), ('3m', 2), ('15m', 15)]:
        csh = E_.gen_candles(rng, nh)
        try:
            goth = [list(map(float, r_)) for r_ in candle_service._get_generated_candles(tfh, np_.array(csh))]
            helper_cases.append((TFM[tfh], csh, goth, tfh))
        except Exception as ex_:
            helper_err.append({'timeframe': tfh, 'length': nh, 'error': type(ex_).__name__ + ': ' + str(ex_)[:150]})
    for j, hc in enumerate(helper_cases):
        jobs.append((f'c07_h_{j}', ('h', j), hdr + f'Definition c : view_case := ({C.cnat(hc[0])}, {kcs(hc[1])}, {kcs(hc[2])}).\nEval vm_compute in (bad_indices [helper_is_aggregation c]).\n'))
    outs = C.coq_eval_many([(j[0], j[2]) for j in jobs], timeout=1500)
    bad_view, bad_feed, errs, bad_helper = [], [], [], []
    for j, (rc, out) in zip(jobs, outs):
        r = C.parse_results(out)
        if rc != 0 or len(r) != 1:
            errs.append(out[-800:]); continue
        if j[1][0] == 'h':
            if C.parse_nat_list(r[0]): bad_helper.append(j[1][1])
        elif j[1][0] == 'v':
            bad_view += [keep[j[1][1] + k] for k in C.parse_nat_list(r[0])]
        elif C.parse_nat_list(r[0]):
            bad_feed.append(j[1][1])
    res.oblige('C07 case files evaluated', not errs, '\n'.join(errs[:3]))
    res.oblige('the candle-generation helper ran on series whose length is not a multiple of the timeframe', not helper_err, json.dumps(helper_err[:2]))
    for j in bad_helper[:1]:
        hc = helper_cases[j]
        res.violation('generated_candles_are_not_the_aggregation_of_their_windows', 'services.candle._get_generated_candles returns candles that are not the aggregation of the aligned '
                      'windows of the 1m candles it was given', {'timeframe': hc[3], 'one_minute_candles': hc[1], 'returned': hc[2]})
    res.oblige('correspondence: Model/CandleView.step_minute/publish_partial/get_candles = real stores and view after real sessions (normal simulator)',
               not bad_feed, str([(feed_cases[i][0], len(feed_cases[i][1])) for i in bad_feed[:3]]))
    res.oblige('sessions ran without an engine error', not [e for e in errors if 'Insufficient' not in e['error'] and 'InvalidStrategy' not in e['error']],
               str([e['error'] for e in errors][:3]))
    res.add_cases(len(keep) + len(feed_cases), len({json.dumps(view_meta[i]) for i in keep}) + len(feed_cases), [view_meta[keep[0]]] if keep else [],
                  'real sessions: trading timeframe 3m/5m/15m with data routes up to 1h, 47..130 minutes (not multiples of the timeframes), warm-up on/off, '
                  'normal and fast simulator, limit entries with take-profit/stop-loss so that fills happen in the middle of windows; observation = a hook invocation '
                  '(all hooks fired by fills, a sample of before/update_position)')
    res.extra.update({'sessions': len(runs), 'observations_total': len(view_cases), 'observations_at_fills': len(idx), 'feed_cases': len(feed_cases),
                      'monitor_evaluations': len(keep), 'partial_candle_publications': sum(len(v) for r in runs for v in r['parts'].values())})
    seen = set()
    for i in bad_view:
        m = view_meta[i]
        site = f"view:{m['hook']}:{'fast' if m['fast'] else 'normal'}"
        if site not in seen and len(seen) < 3:
            seen.add(site)
            res.violation(site, 'a higher-timeframe series read by the strategy is not the aggregation of the 1m candles it could read at the same moment', m)
    for b in py_bad:
        if b['clause'] not in seen:
            seen.add(b['clause'])
            res.violation('view:' + b['clause'], 'reading candles at a hook', b)
    return res.finish()
