"""C11 — research.backtest is a pure, repeatable function of its arguments.

proof:   Props/C11.v (frame property of arbitrary programs over process-global cells; a session whose prologue overwrites the get_config memo,
         its configuration entries and the store returns the same result from any two process states that differ only there; the clear is necessary)
tie:     translator/purity.py checks on /repo, fail-closed, that set_config / reset_config clear the whole memo, router.initiate re-creates the
         store, the candle arguments are deep-copied and the prologue/epilogue are in the modelled order
search:  subprocess differential: a history of earlier calls (other exchange names, spot/futures, leverage, fee, balance, routes, warm-up, simulator,
         calls that abort from a hook or an order rejection) followed by a probe call, against the probe call in a fresh process; arguments
         fingerprinted before and after every call and again
         after all later calls; the probe repeated with the very same argument objects
"""
import json
import os
import subprocess
import sys
from concurrent.futures import ThreadPoolExecutor

from . import common as C

PID = 'C11'
THEOREMS = ['C11_frame', 'C11_session_pure', 'C11_stale_memo_without_clear']
EXCHANGES = ['Sandbox', 'Binance Perpetual Futures', 'Bybit USDT Perpetual', 'Binance Spot', 'Fake Exchange', 'Coinbase Spot']


def gen_call(rng, abort=False):
    typ = rng.choice(['futures', 'futures', 'spot'])
    spec = {'seed': rng.randrange(1 << 30), 'exchange': rng.choice(EXCHANGES), 'type': typ, 'leverage': rng.choice([1, 2, 5, 10]), 'mode': rng.choice(['cross', 'isolated']),
            'fee': rng.choice([0.0, 0.001, 0.0004]), 'balance': rng.choice([10000.0, 2500.0, 777.0]), 'symbols': rng.choice([['BTC-USDT'], ['BTC-USDT'], ['BTC-USDT', 'ETH-USDT']]),
            'timeframe': rng.choice(['1m', '3m', '5m', '15m']), 'data': rng.choice([[], [], ['15m'], ['1h']]), 'minutes': rng.choice([120, 180, 240]),
            'warm': rng.choice([0, 0, 60, 120]), 'fast': rng.random() < 0.3, 'script': {}}
    spec['data'] = [t for t in spec['data'] if t != spec['timeframe']]
    if abort:
        how = rng.choice(['hook', 'hook', 'rejection'])
        if how == 'hook':
            spec['script'] = {'raise_before_at': rng.choice([3, 6, 9, 14])}
        else:
            spec['script'] = {'qty': 1e9, 'entry_every': 2}          # an order no balance can carry
    return spec


def run_worker(spec, tag):
    d = os.path.join(C.BUILD, 'run')
    os.makedirs(d, exist_ok=True)
    path = os.path.join(d, f'c11_{tag}.json')
    json.dump(spec, open(path, 'w'))
    # a private numba cache per worker: concurrent writers corrupt a shared one
    cache = os.path.join(C.BUILD, f'numba_c11_{tag}')
    env = dict(os.environ, PYTHONPATH='/repo', PYTHONHASHSEED='0', PYTHONWARNINGS='ignore', NUMBA_CACHE_DIR=cache)
    try:
        r = subprocess.run(['/venv/bin/python', os.path.join(C.VERIF, 'harness', 'c11_worker.py'), path], stdout=subprocess.PIPE, stderr=subprocess.PIPE, text=True, env=env, timeout=1200)
    finally:
        import shutil
        shutil.rmtree(cache, ignore_errors=True)
    for line in r.stdout.splitlines():
        if line.startswith('C11RESULT '):
            return json.loads(line[len('C11RESULT '):]), None
    return None, (r.stdout[-400:] + r.stderr[-800:])


def run(tier, seed, replay=None):
    res = C.Result(PID, tier, seed)
    res.trusted = ['Coq 8.16.1 kernel', 'translator/purity.py (syntactic shape checks of the prologue and epilogue, fail-closed)', 'harness/c11.py, c11_worker.py, engine.py']
    res.assumptions = ['the model names as cells the configuration entries, the get_config memo and the state re-created by store.reset(); every other process-global '
                       '(module-level singletons such as the api drivers, functools caches, numba caches) is NOT in the model: for those the property is searched '
                       'by the subprocess differential, not proved',
                       'the probe in a fresh process is the reference; results are compared through the returned metrics and a digest of every hook observation and order event']
    sys.path.insert(0, C.VERIF)
    from translator import purity
    try:
        purity.check(os.environ.get('VERIF_REPO', '/repo'))
        ok, msg = True, ''
    except (purity.Untranslatable, OSError, SyntaxError, ValueError, IndexError) as e:
        ok, msg = False, str(e)
    res.oblige('the prologue and epilogue of research.backtest have the modelled shape (memo cleared in set_config and reset_config, store re-created, arguments deep-copied)', ok, msg)
    C.standard_proof_step(res, 'Props.C11', THEOREMS, ['theories/Props/C11.vo'])
    rng = C.rng_for(seed, PID)
    n = 8 if tier == 'quick' else 60
    specs = []
    for k in range(n):
        probe = gen_call(rng)
        hist = [gen_call(rng, abort=(rng.random() < 0.4)) for _ in range(rng.choice([1, 2, 3, 4]))]
        if k % 4 == 0:
            hist.append(dict(probe))                                  # the probe itself ran before (repeatability)
        if k % 4 == 2:
            # an earlier call with another warm-up size that aborts from a hook right before the probe
            h_ = gen_call(rng, abort=True); h_['script'] = {'raise_before_at': rng.choice([6, 9])}
            h_['warm'] = rng.choice([w for w in (60, 120) if w != probe['warm']]); probe['warm'] = probe['warm'] or 120
            h_['warm'] = 60 if probe['warm'] == 120 else 120
            hist.append(h_)
        if k % 4 == 1:
            hist[-1]['exchange'] = rng.choice([e for e in EXCHANGES if e != probe['exchange']])     # another exchange name right before
        if k % 2 == 0 and not probe['data']:
            probe['data'] = [t for t in (['1h'] if k % 4 == 0 else ['15m', '1h']) if t != probe['timeframe']]     # the route lists are not empty
        specs.append({'history': hist, 'probe': probe, 'again': k % 2 == 0})
    jobs = []
    for k, sp in enumerate(specs):
        jobs.append((k, 'after', sp)); jobs.append((k, 'fresh', {'history': [], 'probe': sp['probe']}))
    with ThreadPoolExecutor(max_workers=8) as ex:
        outs = list(ex.map(lambda j: run_worker(j[2], f'{j[0]}_{j[1]}'), jobs))
    werr = [e for (_, e) in outs if e]
    res.oblige('every worker process returned a result', not werr, '\n'.join(werr[:2])[:1500])
    diffs, mods, aborted, compared, again = [], [], 0, 0, []
    for k, sp in enumerate(specs):
        a, f = outs[2 * k][0], outs[2 * k + 1][0]
        if a is None or f is None:
            continue
        compared += 1
        aborted += sum(1 for h in a['history'] if h['error'])
        if a['args_modified'] or f['args_modified']:
            mods.append({'spec': sp, 'modified_by': a['args_modified'] or f['args_modified']})
        if a.get('probe_again') is not None and a['probe_again'] != a['probe']:
            keys = [key for key in a['probe'] if a['probe'][key] != a['probe_again'][key]]
            again.append({'differs_in': keys, 'history': sp['history'], 'probe': sp['probe'],
                          'first_call': {k_: a['probe'][k_] for k_ in ('error', 'orders', 'trace_len', 'metrics', 'first_events')},
                          'second_call_same_argument_objects': {k_: a['probe_again'][k_] for k_ in ('error', 'orders', 'trace_len', 'metrics', 'first_events')}})
        if a['probe'] != f['probe']:
            keys = [key for key in a['probe'] if a['probe'][key] != f['probe'][key]]
            diffs.append({'differs_in': keys, 'history': sp['history'], 'probe': sp['probe'], 'history_outcomes': a['history'],
                          'after_history': {k_: a['probe'][k_] for k_ in ('error', 'orders', 'trace_len', 'metrics', 'first_events')},
                          'fresh_process': {k_: f['probe'][k_] for k_ in ('error', 'orders', 'trace_len', 'metrics', 'first_events')}})
    res.add_cases(compared, compared, [], f'{n} histories of 1..5 earlier research.backtest calls (6 exchange names, spot/futures, leverage 1..10, cross/isolated, 3 fees, 3 balances, '
                  f'1-2 symbols, 1m..15m, data routes, warm-up 0/60/120, both simulators; {aborted} of the earlier calls aborted from a hook or an order rejection) '
                  f'followed by a probe, each compared with the probe alone in a fresh process')
    res.extra.update({'histories': n, 'compared': compared, 'earlier_calls_that_aborted': aborted, 'probe_orders': sum((o[0] or {}).get('probe', {}).get('orders', 0) for o in outs[1::2])})
    if diffs:
        res.violation('probe_differs_after_history', 'the probe call returns something else after a history of earlier calls than in a fresh process', diffs[0])
    if again:
        res.violation('probe_differs_when_repeated', 'calling research.backtest a second time with the very same argument objects returns something else', again[0])
    if mods:
        res.violation('arguments_modified', 'research.backtest modified its arguments', mods[0])
    return res.finish()
