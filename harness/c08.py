"""C08 — fills inside one minute follow a single continuous price path.

proof:          Props/C08.v over the GENERATED split_candle/candle_includes_price/fix_jump and Model/Match.v
tie:            py2v regeneration + bit-exact kernel validation; sort_exec (model) vs _sort_execution_orders
search/monitor: Coq's split_post / sort_head_first / fix_meets_spec evaluated on the implementation's outputs
                (ordinal arrangements on a small lattice + random candles); real one-minute sessions
                with reaction orders come from harness/engine.py when available
"""
import itertools
import json
from fractions import Fraction

from . import common as C
from . import kernels

PID = 'C08'
THEOREMS = ['C08_split_total_valid', 'C08_split_is_path_cut', 'C08_first_fill_is_first_touch', 'C08_fills_follow_path',
            'C08_fix_jump_valid']


def qc(x):
    fr = Fraction(float(x))
    return f'(q {C.cz(fr.numerator)} {C.cz(fr.denominator)})'


def cnd(c):
    return '(mkq ' + ' '.join(qc(x) for x in c) + ')'


class FakeOrder:
    def __init__(self, i, price):
        self.id, self.price = i, price


def lattice_candles(n):
    lat = [float(x) for x in range(n)]
    for (o, cl, h, l) in itertools.product(lat, repeat=4):
        if l <= o <= h and l <= cl <= h:
            yield [60000.0, o, cl, h, l, 7.0]


def run(tier, seed, replay=None):
    res = C.Result(PID, tier, seed)
    res.trusted = ['Coq 8.16.1 kernel + vm_compute', 'translator/py2v.py + sigs.py (validated bit-for-bit on every run)',
                   'Model/Match.v (hand-written match loop and sort) tied by correspondence', 'harness/c08.py']
    res.assumptions = ['theorems are over exact rationals; split_candle, candle_includes_price, fix_jump and the sort only compare and copy prices, '
                       'so they behave identically on finite doubles (NaN excluded by `valid`)',
                       'the strategy layer is an arbitrary function `react` in the theorem; in correspondence runs it is a scripted family']
    fails = kernels.validate(res, ['candle', 'backtest'], seed, 300 if tier == 'quick' else 3000)
    proof_ok = C.standard_proof_step(res, 'Props.C08', THEOREMS, ['theories/Props/C08.vo', 'theories/Run/C08Run.vo', 'theories/Run/C02Run.vo'])

    C.use_repo()
    import numpy as np
    from jesse.services import candle as cs
    from jesse.modes import backtest_mode as bm
    rng = C.rng_for(seed, PID)

    # ---------------------------------------------------------------- split cases
    split_cases = []
    n_lat = 5 if tier == 'quick' else 7
    lat = list(lattice_candles(n_lat))
    prices = [float(x) for x in range(-1, n_lat + 1)] + [x + 0.5 for x in range(0, n_lat - 1)]
    allc = [(c, p) for c in lat for p in prices]
    if tier == 'quick' and len(allc) > 4000:
        allc = [allc[i] for i in sorted(rng.sample(range(len(allc)), 4000))]
    for _ in range(300 if tier == 'quick' else 3000):
        c = kernels.rnd_candle(rng)
        p = rng.choice([c[1], c[2], c[3], c[4], rng.uniform(c[4], c[3]) if c[3] > c[4] else c[3], kernels.rnd_price(rng)])
        allc.append((c, p))
    for c, p in allc:
        try:
            r = cs.split_candle(np.array(c), p)
            r = None if r is None else (list(map(float, r[0])), list(map(float, r[1])))
        except Exception:
            r = None
        split_cases.append((c, p, r))

    # ---------------------------------------------------------------- gap normalisation cases
    fix_cases = []
    for c in (lat if tier == 'thorough' else lat[::3]):
        for pc in [float(x) for x in range(-1, n_lat + 1)]:
            prev = [0.0, pc, pc, pc, pc, 1.0]
            r = bm._get_fixed_jumped_candle(np.array(prev), np.array(c))
            fix_cases.append((prev, c, list(map(float, r))))

    # ---------------------------------------------------------------- sort cases
    sort_cases = []
    for _ in range(600 if tier == 'quick' else 5000):
        nk = rng.choice([1, 1, 1, 2, 3, 5])
        ks = []
        for _ in range(nk):
            if rng.random() < 0.6:
                a, b, c_, d = sorted(float(rng.randrange(0, 8)) for _ in range(4))
                o, cl = rng.choice([(b, c_), (c_, b), (a, d), (d, a), (b, b)])
                ks.append([60000.0, o, cl, d, a, 1.0])
            else:
                ks.append(kernels.rnd_candle(rng))
        lo = min(k[4] for k in ks)
        hi = max(k[3] for k in ks)
        no = rng.choice([2, 2, 3, 4, 6])
        os_ = []
        for i in range(no):
            pr = rng.choice([ks[0][1], ks[0][2], ks[0][3], ks[0][4], float(rng.randrange(0, 8)), rng.uniform(lo, hi) if hi > lo else lo])
            os_.append((i + 1, float(pr)))
        if nk == 1 and rng.random() < 0.8:
            os_ = [(i, p) for (i, p) in os_ if ks[0][4] <= p <= ks[0][3]]     # the step simulator passes only included orders
            if len(os_) < 2:
                continue
        objs = [FakeOrder(i, p) for (i, p) in os_]
        try:
            out = bm._sort_execution_orders(objs, np.array(ks))
            ids = [o.id for o in out]
        except Exception as e:
            ids = [999999]
        sort_cases.append((os_, ks, ids))

    def cterm_split(c):
        k, p, r = c
        rr = 'None' if r is None else f'(Some ({cnd(r[0])}, {cnd(r[1])}))'
        return f'({cnd(k)}, {qc(p)}, {rr})'

    def cterm_fix(c):
        return f'({cnd(c[0])}, {cnd(c[1])}, {cnd(c[2])})'

    def cterm_sort(c):
        os_, ks, ids = c
        return (f'({C.clist([f"({C.cnat(i)}, {qc(p)})" for (i, p) in os_])}, {C.clist([cnd(k) for k in ks])}, '
                f'{C.clist([C.cnat(i) for i in ids])})')

    hdr = ('From Coq Require Import ZArith QArith Qcanon List Bool.\nFrom JV Require Import Base.Num Model.Match Spec.PathSpec Run.Harness Run.C08Run.\n'
           'Import ListNotations.\n')
    jobs = []
    SH = 500
    for i in range(0, len(split_cases), SH):
        jobs.append((f'c08_split_{i // SH}', ('split', i),
                     hdr + 'Definition cs : list split_case := [\n' + ';\n'.join(cterm_split(c) for c in split_cases[i:i + SH]) +
                     '\n].\nEval vm_compute in (bad_indices (map split_model_agrees cs)).\nEval vm_compute in (bad_indices (map split_meets_spec cs)).\n'))
    for i in range(0, len(fix_cases), SH):
        jobs.append((f'c08_fix_{i // SH}', ('fix', i),
                     hdr + 'Definition cs : list fix_case := [\n' + ';\n'.join(cterm_fix(c) for c in fix_cases[i:i + SH]) +
                     '\n].\nEval vm_compute in (bad_indices (map fix_meets_spec cs)).\nEval vm_compute in (bad_indices (map fix_meets_spec cs)).\n'))
    for i in range(0, len(sort_cases), SH):
        jobs.append((f'c08_sort_{i // SH}', ('sort', i),
                     hdr + 'Definition cs : list sort_case := [\n' + ';\n'.join(cterm_sort(c) for c in sort_cases[i:i + SH]) +
                     '\n].\nEval vm_compute in (bad_indices (map sort_model_agrees cs)).\nEval vm_compute in (bad_indices (map sort_head_first cs)).\n'))
    outs = C.coq_eval_many([(j[0], j[2]) for j in jobs])
    bad = {'split_model': [], 'split_spec': [], 'fix_spec': [], 'sort_model': [], 'sort_spec': []}
    errs = []
    for j, (rc, out) in zip(jobs, outs):
        r = C.parse_results(out)
        if rc != 0 or len(r) != 2:
            errs.append(out[-1500:])
            continue
        kind, off = j[1]
        a = [off + k for k in C.parse_nat_list(r[0])]
        b = [off + k for k in C.parse_nat_list(r[1])]
        if kind == 'split':
            bad['split_model'] += a; bad['split_spec'] += b
        elif kind == 'fix':
            bad['fix_spec'] += b
        else:
            bad['sort_model'] += a; bad['sort_spec'] += b
    res.oblige('C08 case shards evaluated', not errs, '\n'.join(errs))
    res.oblige('correspondence: generated split_candle (exact rationals) = implementation on lattice and random candles',
               not bad['split_model'], str([split_cases[i] for i in bad['split_model'][:3]]))
    res.oblige('correspondence: Model/Match.sort_exec = _sort_execution_orders', not bad['sort_model'],
               str([sort_cases[i] for i in bad['sort_model'][:3]]))
    n = len(split_cases) + len(fix_cases) + len(sort_cases)
    # the match loop itself: the theorems C08_first_fill_is_first_touch / C08_fills_follow_path are about Model/Match.match_minute, which is tied to
    # _simulate_price_change_effect (candidate selection, the order of the candidates, the re-sort after every fill, the split) by this correspondence
    from . import c02 as K2
    n_min, m_err, m_bad, m_cerr = K2.match_loop_correspondence(rng, 150 if tier == 'quick' else 2500, 'c08_m')
    res.oblige('match-loop case files evaluated', not m_cerr, '\n'.join(m_cerr[:2]))
    res.oblige('scripted minutes ran on the real matcher', not m_err, json.dumps(m_err[:2], default=str)[:600])
    res.oblige('correspondence: Model/Match.match_minute with scripted reactions = _simulate_price_change_effect (fills in order, partial candles, orders left)',
               not m_bad, json.dumps(m_bad[:2], default=str)[:900])
    res.extra['scripted_minutes_on_the_real_match_loop'] = n_min
    if m_bad:
        res.violation('match_loop_differs_from_the_path_model', 'the real per-minute match loop fills other orders, or in another order, than the loop that follows the price path', m_bad[0])
    res.add_cases(n, len({str(c[:2]) for c in split_cases}) + len({str(c[:2]) for c in sort_cases}),
                  [{'split': split_cases[0]}, {'sort': sort_cases[0]}],
                  f'every valid (o,c,h,l) on a {n_lat}-point lattice x every lattice/half-lattice price (ordinal arrangements incl. ties), '
                  'random real-valued candles; order sets with ties on O/H/L/C; gap normalisation for every previous close')
    res.extra.update({'split_cases': len(split_cases), 'fix_cases': len(fix_cases), 'sort_cases': len(sort_cases),
                      'monitor_evaluations': n, 'mismatch_counts': {k: len(v) for k, v in bad.items()}})

    def site_split(c):
        k, p, r = c
        o, cl, h, l = k[1], k[2], k[3], k[4]
        rel = lambda a, b: '<' if a < b else ('=' if a == b else '>')
        return f"split_candle:{'rising' if cl >= o else 'falling'}:p{rel(p, o)}o,p{rel(p, cl)}c,p{rel(p, h)}h,p{rel(p, l)}l"
    seen = set()
    for i in sorted(bad['split_spec'], key=lambda i: sum(abs(x) for x in split_cases[i][0]))[:200]:
        s = site_split(split_cases[i])
        if s in seen or len(seen) >= 3:
            continue
        seen.add(s)
        res.violation(s, 'split_candle result violates validity / preservation / path-cut on a price inside the range',
                      {'candle': split_cases[i][0], 'price': split_cases[i][1], 'implementation_returned': split_cases[i][2]})
    for i in bad['fix_spec'][:1]:
        res.violation('fix_jump', 'gap normalisation does not produce a valid candle stretched to the previous close',
                      {'previous': fix_cases[i][0], 'candle': fix_cases[i][1], 'implementation_returned': fix_cases[i][2]})
    for i in bad['sort_spec'][:1]:
        res.violation('sort_head', 'first candidate of _sort_execution_orders is not the order the path touches first',
                      {'orders': sort_cases[i][0], 'candles': sort_cases[i][1], 'implementation_returned_ids': sort_cases[i][2]})
    sbad, n_minutes, n_multi = sessions(res, rng, tier, hdr)
    res.extra.update({'session_minutes_with_fills': n_minutes, 'session_minutes_with_several_fills': n_multi})
    for b in sbad[:1]:
        res.violation('session_fill_order', 'fills inside one minute of a real backtest do not follow the open-low-high-close / open-high-low-close path', b)
    return res.finish()


def sessions(res, rng, tier, hdr):
    """real 1m-route backtests (normal simulator): the LIMIT/STOP fills of every minute, in execution order, against the candle's path"""
    from . import engine as E
    cases, meta = [], []
    n = 20 if tier == 'quick' else 200
    for k in range(n):
        sc = E.gen_script(rng, rng.randrange(1 << 30))
        sc.update({'points': rng.choice([2, 3]), 'offs': [-3, 3, 0, -1, 1, 2, -2], 'exit_points': rng.choice([1, 2]), 'sl_dist': rng.choice([2, 3]),
                   'tp_dist': rng.choice([2, 3]), 'digest': False, 'liquidate_every': 0, 'cancel_entry': 'never'})
        cs = E.gen_candles(rng, 150, style=rng.choice(['spiky', 'choppy', 'walk']))
        out = E.run_session({'BTC-USDT': cs}, [('BTC-USDT', '1m')], scripts={'BTC-USDT': sc}, leverage=5, fee=0.0, fast=False)
        if out['error'] and not E.benign_error(out['error']):
            continue
        tr = out['trace']
        typ = {e['id']: (e['type'], e['price']) for e in tr if e['k'] == 'submit'}
        by_t = {}
        for e in tr:
            if e['k'] == 'execute' and e['was'] == 'ACTIVE' and typ.get(e['id'], ('MARKET',))[0] in ('LIMIT', 'STOP'):
                by_t.setdefault(e['t'], []).append(typ[e['id']][1])
        ts = {c[0]: i for i, c in enumerate(cs)}
        for t, prices in by_t.items():
            i = ts.get(t - E.M)
            if i is None:
                continue
            c = list(cs[i])
            if i > 0:                                   # the documented gap normalisation
                pc = cs[i - 1][2]
                if pc < c[1]: c[1] = pc; c[4] = min(pc, c[4])
                elif pc > c[1]: c[1] = pc; c[3] = max(pc, c[3])
            cases.append((c, prices)); meta.append({'minute': t - E.M, 'candle_after_gap_fix': c, 'fill_prices_in_order': prices, 'script': sc})
    if not cases:
        return [], 0, 0
    body = ';\n'.join(f'({cnd(c)}, {C.clist([qc(p) for p in ps])})' for c, ps in cases)
    rc, out = C.coq_eval('c08_sessions', hdr + f'Definition cs : list minute_case := [\n{body}\n].\nEval vm_compute in (bad_indices (map fills_follow_path cs)).\n')
    r = C.parse_results(out)
    ok = rc == 0 and len(r) == 1
    res.oblige('session minutes evaluated by Coq (Spec.PathSpec.cut on the implementation fills)', ok, out[-1200:])
    bad = [meta[i] for i in (C.parse_nat_list(r[0]) if ok else [])]
    res.add_cases(len(cases), len({str(c) for c in cases if len(c[1]) > 1}), [{'minute': meta[0]}] if meta else [],
                  'real 1m-route sessions with multi-point entries and exit ladders on spiky candles: every minute with LIMIT/STOP fills')
    return bad, len(cases), sum(1 for c in cases if len(c[1]) > 1)
