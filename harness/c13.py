"""C13 — indicator series are causal: value i depends only on candles 0..i.

proof:   Props/C13.v (every state machine is causal; closure under composition and pointwise combination; each modelled core indicator)
tie:     Model/Indicators.v evaluated in Coq against jesse.indicators on lattice series (value correspondence, relative tolerance)
search:  prefix monitor over EVERY public indicator with a sequential mode: series on candles[:k] vs prefix of the series on candles
"""
import json
import math

from . import common as C
from . import ind

PID = 'C13'
THEOREMS = ['C13_state_machines_are_causal', 'C13_causal_compose', 'C13_causal_pointwise', 'C13_core_indicators_causal', 'C13_mfi_keltner_causal']
EXEMPT_TRAILING = {'minmax': 'order'}          # the extrema detector needs `order` confirming candles


def run(tier, seed, replay=None):
    res = C.Result(PID, tier, seed)
    res.trusted = ['Coq 8.16.1 kernel + vm_compute', 'Model/Indicators.v hand-written, tied by value correspondence', 'harness/c13.py, ind.py']
    res.assumptions = ['the theorem covers the 29 modelled core series; the other indicators (about 145 numba/numpy kernels) are covered by the prefix monitor only',
                       'binary64 results are compared up to a relative 1e-6 (a prefix changes the order of floating-point summation in some kernels)']
    C.standard_proof_step(res, 'Props.C13', THEOREMS, ['theories/Props/C13.vo', 'theories/Run/IndRun.vo'])
    rng = C.rng_for(seed, PID)
    cases, bad, errs = ind.correspondence(rng, 100 if tier == 'quick' else 1200)
    res.oblige('indicator model case files evaluated', not errs, '\n'.join(errs[:2]))
    impl_err = [c for c in cases if 'error' in c and not (c['name'].startswith('donchian') and c['n'] < c['period'])]
    res.oblige('the core indicators ran on the generated series', not impl_err, json.dumps(impl_err[:2])[:500])
    res.oblige('correspondence: Model/Indicators.v = jesse.indicators on the core set (sma, ema, wma, trima, roc, mom, var, wilders, dema, tema, macd x3, rsi, atr, obv, '
               'donchian x3, willr, stochf %K, typprice, medprice)', not bad, json.dumps([{k: b[k] for k in ('name', 'period', 'style', 'n')} for b in bad[:4]]))
    # prefix monitor, in a child process: a numba kernel that reads or writes out of bounds takes the interpreter down with it
    mon = ind.run_child('c13', tier, seed)
    res.oblige('the prefix monitor ran over every indicator without crashing the interpreter', mon.get('crash') is None, json.dumps(mon.get('crash'))[:600])
    viol, n_checks, n_ind, skipped = mon.get('viol', {}), mon.get('n_checks', 0), mon.get('n_ind', 0), mon.get('skipped', [])
    if mon.get('crash') is not None:
        res.violation('indicator_crashed:' + str(mon['crash'].get('indicator')), 'an indicator call killed the interpreter (memory corruption in a compiled kernel)', mon['crash'])
    res.add_cases(n_checks, n_checks, [], f'{n_ind} public indicators with a sequential mode x series styles x default and varied parameters x 3 prefix lengths: '
                  f'{n_checks} field comparisons (prefix of the full series vs series of the prefix); {len(cases)} core-model correspondence cases')
    res.extra.update({'indicators_monitored': n_ind, 'field_comparisons': n_checks, 'correspondence_cases': len(cases), 'calls_that_raised': len(skipped)})
    for name, v in sorted(viol.items()):
        res.violation(f'noncausal:{name}', f'{name}: the series on a prefix differs from the prefix of the series on the whole input', v)
    return res.finish()


def monitor(tier, seed, progress):
    """runs in a child process (harness/ind_child.py); returns a JSON-able dict"""
    C.use_repo()
    import numpy as np
    rng = C.rng_for(seed, PID + ':monitor')
    allind = ind.all_indicators()
    viol, n_checks, n_ind, skipped = {}, 0, 0, []
    lens = [120] if tier == 'quick' else [120, 300]
    for (name, f, sig) in allind:
        ok_any = False
        for n in lens:
            for style in (['walk', 'spiky'] if tier == 'quick' else ['walk', 'spiky', 'trend', 'flat', 'alternating']):
                cs, _ = ind.gen_series(rng, n, style)
                arr = np.array(cs)
                for params in ind.variants(sig, rng):
                    progress({'indicator': name, 'params': params, 'series': style, 'length': n})
                    try:
                        full = ind.fields(ind.call(f, sig, arr, True, params))
                    except Exception as e:
                        skipped.append((name, type(e).__name__)); continue
                    ok_any = True
                    cuts = {rng.randrange(n // 2, n - 1), rng.randrange(n // 4, n - 1), n - 2}
                    for pv in ind.period_values(sig, params):                       # prefixes that end right where a warm-up ends
                        cuts.update(c_ for c_ in (pv - 1, pv, pv + 1, 2 * pv) if 2 <= c_ < n)
                    gaps = [i_ for i_ in range(n // 4, n - 1) if cs[i_][1] != cs[i_ - 1][2]]
                    cuts.update(gaps[:2] + gaps[-1:])                               # prefixes that end right before a discontinuity (open != previous close)
                    cuts = sorted(cuts)
                    # the property itself: replacing the candles from index k0 on by other candles leaves entries 0..k0-1 unchanged
                    k0 = rng.randrange(n // 2, n - 1)
                    arr2 = arr.copy()
                    arr2[k0:, 1:5] = arr[k0:, 1:5] * 1.5 + 3.0
                    arr2[k0:, 5] = arr[k0:, 5] * 2.0 + 1.0
                    progress({'indicator': name, 'params': params, 'series': style, 'length': n, 'tail_replaced_from': k0, 'candles': cs})
                    try:
                        other = ind.fields(ind.call(f, sig, arr2, True, params))
                    except Exception:
                        other = None
                    if other is not None:
                        trail = int(params.get(EXEMPT_TRAILING[name], sig.parameters[EXEMPT_TRAILING[name]].default)) if name in EXEMPT_TRAILING else 0
                        scale = float(np.nanmax(np.abs(arr[:, 1:5])))
                        for fld, v in full.items():
                            a, b = ind.numeric_array(v), ind.numeric_array(other.get(fld))
                            if a is None or b is None or len(b) != n or len(a) != n:
                                continue
                            n_checks += 1
                            for i in range(k0 - trail):
                                if not ind.same(a[i], b[i], scale):
                                    viol.setdefault(name, {'indicator': name, 'field': fld, 'params': params, 'series': style, 'length': n, 'tail_replaced_from': k0, 'index': i,
                                                           'value_with_other_tail': float(b[i]), 'value_on_full_input': float(a[i]), 'candles': cs})
                                    break
                    for k in cuts:
                        progress({'indicator': name, 'params': params, 'series': style, 'length': n, 'prefix_length': k, 'candles': cs})
                        try:
                            part = ind.fields(ind.call(f, sig, arr[:k].copy(), True, params))
                        except Exception as e:
                            continue
                        trail = 0
                        if name in EXEMPT_TRAILING:
                            trail = int(params.get(EXEMPT_TRAILING[name], sig.parameters[EXEMPT_TRAILING[name]].default))
                        for fld, v in full.items():
                            a, b = ind.numeric_array(v), ind.numeric_array(part.get(fld))
                            if a is None or b is None or len(b) != k or len(a) != n:
                                continue                      # shapes are C14's business
                            n_checks += 1
                            scale = float(np.nanmax(np.abs(arr[:, 1:5])))
                            for i in range(k - trail):
                                if not ind.same(a[i], b[i], scale):
                                    viol.setdefault(name, {'indicator': name, 'field': fld, 'params': params, 'series': style, 'length': n, 'prefix_length': k, 'index': i,
                                                           'value_on_prefix': float(b[i]), 'value_on_full_input': float(a[i]), 'candles': cs})
                                    break
        n_ind += ok_any
    return {'viol': viol, 'n_checks': n_checks, 'n_ind': n_ind, 'skipped': skipped}
