"""C05 — order lifecycle: one terminal transition, idempotent execute/cancel.

proof:   Props/C05.v (Model/Lifecycle.v for every history and every assignment of position effects; idempotence on the account models)
tie:     Model/Lifecycle.v vs the real Order / OrdersState / ClosedTrades / Sandbox / Strategy objects driven through the same
         operations (the whole registry is compared after every operation)
search:  monitors over real backtest traces: transitions, no effect of calls on final orders, reported-active = not-final, each
         executed order in exactly one trade
"""
import json

from . import common as C

PID = 'C05'
THEOREMS = ['C05_final_forever', 'C05_execute_final_is_identity', 'C05_cancel_final_is_identity', 'C05_futures_idempotent',
            'C05_spot_idempotent', 'C05_reported_active_is_exact', 'C05_executed_recorded_once']
CODE = {'ACTIVE': 0, 'EXECUTED': 1, 'CANCELED': 2}


def drive(rng, nops, exchange_type):
    """returns (ops, snaps): ops in the model's alphabet (with observed position effects), the registry after every op"""
    from . import driver
    C.use_repo()
    import numpy as np
    from jesse.strategies import Strategy
    from jesse.store import store
    from jesse.routes import router
    from jesse.models import Order

    class S(Strategy):
        def should_long(self): return False
        def go_long(self): pass
        def _detect_and_handle_entry_and_exit_modifications(self): pass     # orders are submitted directly, not declared
    driver.session(exchange_type, fee=0.0, leverage=10, balance=1e9, strategy_cls=S)
    st = router.routes[0].strategy
    p = driver.position('BTC-USDT')
    p.current_price = 100.0
    store.candles.add_candle(np.array([store.app.time, 100.0, 100.0, 100.0, 100.0, 1.0]), 'Sandbox', 'BTC-USDT', '1m', with_execution=False, with_generation=False)
    objs = []
    effects = []
    orig_exec = Order.execute

    def wrapped(self_, silent=False):
        before, was = float(p.qty), self_.status
        orig_exec(self_, silent)
        if was == 'ACTIVE':
            after = float(p.qty)
            effects.append('Close' if (before != 0 and after == 0) else 'Flip' if before * after < 0 else 'Keep')
    Order.execute = wrapped
    ops, snaps = [], []
    key = 'Sandbox-BTC-USDT'
    try:
        for _ in range(nops):
            r = rng.random()
            effects.clear()
            if r < 0.35 or not objs:
                market = rng.random() < 0.4
                long_now = p.qty > 0
                if exchange_type == 'spot':
                    side = 'sell' if (p.qty > 0 and rng.random() < 0.6) else 'buy'
                    q = min(1.0, abs(p.qty)) if side == 'sell' else 1.0
                    if side == 'sell' and rng.random() < 0.5: q = abs(p.qty)
                else:
                    side = rng.choice(['buy', 'sell'])
                    q = rng.choice([1.0, 2.0, abs(p.qty) if p.qty != 0 else 1.0])
                if q == 0: continue
                n0 = len(store.orders.storage[key])
                if market:
                    o = (st.broker.buy_at_market if side == 'buy' else st.broker.sell_at_market)(q)
                else:
                    o = (st.broker.buy_at(q, 50.0) if side == 'buy' else st.broker.sell_at(q, 150.0))
                objs.append(o)
                ops.append(('submit', market))
            elif r < 0.5:
                i = rng.randrange(len(objs)); objs[i].cancel(); ops.append(('cancel', i))
            elif r < 0.72:
                i = rng.randrange(len(objs)); objs[i].execute(); ops.append(('execute', i, effects[0] if effects else 'Keep'))
            elif r < 0.82:
                store.orders.execute_pending_market_orders(); ops.append(('pending', list(effects)))
            elif r < 0.88:
                if p.is_open: continue
                st._execute_cancel(); ops.append(('cancelall',))
            elif r < 0.94:
                store.orders.update_active_orders('Sandbox', 'BTC-USDT'); ops.append(('update',))
            else:
                if st.position.is_close and st.entry_orders == []:
                    st._reset()
                ops.append(('checkreset',))
            idx = {id(o): k for k, o in enumerate(objs)}
            t = store.completed_trades
            cur = t.tempt_trades.get(key.replace('Sandbox-', 'Sandbox-'), None)
            cur_orders = [idx[id(o)] for o in cur.orders] if cur is not None else []
            snaps.append(([CODE.get(o.status, 9) for o in objs], [idx[id(o)] for o in store.orders.storage[key]],
                          [idx[id(o)] for o in store.orders.active_storage[key]], [idx[id(o)] for o in store.orders.to_execute],
                          cur_orders, [[idx[id(o)] for o in tr.orders] for tr in t.trades], bool(p.is_open)))
    except Exception as e:
        if 'Insufficient' not in type(e).__name__:
            ops.append(('error', type(e).__name__ + ':' + str(e)[:100]))
    finally:
        Order.execute = orig_exec
    return ops, snaps


def c_op(o):
    if o[0] == 'submit': return f'Submit {C.cbool(o[1])}'
    if o[0] == 'cancel': return f'CancelOne {C.cnat(o[1])}'
    if o[0] == 'execute': return f'ExecuteOne {C.cnat(o[1])} {o[2]}'
    if o[0] == 'pending': return f'ExecutePending {C.clist(list(o[1]))}'
    if o[0] == 'cancelall': return 'CancelAll'
    if o[0] == 'update': return 'UpdateActive'
    return 'CheckReset'


def nl(l):
    return C.clist([C.cnat(x) for x in l])


def c_snap(s):
    return f'({nl(s[0])}, {nl(s[1])}, {nl(s[2])}, {nl(s[3])}, {nl(s[4])}, {C.clist([nl(t) for t in s[5]])}, {C.cbool(s[6])})'


def trace_monitors(rng, tier):
    from . import engine as E
    bad, n_orders, sessions = [], 0, (25 if tier == 'quick' else 250)
    for k in range(sessions):
        sc = E.gen_script(rng, rng.randrange(1 << 30))
        sc['digest'] = False
        cs = E.gen_candles(rng, rng.choice([120, 240]))
        typ = rng.choice(['futures', 'futures', 'spot'])
        if typ == 'spot': sc['side'] = 'long'
        out = E.run_session({'BTC-USDT': cs}, [('BTC-USDT', rng.choice(['1m', '3m', '5m']))], scripts={'BTC-USDT': sc}, exchange_type=typ,
                            leverage=rng.choice([1, 2, 5]), fee=rng.choice([0.0, 0.001]), fast=rng.random() < 0.3, with_vids=True)
        if out['error']:
            if E.benign_error(out['error']): continue
            bad.append({'clause': 'session_error', 'error': out['error'], 'script': sc}); continue
        tr = out['trace']
        status, live = {}, {}
        for e in tr:
            if e['k'] == 'submit':
                status[e['id']] = 'ACTIVE'; live[e['id']] = (e['side'], e['type'], e['qty'], e['price'], e['ro'])
                n_orders += 1
            elif e['k'] in ('execute', 'cancel'):
                was = status.get(e['id'])
                if e['was'] != was:
                    bad.append({'clause': 'status_changed_outside_execute_cancel', 'event': e, 'expected_was': was, 'script': sc})
                if was != 'ACTIVE':
                    if e['now'] != was:
                        bad.append({'clause': 'final_order_changed_status', 'event': e, 'script': sc})
                    if e['k'] == 'execute' and (e['pos_before'] != e['pos_after'] or e['wallet_before'] != e['wallet_after']):
                        bad.append({'clause': 'call_on_final_order_had_effect', 'event': e, 'script': sc})
                else:
                    want = 'EXECUTED' if e['k'] == 'execute' else 'CANCELED'
                    if e['now'] != want:
                        bad.append({'clause': 'wrong_transition', 'event': e, 'script': sc})
                status[e['id']] = e['now']
            elif e['k'] == 'hook' and e['hook'] == 'after':
                want = sorted((live[i][0], live[i][1], live[i][2], live[i][3], live[i][4]) for i in status if status[i] == 'ACTIVE')
                got = sorted((a[0], a[1], a[2], a[3], a[4]) for a in e['active'])
                if want != got:
                    bad.append({'clause': 'reported_active_differs_from_not_final', 't': e['t'], 'reported': got, 'not_final': want, 'script': sc})
                    break
        executed = sorted(i for i in status if status[i] == 'EXECUTED')
        recorded = sorted(v for t in out.get('trades', []) for v in t.get('order_vids', []))
        if 'trades' in out and executed != recorded:
            bad.append({'clause': 'executed_orders_vs_trade_records', 'executed': executed, 'recorded_in_trades': recorded, 'script': sc})
    return bad, n_orders, sessions


def run(tier, seed, replay=None):
    res = C.Result(PID, tier, seed)
    res.trusted = ['Coq 8.16.1 kernel + vm_compute', 'Model/Lifecycle.v (hand-written) tied by correspondence of the whole registry', 'harness/c05.py, driver.py, engine.py']
    res.assumptions = ['the effect of a fill on the position (does it close it) is an input of the lifecycle model, observed from the implementation in the '
                       'correspondence runs and universally quantified in the theorems', 'reaction orders submitted by hooks while pending market orders are '
                       'being flushed are not part of the ExecutePending model step (hooks are inert in the correspondence runs; covered by trace monitors)']
    C.standard_proof_step(res, 'Props.C05', THEOREMS, ['theories/Props/C05.vo', 'theories/Run/C05Run.vo'])
    rng = C.rng_for(seed, PID)
    cases = [drive(rng, rng.choice([8, 15, 30, 60]), rng.choice(['futures', 'futures', 'spot'])) for _ in range(120 if tier == 'quick' else 1500)]
    errs_impl = [c for c in cases if c[0] and c[0][-1][0] == 'error']
    hdr = 'From Coq Require Import List Bool Arith.\nFrom JV Require Import Model.Lifecycle Run.Harness Run.C05Run.\nImport ListNotations.\n'
    jobs = []
    SH = 60
    for i in range(0, len(cases), SH):
        body = ';\n'.join(f'({C.clist([c_op(o) for o in ops if o[0] != "error"][:len(sn)])}, {C.clist([c_snap(s) for s in sn])})' for ops, sn in cases[i:i + SH])
        jobs.append((f'c05_{i // SH}', i, hdr + f'Definition cs : list lcase := [\n{body}\n].\nEval vm_compute in (bad_indices (map model_agrees cs)).\n'))
    outs = C.coq_eval_many([(j[0], j[2]) for j in jobs])
    bad, errs = [], []
    for j, (rc, out) in zip(jobs, outs):
        r = C.parse_results(out)
        if rc != 0 or len(r) != 1:
            errs.append(out[-1200:]); continue
        bad += [j[1] + k for k in C.parse_nat_list(r[0])]
    res.oblige('C05 case shards evaluated', not errs, '\n'.join(errs))
    res.oblige('correspondence: Model/Lifecycle.v = real Order/OrdersState/ClosedTrades/Sandbox/Strategy registry after every operation',
               not bad and not errs_impl, json.dumps([cases[i][0] for i in bad[:1]] + [c[0][-1] for c in errs_impl[:2]])[:1500])
    tbad, n_orders, sessions = trace_monitors(rng, tier)
    kinds = {}
    for ops, _ in cases:
        for o in ops:
            kinds[o[0]] = kinds.get(o[0], 0) + 1
    res.add_cases(len(cases) + sessions, len({json.dumps(c[0]) for c in cases}) + sessions, [{'ops': cases[0][0][:10]}],
                  'random interleavings of submissions (market and resting), single cancels, cancel-all, executions, flushes of pending market orders, '
                  'active-list pruning and resets, with repeated calls on final orders, spot and futures; traces of scripted strategies')
    res.extra.update({'op_histogram': kinds, 'trace_sessions': sessions, 'orders_in_traces': n_orders, 'monitor_evaluations': n_orders})
    seen = set()
    for i in bad[:6]:
        ops, sn = cases[i]
        site = 'lifecycle:' + ops[min(len(sn), len(ops)) - 1][0]
        if site not in seen and len(seen) < 3:
            seen.add(site)
            res.violation(site, 'statuses / registries / trade records differ from the lifecycle model', {'ops': ops, 'last_registry': sn[-1] if sn else None})
    for c in errs_impl[:1]:
        res.violation('lifecycle:exception', 'a lifecycle operation raised', {'ops': c[0]})
    for b in tbad:
        if b['clause'] not in seen:
            seen.add(b['clause'])
            res.violation('trace:' + b['clause'], 'C05 clause violated in a real backtest', b)
    return res.finish()
