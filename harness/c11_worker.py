"""subprocess worker for C11: runs a history of research.backtest calls and then a probe call, prints what the probe returned and
whether any call modified its arguments.  usage: c11_worker.py <spec.json>"""
import sys
import json
import copy
import hashlib
import random

sys.path.insert(0, '/verif')


def fingerprint(x):
    import numpy as np
    h = hashlib.sha256()

    def go(v):
        if isinstance(v, dict):
            for k in sorted(v, key=str):
                h.update(repr(k).encode()); go(v[k])
        elif isinstance(v, (list, tuple)):
            h.update(b'['); [go(i) for i in v]; h.update(b']')
        elif isinstance(v, np.ndarray):
            h.update(str(v.shape).encode()); h.update(np.ascontiguousarray(v).tobytes())
        elif isinstance(v, type):
            h.update(v.__name__.encode())
        else:
            h.update(repr(v).encode())
    go(x)
    return h.hexdigest()


def one_call(spec):
    """builds the arguments from the spec, calls research.backtest, returns (summary, args_modified)"""
    from harness import engine as E, common as C
    C.use_repo()
    import numpy as np
    import jesse.helpers as jh
    from jesse import research
    rng = random.Random(spec['seed'])
    log = []
    ex = spec['exchange']
    syms = spec['symbols']
    cfg = {'starting_balance': spec['balance'], 'fee': spec['fee'], 'type': spec['type'], 'futures_leverage': spec['leverage'], 'futures_leverage_mode': spec['mode'],
           'exchange': ex, 'warm_up_candles': spec['warm']}
    routes, scripts = [], {}
    for s in syms:
        sc = E.gen_script(rng, rng.randrange(1 << 30))
        sc.update(spec.get('script', {}))
        sc['digest'] = True
        sc['indicator'] = True
        if spec['type'] == 'spot': sc['side'] = 'long'
        scripts[s] = sc
        routes.append({'exchange': ex, 'strategy': E.make_strategy(sc, log), 'symbol': s, 'timeframe': spec['timeframe']})
    data_routes = [{'exchange': ex, 'symbol': syms[0], 'timeframe': t} for t in spec.get('data', [])]
    candles, warm = {}, None
    for s in syms:
        cs = E.gen_candles(rng, spec['minutes'])
        candles[jh.key(ex, s)] = {'exchange': ex, 'symbol': s, 'candles': np.array(cs, dtype=float)}
        if spec['warm']:
            warm = warm or {}
            w = E.gen_candles(rng, 240, base=cs[0][1])
            for i, c in enumerate(w): c[0] = cs[0][0] - (240 - i) * E.M
            warm[jh.key(ex, s)] = {'exchange': ex, 'symbol': s, 'candles': np.array(w, dtype=float)}
    args = (cfg, routes, data_routes, candles, warm)
    before = fingerprint(args)

    def call():
        del log[:]
        err, result = None, None
        with E.Tap(log):
            try:
                result = research.backtest(cfg, routes, data_routes, candles, warmup_candles=warm, fast_mode=spec['fast'])
            except Exception as e:
                err = type(e).__name__ + ': ' + str(e)[:160]
        trace = [{k: v for k, v in e.items()} for e in log if e['k'] in ('hook', 'submit', 'reject', 'cancel', 'execute')]
        return {'error': err, 'metrics': None if result is None else result.get('metrics'), 'trace_len': len(trace),
                'trace_digest': hashlib.sha256(json.dumps(trace, sort_keys=True, default=str).encode()).hexdigest(),
                'first_events': trace[:3], 'orders': sum(1 for e in trace if e['k'] == 'submit')}
    summary = call()
    after = fingerprint(args)
    return summary, before != after, (args, before, call)


def main():
    spec = json.load(open(sys.argv[1]))
    out = {'history': [], 'probe': None, 'args_modified': [], 'probe_again': None}
    kept = []                                    # the argument objects of every call stay alive: a later call must not reach into them either
    for i, h in enumerate(spec['history']):
        s, mod, keep = one_call(h)
        kept.append(('history', i, keep))
        out['history'].append({'error': s['error'], 'orders': s['orders']})
        if mod: out['args_modified'].append(('history', i))
    s, mod, keep = one_call(spec['probe'])
    kept.append(('probe', 0, keep))
    out['probe'] = s
    if mod: out['args_modified'].append(('probe', 0))
    if spec.get('again'):
        # the very same argument objects once more: equal arguments, equal result
        s2 = keep[2]()
        out['probe_again'] = s2
    for (kind, i, (args, before, _)) in kept:
        if fingerprint(args) != before and (kind, i) not in [tuple(x) for x in out['args_modified']]:
            out['args_modified'].append((kind, i, 'by a later call'))
    print('C11RESULT ' + json.dumps(out, default=str))


if __name__ == '__main__':
    main()
