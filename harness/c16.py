"""C16 — reported metrics are consistent with the trades and the equity series.

proof:   Props/C16.v (total = winners + losers + break-even; net profit = gross profit + gross loss = sum of PnL; longs + shorts = total and their percentages
         sum to 100; win rate in [0,1] with win_rate * (W+L) = W; expectancy * (W+L) = net profit; largest win/loss bound the winners/losers and are one of them;
         winning/losing streak = longest block of consecutive winners/losers; drawdown_k = equity_k / max(equity_0..k) - 1, maximum drawdown in (-1, 0])
tie:     the metric definitions of Model/Metrics.v evaluated in Coq against services/metrics.trades on synthetic trade lists (all wins, all losses, zero-PnL
         trades, one trade, thousands of trades, any long/short mix) and equity series
search:  the ratio metrics (max drawdown, annual return, Sharpe, Sortino, Calmar, Omega) against their standard definitions recomputed independently;
         the equity samples of real multi-day sessions (one per simulated day plus the final one, each equal to the account equity at that moment)
"""
import json
import math
from fractions import Fraction

from . import common as C

PID = 'C16'
THEOREMS = ['C16_total_is_winners_losers_breakeven', 'C16_net_profit_is_gross_profit_plus_gross_loss', 'C16_longs_and_shorts_partition', 'C16_percentages_sum_to_100',
            'C16_win_rate_spec', 'C16_expectancy_is_net_profit_per_decided_trade', 'C16_largest_win_bounds', 'C16_max_drawdown_never_positive',
            'C16_streaks_are_longest_blocks', 'C16_largest_win_is_a_winner', 'C16_largest_loss_spec', 'C16_drawdown_is_distance_from_running_peak',
            'C16_max_drawdown_is_one_of_the_drawdowns', 'C16_max_drawdown_range', 'C16_metrics_do_not_depend_on_order', 'C16_average_win_between',
            'C16_average_loss_between']
NAMES = ['total', 'total_winning_trades', 'total_losing_trades', 'win_rate', 'net_profit', 'net_profit_percentage', 'gross_profit', 'gross_loss', 'fee', 'longs_count',
         'shorts_count', 'longs_percentage', 'shorts_percentage', 'average_win', 'average_loss', 'expectancy', 'largest_winning_trade', 'largest_losing_trade',
         'winning_streak', 'losing_streak', 'current_streak', 'max_drawdown']


def qq(x):
    fr = Fraction(float(x))
    return f'(q {C.cz(fr.numerator)} {C.cz(fr.denominator)})'


def oq(x):
    return 'None' if x is None or (isinstance(x, float) and (math.isnan(x) or math.isinf(x))) else f'(Some {qq(x)})'


def gen_trades(rng):
    kind = rng.choice(['mixed', 'mixed', 'all_wins', 'all_losses', 'with_zeros', 'single', 'many', 'only_zeros'])
    n = {'single': 1, 'many': rng.choice([300, 1500])}.get(kind, rng.choice([2, 3, 5, 12, 40]))
    out = []
    for _ in range(n):
        if kind == 'all_wins': p = rng.randrange(1, 400) / 8
        elif kind == 'all_losses': p = -rng.randrange(1, 400) / 8
        elif kind == 'only_zeros': p = 0.0
        elif kind == 'with_zeros': p = rng.choice([0.0, 0.0, rng.randrange(-300, 300) / 8])
        else: p = rng.randrange(-400, 400) / 8
        out.append((p, rng.randrange(0, 40) / 16, rng.random() < 0.6))
    days = rng.choice([1, 2, 3, 10, 40])
    eq, v = [10000.0], 10000.0
    for _ in range(days):
        v = max(50.0, v + rng.randrange(-800, 900) / 4)
        eq.append(v)
    return out, eq, kind


def real_metrics(trades, equity):
    from . import driver as D
    C.use_repo()
    from jesse.services import metrics
    from jesse.store import store
    D.session(typ='futures', balance=10000.0)
    store.app.starting_time = 1_600_000_000_000

    class T:
        def __init__(self, p, f, long_):
            self.to_dict = {'PNL': p, 'fee': f, 'type': 'long' if long_ else 'short', 'holding_period': 60.0}
    import warnings
    with warnings.catch_warnings():
        warnings.simplefilter('ignore')
        return metrics.trades([T(*t) for t in trades], list(equity))


def ratios_reference(equity):
    """the standard definitions on daily returns, 365-day year, recomputed with plain numpy"""
    import numpy as np
    eq = np.array(equity, dtype=float)
    r = eq[1:] / eq[:-1] - 1
    out = {}
    prices = np.concatenate([[1.0], np.cumprod(1 + r)])          # the wealth index starts at 1: the starting equity is a candidate peak
    out['max_drawdown'] = float((prices / np.maximum.accumulate(prices)).min() - 1) * 100
    days = len(eq) - 1           # the span of the daily index: one day per return
    years = days / 365
    out['annual_return'] = float((prices[-1]) ** (1 / years) - 1) * 100 if years > 0 else 0.0
    sd = r.std(ddof=1) if len(r) > 1 else float('nan')
    out['sharpe_ratio'] = float(r.mean() / sd * np.sqrt(365)) if sd and not math.isnan(sd) and sd != 0 else float('nan')
    down = math.sqrt((r[r < 0] ** 2).sum() / len(r))
    out['sortino_ratio'] = float(r.mean() / down * np.sqrt(365)) if down != 0 else (float('inf') if r.mean() > 0 else float('-inf'))
    pos, neg = r[r > 0].sum(), -r[r < 0].sum()
    out['omega_ratio'] = float(pos / neg) if neg > 0 else float('nan')
    mdd = abs((prices / np.maximum.accumulate(prices)).min() - 1)
    cagr = (prices[-1]) ** (1 / years) - 1 if years > 0 else 0.0
    out['calmar_ratio'] = float(cagr / mdd) if mdd != 0 else 0.0
    return out


def same(a, b, tol=1e-7):
    if a is None or b is None: return a is b
    a, b = float(a), float(b)
    if math.isnan(a) or math.isnan(b): return math.isnan(a) and math.isnan(b)
    if math.isinf(a) or math.isinf(b): return a == b
    return abs(a - b) <= tol * (1 + abs(a) + abs(b))


def equity_sessions(rng, tier):
    """multi-day sessions: every call of save_daily_portfolio_balance is compared with the account equity recomputed at that moment"""
    from . import engine as E
    C.use_repo()
    import jesse.modes.backtest_mode as bm
    from jesse.store import store
    import jesse.helpers as jh
    bad, n_samples, n_sessions = [], 0, 0
    open_pnl_samples = 0
    for k in range(6 if tier == 'quick' else 24):
        typ = ['futures', 'spot'][k % 2]
        syms = ['BTC-USDT'] if k % 4 < 2 else ['BTC-USDT', 'ETH-USDT']
        if k % 8 >= 4: syms = list(reversed(syms))
        days = rng.choice([2, 3])
        n = 1440 * days + rng.choice([0, 7, 300])
        cs = {s: E.gen_candles(rng, n, style=rng.choice(['walk', 'trend'])) for s in syms}
        scripts = {}
        for s in syms:
            sc = E.gen_script(rng, rng.randrange(1 << 30))
            sc.update({'digest': False, 'entry_every': rng.choice([5, 7, 11]), 'liquidate_every': 0, 'offs': rng.choice([[0], [-1, 0, 1]]), 'qty': rng.choice([0.5, 1.0])})
            if k % 4 == 0:
                # market entries on almost every trading candle, quick exits: some entry falls on the candle that closes a day
                # (entry at market when flat, liquidate() at market on the next candle: a MARKET order is submitted on every trading candle, also the day's last)
                sc.update({'entry_every': 1, 'liquidate_every': 1, 'offs': [0], 'points': 1, 'exit_style': 'none', 'cancel_entry': 'always', 'side': 'long',
                           'max_submissions': 20000})
            elif k % 4 == 2:
                # positions held for hours with wide exits: some day boundary falls inside a trade, where equity = wallet + unrealised PnL
                sc.update({'entry_every': rng.choice([40, 90]), 'exit_style': 'on_open', 'sl_dist': 400, 'tp_dist': 400, 'cancel_entry': 'never', 'points': 1, 'offs': [0],
                           'modify': 'none'})
            if typ == 'spot': sc['side'] = 'long'
            scripts[s] = sc
        samples = []
        orig = bm.save_daily_portfolio_balance

        def rec(is_initial=False):
            orig(is_initial)
            e, = store.exchanges.storage.values()
            if e.type == 'futures':
                eqv = e.assets[jh.app_currency()] + sum(p.pnl for p in store.positions.storage.values() if p.is_open)
            else:
                # cash-flow accounting from the fills alone: quote = start - sum(buys) + sum(sells net of fee), base = bought net of fee - sold;
                # reserved amounts are part of these totals whatever the resting orders are
                eqv = tally['quote']
                for sym_, b_ in tally['base'].items():
                    pz = store.positions.storage.get(f'{e.name}-{sym_}')
                    eqv += b_ * ((pz.current_price if pz else 0) or 0)
            samples.append({'recorded': float(store.app.daily_balance[-1]), 'equity': float(eqv), 'time': store.app.time, 'initial': bool(is_initial),
                            'open_pnl': float(sum(abs(p.pnl) for p in store.positions.storage.values() if p.is_open)) if e.type == 'futures' else 0.0,
                            'pending_market_orders': len(store.orders.to_execute)})
        bm.save_daily_portfolio_balance = rec
        from jesse.models import Order
        tally = {'quote': 10000.0, 'base': {}}
        fee_rate = rng.choice([0.0, 0.001])
        o_exec = Order.execute

        def exec_tally(self_, silent=False):
            was = self_.status
            o_exec(self_, silent)
            if was == 'ACTIVE' and self_.status == 'EXECUTED':
                q_, p_ = abs(float(self_.qty)), float(self_.price)
                if self_.side == 'buy':
                    tally['quote'] -= q_ * p_
                    tally['base'][self_.symbol] = tally['base'].get(self_.symbol, 0.0) + q_ * (1 - fee_rate)
                else:
                    # a cash account cannot deliver more base than it holds: a sell that fills after another resting sell already sold the
                    # position (the STOP and the LIMIT exit both resting for the full size) delivers what is left
                    q_ = min(q_, max(tally['base'].get(self_.symbol, 0.0), 0.0))
                    tally['quote'] += q_ * p_ * (1 - fee_rate)
                    tally['base'][self_.symbol] = tally['base'].get(self_.symbol, 0.0) - q_
        Order.execute = exec_tally
        try:
            # a 1m route: the strategy also runs on the minute that closes a day, where the equity sample is taken
            out = E.run_session(cs, [(s, '1m' if k % 2 == 0 else rng.choice(['5m', '15m'])) for s in syms], scripts=scripts, exchange_type=typ, fee=fee_rate,
                                leverage=rng.choice([2, 3, 5]), balance=10000.0, fast=(k % 3 == 2))
        finally:
            bm.save_daily_portfolio_balance = orig
            Order.execute = o_exec
        if out['error']:
            continue
        n_sessions += 1
        n_samples += len(samples)
        open_pnl_samples += sum(1 for sm in samples if sm['open_pnl'] > 1e-9)
        base = {'exchange_type': typ, 'symbols': syms, 'minutes': n, 'scripts': scripts}
        daily = out.get('daily', [])
        if not samples or not same(samples[0]['recorded'], 10000.0):
            bad.append(('equity_series_does_not_start_at_the_starting_balance', dict(base, first=samples[:1])))
        expect = 1 + (n - 1) // 1440 + 1
        if len(daily) != expect:
            bad.append(('equity_series_length', dict(base, samples=len(daily), expected_one_per_day_plus_final=expect)))
        for i, sm in enumerate(samples):
            if sm['pending_market_orders']:
                bad.append(('equity_sampled_while_market_orders_of_that_minute_are_still_pending', dict(base, sample_index=i, sample=sm))); break
            if not same(sm['recorded'], sm['equity'], 1e-9):
                bad.append((f'equity_sample_differs_from_account_equity:{typ}', dict(base, sample_index=i, sample=sm))); break
    return bad, n_samples, n_sessions, open_pnl_samples


def run(tier, seed, replay=None):
    res = C.Result(PID, tier, seed)
    res.trusted = ['Coq 8.16.1 kernel + vm_compute', 'Model/Metrics.v (definitions) tied by value correspondence', 'harness/c16.py, driver.py, engine.py']
    res.assumptions = ['Sharpe, Sortino, Calmar, Omega and the annual return need square roots and real powers: they are compared with an independent numpy recomputation of their '
                       'standard definitions, not proved; maximum drawdown is both proved non-positive (model) and compared',
                       'the equity clauses are monitored on real multi-day sessions, not proved']
    C.standard_proof_step(res, 'Props.C16', THEOREMS, ['theories/Props/C16.vo', 'theories/Run/C16Run.vo'])
    rng = C.rng_for(seed, PID)
    hdr = 'From Coq Require Import ZArith QArith Qcanon List Bool Arith.\nFrom JV Require Import Base.Num Model.Metrics Run.Harness Run.C16Run.\nImport ListNotations.\n'
    cases, errs_real, ratio_bad = [], [], []
    for _ in range(60 if tier == 'quick' else 800):
        trades, eq, kind = gen_trades(rng)
        try:
            m = real_metrics(trades, eq)
        except Exception as ex:
            errs_real.append({'kind': kind, 'n': len(trades), 'error': type(ex).__name__ + ': ' + str(ex)[:200]}); continue
        cases.append((trades, eq, kind, m))
        if len(eq) >= 3:
            ref = ratios_reference(eq)
            for key, v in ref.items():
                if not same(m.get(key), v, 1e-6):
                    ratio_bad.append({'metric': key, 'reported': m.get(key), 'standard_definition': v, 'equity': eq})
            if m.get('max_drawdown') is not None and not math.isnan(m['max_drawdown']) and m['max_drawdown'] > 1e-9:
                ratio_bad.append({'metric': 'max_drawdown_positive', 'reported': m['max_drawdown'], 'equity': eq})

    def term(c):
        trades, eq, kind, m = c
        tl = C.clist([f'(mt {qq(p)} {qq(f)} {C.cbool(lg)})' for p, f, lg in trades])
        g = lambda k_: m.get(k_, 0)
        impl = ('{| ' + f"i_total := {C.cnat(g('total'))}; i_w := {C.cnat(g('total_winning_trades'))}; i_l := {C.cnat(g('total_losing_trades'))}; i_wr := {qq(g('win_rate'))}; "
                f"i_np := {qq(g('net_profit'))}; i_npp := {qq(g('net_profit_percentage'))}; i_gp := {qq(g('gross_profit'))}; i_gl := {qq(g('gross_loss'))}; i_fee := {qq(g('fee'))}; "
                f"i_longs := {C.cnat(g('longs_count'))}; i_shorts := {C.cnat(g('shorts_count'))}; i_lp := {qq(g('longs_percentage'))}; i_sp := {qq(g('shorts_percentage'))}; "
                f"i_aw := {oq(g('average_win'))}; i_al := {oq(g('average_loss'))}; i_exp := {qq(g('expectancy'))}; i_lw := {qq(g('largest_winning_trade'))}; "
                f"i_ll := {qq(g('largest_losing_trade'))}; i_ws := {C.cnat(g('winning_streak'))}; i_ls := {C.cnat(g('losing_streak'))}; i_cs := {C.cz(g('current_streak'))}; "
                f"i_dd := {oq(g('max_drawdown'))}" + ' |}')
        return f'({qq(10000.0)}, {tl}, {C.clist([qq(x) for x in eq])}, {impl})'
    small = [c for c in cases if len(c[0]) <= 60]
    big = [c for c in cases if len(c[0]) > 60][: (3 if tier == 'quick' else 20)]
    use = small + big
    jobs = []
    for j in range(0, len(use), 20):
        body = ';\n'.join(term(c) for c in use[j:j + 20])
        jobs.append((f'c16_m_{j // 20}', j, hdr + f'Definition cs : list metrics_case := [\n{body}\n].\nEval vm_compute in (map (fun c => bad_indices (metrics_agree c)) cs).\n'))
    outs = C.coq_eval_many([(j[0], j[2]) for j in jobs], timeout=1500)
    bad, errs = [], []
    import re
    for j, (rc, o) in zip(jobs, outs):
        r = C.parse_results(o)
        if rc != 0 or len(r) != 1:
            errs.append(o[-600:]); continue
        lists = re.findall(r'\[([^\[\]]*)\]', r[0])
        for i, inner in enumerate(lists[: len(use) - j[1]]):
            idx = [int(x) for x in re.findall(r'\d+', inner)]
            if idx:
                c = use[j[1] + i]
                bad.append({'metrics_that_differ': [NAMES[x] for x in idx], 'kind': c[2], 'trades': c[0][:40], 'n_trades': len(c[0]), 'equity': c[1],
                            'reported': {NAMES[x]: c[3].get(NAMES[x]) for x in idx}})
    res.oblige('C16 case files evaluated', not errs, '\n'.join(errs[:2]))
    res.oblige('metrics.trades ran on the synthetic trade lists', not errs_real, json.dumps(errs_real[:2])[:500])
    res.oblige('correspondence: the metric definitions of Model/Metrics.v = services/metrics.trades (22 reported values per trade list)', not bad, json.dumps(bad[:2], default=str)[:1200])
    eq_bad, n_samples, n_sessions, open_pnl_samples = equity_sessions(rng, tier)
    res.extra['equity_samples_taken_with_unrealised_pnl'] = open_pnl_samples
    res.add_cases(len(use) + n_samples, len(use) + n_samples, [], f'{len(use)} synthetic trade lists (all wins, all losses, zero-PnL trades, a single trade, up to 1500 trades, long/short mixes) '
                  f'with equity series of 2..41 samples; {len(cases)} ratio comparisons; {n_sessions} real sessions of 2-3 days (spot and futures, one and two routes in both '
                  f'orders, normal and fast simulator) with {n_samples} equity samples recomputed independently')
    res.extra.update({'trade_lists': len(use), 'ratio_comparisons': len(cases), 'equity_sessions': n_sessions, 'equity_samples': n_samples})
    seen = set()
    for b in bad[:1]:
        res.violation('metric_differs_from_its_definition:' + b['metrics_that_differ'][0], 'a reported metric differs from its defining identity', b)
    for rb in ratio_bad:
        site = 'ratio_differs_from_standard_definition:' + rb['metric']
        if site in seen: continue
        seen.add(site)
        res.violation(site, 'a ratio metric differs from its standard definition on the daily equity returns', rb)
    for site, rep in eq_bad:
        if site in seen: continue
        seen.add(site)
        res.violation(site, site.replace('_', ' '), rep)
    return res.finish()
