"""C20 — candle series handed to the store are gapless and strictly ordered.

proof:   Props/C20.v (Model/Import.v fill spec; Model/CandleStore.v add_candle = add_spec, sortedness for every history)
tie:     hand-written models vs _fill_absent_candles / CandlesState.add_candle / add_multiple_1m_candles on
         bounded-exhaustive gap patterns and random add sequences (compared inside Coq)
search:  Coq monitor store_meets_spec on the implementation's store; Python re-statement of the fill clauses for replay search;
         research.backtest spacing rejection
"""
import itertools
import json

from . import common as C

PID = 'C20'
THEOREMS = ['C20_fill_length', 'C20_fill_grid', 'C20_fill_keeps', 'C20_fill_missing', 'C20_add_candle_spec',
            'C20_store_always_increasing', 'C20_add_multiple_append', 'C20_add_multiple_full_overlap']
M = 60000


def mk(ts, tag):
    return {'id': 'x', 'exchange': 'E', 'symbol': 'S', 'timeframe': '1m', 'timestamp': ts, 'open': tag, 'close': tag + 1, 'high': tag + 2,
            'low': tag + 3, 'volume': tag + 4}


def ic(c):
    return f"(ic {C.cz(c['timestamp'])} {C.cz(c['open'])} {C.cz(c['close'])} {C.cz(c['high'])} {C.cz(c['low'])} {C.cz(c['volume'])})"


def fill_clauses(batch, start, end, out):
    """the property's clauses restated for the search (replay classification only)"""
    n = (end - start) // M + 1
    if out is None:
        return 'raised'
    if len(out) != n:
        return 'length'
    started, prev = False, None
    for k, c in enumerate(out):
        t = start + k * M
        if c['timestamp'] != t:
            return 'grid'
        prov = next((b for b in batch if b['timestamp'] == t), None)
        if prov is not None:
            if any(c[f] != prov[f] for f in ('open', 'close', 'high', 'low', 'volume')):
                return 'kept'
            started = True
        else:
            p = prev['close'] if started else batch[0]['open']
            if not (c['open'] == c['close'] == c['high'] == c['low'] == p and c['volume'] == 0):
                return 'filler'
        prev = c
    return None


def run(tier, seed, replay=None):
    res = C.Result(PID, tier, seed)
    res.trusted = ['Coq 8.16.1 kernel + vm_compute', 'Model/Import.v, Model/CandleStore.v (hand-written) tied by correspondence', 'harness/c20.py']
    res.assumptions = ['prices are only copied by the modelled code, rows carry integer tags', 'pydash.find = first match',
                       'the live-mode branches of add_candle (is_live) are not modelled', 'DynamicNumpyArray behaves as a list (C18)']
    C.standard_proof_step(res, 'Props.C20', THEOREMS, ['theories/Props/C20.vo', 'theories/Run/C20Run.vo'])
    C.use_repo()
    import numpy as np
    from jesse.modes.import_candles_mode import _fill_absent_candles
    rng = C.rng_for(seed, PID)

    # ---------------------------------------------------------------- fill cases
    fcases = []
    maxn = 6 if tier == 'quick' else 10
    tag = [10]

    def fresh():
        tag[0] += 10
        return tag[0]
    for n in range(1, maxn + 1):
        for present in itertools.product([0, 1], repeat=n):
            if not any(present):
                continue
            batch = [mk(M * (5 + k), fresh()) for k in range(n) if present[k]]
            fcases.append((batch, M * 5, M * (5 + n - 1)))
    for _ in range(200 if tier == 'quick' else 3000):
        n = rng.choice([1, 2, 3, 8, 30, 200] if tier == 'quick' else [1, 2, 3, 8, 30, 200, 1500])
        start = M * rng.randrange(1, 1000)
        pres = [k for k in range(n) if rng.random() < rng.choice([0.1, 0.5, 0.9])] or [rng.randrange(n)]
        batch = [mk(start + M * k, fresh()) for k in pres]
        r = rng.random()
        if r < 0.2:
            batch.insert(rng.randrange(len(batch) + 1), mk(start + M * rng.choice(pres), fresh()))     # duplicate timestamp
        elif r < 0.3:
            batch.append(mk(start + M * rng.randrange(n) + 30000, fresh()))                           # off the grid
        elif r < 0.4:
            batch.append(mk(start - M * 3, fresh()))                                                  # outside the interval
        elif r < 0.5:
            rng.shuffle(batch)
        end = start + M * (n - 1) + rng.choice([0, 0, 0, 30000])
        fcases.append((batch, start, end))
    fcases.append(([], M, 2 * M))
    fobs = []
    for (batch, s, e) in fcases:
        try:
            out = _fill_absent_candles([dict(b) for b in batch], s, e)
        except Exception:
            out = None
        fobs.append(out)

    # ---------------------------------------------------------------- store cases
    from . import driver
    driver.session()
    from jesse.store import store
    scases, sobs = [], []
    n_batches = 0
    for i in range(400 if tier == 'quick' else 5000):
        ops = []
        cur = rng.randrange(1, 50)
        known = []
        only_add = rng.random() < 0.6
        for _ in range(rng.choice([1, 3, 8, 25, 40])):
            r = rng.random()
            if only_add or r < 0.6:
                q = rng.random()
                if q < 0.5 or not known:
                    cur += rng.choice([1, 1, 1, 2, 5]); t = cur
                elif q < 0.8:
                    t = rng.choice(known)                       # repeated timestamp (any stored row)
                elif q < 0.9:
                    t = known[-1]
                else:
                    t = rng.choice([0, min(known) - 1, rng.choice(known) * 2 + 1 if False else max(1, rng.choice(known)) ])   # zero / older unknown
                    if t == min(known) - 1 and t <= 0: t = 0
                ops.append(('add', (t * M, fresh())))
                if t * M != 0 and t not in known and (not known or t > known[-1]): known.append(t)
            else:
                m = rng.choice([1, 2, 3, 5])
                q = rng.random()
                if q < 0.3 or not known:
                    t0 = cur + 1
                elif q < 0.5:
                    t0 = cur + 1 + rng.choice([1, 2, 3, 7])           # all new, but after a hole of a few minutes (shorter or longer than the batch)
                elif q < 0.8:
                    t0 = max(1, known[-1] - rng.randrange(0, m))       # partial or full overlap with the tail
                else:
                    t0 = max(1, known[-1] - m - rng.randrange(0, 3))   # too old: must raise
                rows = [((t0 + j) * M, fresh()) for j in range(m)]
                ops.append(('many', rows))
                for j in range(m):
                    if t0 + j not in known and (not known or t0 + j > known[-1]): known.append(t0 + j)
                cur = max(cur, t0 + m - 1)
        tf = rng.choice(['1m', '1m', '5m'])
        if tf != '1m':
            ops = [o for o in ops if o[0] == 'add']
        # runs of consecutive single additions are sometimes handed over in ONE call of batch_add_candle (warm-up injection, required candles): outside
        # live mode that is a fold of add_candle, so the model and the oracle keep seeing single additions; the first run starts on the EMPTY store
        if rng.random() < 0.5:
            j, bid = 0, 0
            while j < len(ops):
                k = j
                while k < len(ops) and ops[k][0] == 'add': k += 1
                if k - j >= 2 and (j == 0 or rng.random() < 0.5):
                    bid += 1
                    m_ = rng.randrange(2, min(k - j, 8) + 1)
                    for q_ in range(j, j + m_): ops[q_] = ('add', ops[q_][1], bid)
                j = max(k, j + 1)
        key = f'Sandbox-BTC-USDT-{tf}'
        if key not in store.candles.storage:
            from jesse.libs import DynamicNumpyArray
            store.candles.storage[key] = DynamicNumpyArray((rng.choice([3, 10, 60]), 6))
        store.candles.storage[key].flush()
        ok = True
        done_batches = set()
        for oi, o in enumerate(ops):
            try:
                if o[0] == 'add' and len(o) == 3:
                    if o[2] not in done_batches:
                        done_batches.add(o[2])
                        rows_ = [x[1] for x in ops[oi:] if x[0] == 'add' and len(x) == 3 and x[2] == o[2]]
                        store.candles.batch_add_candle(np.array([[t, g, g, g, g, g] for (t, g) in rows_], dtype=float), 'Sandbox', 'BTC-USDT', tf, with_generation=False)
                        n_batches += 1
                elif o[0] == 'add':
                    t, g = o[1]
                    store.candles.add_candle(np.array([t, g, g, g, g, g], dtype=float), 'Sandbox', 'BTC-USDT', tf, with_execution=False, with_generation=False)
                else:
                    store.candles.add_multiple_1m_candles(np.array([[t, g, g, g, g, g] for (t, g) in o[1]], dtype=float), 'Sandbox', 'BTC-USDT')
            except Exception:
                ok = False
                break
        arr = store.candles.storage[key]
        final = [(int(r[0]), int(r[1])) for r in arr[:]] if (ok and len(arr)) else ([] if ok else None)
        scases.append(ops)
        sobs.append(final)

    def c_sop(o):
        if o[0] == 'add':
            return f'Add ({C.cz(o[1][0])}, {C.cz(o[1][1])})'
        return 'AddMany ' + C.clist([f'({C.cz(t)}, {C.cz(g)})' for (t, g) in o[1]])

    def c_rows(r):
        return 'None' if r is None else '(Some ' + C.clist([f'({C.cz(t)}, {C.cz(g)})' for (t, g) in r]) + ')'
    hdr = 'From Coq Require Import ZArith List Bool.\nFrom JV Require Import Model.Import Model.CandleStore Run.Harness Run.C20Run.\nImport ListNotations.\n'
    jobs = []
    SH = 150
    for i in range(0, len(fcases), SH):
        body = ';\n'.join(f'({C.clist([ic(b) for b in batch])}, {C.cz(s)}, {C.cz(e)}, ' +
                          ('None' if o is None else '(Some ' + C.clist([ic(c) for c in o]) + ')') + ')'
                          for (batch, s, e), o in zip(fcases[i:i + SH], fobs[i:i + SH]))
        jobs.append((f'c20_f_{i // SH}', ('f', i), hdr + f'Definition cs : list fcase := [\n{body}\n].\nEval vm_compute in (bad_indices (map fill_model_agrees cs)).\n'
                     'Eval vm_compute in (bad_indices (map fill_model_agrees cs)).\n'))
    SS = 200
    for i in range(0, len(scases), SS):
        body = ';\n'.join(f'({C.clist([c_sop(o) for o in ops])}, {c_rows(r)})' for ops, r in zip(scases[i:i + SS], sobs[i:i + SS]))
        jobs.append((f'c20_s_{i // SS}', ('s', i), hdr + f'Definition cs : list scase := [\n{body}\n].\nEval vm_compute in (bad_indices (map store_model_agrees cs)).\n'
                     'Eval vm_compute in (bad_indices (map store_meets_spec cs)).\n'))
    outs = C.coq_eval_many([(j[0], j[2]) for j in jobs], timeout=1500)
    bad = {'fill': [], 'store': [], 'store_spec': []}
    errs = []
    for j, (rc, out) in zip(jobs, outs):
        r = C.parse_results(out)
        if rc != 0 or len(r) != 2:
            errs.append(out[-1200:]); continue
        kind, off = j[1]
        if kind == 'f':
            bad['fill'] += [off + k for k in C.parse_nat_list(r[0])]
        else:
            bad['store'] += [off + k for k in C.parse_nat_list(r[0])]
            bad['store_spec'] += [off + k for k in C.parse_nat_list(r[1])]
    res.oblige('C20 case shards evaluated', not errs, '\n'.join(errs))
    res.oblige('correspondence: Model/Import.fill_absent = _fill_absent_candles (every gap pattern up to the bound + random long intervals)',
               not bad['fill'], str([(len(fcases[i][0]), fcases[i][1], fcases[i][2]) for i in bad['fill'][:3]]))
    res.oblige('correspondence: Model/CandleStore (add_candle, add_multiple) = CandlesState on random add histories', not bad['store'],
               json.dumps([scases[i] for i in bad['store'][:2]])[:1500])
    # ---------------------------------------------------------------- spacing rejection of research.backtest
    sp_bad = spacing_cases()
    res.oblige('research.backtest rejects exactly the inputs whose first two candles are not 60000 ms apart (6 sessions)', not sp_bad, str(sp_bad))
    res.add_cases(len(fcases) + len(scases) + 6, len(fcases) + len({json.dumps(s) for s in scases}),
                  [{'fill': {'present_minutes': [b['timestamp'] // M for b in fcases[5][0]], 'start': fcases[5][1] // M, 'end': fcases[5][2] // M}},
                   {'store_ops': scases[0][:6]}],
                  f'every subset of present minutes for intervals up to {maxn} minutes; random intervals up to 1500 minutes with duplicates, off-grid and '
                  'out-of-interval candles, shuffled batches; random histories of new / repeated / older / zero timestamps , runs of single additions handed over through batch_add_candle (the first one on the empty store) and bulk batches (fresh, '
                  'overlapping fully or partly, too old)')
    res.extra.update({'fill_cases': len(fcases), 'store_histories': len(scases), 'batch_add_candle_calls': n_batches, 'monitor_evaluations': len(scases),
                      'store_histories_that_raise': sum(1 for r in sobs if r is None), 'mismatch_counts': {k: len(v) for k, v in bad.items()}})
    seen = set()
    for i, ((batch, s, e), o) in enumerate(zip(fcases, fobs)):
        if not batch or s > e:
            continue
        cl = fill_clauses(batch, s, e, o)
        if cl and ('fill:' + cl) not in seen:
            seen.add('fill:' + cl)
            res.violation('fill:' + cl, f'_fill_absent_candles violates the "{cl}" clause',
                          {'batch': [(b['timestamp'], b['open']) for b in batch][:40], 'start': s, 'end': e,
                           'returned': None if o is None else [(c['timestamp'], c['open'], c['close'], c['volume']) for c in o][:40]})
    for i in bad['store_spec'][:50]:
        ops = scases[i]
        site = 'add_candle:' + ('raised' if sobs[i] is None else 'content')
        if site in seen:
            continue
        seen.add(site)
        res.violation(site, 'the store after single additions is not strictly increasing / does not equal append-or-replace semantics',
                      {'ops': ops, 'store_content': sobs[i]})
    # the store clause decided on the implementation alone: a row with a new timestamp is appended, one with a stored timestamp replaces it
    # (histories that contain an older unknown / zero timestamp, a batch reaching back too far, or that raised, are left to the correspondence)
    for ops, final in zip(scases, sobs):
        if final is None or 'store_rows' in seen:
            continue
        exp, skip = [], False
        for o in ops:
            rows = [o[1]] if o[0] == 'add' else list(o[1])
            if any(t <= 0 for t, _ in rows):
                skip = True; break                      # a zero timestamp is ignored by the store on purpose: left to the correspondence
            if not exp or rows[0][0] > exp[-1][0]:
                exp.extend(rows); continue
            ts = [t for t, _ in exp]
            if o[0] == 'add':
                if rows[0][0] in ts: exp[ts.index(rows[0][0])] = rows[0]
                else: skip = True; break
            else:
                if rows[0][0] >= exp[-min(len(rows), len(exp))][0] and rows[-1][0] >= exp[-1][0] and all(t in ts or t > ts[-1] for t, _ in rows) \
                        and ts[-min(len(rows), len(ts)):] == list(range(ts[-min(len(rows), len(ts))], ts[-1] + 1, M)):
                    for r_ in rows:
                        if r_[0] in ts: exp[ts.index(r_[0])] = r_
                        else: exp.append(r_)
                else:
                    skip = True; break
        if not skip and [tuple(x) for x in exp] != [tuple(x) for x in final]:
            seen.add('store_rows')
            res.violation('store_is_not_append_or_replace', 'after additions of new and repeated timestamps the store is not what append-or-replace gives',
                          {'ops': ops, 'store_content': final, 'expected': exp})
    for b in sp_bad[:1]:
        res.violation('spacing', 'research.backtest spacing validation', b)
    return res.finish()


def spacing_cases():
    C.use_repo()
    import numpy as np
    import jesse.helpers as jh
    from jesse import research
    from jesse.strategies import Strategy

    class S(Strategy):
        def should_long(self): return False
        def go_long(self): pass
        def should_cancel_entry(self): return True
    cfg = {'starting_balance': 1000, 'fee': 0, 'type': 'futures', 'futures_leverage': 1, 'futures_leverage_mode': 'cross',
           'exchange': 'Sandbox', 'warm_up_candles': 0}
    bad = []
    for d in (60000, 120000, 0, 59999, 60001, 300000):
        t0 = 1_600_000_020_000 - 20_000
        candles = np.array([[t0, 10.0, 10.0, 10.0, 10.0, 1.0], [t0 + d, 10.0, 10.0, 10.0, 10.0, 1.0]] +
                           [[t0 + d + 60000 * (i + 1), 10.0, 10.0, 10.0, 10.0, 1.0] for i in range(3)])
        try:
            research.backtest(cfg, [{'exchange': 'Sandbox', 'strategy': S, 'symbol': 'BTC-USDT', 'timeframe': '1m'}], [],
                              {jh.key('Sandbox', 'BTC-USDT'): {'exchange': 'Sandbox', 'symbol': 'BTC-USDT', 'candles': candles}})
            rejected = False
        except ValueError:
            rejected = True
        except Exception as e:
            rejected = 'other:' + type(e).__name__
        if rejected != (d != 60000):
            bad.append({'first_gap_ms': d, 'rejected': rejected})
    return bad
