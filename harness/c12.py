"""C12 — fast mode reproduces the normal simulation when fills are unambiguous.

proof:   Props/C12.v (the stretched candle of the fast matcher and the gap-normalised candle of the normal one have the same range; the fast
         simulator's higher-timeframe windows are the normal simulator's windows, from the regenerated read lists; one-candidate chunks fill
         the same order in the same minute in both matchers, for every reaction that keeps new orders outside the chunk)
tie:     Model/FastMatch.fast_chunk vs the real _simulate_price_change_effect_multiple_candles with scripted reactions; Model/Match (C02/C08)
search:  differential runs of the real engine (fast vs normal) on sessions that satisfy the property's hypothesis
"""
import json
from fractions import Fraction

from . import common as C
from .c02 import qq, cndq, gen_minute

PID = 'C12'
THEOREMS = ['C12_same_range', 'C12_same_candidates', 'C12_windows_coincide', 'C12_single_candidate_chunk']


def gen_chunk(rng):
    step = 0.5
    n = rng.choice([2, 3, 5])
    ks, prev_close = [], None
    base = rng.choice([100.0, 64.0])
    lat = set()
    for i in range(n):
        o = base if prev_close is None else prev_close + rng.choice([0, 0, 0, -2, -1, 1, 2, 3]) * step       # gaps inside the chunk
        c = o + rng.randrange(-6, 7) * step
        hi = max(o, c) + rng.choice([0, 0, 1, 2, 4]) * step
        lo = min(o, c) - rng.choice([0, 0, 1, 2, 4]) * step
        ks.append([1000.0 + i, o, c, hi, lo, float(rng.randrange(1, 9))])
        prev_close = c
        lat.update([o, c, hi, lo])
    lo_all, hi_all = min(k[4] for k in ks), max(k[3] for k in ks)
    prices = sorted(lat | {lo_all - step, hi_all + step} | {lo_all + j * step for j in range(int((hi_all - lo_all) / step) + 1)})
    m = rng.choice([0, 1, 1, 2, 3, 4, 6])
    orders = [(i + 1, rng.choice(prices)) for i in range(m)]
    script, nxt, pool = {}, m + 1, [i for i, _ in orders]
    for _ in range(rng.choice([0, 1, 1, 2, 3])):
        if not pool: break
        trig = rng.choice(pool)
        if trig in script: continue
        cancels = [i for i in pool if i != trig and rng.random() < 0.25]
        news = []
        for _ in range(rng.choice([0, 1, 1, 2])):
            news.append((nxt, rng.choice(prices))); pool.append(nxt); nxt += 1
        script[trig] = (cancels, news)
    return ks, orders, script


def real_chunk(ks, orders, script):
    from . import driver as D
    C.use_repo()
    import numpy as np
    from jesse.strategies import Strategy
    from jesse.store import store
    import jesse.modes.backtest_mode as bm
    fills, tag2o = [], {}
    t0 = [0]

    class Scr(Strategy):
        def should_long(self): return False
        def go_long(self): pass
        def _on_updated_position(self, order):
            t = getattr(order, '_tag', None)
            fills.append((t, int(round((store.app.time - 60000 - t0[0]) / 60000))))
            if t in script:
                cancels, news = script[t]
                for i in cancels:
                    if i in tag2o: tag2o[i].cancel()
                for (i, p) in news:
                    o = D.submit('BTC-USDT', 'buy', 'LIMIT', 1.0, p); o._tag = i; tag2o[i] = o
    D.session(typ='futures', balance=1e9, strategy_cls=Scr)
    for (i, p) in orders:
        o = D.submit('BTC-USDT', 'buy', 'LIMIT', 1.0, p); o._tag = i; tag2o[i] = o
    parts = []
    orig = bm._update_all_routes_a_partial_candle

    def pub(exchange, symbol, c):
        parts.append([float(x) for x in c]); orig(exchange, symbol, c)
    bm._update_all_routes_a_partial_candle = pub
    try:
        arr = np.array(ks, dtype=float)
        t0[0] = store.app.time
        for i in range(len(arr)):
            arr[i][0] = t0[0] + i * 60000
        bm._simulate_price_change_effect_multiple_candles(arr, 'Sandbox', 'BTC-USDT')
    finally:
        bm._update_all_routes_a_partial_candle = orig
    left = [o._tag for o in store.orders.get_active_orders('Sandbox', 'BTC-USDT') if o.is_active]
    return [[float(x) for x in r] for r in arr], fills, parts, left
