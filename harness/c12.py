"""C12 — fast mode reproduces the normal simulation when fills are unambiguous.

proof:   Props/C12.v (the fast matcher's path candles are the normal simulator's gap-normalised minute candles; the fast
         simulator's higher-timeframe windows are the normal simulator's windows, from the regenerated read lists; one-candidate chunks fill
         the same order in the same minute in both matchers, for every reaction that keeps new orders outside the chunk)
tie:     Model/FastMatch.fast_chunk vs the real _simulate_price_change_effect_multiple_candles with scripted reactions; Model/Match (C02/C08)
search:  differential runs of the real engine (fast vs normal) on sessions that satisfy the property's hypothesis
"""
import json
from fractions import Fraction

from . import common as C
from .c02 import qq, cndq, gen_minute

PID = 'C12'
THEOREMS = ['C12_path_candles_are_the_normal_simulators', 'C12_windows_coincide', 'C12_single_candidate_chunk']


def gen_chunk(rng):
    step = 0.5
    n = rng.choice([2, 3, 5])
    ks, prev_close = [], None
    base = rng.choice([100.0, 64.0])
    lat = set()
    for i in range(n):
        o = base if prev_close is None else prev_close + rng.choice([0, 0, 0, -2, -1, 1, 2, 3]) * step       # gaps inside the chunk
        c = o + rng.randrange(-6, 7) * step
        hi = max(o, c) + rng.choice([0, 0, 1, 2, 4]) * step
        lo = min(o, c) - rng.choice([0, 0, 1, 2, 4]) * step
        ks.append([1000.0 + i, o, c, hi, lo, float(rng.randrange(1, 9))])
        prev_close = c
        lat.update([o, c, hi, lo])
    lo_all, hi_all = min(k[4] for k in ks), max(k[3] for k in ks)
    prices = sorted(lat | {lo_all - step, hi_all + step} | {lo_all + j * step for j in range(int((hi_all - lo_all) / step) + 1)})
    m = rng.choice([0, 1, 1, 2, 3, 4, 6])
    orders = [(i + 1, rng.choice(prices)) for i in range(m)]
    script, nxt, pool = {}, m + 1, [i for i, _ in orders]
    for _ in range(rng.choice([0, 1, 1, 2, 3])):
        if not pool: break
        trig = rng.choice(pool)
        if trig in script: continue
        cancels = [i for i in pool if i != trig and rng.random() < 0.25]
        news = []
        for _ in range(rng.choice([0, 1, 1, 2])):
            news.append((nxt, rng.choice(prices))); pool.append(nxt); nxt += 1
        script[trig] = (cancels, news)
    return ks, orders, script


def gen_single_candidate_chunk(rng):
    """a gapped chunk with exactly one (or no) resting order inside its range - often inside a gap between two minutes - and reactions that
    place orders far outside"""
    step = 0.5
    n = rng.choice([2, 3, 5])
    ks, prev_close = [], None
    for i in range(n):
        o = 100.0 if prev_close is None else prev_close + rng.choice([0, -3, -2, 2, 3, 4]) * step
        c = o + rng.randrange(-4, 5) * step
        hi = max(o, c) + rng.choice([0, 0, 1, 2]) * step
        lo = min(o, c) - rng.choice([0, 0, 1, 2]) * step
        ks.append([1000.0 + i, o, c, hi, lo, 1.0])
        prev_close = c
    lo_all = min(min(k[4] for k in ks), min(k[2] for k in ks)); hi_all = max(max(k[3] for k in ks), max(k[2] for k in ks))
    inside = [lo_all + j * step for j in range(int((hi_all - lo_all) / step) + 1)]
    gaps = []
    for i in range(1, n):
        a, b = sorted((ks[i - 1][2], ks[i][1]))
        gaps += [a + j * step for j in range(1, int((b - a) / step))]
    orders = []
    if rng.random() < 0.9:
        orders.append((1, rng.choice(gaps) if gaps and rng.random() < 0.6 else rng.choice(inside)))
    orders += [(len(orders) + 1 + j, rng.choice([lo_all - 20, hi_all + 20, lo_all - 7.5])) for j in range(rng.choice([0, 1, 2]))]
    script = {}
    if orders and rng.random() < 0.7:
        script[orders[0][0]] = ([i for i, _ in orders[1:] if rng.random() < 0.3], [(50 + j, rng.choice([lo_all - 30, hi_all + 30])) for j in range(rng.choice([1, 2]))])
    return ks, orders, script


def real_step_chunk(ks, orders, script):
    """the normal simulator's matching of the same minutes: gap normalisation, then _simulate_price_change_effect per minute"""
    from . import driver as D
    C.use_repo()
    import numpy as np
    from jesse.strategies import Strategy
    from jesse.store import store
    import jesse.modes.backtest_mode as bm
    fills, tag2o = [], {}
    cur = [0]

    class Scr(Strategy):
        def should_long(self): return False
        def go_long(self): pass
        def _on_updated_position(self, order):
            t = getattr(order, '_tag', None)
            fills.append((t, cur[0]))
            if t in script:
                cancels, news = script[t]
                for i in cancels:
                    if i in tag2o: tag2o[i].cancel()
                for (i, p) in news:
                    o = D.submit('BTC-USDT', 'buy', 'LIMIT', 1.0, p); o._tag = i; tag2o[i] = o
    D.session(typ='futures', balance=1e9, strategy_cls=Scr)
    for (i, p) in orders:
        o = D.submit('BTC-USDT', 'buy', 'LIMIT', 1.0, p); o._tag = i; tag2o[i] = o
    arr = np.array(ks, dtype=float)
    t0 = store.app.time
    for i in range(len(arr)):
        arr[i][0] = t0 + i * 60000
    for i in range(len(arr)):
        cur[0] = i
        c = arr[i]
        if i != 0:
            c = bm._get_fixed_jumped_candle(arr[i - 1], c)
        store.app.time = c[0] + 60000
        store.candles.add_candle(c, 'Sandbox', 'BTC-USDT', '1m', with_execution=False, with_generation=False)
        bm._simulate_price_change_effect(c, 'Sandbox', 'BTC-USDT')
    left = [o._tag for o in store.orders.get_active_orders('Sandbox', 'BTC-USDT') if o.is_active]
    return fills, left


def real_chunk(ks, orders, script):
    from . import driver as D
    C.use_repo()
    import numpy as np
    from jesse.strategies import Strategy
    from jesse.store import store
    import jesse.modes.backtest_mode as bm
    fills, tag2o = [], {}
    t0 = [0]

    class Scr(Strategy):
        def should_long(self): return False
        def go_long(self): pass
        def _on_updated_position(self, order):
            t = getattr(order, '_tag', None)
            fills.append((t, int(round((store.app.time - 60000 - t0[0]) / 60000))))
            if t in script:
                cancels, news = script[t]
                for i in cancels:
                    if i in tag2o: tag2o[i].cancel()
                for (i, p) in news:
                    o = D.submit('BTC-USDT', 'buy', 'LIMIT', 1.0, p); o._tag = i; tag2o[i] = o
    D.session(typ='futures', balance=1e9, strategy_cls=Scr)
    for (i, p) in orders:
        o = D.submit('BTC-USDT', 'buy', 'LIMIT', 1.0, p); o._tag = i; tag2o[i] = o
    parts = []
    orig = bm._update_all_routes_a_partial_candle

    def pub(exchange, symbol, c):
        parts.append([float(x) for x in c]); orig(exchange, symbol, c)
    bm._update_all_routes_a_partial_candle = pub
    try:
        arr = np.array(ks, dtype=float)
        t0[0] = store.app.time
        for i in range(len(arr)):
            arr[i][0] = t0[0] + i * 60000
        bm._simulate_price_change_effect_multiple_candles(arr, 'Sandbox', 'BTC-USDT')
    finally:
        bm._update_all_routes_a_partial_candle = orig
    left = [o._tag for o in store.orders.get_active_orders('Sandbox', 'BTC-USDT') if o.is_active]
    return [[float(x) for x in r] for r in arr], fills, parts, left


TFM = {'1m': 1, '3m': 3, '5m': 5, '15m': 15, '30m': 30, '45m': 45, '1h': 60}


def hypothesis_holds(out, tf):
    """single-symbol session in which the NORMAL run never fills two resting orders inside one trading-candle span, and nobody is liquidated"""
    from . import engine as E
    if out.get('liquidations'):
        return False
    spans = {}
    for e in out['trace']:
        if e['k'] == 'execute' and e['was'] == 'ACTIVE' and e['type'] in ('LIMIT', 'STOP'):
            sp = int((e['t'] - 60000 - E.T0) // (TFM[tf] * 60000))
            spans[sp] = spans.get(sp, 0) + 1
    return all(v <= 1 for v in spans.values())


def summary(out):
    ex = [(e['type'], e['qty'], e['price'], e['t']) for e in out['trace'] if e['k'] == 'execute' and e['was'] == 'ACTIVE']
    sub = {e['id']: e for e in out['trace'] if e['k'] == 'submit'}
    ex_full = [(sub[e['id']]['side'],) + (e['type'], e['qty'], e['price'], e['t']) for e in out['trace'] if e['k'] == 'execute' and e['was'] == 'ACTIVE' and e['id'] in sub]
    tr = [(t['type'], t['qty'], t['entry'], t['exit'], t['pnl'], t['opened_at'], t['closed_at']) for t in out.get('trades', [])]
    return {'executed': ex_full, 'trades': tr, 'final': out.get('final'), 'stored_1m_candles': out.get('stored_1m')}


def run(tier, seed, replay=None):
    from . import engine as E
    res = C.Result(PID, tier, seed)
    res.trusted = ['Coq 8.16.1 kernel + vm_compute', 'translator py2v + simidx (fail-closed, outputs validated by c01/kernels)',
                   'Model/Match.v and Model/FastMatch.v hand-written, tied by correspondence (c02, c12)', 'harness/c12.py, engine.py, driver.py']
    res.assumptions = ['theorem (iii) is about one chunk with at most one resting order inside its range and a strategy layer whose reaction to a fill does not read the '
                       'partial candle and places nothing inside the chunk (the property\'s "exits spaced wider than a trading candle can move"); whole sessions are '
                       'covered by the differential search', 'single symbol, no liquidation, as the property says']
    from translator import gen_all
    ok, msgs = gen_all.generate()
    msgs = gen_all.relevant(msgs, ['candle', 'backtest', 'simidx']); ok = not msgs
    res.oblige('translator regenerated kernels, read lists, execution tests and chunk length from /repo', ok, '\n'.join(msgs))
    from translator import fastshape
    try:
        fastshape.check(__import__('os').environ.get('VERIF_REPO', '/repo')); fs_ok, fs_msg = True, ''
    except (fastshape.Untranslatable, OSError, SyntaxError) as e:
        fs_ok, fs_msg = False, str(e)
    res.extra['fast_shape_recognised'] = fs_ok
    C.standard_proof_step(res, 'Props.C12', ['C12_path_candles_are_the_normal_simulators', 'C12_normalisation_reads_only_the_previous_close', 'C12_step_divides_every_timeframe', 'C12_windows_coincide', 'C12_no_window_inside_chunk',
                                             'C12_executions_coincide', 'C12_no_execution_inside_chunk', 'C12_single_candidate_chunk'],
                          ['theories/Props/C12.vo', 'theories/Run/C12Run.vo'])
    rng = C.rng_for(seed, PID)
    hdr = ('From Coq Require Import ZArith QArith Qcanon List Bool Arith PrimFloat.\nFrom JV Require Import Base.Num Model.Match Run.Harness Run.KernelRun Run.C02Run Run.C12Run.\n'
           'Import ListNotations.\n')
    cases, cerr = [], []
    for _ in range(150 if tier == 'quick' else 2500):
        ks, orders, script = gen_chunk(rng)
        try:
            arr, fills, parts, left = real_chunk(ks, orders, script)
            cases.append((arr, orders, script, fills, parts, left))
        except Exception as ex:
            cerr.append({'candles': ks, 'orders': orders, 'script': script, 'error': type(ex).__name__ + ': ' + str(ex)[:200]})

    def term(m):
        arr, orders, script, fills, parts, left = m
        sc = C.clist([f"({C.cnat(t)}, ({C.clist([C.cnat(i) for i in cn])}, {C.clist([f'({C.cnat(i)}, {qq(p)})' for i, p in nw])}))" for t, (cn, nw) in sorted(script.items())])
        return (f"({C.clist([cndq(k) for k in arr])}, {C.clist([f'({C.cnat(i)}, {qq(p)})' for i, p in orders])}, {sc}, {C.clist([f'({C.cnat(i)}, {C.cnat(mi)})' for i, mi in fills])}, "
                f"{C.clist([cndq(p) for p in parts])}, {C.clist([C.cnat(i) for i in left])})")
    jobs = []
    for j in range(0, len(cases), 100):
        body = ';\n'.join(term(c) for c in cases[j:j + 100])
        jobs.append((f'c12_c_{j // 100}', j, hdr + f'Definition cs : list chunk_case := [\n{body}\n].\nEval vm_compute in (bad_indices (map chunk_agrees cs)).\n'))
    outs = C.coq_eval_many([(j[0], j[2]) for j in jobs], timeout=1500)
    bad, errs = [], []
    for j, (rc, o) in zip(jobs, outs):
        r = C.parse_results(o)
        if rc != 0 or len(r) != 1:
            errs.append(o[-600:]); continue
        bad += [cases[j[1] + i] for i in C.parse_nat_list(r[0])]
    # the property on one chunk, on the real code: the real fast matcher vs the real normal matcher minute by minute, on chunks with a single candidate
    chunk_diffs, n_single = [], 0
    for _ in range(120 if tier == 'quick' else 1500):
        ks, orders, script = gen_single_candidate_chunk(rng)
        try:
            arr, ffills, _, fleft = real_chunk(ks, orders, script)
            sfills, sleft = real_step_chunk(ks, orders, script)
        except Exception as ex:
            cerr.append({'candles': ks, 'orders': orders, 'script': script, 'error': type(ex).__name__ + ': ' + str(ex)[:200]}); continue
        n_single += 1
        if ffills != sfills or sorted(fleft) != sorted(sleft):
            chunk_diffs.append({'chunk_candles': ks, 'resting_orders': orders, 'reactions': {str(k_): v for k_, v in script.items()},
                                'fast_fills_id_minute': ffills, 'normal_fills_id_minute': sfills, 'fast_left': fleft, 'normal_left': sleft})
    res.oblige('C12 case files evaluated', not errs, '\n'.join(errs[:3]))
    res.oblige('scripted chunks ran on the real fast matcher', not cerr, json.dumps(cerr[:2], default=str)[:600])
    res.oblige('correspondence: Model/FastMatch.fast_chunk with scripted reactions = _simulate_price_change_effect_multiple_candles (fills with minute, partial candles, orders left)',
               not bad, json.dumps(bad[:2], default=str)[:900])
    # differential search
    pairs = 30 if tier == 'quick' else 400
    if not fs_ok:
        pairs *= 2          # the shape tie is missing: the correspondence and the sessions carry the tie alone, so run more of them
    diffs, sess_err, compared, skipped, n_exec = [], [], 0, 0, 0
    for k in range(pairs):
        sc = E.gen_script(rng, rng.randrange(1 << 30))
        sc.update({'digest': False, 'points': 1, 'exit_points': 1, 'modify': 'none', 'liquidate_every': 0, 'sl_dist': rng.choice([40, 60, 90]), 'tp_dist': rng.choice([40, 60, 90]),
                   'exit_style': rng.choice(['on_open', 'at_entry']), 'entry_every': rng.choice([3, 5, 7]), 'cancel_entry': rng.choice(['always', 'sometimes'])})
        tf = rng.choice(['3m', '5m', '15m', '30m'])
        data = rng.choice([[], [('BTC-USDT', '1h')], [('BTC-USDT', '15m')], [('BTC-USDT', '30m')], [('BTC-USDT', '5m')], [('BTC-USDT', '45m')]])
        data = [d for d in data if TFM[d[1]] > TFM[tf]]                      # larger than the trading timeframe, not necessarily a multiple of it
        sc['view_dependent'] = rng.random() < 0.6
        FIXED = [('3m', ['5m']), ('30m', ['45m']), ('5m', ['15m']), ('15m', ['1h']), ('3m', ['15m']), ('15m', ['45m'])]
        if k < 2 * len(FIXED):                     # every run covers the timeframe pairs whose gcd differs from the trading timeframe
            tf = FIXED[k % len(FIXED)][0]; data = [('BTC-USDT', t_) for t_ in FIXED[k % len(FIXED)][1]]; sc['view_dependent'] = True
        sc['offs'] = rng.choice([[0], [-2, -1, 1, 2], [1, 2], [-1, -2]])           # resting entries close to the price: gaps inside a chunk matter
        # session lengths that are and are not multiples of the chunk: the last chunk may be shorter than the others
        cs = E.gen_candles(rng, rng.choice([240, 360, 247, 361, 242]), style=rng.choice(['flat', 'flat', 'walk', 'trend']))
        if k % 5 == 3:
            # a strategy that acts at market on every bar it is run on: an extra or a missing run of the strategy shows as an executed order
            sc.update({'entry_every': 1, 'offs': [0], 'cancel_entry': 'always', 'exit_style': 'none', 'liquidate_every': 2})
            cs = E.gen_candles(rng, rng.choice([121, 183, 244]), style='flat')
        typ = rng.choice(['futures', 'futures', 'spot'])
        if typ == 'spot': sc['side'] = 'long'
        kw = dict(exchange_type=typ, leverage=rng.choice([1, 2]), fee=rng.choice([0.0, 0.001]))
        a = E.run_session({'BTC-USDT': cs}, [('BTC-USDT', tf)], data_routes=data, scripts={'BTC-USDT': sc}, fast=False, with_vids=True, **kw)
        if a['error']:
            if not E.benign_error(a['error']): sess_err.append({'error': a['error'], 'simulator': 'normal', 'script': sc, 'timeframe': tf, **kw})
            skipped += 1; continue
        if not hypothesis_holds(a, tf):
            skipped += 1; continue
        b = E.run_session({'BTC-USDT': cs}, [('BTC-USDT', tf)], data_routes=data, scripts={'BTC-USDT': sc}, fast=True, with_vids=True, **kw)
        compared += 1
        sa, sb = summary(a), summary(b)
        n_exec += len(sa['executed'])
        if b['error'] or sa != sb:
            what = next((key for key in ('executed', 'trades', 'final', 'stored_1m_candles') if sa[key] != sb[key]), 'error')
            diffs.append({'differs_in': what, 'fast_error': b['error'], 'timeframe': tf, 'data_routes': data, 'script': sc, 'normal': sa, 'fast': sb, 'candles': cs, **kw})
    # tie of Model/FastMatch.v to the fast simulator: the syntactic shape check, or - when the source was re-arranged and the shape is not
    # recognised - the chunk correspondence, the real-matcher differential and the (doubled) session differential, which must all be clean
    dyn_ok = not bad and not errs and not cerr and not chunk_diffs and not diffs and compared > 0
    res.oblige('the fast simulator has the modelled shape (chunk edge normalised; the chunk matcher walks and sorts along path candles), or, the shape not being '
               'recognised, the chunk correspondence and the differential runs (twice as many) tie the model on their own', fs_ok or dyn_ok, fs_msg)
    res.oblige('sessions ran without an engine error in the normal simulator', not sess_err, json.dumps(sess_err[:2], default=str)[:600])
    res.add_cases(len(cases) + compared, len({json.dumps(c, default=str) for c in cases}) + compared, [],
                  f'{len(cases)} scripted chunks of 2..5 gapped minutes with 0..6 resting orders and reactions on the real fast matcher; {pairs} single-symbol sessions '
                  f'(trading 3m..30m, optional larger data route, spot/futures, wide exits, calm candles) of which {compared} satisfied the hypothesis in the normal run '
                  f'and were compared with the fast run ({skipped} skipped)')
    res.extra.update({'executed_orders_compared': n_exec, 'scripted_chunks': len(cases), 'chunk_fills': sum(len(c[3]) for c in cases), 'session_pairs': pairs, 'pairs_compared': compared, 'pairs_outside_hypothesis': skipped})
    res.extra['single_candidate_chunks_compared_on_real_code'] = n_single
    if chunk_diffs:
        res.violation('fast_chunk_differs_from_normal_minutes', 'a chunk with a single candidate order is matched differently by the real fast and normal matchers', chunk_diffs[0])
    seen = set()
    for d in diffs:
        site = f"fast_differs_from_normal:{d['differs_in']}"
        if site in seen: continue
        seen.add(site)
        res.violation(site, 'the fast simulator does not reproduce the normal simulation of a session that satisfies the hypothesis', d)
    return res.finish()
