"""Trace harness: real research.backtest sessions (outside pytest) driven by a scripted strategy family, with every
order submission / cancellation / fill, every hook invocation (with a digest of the whole view) and the final
records logged.  Used by the checks of the simulator-level properties (C01, C02, C05, C06, C07, C09, C10, C12, C16).

Determinism: every decision of a scripted strategy is a pure function of (script seed, hook name, strategy index,
what the strategy can currently read), never of wall-clock or global randomness, so two runs on the same input give
the same trace and a run on a different future gives the same prefix if (and only if) the engine does not look ahead.
"""
import hashlib
import math

from . import common as C

M = 60000
T0 = 1_600_000_000_000 - (1_600_000_000_000 % (1440 * M))        # aligned to every timeframe up to 1D


def h(*parts):
    return int.from_bytes(hashlib.sha256('|'.join(str(p) for p in parts).encode()).digest()[:6], 'big')


def benign_error(err):
    """session errors that are the strategy's own doing (or the known flip run-away), not an engine defect under test"""
    return err is not None and any(x in err for x in ('InvalidStrategy', 'Insufficient', 'OrderNotAllowed', 'ConflictingRules', 'RunawayFills',
                                                      'scripted failure'))


# ------------------------------------------------------------------------------------------ candles
def gen_candles(rng, n, style=None, base=None, step=0.5):
    """n one-minute candles on a lattice of `step`; gaps, flats and ties are frequent"""
    style = style or rng.choice(['walk', 'walk', 'trend', 'choppy', 'flat', 'spiky'])
    p = base if base is not None else float(rng.choice([64, 100, 128, 250]))
    out = []
    for i in range(n):
        if rng.random() < 0.2:
            p = max(step * 8, p + rng.choice([-2, -1, 1, 2]) * step)                  # gap between close and next open
        o = p
        drift = {'walk': 0, 'trend': 0.6, 'choppy': 0, 'flat': 0, 'spiky': 0}[style]
        mag = {'walk': 4, 'trend': 4, 'choppy': 10, 'flat': 1, 'spiky': 3}[style]
        c = max(step * 8, o + round((rng.random() - 0.5 + drift * 0.3) * 2 * mag) * step)
        if style == 'flat' and rng.random() < 0.6:
            c = o
        hi = max(o, c) + rng.choice([0, 0, 1, 2, 3 if style != 'spiky' else 12]) * step
        lo = max(step * 4, min(o, c) - rng.choice([0, 0, 1, 2, 3 if style != 'spiky' else 12]) * step)
        out.append([T0 + i * M, o, c, hi, lo, float(rng.randrange(1, 50))])
        p = c
    return out


# ------------------------------------------------------------------------------------------ scripted strategies
def make_strategy(script, log):
    """script: dict(seed, entry_every, side, points, exit_style, modify, cancel_entry, liquidate_at, raise_at, offs)"""
    C.use_repo()
    from jesse.strategies import Strategy
    import jesse.helpers as jh

    seed = script['seed']

    class Scripted(Strategy):
        def _r(self, tag, k=0):
            return h(seed, tag, self.index, k)

        def _digest(self):
            from jesse.store import store
            from jesse.routes import router
            d = []
            # every route's timeframe, and the one-minute candles of every routed symbol (always readable by a strategy)
            routes_ = list(router.all_formatted_routes)
            for sym_ in sorted({(r['exchange'], r['symbol']) for r in routes_}):
                if not any(r['exchange'] == sym_[0] and r['symbol'] == sym_[1] and r['timeframe'] == '1m' for r in routes_):
                    routes_.append({'exchange': sym_[0], 'symbol': sym_[1], 'timeframe': '1m'})
            for r in routes_:
                try:
                    arr = store.candles.get_candles(r['exchange'], r['symbol'], r['timeframe'])
                    last = tuple(float(x) for x in arr[-1]) if len(arr) else ()
                    d.append((r['symbol'], r['timeframe'], len(arr), last, float(arr[:, 1:].sum()) if len(arr) else 0.0))
                except Exception as e:          # reading a higher timeframe may raise (known finding F8): part of the observable view
                    d.append((r['symbol'], r['timeframe'], 'raise:' + type(e).__name__))
            return d

        def _log(self, hook, extra=None):
            from jesse.store import store
            log.append({'k': 'hook', 'hook': hook, 'sym': self.symbol, 'i': self.index, 't': store.app.time, 'price': float(self.price),
                        'qty': float(self.position.qty), 'entry': None if self.position.entry_price is None else float(self.position.entry_price),
                        'balance': float(self.balance), 'view': self._digest() if script.get('digest', True) else None,
                        'active': sorted((o.side, o.type, float(o.qty), float(o.price), bool(o.reduce_only), o.submitted_via) for o in
                                         store.orders.get_active_orders(self.exchange, self.symbol) if o.is_active),
                        'extra': extra})

        def before(self):
            if script.get('raise_before_at') is not None and self.index == script['raise_before_at']:
                raise RuntimeError('scripted failure')
            if script.get('indicator'):
                # a non-sequential indicator: computed on the candle window that helpers.slice_candles cuts with the configured warm-up size
                import jesse.indicators as ta
                try:
                    v = float(ta.ema(self.candles, 20))
                except Exception as e:
                    v = 'raise:' + type(e).__name__
                self._log('before', {'ema20': v})
                return
            self._log('before')

        def after(self):
            self._log('after', {'stop_loss': None if self.stop_loss is None else [list(map(float, r)) for r in self._fmt(self.stop_loss)],
                                'take_profit': None if self.take_profit is None else [list(map(float, r)) for r in self._fmt(self.take_profit)]})

        @staticmethod
        def _fmt(x):
            import numpy as np
            a = np.array(x, dtype=float)
            return a.reshape(-1, 2)

        def _vd(self):
            # decisions that depend on what the strategy can read (all routes' candles), when the script asks for it
            if not script.get('view_dependent'):
                return 0
            import zlib
            return zlib.crc32(repr(self._digest()).encode()) % 1000003

        def should_long(self):
            return script['side'] in ('long', 'both') and (self._r('sl') + self._vd()) % script['entry_every'] == 0

        def should_short(self):
            if script['side'] in ('long', 'both') and (self._r('sl') + self._vd()) % script['entry_every'] == 0:
                return False
            return script['side'] in ('short', 'both') and self.exchange_type != 'spot' and self._r('ss') % script['entry_every'] == 1

        def should_cancel_entry(self):
            v = script['cancel_entry'] == 'always' or (script['cancel_entry'] == 'sometimes' and self._r('ce') % 2 == 0)
            self._log('should_cancel_entry', {'answer': v})
            return v

        def _points(self, direction):
            n = script['points']
            p = self.price
            step = script.get('step', 0.5)
            rows = []
            for k in range(n):
                off = script['offs'][(self._r('off', k)) % len(script['offs'])]
                rows.append((script['qty'], max(step, p + off * step)))
            return rows

        def _exits(self, direction, entry):
            step = script.get('step', 0.5)
            n = script['exit_points']
            q = script['qty'] * script['points'] / n
            d = 1 if direction == 'long' else -1
            sl = [(q, max(step, entry - d * (script['sl_dist'] + 2 * k) * step)) for k in range(n)]
            tp = [(q, max(step, entry + d * (script['tp_dist'] + 2 * k) * step)) for k in range(n)]
            return sl, tp

        def go_long(self):
            self.buy = self._points('long')
            if script['exit_style'] == 'at_entry' and self.exchange_type != 'spot':
                sl, tp = self._exits('long', self.price)
                self.stop_loss, self.take_profit = sl, tp
            self._log('go_long', {'buy': [list(map(float, r)) for r in self.buy]})

        def go_short(self):
            self.sell = self._points('short')
            if script['exit_style'] == 'at_entry':
                sl, tp = self._exits('short', self.price)
                self.stop_loss, self.take_profit = sl, tp
            self._log('go_short', {'sell': [list(map(float, r)) for r in self.sell]})

        def on_open_position(self, order):
            if script.get('nested_market') and self._r('nm') % script['nested_market'] == 0:
                self.liquidate()                   # a MARKET order submitted while the entry order is being executed
                self._log('on_open_position')
                return
            if script['exit_style'] == 'on_open':
                sl, tp = self._exits('long' if self.is_long else 'short', self.position.entry_price)
                if script.get('only') != 'tp':
                    self.stop_loss = [(abs(self.position.qty), sl[0][1])] if script['exit_points'] == 1 else sl
                if script.get('only') != 'sl':
                    self.take_profit = [(abs(self.position.qty), tp[0][1])] if script['exit_points'] == 1 else tp
            self._log('on_open_position')

        def on_close_position(self, order):
            self._log('on_close_position')

        def on_increased_position(self, order):
            self._log('on_increased_position')

        def on_reduced_position(self, order):
            if script['modify'] in ('on_reduce', 'both') and self.position.is_open:
                d = 1 if self.is_long else -1
                step = script.get('step', 0.5)
                self.stop_loss = (abs(self.position.qty), max(step, self.position.entry_price - d * script['sl_dist'] * step))
            self._log('on_reduced_position')

        def on_cancel(self):
            self._log('on_cancel')

        def update_position(self):
            r = self._r('up')
            step = script.get('step', 0.5)
            if script['liquidate_every'] and r % script['liquidate_every'] == 0:
                self.liquidate()
            elif script['modify'] == 'inplace' and r % 2 == 0:
                import numpy as np
                d = 1 if self.is_long else -1
                k = 1 + (r >> 8) % 3
                if isinstance(self.stop_loss, np.ndarray) and (r >> 4) % 2 == 0:
                    self.stop_loss[0][1] = max(step, self.price - d * (script['sl_dist'] + k) * step)      # edited in place
                else:
                    self.stop_loss = [(abs(self.position.qty), max(step, self.price - d * (script['sl_dist'] + k + 1) * step))]
            elif script['modify'] in ('update', 'both') and r % 3 == 0:
                d = 1 if self.is_long else -1
                k = 1 + (r >> 8) % 3
                if (r >> 4) % 2 == 0:
                    self.stop_loss = [(abs(self.position.qty), max(step, self.price - d * (script['sl_dist'] + k) * step))]
                else:
                    self.take_profit = [(abs(self.position.qty), max(step, self.price + d * (script['tp_dist'] + k) * step))]
            if script['raise_at'] is not None and self.index == script['raise_at']:
                raise RuntimeError('scripted failure')
            self._log('update_position')

        def before_terminate(self):
            self._log('before_terminate')

    return Scripted


def gen_script(rng, seed):
    return {'seed': seed, 'entry_every': rng.choice([2, 3, 5]), 'side': rng.choice(['long', 'short', 'both', 'long']),
            'points': rng.choice([1, 1, 2, 3]), 'qty': rng.choice([1.0, 2.0, 0.5, 4.0]),
            'offs': rng.choice([[0], [-2, -1, 0], [1, 2, 0], [-3, 3, 0, -1, 1], [-1, 0, 1]]),
            'exit_style': rng.choice(['at_entry', 'on_open', 'on_open', 'none']), 'exit_points': rng.choice([1, 1, 2]),
            'sl_dist': rng.choice([2, 4, 6, 10]), 'tp_dist': rng.choice([2, 4, 6, 10]),
            'modify': rng.choice(['none', 'update', 'on_reduce', 'both']), 'cancel_entry': rng.choice(['always', 'never', 'sometimes']),
            'liquidate_every': rng.choice([0, 0, 7, 13]), 'raise_at': None, 'step': 0.5}


# ------------------------------------------------------------------------------------------ running a session
class Tap:
    """logs order lifecycle events by wrapping Order.__init__/execute/cancel for the duration of a session"""

    def __init__(self, log, max_submissions=1500, max_seconds=45):
        self.log = log
        self.max_submissions, self.max_seconds = max_submissions, max_seconds

    def __enter__(self):
        C.use_repo()
        from jesse.models import Order
        from jesse.store import store
        self.Order = Order
        self.orig = (Order.__init__, Order.execute, Order.cancel)
        log = self.log
        counter = [0]

        def oid(o):
            # a per-object serial number (Python's id() is reused once an order object is garbage-collected)
            v = getattr(o, '_vid', None)
            if v is None:
                counter[0] += 1
                v = o._vid = counter[0]
            return v
        o_init, o_exec, o_cancel = self.orig

        import time as _time
        started = _time.time()
        subs = [0]

        def init(self_, attributes=None, **kw):
            subs[0] += 1
            if subs[0] > self.max_submissions or _time.time() - started > self.max_seconds:
                # the flip run-away (known finding F16) also shows as an ever growing set of resting orders inside one step: every fill
                # then costs a quadratic sort in the fast simulator
                raise RuntimeError(f'RunawayFills: more than {self.max_submissions} order submissions or {self.max_seconds} s in one session')
            try:
                o_init(self_, attributes, **kw)
            except Exception as e:
                log.append({'k': 'reject', 't': store.app.time, 'err': type(e).__name__,
                            'side': attributes.get('side'), 'type': attributes.get('type'), 'qty': float(attributes.get('qty')), 'price': float(attributes.get('price'))})
                raise
            p = store.positions.storage.get(f'{self_.exchange}-{self_.symbol}')
            log.append({'k': 'submit', 'id': oid(self_), 't': store.app.time, 'sym': self_.symbol, 'side': self_.side, 'type': self_.type,
                        'qty': float(self_.qty), 'price': float(self_.price), 'ro': bool(self_.reduce_only),
                        'cur': None if p is None or p.current_price is None else float(p.current_price),
                        'pos': None if p is None else float(p.qty)})

        fills = [0]

        def execute(self_, silent=False):
            fills[0] += 1
            if fills[0] > max(4000, self.max_submissions):
                # the engine can flip a position back and forth for ever inside one step (known finding F16): abort the session
                raise RuntimeError('RunawayFills: more than 4000 executions in one session')
            was = self_.status
            p = store.positions.storage.get(f'{self_.exchange}-{self_.symbol}')
            before = None if p is None else float(p.qty)
            e = store.exchanges.storage[self_.exchange]
            wb = float(e.assets[e.settlement_currency])
            log.append({'k': 'exec_begin', 'id': oid(self_), 't': store.app.time, 'was': was, 'sym': self_.symbol, 'type': self_.type,
                        'price': float(self_.price), 'qty': float(self_.qty)})
            o_exec(self_, silent)
            log.append({'k': 'execute', 'id': oid(self_), 't': store.app.time, 'was': was, 'now': self_.status, 'via': self_.submitted_via,
                        'sym': self_.symbol, 'type': self_.type, 'price': float(self_.price), 'qty': float(self_.qty),
                        'pos_before': before, 'pos_after': None if p is None else float(p.qty),
                        'wallet_before': wb, 'wallet_after': float(e.assets[e.settlement_currency])})

        def cancel(self_, silent=False, source=''):
            was = self_.status
            o_cancel(self_, silent, source)
            log.append({'k': 'cancel', 'id': oid(self_), 't': store.app.time, 'was': was, 'now': self_.status, 'sym': self_.symbol})
        Order.__init__, Order.execute, Order.cancel = init, execute, cancel
        # every liquidation check the simulators make
        import jesse.modes.backtest_mode as bm
        self.bm = bm
        self.orig_liq = bm._check_for_liquidations

        def liqcheck(candle, exchange, symbol):
            p = store.positions.storage.get(f'{exchange}-{symbol}')
            ev = {'k': 'liqcheck', 't': store.app.time, 'sym': symbol, 'candle': [float(x) for x in candle],
                  'qty': None if p is None else float(p.qty), 'entry': None if p is None or p.entry_price is None else float(p.entry_price),
                  'mode': None if p is None else p.mode, 'lev': None if p is None else float(p.leverage)}
            n0 = len(log)
            l0 = store.app.total_liquidations
            self.orig_liq(candle, exchange, symbol)
            ev['liquidated'] = store.app.total_liquidations - l0
            created = [x for x in log[n0:] if x['k'] == 'submit' and x['type'] == 'MARKET' and x['ro']] if ev['liquidated'] else []
            ev['price'] = float(created[0]['price']) if created else 0.0
            ev['qty_after'] = None if p is None else float(p.qty)
            log.append(ev)
        bm._check_for_liquidations = liqcheck
        # every call of the per-minute / per-chunk matchers
        self.orig_match = (bm._simulate_price_change_effect, bm._simulate_price_change_effect_multiple_candles)
        m1, mN = self.orig_match

        def match1(real_candle, exchange, symbol):
            log.append({'k': 'match', 'sym': symbol, 't': store.app.time, 'candles': [[float(x) for x in real_candle]]})
            try:
                m1(real_candle, exchange, symbol)
            except BaseException:
                log.append({'k': 'match_abort', 'sym': symbol, 't': store.app.time})
                raise
            log.append({'k': 'match_end', 'sym': symbol, 't': store.app.time})

        def matchN(short_candles, exchange, symbol):
            log.append({'k': 'match', 'sym': symbol, 't': store.app.time, 'candles': [[float(x) for x in c] for c in short_candles]})
            try:
                mN(short_candles, exchange, symbol)
            except BaseException:
                log.append({'k': 'match_abort', 'sym': symbol, 't': store.app.time})
                raise
            log.append({'k': 'match_end', 'sym': symbol, 't': store.app.time})
        bm._simulate_price_change_effect, bm._simulate_price_change_effect_multiple_candles = match1, matchN
        return self

    def __exit__(self, *a):
        self.Order.__init__, self.Order.execute, self.Order.cancel = self.orig
        self.bm._check_for_liquidations = self.orig_liq
        self.bm._simulate_price_change_effect, self.bm._simulate_price_change_effect_multiple_candles = self.orig_match


def run_session(candles_by_symbol, routes, data_routes=(), exchange_type='futures', fee=0.0, leverage=2, mode='cross', balance=10000.0,
                fast=False, warmup=None, scripts=None, exchange='Sandbox', with_vids=False):
    """routes: list of (symbol, timeframe); scripts: dict symbol -> script.  Returns dict(trace, error, result, trades, daily, final)."""
    C.use_repo()
    import numpy as np
    import jesse.helpers as jh
    from jesse import research
    from jesse.store import store
    log = []
    cfg = {'starting_balance': balance, 'fee': fee, 'type': exchange_type, 'futures_leverage': leverage, 'futures_leverage_mode': mode,
           'exchange': exchange, 'warm_up_candles': 0 if warmup is None else warmup['num']}
    rts = [{'exchange': exchange, 'strategy': make_strategy(scripts[s], log), 'symbol': s, 'timeframe': tf} for (s, tf) in routes]
    drs = [{'exchange': exchange, 'symbol': s, 'timeframe': tf} for (s, tf) in data_routes]
    cd = {jh.key(exchange, s): {'exchange': exchange, 'symbol': s, 'candles': np.array(c, dtype=float)} for s, c in candles_by_symbol.items()}
    wc = None
    if warmup is not None:
        wc = {jh.key(exchange, s): {'exchange': exchange, 'symbol': s, 'candles': np.array(c, dtype=float)} for s, c in warmup['candles'].items()}
    out = {'trace': log, 'error': None, 'result': None}
    snap = {}
    # capture the store right after the simulator returns, before _isolated_backtest resets it
    import jesse.modes.backtest_mode as bm
    orig_sim = bm.simulator

    def sim(*a, **k):
        r = orig_sim(*a, **k)
        try:
            snap['trades'] = [{'type': t.type, 'qty': float(t.qty), 'entry': float(t.entry_price), 'exit': float(t.exit_price),
                               'pnl': float(t.pnl), 'fee': float(t.fee), 'opened_at': t.opened_at, 'closed_at': t.closed_at,
                               'orders': [(o.side, float(o.qty), float(o.price)) for o in t.orders], 'symbol': t.symbol,
                               'order_vids': [getattr(o, '_vid', None) for o in t.orders]}
                              for t in store.completed_trades.trades]
            snap['daily'] = [float(x) for x in store.app.daily_balance]
            e = store.exchanges.storage[exchange]
            snap['final'] = {k_: float(v) for k_, v in e.assets.items()}
            snap['liquidations'] = store.app.total_liquidations
            snap['positions'] = {k_: float(p.qty) for k_, p in store.positions.storage.items()}
            # the one-minute candles every strategy can read, as stored at the end of the session
            import zlib as _z
            snap['stored_1m'] = {k_: [len(a_), _z.crc32(repr([[float(x) for x in r_] for r_ in a_[:]]).encode())]
                                 for k_, a_ in store.candles.storage.items() if k_.endswith('-1m')}
        except Exception as ex:
            snap['snap_error'] = repr(ex)
        return r
    lim = max((sc.get('max_submissions', 1500) for sc in (scripts or {}).values()), default=1500)
    with Tap(log, max_submissions=lim, max_seconds=45 if lim <= 1500 else 240):
        bm.simulator = sim
        try:
            out['result'] = research.backtest(cfg, rts, drs, cd, warmup_candles=wc, fast_mode=fast, generate_equity_curve=False)
        except Exception as e:
            out['error'] = type(e).__name__ + ': ' + str(e)[:200]
        finally:
            bm.simulator = orig_sim
    out.update(snap)
    return out
