"""C18 — DynamicNumpyArray refines a plain list of rows.

proof:          Props/C18.v (refinement of the list spec by the hand-written model, all op lists)
correspondence: model (Model/DynArray.v) vs the real class on generated op sequences
search:         the list spec (Spec/ListSpec.v) evaluated against the real class's observations
"""
import itertools
import json
import os

from . import common as C

PID = 'C18'
THEOREMS = ['C18_refines_list', 'C18_no_spurious_error', 'C18_drop_is_suffix']


# ---------------------------------------------------------------------------- reference list (generator only)
class Ref:
    def __init__(self, drop):
        self.l = []
        self.drop = drop

    def _drop(self):
        d = self.drop
        if d is not None and len(self.l) != 1 and len(self.l) % d == 0:
            self.l = self.l[d // 2:]

    def apply(self, op):
        """apply op; return the list's observable output (used by the generator and, as a cheap
        pre-filter only, by the shrinker; verdicts always come from Coq's Spec.ListSpec)"""
        k = op[0]
        l = self.l
        if k == 'append':
            l.append(op[1]); self._drop(); return ('none',)
        if k == 'appendmany':
            l.extend(op[1]); self._drop(); return ('none',)
        if k == 'delete':
            del l[op[1]]; return ('none',)
        if k == 'flush':
            self.l = []; return ('none',)
        if k == 'seti':
            l[op[1]] = op[2]; return ('none',)
        if k == 'sets':
            if len(l[op[1]:op[2]]) != len(op[3]): raise IndexError
            l[op[1]:op[2]] = op[3]; return ('none',)
        if k == 'len': return ('len', len(l))
        if k == 'geti': return ('row', l[op[1]])
        if k == 'gets': return ('rows', list(l[op[1]:op[2]]))
        if k == 'last': return ('row', l[-1])
        if k == 'past':
            if not 0 <= op[1] < len(l): raise IndexError
            return ('row', l[len(l) - 1 - op[1]])


def py_spec_fails(case):
    """cheap pre-filter: does the implementation differ from a Python list on this (list-valid) case?"""
    b, d, ops = case
    ref = Ref(d)
    obs = run_impl([case])[0]
    for op, ob in zip(ops, obs):
        try:
            exp = ref.apply(op)
        except (IndexError, ValueError):
            return False        # not valid on the list: outside the property
        if tuple(exp) != tuple(ob):
            return True
    return False


def gen_random(rng, nops, bucket, drop, malformed=False):
    ref = Ref(drop)
    ctr = [0]

    def fresh():
        ctr[0] += 1
        return ctr[0]
    ops = []
    for _ in range(nops):
        n = len(ref.l)
        r = rng.random()
        bnd = lambda: rng.choice([None] + list(range(-n - 2, n + 3)))
        if malformed and r < 0.08:
            k = rng.choice(['geti', 'seti', 'last', 'past', 'delete'])
            i = rng.choice([n, n + 1, -n - 1, -n - 2])
            if k == 'geti': ops.append(('geti', i))
            elif k == 'seti': ops.append(('seti', i, fresh()))
            elif k == 'last':
                if n == 0: ops.append(('last',))
            elif k == 'past': ops.append(('past', n + rng.randrange(0, 2)))
            elif k == 'delete' and n == 0: pass
            continue
        if r < 0.30 or n == 0 and r < 0.6:
            op = ('append', fresh())
        elif r < 0.40:
            op = ('appendmany', [fresh() for _ in range(rng.choice([0, 1, 2, 3, bucket, bucket + 1, 2 * bucket + 1]))])
        elif r < 0.50 and n > 0:
            op = ('delete', rng.randrange(-n, n))
        elif r < 0.52:
            op = ('flush',)
        elif r < 0.60 and n > 0:
            op = ('seti', rng.randrange(-n, n), fresh())
        elif r < 0.68:
            lo, hi = bnd(), bnd()
            cnt = len(ref.l[lo:hi])
            op = ('sets', lo, hi, [fresh() for _ in range(cnt)])
        elif r < 0.74:
            op = ('len',)
        elif r < 0.82 and n > 0:
            op = ('geti', rng.randrange(-n, n))
        elif r < 0.94:
            op = ('gets', bnd(), bnd())
        elif r < 0.97 and n > 0:
            op = ('last',)
        elif n > 0:
            op = ('past', rng.randrange(0, n))
        else:
            op = ('len',)
        ref.apply(op)
        ops.append(op)
    return ops


OBSERVE = [('len',), ('last',), ('past', 0), ('past', 1), ('geti', 0), ('geti', 1), ('geti', -1), ('geti', -2), ('geti', 3),
           ('gets', None, None), ('gets', -2, None), ('gets', None, -1), ('gets', 1, 3), ('gets', -3, -1), ('gets', -9, 9),
           ('gets', 2, 1), ('gets', 0, -9)]


def gen_enumerated(maxlen, buckets, drops):
    """every mutator sequence up to maxlen, each followed by the observation battery (valid observers only)"""
    cases = []
    for b in buckets:
        for d in drops:
            for L in range(0, maxlen + 1):
                for seq in itertools.product(range(8), repeat=L):
                    ref = Ref(d)
                    ctr = 0
                    ops = []
                    ok = True
                    for m in seq:
                        n = len(ref.l)
                        if m == 0:
                            ctr += 1; op = ('append', ctr)
                        elif m == 1:
                            op = ('appendmany', [ctr + 1, ctr + 2]); ctr += 2
                        elif m == 2:
                            op = ('appendmany', [ctr + 1, ctr + 2, ctr + 3]); ctr += 3
                        elif m == 3:
                            if n == 0: ok = False; break
                            op = ('delete', 0)
                        elif m == 4:
                            if n == 0: ok = False; break
                            op = ('delete', -1)
                        elif m == 5:
                            if n < 2: ok = False; break
                            ctr += 1; op = ('seti', 1, ctr)
                        elif m == 6:
                            op = ('flush',)
                        else:
                            cnt = len(ref.l[-2:])
                            op = ('sets', -2, None, [ctr + 1 + j for j in range(cnt)]); ctr += cnt
                        ref.apply(op); ops.append(op)
                    if not ok:
                        continue
                    n = len(ref.l)
                    for o in OBSERVE:
                        if o[0] == 'last' and n == 0: continue
                        if o[0] == 'past' and not (0 <= o[1] < n): continue
                        if o[0] == 'geti' and not (-n <= o[1] < n): continue
                        ops.append(o)
                    cases.append((b, d, ops))
    return cases


# ---------------------------------------------------------------------------- implementation driver
def run_impl(cases):
    C.use_repo()
    import numpy as np
    from jesse.libs import DynamicNumpyArray
    out = []
    for (b, d, ops) in cases:
        a = DynamicNumpyArray((b, 2), drop_at=d)
        obs = []

        def row(c): return np.array([c, 10 * c], dtype=float)

        def unrow(r):
            r = np.asarray(r)
            if r.shape != (2,) or r[1] != 10 * r[0] or r[0] != int(r[0]): return -999
            return int(r[0])
        for op in ops:
            k = op[0]
            try:
                if k == 'len': obs.append(('len', len(a)))
                elif k == 'geti': obs.append(('row', unrow(a[op[1]])))
                elif k == 'gets':
                    v = a[op[1]:op[2]]
                    obs.append(('rows', [unrow(x) for x in v]))
                elif k == 'seti': a[op[1]] = row(op[2]); obs.append(('none',))
                elif k == 'sets':
                    a[op[1]:op[2]] = np.array([row(c) for c in op[3]]).reshape(len(op[3]), 2); obs.append(('none',))
                elif k == 'append': a.append(row(op[1])); obs.append(('none',))
                elif k == 'appendmany':
                    a.append_multiple(np.array([row(c) for c in op[1]]).reshape(len(op[1]), 2)); obs.append(('none',))
                elif k == 'delete': a.delete(op[1], axis=0); obs.append(('none',))
                elif k == 'flush': a.flush(); obs.append(('none',))
                elif k == 'last': obs.append(('row', unrow(a.get_last_item())))
                elif k == 'past': obs.append(('row', unrow(a.get_past_item(op[1]))))
            except IndexError:
                obs.append(('err', 'IndexError'))
            except ValueError:
                obs.append(('err', 'ShapeError'))
            except Exception as e:  # anything else is a third kind
                obs.append(('err', 'Other:' + type(e).__name__))
        out.append(obs)
    return out


# ---------------------------------------------------------------------------- Coq encoding
def c_op(op):
    k = op[0]
    z, o = C.cz, C.copt
    if k == 'len': return 'Len'
    if k == 'geti': return f'GetI {z(op[1])}'
    if k == 'gets': return f'GetS {o(op[1])} {o(op[2])}'
    if k == 'seti': return f'SetI {z(op[1])} {z(op[2])}'
    if k == 'sets': return f'SetS {o(op[1])} {o(op[2])} {C.clist([z(c) for c in op[3]])}'
    if k == 'append': return f'Append {z(op[1])}'
    if k == 'appendmany': return f'AppendMany {C.clist([z(c) for c in op[1]])}'
    if k == 'delete': return f'Delete {z(op[1])}'
    if k == 'flush': return 'Flush'
    if k == 'last': return 'Last'
    if k == 'past': return f'Past {z(op[1])}'
    raise ValueError(k)


def c_obs(ob):
    k = ob[0]
    if k == 'none': return 'Ok ONone'
    if k == 'len': return f'Ok (OLen {C.cz(ob[1])})'
    if k == 'row': return f'Ok (ORow {C.cz(ob[1])})'
    if k == 'rows': return f'Ok (ORows {C.clist([C.cz(x) for x in ob[1]])})'
    if k == 'err':
        if ob[1] == 'IndexError': return 'Err IndexError'
        if ob[1] == 'ShapeError': return 'Err ShapeError'
        return 'Ok (OLen (-12345)%Z)'   # an exception class the model never produces: forces a mismatch
    raise ValueError(k)


def coq_file(cases, obs):
    cs = []
    for (b, d, ops), ob in zip(cases, obs):
        cs.append(f'({C.cnat(b)}, {C.copt(d)}, {C.clist([c_op(o) for o in ops])}, {C.clist([c_obs(x) for x in ob])})')
    return ('From Coq Require Import ZArith List.\nFrom JV Require Import Spec.ListSpec Model.DynArray Run.Harness Run.C18Run.\n'
            'Import ListNotations.\nDefinition cases : list case := [\n' + ';\n'.join(cs) + '\n].\n'
            'Eval vm_compute in (bad_indices (map model_agrees cases)).\n'
            'Eval vm_compute in (bad_indices (map impl_meets_spec cases)).\n'
            'Eval vm_compute in (length (filter is_valid cases)).\n')


def evaluate(cases, obs, tag):
    shards = []
    SH = 400
    for i in range(0, len(cases), SH):
        shards.append((f'c18_{tag}_{i // SH}', coq_file(cases[i:i + SH], obs[i:i + SH])))
    outs = C.coq_eval_many(shards)
    bad_model, bad_spec, nvalid, errs = [], [], 0, []
    for si, (rc, out) in enumerate(outs):
        r = C.parse_results(out)
        if rc != 0 or len(r) != 3:
            errs.append(out[-2000:])
            continue
        bad_model += [si * SH + k for k in C.parse_nat_list(r[0])]
        bad_spec += [si * SH + k for k in C.parse_nat_list(r[1])]
        nvalid += C.parse_nat_list(r[2])[0]
    return bad_model, bad_spec, nvalid, errs


def classify(case):
    """site label of a failing case: the set of operation kinds involved in the minimal failing prefix"""
    b, d, ops = case
    kinds = sorted({o[0] for o in ops if o[0] in ('append', 'appendmany', 'delete', 'flush', 'sets', 'seti')})
    last = ops[-1][0] if ops else '-'
    return f"dynarray:{'+'.join(kinds)}->{last}" + (':drop' if d is not None else '')


def shrink(case, fails):
    """remove ops while the case still fails; `fails(case) -> bool`"""
    b, d, ops = case
    # cut after the first failing observation: find the minimal prefix
    lo = 1
    for n in range(1, len(ops) + 1):
        if fails((b, d, ops[:n])):
            ops = ops[:n]
            break
    changed = True
    while changed:
        changed = False
        for i in range(len(ops) - 1):
            cand = ops[:i] + ops[i + 1:]
            try:
                if fails((b, d, cand)):
                    ops = cand
                    changed = True
                    break
            except Exception:
                pass
    return (b, d, ops)


def run(tier, seed, replay=None):
    res = C.Result(PID, tier, seed)
    res.trusted = ['Coq 8.16.1 kernel + vm_compute (model evaluation)', 'harness/c18.py (generator, driver of DynamicNumpyArray, encoding of observations)',
                   'numpy semantics of a[i], a[s:e], slice assignment, np.delete, np.concatenate as written in Model/DynArray.v']
    res.assumptions = ['rows are compared by identity of an integer tag (row = [c, 10c])',
                       'views returned by __getitem__ alias the backing store; aliasing is not modelled',
                       'delete is exercised with axis=0 as every caller in jesse does', 'slice step is not modelled (contiguous slices)']
    proof_ok = C.standard_proof_step(res, 'Props.C18', THEOREMS, ['theories/Props/C18.vo', 'theories/Run/C18Run.vo'])

    if replay:
        cases = [tuple(json.load(open(replay))['replay']['case'])]
        cases = [(c[0], c[1], [tuple(o) for o in c[2]]) for c in cases]
    else:
        cases = []
        corpus = os.path.join(C.VERIF, 'corpus', PID, 'cases.json')
        if os.path.exists(corpus):
            for c in json.load(open(corpus)):
                cases.append((c[0], c[1], [tuple(o) for o in c[2]]))
        ncorpus = len(cases)
        rng = C.rng_for(seed, PID)
        nrand = 1600 if tier == 'quick' else 12000
        for i in range(nrand):
            b = rng.choice([1, 2, 3, 4, 5, 10])
            d = rng.choice([None, None, None, 4, 6, 5, 2])
            cases.append((b, d, gen_random(rng, rng.choice([5, 12, 30, 80] if tier == 'quick' else [5, 12, 30, 80, 200]), b, d,
                                           malformed=(i % 5 == 4))))
        if tier == 'quick':
            cases += gen_enumerated(3, [1, 2, 3], [None, 4])
        else:
            cases += gen_enumerated(5, [1, 2, 3], [None, 4, 6])
    obs = run_impl(cases)
    bad_model, bad_spec, nvalid, errs = evaluate(cases, obs, tier)
    res.oblige('correspondence harness evaluated every shard', not errs, '\n'.join(errs))
    res.oblige('correspondence: model of DynamicNumpyArray = implementation on every generated history', not bad_model,
               json.dumps([cases[i] for i in bad_model[:3]], default=str))
    distinct = len({json.dumps(c, default=str) for c in cases if any(o[0] in ('append', 'appendmany') for o in c[2])})
    hist = {}
    for c in cases:
        for o in c[2]:
            hist[o[0]] = hist.get(o[0], 0) + 1
    res.add_cases(len(cases), distinct, [{'bucket': c[0], 'drop_at': c[1], 'ops': c[2][:12]} for c in cases[-3:]],
                  'random op sequences (mostly valid on the list, every 5th with out-of-range index ops) + every mutator sequence up to '
                  'length 3 (quick) / 5 (thorough) followed by an observation battery; non-trivial = distinct and containing an append')
    res.extra.update({'op_histogram': hist, 'cases_valid_on_list': nvalid, 'model_mismatches': len(bad_model),
                      'errors_in_impl_observations': sum(1 for ob in obs for x in ob if x[0] == 'err'),
                      'monitor_evaluations': len(cases)})
    # search / property on implementation observations
    seen = set()
    todo = sorted(bad_spec, key=lambda i: len(cases[i][2]))[:12]
    for i in todo:
        small = shrink(cases[i], py_spec_fails) if py_spec_fails(cases[i]) else cases[i]
        site = classify(small)
        if site in seen:
            continue
        seen.add(site)
        o = run_impl([small])
        _, still, _, e2 = evaluate([small], o, 'confirm')
        if not still:
            small, o = cases[i], run_impl([cases[i]])
        res.violation(site, 'operation sequence valid on a list on which DynamicNumpyArray differs from the list',
                      {'case': small, 'implementation_observed': o[0], 'how': 'outputs differ from Spec.ListSpec.lrun (evaluated by Coq)'})
    return res.finish()
