"""child interpreter for the indicator monitors: ind_child.py <c13|c14|c15> <tier> <seed> <out.json> <progress.json>"""
import importlib
import json
import os
import sys

sys.path.insert(0, '/verif')


def main():
    which, tier, seed, out, prog = sys.argv[1:6]
    mod = importlib.import_module('harness.' + which)

    def progress(d):
        tmp = prog + '.tmp'
        with open(tmp, 'w') as f:
            json.dump(d, f, default=str)
        os.replace(tmp, prog)
    res = mod.monitor(tier, int(seed), progress)
    with open(out, 'w') as f:
        json.dump(res, f, default=str)


if __name__ == '__main__':
    main()
