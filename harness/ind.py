"""shared machinery for C13 / C14 / C15: the core indicator models (Model/Indicators.v) against jesse.indicators, and metamorphic monitors
over every public indicator"""
import inspect
import json
import math
import warnings
from fractions import Fraction

from . import common as C

HDR = ('From Coq Require Import ZArith QArith Qcanon List Bool Arith.\nFrom JV Require Import Base.Num Model.CandleView Model.Indicators Run.Harness Run.IndRun.\n'
       'Import ListNotations.\n')


def qq(x):
    fr = Fraction(float(x))
    return f'(q {C.cz(fr.numerator)} {C.cz(fr.denominator)})'


def ser(a):
    return C.clist(['None' if (v is None or (isinstance(v, float) and (math.isnan(v) or math.isinf(v)))) else f'(Some {qq(v)})' for v in a])


def kcs(cs):
    return C.clist([f'(mk {C.cz(int(c[0]))} {qq(c[1])} {qq(c[2])} {qq(c[3])} {qq(c[4])} {qq(c[5])})' for c in cs])


def qs(xs):
    return C.clist([qq(x) for x in xs])


def gen_series(rng, n, style=None):
    """candles [ts, o, c, h, l, v] on a coarse lattice (exactly representable, so that the rational model sees the same inputs)"""
    style = style or rng.choice(['walk', 'trend', 'flat', 'alternating', 'constant', 'spiky', 'big', 'tiny'])
    if style == 'awkward':
        # not on the lattice: a constant that is not a dyadic rational, a walk that goes flat on such a value (rounding of x*x sums matters)
        v = rng.choice([0.1, 0.3, 1.1, 84.3, 123456.789, 1e9 / 7])
        out = []
        for i in range(n):
            x = v if (i > n // 3 or rng.random() < 0.5) else v * (1 + rng.randrange(-3, 4) / 100.0)
            out.append([1600000000000 + i * 60000, x, x, x, x, float(rng.randrange(1, 64))])
        return out, style
    if style in ('noisy_then_flat', 'flat_then_noisy'):
        # fractional (not dyadic) noisy prices followed / preceded by a halted market on a round value: sums carried across windows keep the
        # rounding residue of prices that have left the window, a windowed value must not
        base = rng.choice([100.0, 64.0, 2500.0])
        flat_from, flat_to = (n // 2, n) if style == 'noisy_then_flat' else (0, n // 2)
        out = []
        for i in range(n):
            if flat_from <= i < flat_to:
                o = c = hi = lo = base
            else:
                o = base * (1 + rng.uniform(-0.03, 0.03)); c = base * (1 + rng.uniform(-0.03, 0.03))
                hi = max(o, c) * (1 + rng.uniform(0, 0.01)); lo = min(o, c) * (1 - rng.uniform(0, 0.01))
            out.append([1600000000000 + i * 60000, o, c, hi, lo, float(rng.randrange(1, 64))])
        return out, style
    scale = {'big': 1048576.0, 'tiny': 1 / 1024.0}.get(style, 1.0)
    p = 100.0
    out = []
    for i in range(n):
        if style == 'constant':
            o = c = hi = lo = p
        else:
            o = p
            if style in ('walk', 'spiky', 'trend', 'big', 'tiny') and rng.random() < 0.25:
                o = max(1.0, p + rng.choice([-4, -2, -1, 1, 2, 4]) * 0.25)          # the open is not the previous close: a gap
            step = {'walk': rng.randrange(-8, 9), 'trend': rng.randrange(-2, 9), 'flat': rng.choice([0, 0, 0, 1, -1]), 'alternating': (4 if i % 2 else -4),
                    'spiky': rng.choice([0, 1, -1, 30, -30]), 'big': rng.randrange(-8, 9), 'tiny': rng.randrange(-8, 9)}[style]
            c = max(1.0, o + step * 0.25)
            hi = max(o, c) + rng.choice([0, 0.25, 0.5, 1.0])
            lo = max(0.25, min(o, c) - rng.choice([0, 0.25, 0.5, 1.0]))
        out.append([1600000000000 + i * 60000, o * scale, c * scale, hi * scale, lo * scale, float(rng.randrange(1, 64))])
        p = c
    return out, style


# name -> (coq model expression builder, implementation call, input kind, scale builder, compare mode)
def core_models():
    C.use_repo()
    import numpy as np
    import jesse.indicators as ta

    def src(f):
        return lambda cs, p: f(np.array(cs), p, sequential=True)
    M = {
        'sma': (lambda x, p: f'(sma {p}%nat {x})', lambda cs, p: ta.sma(np.array(cs), p, sequential=True), 'close', 'exact'),
        'ema': (lambda x, p: f'(ema {p}%nat {x})', lambda cs, p: ta.ema(np.array(cs), p, sequential=True), 'close', 'exact'),
        'wma': (lambda x, p: f'(wma {p}%nat {x})', lambda cs, p: ta.wma(np.array(cs), p, sequential=True), 'close', 'exact'),
        'trima': (lambda x, p: f'(trima {p}%nat {x})', lambda cs, p: ta.trima(np.array(cs), p, sequential=True), 'close', 'exact'),
        'roc': (lambda x, p: f'(roc {p}%nat {x})', lambda cs, p: ta.roc(np.array(cs), p, sequential=True), 'close', 'exact'),
        'mom': (lambda x, p: f'(mom {p}%nat {x})', lambda cs, p: ta.mom(np.array(cs), p, sequential=True), 'close', 'exact'),
        'var': (lambda x, p: f'(var {p}%nat {x})', lambda cs, p: ta.var(np.array(cs), p, sequential=True), 'close', 'square'),
        'wilders': (lambda x, p: f'(some (wilders {p}%nat {x}))', lambda cs, p: ta.wilders(np.array(cs), p, sequential=True), 'close', 'exact'),
        'dema': (lambda x, p: f'(some (dema {p}%nat {x}))', lambda cs, p: ta.dema(np.array(cs), p, sequential=True), 'close', 'exact'),
        'tema': (lambda x, p: f'(some (tema {p}%nat {x}))', lambda cs, p: ta.tema(np.array(cs), p, sequential=True), 'close', 'exact'),
        'macd': (lambda x, p: f'(some (macd_line {p}%nat {2 * p + 1}%nat {x}))', lambda cs, p: ta.macd(np.array(cs), p, 2 * p + 1, 5, sequential=True).macd, 'close', 'exact'),
        'macd_signal': (lambda x, p: f'(some (macd_signal {p}%nat {2 * p + 1}%nat 5%nat {x}))', lambda cs, p: ta.macd(np.array(cs), p, 2 * p + 1, 5, sequential=True).signal, 'close', 'exact'),
        'macd_hist': (lambda x, p: f'(some (macd_hist {p}%nat {2 * p + 1}%nat 5%nat {x}))', lambda cs, p: ta.macd(np.array(cs), p, 2 * p + 1, 5, sequential=True).hist, 'close', 'exact'),
        'rsi': (lambda x, p: f'(rsi {p}%nat {x})', lambda cs, p: ta.rsi(np.array(cs), p, sequential=True), 'close', 'bounded'),
        'atr': (lambda x, p: f'(atr {p}%nat {x})', lambda cs, p: ta.atr(np.array(cs), p, sequential=True), 'candles', 'exact'),
        'obv': (lambda x, p: f'(some (obv {x}))', lambda cs, p: ta.obv(np.array(cs), sequential=True), 'candles', 'exact'),
        'donchian_upper': (lambda x, p: f'(donchian_upper {p}%nat {x})', lambda cs, p: ta.donchian(np.array(cs), p, sequential=True).upperband, 'candles', 'exact'),
        'donchian_middle': (lambda x, p: f'(donchian_middle {p}%nat {x})', lambda cs, p: ta.donchian(np.array(cs), p, sequential=True).middleband, 'candles', 'exact'),
        'donchian_lower': (lambda x, p: f'(donchian_lower {p}%nat {x})', lambda cs, p: ta.donchian(np.array(cs), p, sequential=True).lowerband, 'candles', 'exact'),
        'willr': (lambda x, p: f'(willr {p}%nat {x})', lambda cs, p: ta.willr(np.array(cs), p, sequential=True), 'candles', 'bounded'),
        'stoch_k': (lambda x, p: f'(stoch_k {p}%nat {x})', lambda cs, p: ta.stochf(np.array(cs), p, 3, 0, sequential=True).k, 'candles', 'defined'),
        'mfi': (lambda x, p: f'(mfi {p}%nat {x})', lambda cs, p: ta.mfi(np.array(cs), p, sequential=True), 'candles', 'bounded'),
        'keltner_upper': (lambda x, p: f'(keltner_upper {p}%nat (qofnat {p % 3 + 1}) {x})', lambda cs, p: ta.keltner(np.array(cs), p, p % 3 + 1, sequential=True).upperband, 'candles', 'exact'),
        'keltner_middle': (lambda x, p: f'(keltner_middle {p}%nat {x})', lambda cs, p: ta.keltner(np.array(cs), p, p % 3 + 1, sequential=True).middleband, 'candles', 'exact'),
        'keltner_lower': (lambda x, p: f'(keltner_lower {p}%nat (qofnat {p % 3 + 1}) {x})', lambda cs, p: ta.keltner(np.array(cs), p, p % 3 + 1, sequential=True).lowerband, 'candles', 'exact'),
        'typprice': (lambda x, p: f'(some (typprice {x}))', lambda cs, p: ta.typprice(np.array(cs), sequential=True), 'candles', 'exact'),
        'medprice': (lambda x, p: f'(some (medprice {x}))', lambda cs, p: ta.medprice(np.array(cs), sequential=True), 'candles', 'exact'),
    }
    return M


def correspondence(rng, n_cases):
    """returns (cases run, failing cases, errors)"""
    M = core_models()
    names = sorted(M)
    cases = []
    for k in range(n_cases):
        name = names[k % len(names)]
        build, impl, kind, mode = M[name]
        p = rng.choice([2, 3, 5, 9, 14, 20])
        n = rng.choice([3, 8, 20, 45, 70, p - 1, p, p + 1, p + 2])          # lengths around the period matter: that is where the NaN prefix ends
        n = max(2, n)
        cs, style = gen_series(rng, n)
        with warnings.catch_warnings():
            warnings.simplefilter('ignore')
            try:
                got = [float(v) for v in impl(cs, p)]
            except Exception as e:
                cases.append({'name': name, 'period': p, 'style': style, 'n': n, 'error': type(e).__name__ + ': ' + str(e)[:120]}); continue
        x = kcs(cs) if kind == 'candles' else qs([c[2] for c in cs])
        level = max(abs(c[3]) for c in cs)
        scale = {'exact': level, 'square': level * level, 'bounded': 100.0, 'defined': 100.0}[mode]
        cmp_ = 'series_close_where_defined' if mode == 'defined' else 'series_close'
        cases.append({'name': name, 'period': p, 'style': style, 'n': n, 'term': f'({cmp_} {qq(scale)} {build(x, p)} {ser(got)})', 'candles': cs, 'got': got})
    good = [c for c in cases if 'term' in c]
    jobs = []
    SH = 25
    for j in range(0, len(good), SH):
        body = ';\n'.join(c['term'] for c in good[j:j + SH])
        jobs.append((f'ind_c_{j // SH}', j, HDR + f'Definition rs : list bool := [\n{body}\n].\nEval vm_compute in (bad_indices rs).\n'))
    outs = C.coq_eval_many([(j[0], j[2]) for j in jobs], timeout=1500)
    bad, errs = [], []
    for j, (rc, o) in zip(jobs, outs):
        r = C.parse_results(o)
        if rc != 0 or len(r) != 1:
            errs.append(o[-600:]); continue
        bad += [good[j[1] + i] for i in C.parse_nat_list(r[0])]
    return cases, bad, errs


# ------------------------------------------------------------------------------------------ monitors over every public indicator
def all_indicators():
    C.use_repo()
    import jesse.indicators as ta
    out = []
    for n in sorted(dir(ta)):
        f = getattr(ta, n)
        if n.startswith('_') or not callable(f) or inspect.isclass(f):
            continue
        try:
            sig = inspect.signature(f)
        except (TypeError, ValueError):
            continue
        if 'sequential' in sig.parameters:
            out.append((n, f, sig))
    return out


def variants(sig, rng):
    """default parameters, and one variant with every integer period-like parameter changed and another source type"""
    v = [{}]
    alt = {}
    for name, prm in sig.parameters.items():
        if name in ('candles', 'sequential'):
            continue
        if isinstance(prm.default, bool):
            continue
        if isinstance(prm.default, int) and ('period' in name or name in ('length', 'lookback', 'window')) and prm.default >= 2:
            alt[name] = max(2, prm.default + rng.choice([-1, 2, 3])) if prm.default > 2 else 3
        if name == 'source_type':
            alt[name] = rng.choice(['high', 'low', 'open', 'hl2', 'hlc3', 'ohlc4'])
    if alt:
        v.append(alt)
    # integer "type" selectors (matype, devtype, ...): one more variant per run, with a non-default selection
    sel = {}
    for name, prm in sig.parameters.items():
        if isinstance(prm.default, int) and not isinstance(prm.default, bool) and name.endswith('type') and name != 'source_type':
            sel[name] = rng.choice([1, 2]) if name == 'devtype' else rng.choice([0, 1, 2, 3, 4, 5, 9, 12])
    if sel:
        v.append(sel)
    # "mode"/"method" selectors switch between different formulas: every value is its own variant (values the function rejects are skipped by the caller)
    for name, prm in sig.parameters.items():
        if isinstance(prm.default, int) and not isinstance(prm.default, bool) and (name.endswith('mode') or name.endswith('method') or name == 'kind'):
            for val in range(0, 6):
                if val != prm.default:
                    v.append({name: val})
    return v


def period_values(sig, params):
    out = []
    for name, prm in sig.parameters.items():
        val = params.get(name, prm.default)
        if isinstance(val, int) and not isinstance(val, bool) and ('period' in name or name in ('length', 'lookback', 'window')):
            out.append(val)
    return out


def call(f, sig, arr, sequential, params):
    import numpy as np
    kw = dict(params)
    extra = []
    names = list(sig.parameters)
    # indicators that compare with a second series get the same series shifted
    for nm in names[1:]:
        prm = sig.parameters[nm]
        if prm.default is inspect.Parameter.empty and nm not in ('sequential',) and prm.kind in (prm.POSITIONAL_OR_KEYWORD,):
            other = arr.copy(); other[:, 1:5] = other[:, 1:5] * 1.5 + 3.0
            kw[nm] = other
    with warnings.catch_warnings():
        warnings.simplefilter('ignore')
        return f(arr, sequential=sequential, **kw)


def fields(res):
    """result -> {field: array or scalar}"""
    import numpy as np
    if isinstance(res, tuple) and hasattr(res, '_fields'):
        return {k: getattr(res, k) for k in res._fields}
    if isinstance(res, tuple):
        return {str(i): v for i, v in enumerate(res)}
    return {'value': res}


def same(a, b, scale):
    """two floats equal up to rounding (NaN = NaN, inf = inf)"""
    a = float('nan') if a is None else a           # a few indicators return None for "no value yet"
    b = float('nan') if b is None else b
    try:
        a = float(a); b = float(b)
    except (TypeError, ValueError):
        return a == b
    if math.isnan(a) or math.isnan(b):
        return math.isnan(a) and math.isnan(b)
    if math.isinf(a) or math.isinf(b):
        return a == b
    return abs(a - b) <= 1e-6 * (abs(a) + abs(b)) + 1e-9 * scale


def numeric_array(v):
    import numpy as np
    try:
        a = np.asarray(v, dtype=float)
        return a if a.ndim == 1 else None
    except (TypeError, ValueError):
        return None


def run_child(which, tier, seed):
    """run harness.<which>.monitor in a child interpreter; a crash of the child is reported with the call it was making"""
    import os
    import subprocess
    d = os.path.join(C.BUILD, 'run')
    os.makedirs(d, exist_ok=True)
    out = os.path.join(d, f'{which}_monitor.json')
    prog = os.path.join(d, f'{which}_progress.json')
    for pth in (out, prog):
        if os.path.exists(pth):
            os.remove(pth)
    env = dict(os.environ, PYTHONPATH=C.VERIF, PYTHONHASHSEED='0', PYTHONWARNINGS='ignore')
    r = subprocess.run(['/venv/bin/python', os.path.join(C.VERIF, 'harness', 'ind_child.py'), which, tier, str(seed), out, prog],
                       stdout=subprocess.PIPE, stderr=subprocess.PIPE, text=True, env=env, cwd=C.VERIF)
    if r.returncode == 0 and os.path.exists(out):
        return json.load(open(out))
    last = None
    try:
        last = json.load(open(prog))
    except Exception:
        pass
    return {'crash': dict(last or {}, returncode=r.returncode, stderr_tail=r.stderr[-400:])}
