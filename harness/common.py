"""Shared plumbing of the /verif checks: Coq build + evaluation, evidence, verdicts, findings.

Everything here runs under /venv/bin/python (the interpreter that has jesse's dependencies);
jesse itself is imported from /repo's *working tree* (sys.path[0:0] = /repo), outside pytest.
"""
import fcntl
import hashlib
import json
import os
import random
import re
import subprocess
import sys
import time
from concurrent.futures import ThreadPoolExecutor

VERIF = os.path.dirname(os.path.dirname(os.path.abspath(__file__)))
REPO = os.environ.get('VERIF_REPO', '/repo')
COQ = os.path.join(VERIF, 'coq')
BUILD = os.path.join(VERIF, 'build')
EVID = os.path.join(VERIF, 'evidence')
REPLAY = os.path.join(BUILD, 'replay')
PY = '/venv/bin/python'
NCPU = int(os.environ.get('VERIF_JOBS', '16'))

ALLOWED_AXIOMS_STDLIB = {
    # standard-library axioms a theorem may depend on (named in DESIGN.md section 8)
    'ClassicalDedekindReals.sig_forall_dec', 'ClassicalDedekindReals.sig_not_dec',
    'FunctionalExtensionality.functional_extensionality_dep',
    'Classical_Prop.classic', 'Eqdep.Eq_rect_eq.eq_rect_eq', 'ProofIrrelevance.proof_irrelevance',
}
PRIMITIVE_PREFIXES = ('PrimFloat.', 'Uint63.', 'PrimInt63.', 'FloatAxioms.', 'Uint63Axioms.', 'FloatOps.', 'Sint63')


def impl_env():
    e = dict(os.environ)
    e['PYTHONPATH'] = REPO
    e['PYTHONHASHSEED'] = '0'
    e['NUMBA_CACHE_DIR'] = os.path.join(BUILD, 'numba')
    e['PYTHONWARNINGS'] = 'ignore'
    e['JESSE_VERIF'] = '1'
    return e


def use_repo():
    """make `import jesse` resolve to /repo's working tree in this process"""
    os.environ.setdefault('NUMBA_CACHE_DIR', os.path.join(BUILD, 'numba'))
    os.environ['PYTHONHASHSEED'] = '0'
    os.environ['JESSE_VERIF'] = '1'
    import warnings
    warnings.filterwarnings('ignore')
    if REPO not in sys.path:
        sys.path.insert(0, REPO)


def sh(cmd, timeout=1200, cwd=None, env=None, input=None):
    p = subprocess.run(cmd, shell=isinstance(cmd, str), cwd=cwd, env=env, input=input,
                       stdout=subprocess.PIPE, stderr=subprocess.STDOUT, text=True, timeout=timeout)
    return p.returncode, p.stdout


# ------------------------------------------------------------------------------------------
# Coq side
# ------------------------------------------------------------------------------------------
class Lock:
    def __init__(self, name='coq.lock'):
        os.makedirs(BUILD, exist_ok=True)
        self.path = os.path.join(BUILD, name)

    def __enter__(self):
        self.f = open(self.path, 'w')
        fcntl.flock(self.f, fcntl.LOCK_EX)
        return self

    def __exit__(self, *a):
        fcntl.flock(self.f, fcntl.LOCK_UN)
        self.f.close()


def write_if_changed(path, text):
    try:
        if open(path).read() == text:
            return False
    except FileNotFoundError:
        pass
    os.makedirs(os.path.dirname(path), exist_ok=True)
    with open(path, 'w') as f:
        f.write(text)
    return True


def coq_project():
    """(re)write _CoqProject from the files present and (re)generate the Makefile"""
    files = []
    for root, _, fs in os.walk(os.path.join(COQ, 'theories')):
        for f in fs:
            if f.endswith('.v'):
                files.append(os.path.relpath(os.path.join(root, f), COQ))
    files.sort()
    head = ['-R theories JV',
            '-arg -w -arg -deprecated-syntactic-definition,-deprecated-hint-rewrite-without-locality,'
            '-deprecated-instance-without-locality,-notation-overridden,-ambiguous-paths,-deprecated-hint-without-locality']
    changed = write_if_changed(os.path.join(COQ, '_CoqProject'), '\n'.join(head + files) + '\n')
    if changed or not os.path.exists(os.path.join(COQ, 'Makefile')):
        rc, out = sh('coq_makefile -f _CoqProject -o Makefile', cwd=COQ)
        if rc != 0:
            raise RuntimeError('coq_makefile failed:\n' + out)


def coq_make(targets=None, timeout=3000):
    """make the given .vo targets (paths relative to coq/); returns (ok, log)"""
    with Lock():
        coq_project()
        tg = ' '.join(targets) if targets else ''
        rc, out = sh(f'timeout {timeout} make -k -j{NCPU} {tg}', cwd=COQ, timeout=timeout + 60)      # -k: a broken proof must not keep the Run modules (needed by the search) from building
    return rc == 0, out


def coqc_file(path, timeout=900):
    rc, out = sh(['timeout', str(timeout), 'coqc', '-R', os.path.join(COQ, 'theories'), 'JV',
                  '-w', '-deprecated-syntactic-definition,-notation-overridden', path],
                 cwd=os.path.dirname(path), timeout=timeout + 30)
    return rc, out


def coq_eval(name, text, timeout=900):
    """compile a scratch .v under build/run and return (rc, stdout)"""
    d = os.path.join(BUILD, 'run')
    os.makedirs(d, exist_ok=True)
    path = os.path.join(d, name + '.v')
    with open(path, 'w') as f:
        f.write(text)
    rc, out = coqc_file(path, timeout)
    for ext in ('.vo', '.vok', '.vos', '.glob'):
        try:
            os.remove(os.path.join(d, name + ext))
        except OSError:
            pass
    return rc, out


def coq_eval_many(items, timeout=900):
    """items: list of (name, text); run in parallel; returns list of (rc, out)"""
    with ThreadPoolExecutor(max_workers=NCPU) as ex:
        return list(ex.map(lambda it: coq_eval(it[0], it[1], timeout), items))


def parse_results(out):
    """results printed as `     = <term>\n     : type`; returns the list of <term> strings"""
    res = []
    cur = None
    for line in out.splitlines():
        if line.startswith('     = '):
            cur = [line[7:]]
        elif cur is not None and line.startswith('     : '):
            res.append(' '.join(x.strip() for x in cur))
            cur = None
        elif cur is not None:
            cur.append(line)
    return res


def parse_nat_list(term):
    return [int(x) for x in re.findall(r'-?\d+', term.split(':')[0] if ':' in term and ']' not in term else term.split(']')[0])]


def print_assumptions(module, theorems):
    """returns {theorem: 'closed' | [axioms]} by asking Coq"""
    body = f'From JV Require Import {module}.\n' + ''.join(
        f'Print Assumptions {t}.\nCheck {t}.\nRedirect "/dev/null" Print {t}.\n' if False else f'Print Assumptions {t}.\n'
        for t in theorems)
    rc, out = coq_eval('pa_' + module.replace('.', '_'), body, 600)
    if rc != 0:
        return None, out
    res = {}
    # split output per theorem: each Print Assumptions prints either "Closed under the global context"
    # or "Axioms:\n name : type ..." blocks
    blocks = re.split(r'(?m)^(?=Closed under the global context|Axioms:)', out)
    blocks = [b for b in blocks if b.strip()]
    for t, b in zip(theorems, blocks):
        if b.startswith('Closed'):
            res[t] = 'closed'
        else:
            names = [n for n in re.findall(r'(?m)^([A-Za-z_][\w.\']*)\s*:', b) if n != 'Axioms']
            res[t] = names
    if len(blocks) != len(theorems):
        return None, out
    return res, out


PRIMITIVE_NAMES = {'int', 'float', 'add', 'sub', 'mul', 'div', 'opp', 'abs', 'sqrt', 'eqb', 'ltb', 'leb', 'compare', 'classify',
                   'of_uint63', 'normfr_mantissa', 'frshiftexp', 'ldshiftexp', 'next_up', 'next_down', 'lsl', 'lsr', 'land', 'lor',
                   'lxor', 'mod', 'mulc', 'addc', 'subc', 'diveucl', 'head0', 'tail0', 'asr', 'leb', 'is_nan', 'of_int63'}


def axioms_ok(pa):
    """Print Assumptions lists Coq's primitive machine integers/floats as 'axioms' (they are kernel
    primitives, not declarations of ours; the development itself declares none: grep_forbidden)"""
    bad = []
    for t, v in pa.items():
        if v == 'closed':
            continue
        for a in v:
            if a in ALLOWED_AXIOMS_STDLIB or a.startswith(PRIMITIVE_PREFIXES) or a.split('.')[-1] in PRIMITIVE_NAMES:
                continue
            bad.append((t, a))
    return bad


FORBIDDEN = re.compile(r'\b(Admitted|admit|Axiom|Axioms|Parameter|Parameters|Conjecture|Conjectures|Admit Obligations|'
                       r'bypass_check|Unset Guard Checking|Unset Positivity Checking|Unset Universe Checking|'
                       r'type-in-type|impredicative-set)\b')


def grep_forbidden():
    hits = []
    for root, _, fs in os.walk(os.path.join(COQ, 'theories')):
        for f in fs:
            if f.endswith('.v'):
                p = os.path.join(root, f)
                txt = open(p).read()
                # strip comments (non-nested is enough for our files)
                txt2 = re.sub(r'\(\*.*?\*\)', '', txt, flags=re.S)
                for m in FORBIDDEN.finditer(txt2):
                    hits.append(f'{os.path.relpath(p, COQ)}: {m.group(0)}')
    for p in (os.path.join(COQ, '_CoqProject'),):
        if os.path.exists(p) and re.search(r'type-in-type|impredicative-set', open(p).read()):
            hits.append('_CoqProject: forbidden flag')
    return hits


# ------------------------------------------------------------------------------------------
# Coq term printers
# ------------------------------------------------------------------------------------------
def cz(n):
    n = int(n)
    return f'({n})%Z' if n < 0 else f'{n}%Z'


def cnat(n):
    return f'{int(n)}%nat'


def clist(xs):
    return '[' + '; '.join(xs) + ']'


def copt(x, f=cz):
    return 'None' if x is None else f'(Some {f(x)})'


def cbool(b):
    return 'true' if b else 'false'


def cq(fr):
    """a fractions.Fraction / (num, den) as a Qc term via Q2Qc"""
    from fractions import Fraction
    fr = Fraction(fr)
    return f'(Q2Qc ({fr.numerator} # {fr.denominator}))'


def cfloat(x):
    """python float -> PrimFloat literal (hex)"""
    import math
    if math.isnan(x):
        return 'nan'
    if math.isinf(x):
        return 'infinity' if x > 0 else 'neg_infinity'
    h = float(x).hex()
    return f'({h})%float'


# ------------------------------------------------------------------------------------------
# known findings, verdict, evidence
# ------------------------------------------------------------------------------------------
def load_findings():
    p = os.path.join(VERIF, 'known_findings.json')
    if not os.path.exists(p):
        return []
    return json.load(open(p))['findings']


class Result:
    """accumulates what one check run did and produces verdict + evidence"""

    def __init__(self, pid, tier, seed):
        self.pid, self.tier, self.seed = pid, tier, seed
        self.t0 = time.time()
        self.obligations = []      # (name, ok:bool, detail)
        self.violations = []       # dicts: site, what, replay(dict), found(bool)
        self.cov = {'evaluations': 0, 'distinct_nontrivial': 0, 'samples': [], 'rule': ''}
        self.assumptions = []
        self.trusted = []
        self.extra = {}
        self.checker_cmd = ''
        self.known = [f for f in load_findings() if f.get('property') == pid and f.get('status') == 'known']
        self.known_hit = []

    def oblige(self, name, ok, detail=''):
        self.obligations.append((name, bool(ok), detail))
        return ok

    def violation(self, site, what, replay, found=True):
        self.violations.append({'site': site, 'what': what, 'replay': replay, 'found': found})

    def add_cases(self, n, nontrivial, samples=None, rule=None):
        self.cov['evaluations'] += n
        self.cov['distinct_nontrivial'] += nontrivial
        if samples:
            self.cov['samples'].extend(samples[:3])
        if rule:
            self.cov['rule'] = (self.cov['rule'] + ' | ' if self.cov['rule'] else '') + rule

    def finish(self):
        os.makedirs(REPLAY, exist_ok=True)
        os.makedirs(EVID, exist_ok=True)
        lines = []
        rc = 0
        nviol = 0
        failed = [o for o in self.obligations if not o[1]]
        reported_sites = set()
        for v in self.violations:
            k = next((f for f in self.known if f.get('site') == v['site'] or v['site'] in f.get('sites', [])), None)
            if k is not None and v['found']:
                if k['id'] not in [x['id'] for x in self.known_hit]:
                    self.known_hit.append(k)
                    lines.append(f"KNOWN-FINDING: property={self.pid} {k['what']}")
                continue
            if v['site'] in reported_sites:
                continue
            reported_sites.add(v['site'])
            nviol += 1
            path = os.path.join(REPLAY, f"{self.pid}_{len(reported_sites)}_{hashlib.sha1(v['site'].encode()).hexdigest()[:8]}.json")
            json.dump({'property': self.pid, 'site': v['site'], 'what': v['what'], 'replay': v['replay'],
                       'rerun': {'tier': self.tier, 'seed': self.seed, 'how': f'./check {self.pid} --tier {self.tier} --seed {self.seed} reproduces this run (all generators '
                                 'are seeded); ./check --replay <this file> does exactly that'},
                       'failing_input_found': v['found'],
                       'failed_obligations': [{'name': o[0], 'detail': o[2][-2000:]} for o in failed]},
                      open(path, 'w'), indent=1, default=str)
            tail = '' if v['found'] else ' no-failing-input-found'
            lines.append(f"VIOLATION property={self.pid} replay={path}{tail}")
            rc = 1
        if failed and rc == 0 and not all(self._covered_by_known(o) for o in failed):
            # a proof obligation or a correspondence broke and no concrete failing input was found
            nviol += 1
            path = os.path.join(REPLAY, f"{self.pid}_obligations.json")
            json.dump({'property': self.pid, 'failing_input_found': False, 'rerun': {'tier': self.tier, 'seed': self.seed},
                       'failed_obligations': [{'name': o[0], 'detail': o[2][-4000:]} for o in failed]},
                      open(path, 'w'), indent=1, default=str)
            lines.append(f"VIOLATION property={self.pid} replay={path} no-failing-input-found")
            rc = 1
        cov = dict(self.cov)
        cov['obligations'] = len(self.obligations)
        cov['discharged'] = len(self.obligations) - len(failed)
        cov['obligation_list'] = [{'name': o[0], 'ok': o[1]} for o in self.obligations]
        cov['checker_cmd'] = self.checker_cmd or f'cd /verif && ./check {self.pid} --tier {self.tier}'
        cov['trusted_base'] = self.trusted
        cov['known_findings_reproduced'] = [k['id'] for k in self.known_hit]
        cov.update(self.extra)
        if not cov['samples']:
            cov['samples'] = ['(no generated cases in this run)']
        ev = {'property_id': self.pid, 'tier': self.tier, 'seed': self.seed, 'level': 'proof', 'coverage': cov,
              'assumptions': self.assumptions, 'wall_s': round(time.time() - self.t0, 2), 'violations': nviol}
        with open(os.path.join(EVID, f'{self.pid}.json'), 'w') as f:
            json.dump(ev, f, indent=1, default=str)
        for ln in lines:
            print(ln)
        print(f"[{self.pid}] tier={self.tier} seed={self.seed} obligations={cov['discharged']}/{cov['obligations']} "
              f"cases={cov['evaluations']} violations={nviol} known={len(self.known_hit)} wall={ev['wall_s']}s")
        if failed:
            for o in failed:
                print(f"  FAILED obligation: {o[0]}\n    " + o[2][-1500:].replace('\n', '\n    '))
        return rc

    def _covered_by_known(self, o):
        return False


def rng_for(seed, *tags):
    h = hashlib.sha256(('|'.join([str(seed)] + [str(t) for t in tags])).encode()).digest()
    return random.Random(int.from_bytes(h[:8], 'big'))


def standard_proof_step(res, prop_module, theorems, targets):
    """regenerate, make the cone of the property file, check assumptions and forbidden words"""
    hits = grep_forbidden()
    res.oblige('no Admitted/Axiom/Parameter/unsafe flags anywhere in coq/', not hits, '\n'.join(hits))
    ok, log = coq_make(targets)
    res.oblige('make ' + ' '.join(targets) + ' (kernel re-checks every proof in the cone)', ok, log)
    if not ok:
        return False
    pa, out = print_assumptions(prop_module, theorems)
    if pa is None:
        res.oblige('Print Assumptions ' + prop_module, False, out)
        return False
    bad = axioms_ok(pa)
    res.oblige('Print Assumptions: closed or only named standard-library axioms', not bad, str(bad))
    res.extra['print_assumptions'] = pa
    for t in theorems:
        res.oblige('theorem ' + t, True)
    return not bad
