"""Translation validation of the GENERATED kernels (coq/theories/Gen/*.v): every generated definition is
evaluated by Coq at binary64 (vm_compute, PrimFloat) on enumerated and random arguments and compared
bit-for-bit with the Python function it was generated from.  Used by several property checks; each
asks for the kernels it depends on."""
import itertools
import math
import os

from . import common as C


def f(x):
    return C.cfloat(float(x))


def candle_term(c):
    return '(mk ' + ' '.join(f(x) for x in c) + ')'


def same_num(coq, py):
    return f'fsame {coq} {f(py)}'


def res_num(coq, py):
    """py = ('val', x) | ('nan',) | ('raise',)"""
    if py[0] == 'val':
        return f'res_same fsame {coq} (Val {f(py[1])})'
    return f'res_same fsame {coq} {"Nan" if py[0] == "nan" else "Raise"}'


def call_res(fn, *args):
    import numpy as np
    try:
        r = fn(*args)
    except ZeroDivisionError:
        return None            # Python raises where IEEE returns inf/nan: outside the model, skipped and counted
    except Exception:
        return ('raise',)
    if r is None:
        return ('raise',)
    if isinstance(r, float) and math.isnan(r) or (isinstance(r, np.floating) and np.isnan(r)):
        return ('nan',)
    return ('val', r)


def rnd_price(rng):
    k = rng.random()
    if k < 0.3:
        return rng.randrange(1, 400) / 4.0
    if k < 0.6:
        return round(rng.uniform(0.01, 5000), rng.choice([0, 1, 2, 4, 6]))
    if k < 0.8:
        return rng.uniform(1e-6, 1e6)
    return 10 ** rng.uniform(-6, 6)


def rnd_candle(rng):
    a, b, c, d = sorted(rnd_price(rng) for _ in range(4)) if rng.random() < 0.7 else sorted(
        float(rng.randrange(0, 6)) for _ in range(4))
    o, cl = rng.choice([(b, c), (c, b), (a, d), (d, a), (b, b), (a, c), (d, b)])
    return [float(rng.randrange(1, 10) * 60000), o, cl, d, a, float(rng.randrange(0, 100))]


def gen_cases(names, seed, n_random):
    """returns list of (kernel, description, coq bool term)"""
    C.use_repo()
    import numpy as np
    import jesse.helpers as jh
    from jesse import utils
    from jesse.services import candle as cs
    from jesse.modes import backtest_mode as bm
    from jesse.models import Position
    rng = C.rng_for(seed, 'kernels')
    out = []
    skipped = 0

    def add(kernel, desc, term):
        out.append((kernel, desc, term))

    if 'candle' in names:
        lat = [float(x) for x in range(6)]
        cases = []
        for (o, cl, h, l) in itertools.product(lat, repeat=4):
            if l <= o <= h and l <= cl <= h:
                for p in lat:
                    cases.append(([60000.0, o, cl, h, l, 7.0], p))
        cases = cases if len(cases) <= 1500 else [cases[i] for i in sorted(rng.sample(range(len(cases)), 1500))]
        for _ in range(n_random):
            c = rnd_candle(rng)
            p = rng.choice([c[1], c[2], c[3], c[4], rng.uniform(c[4], c[3]) if c[3] > c[4] else c[3], rnd_price(rng)])
            cases.append((c, p))
        for c, p in cases:
            ct = candle_term(c)
            arr = np.array(c)
            add('is_bullish', (c,), f'Bool.eqb (is_bullish FNum {ct}) {C.cbool(bool(cs.is_bullish(arr)))}')
            add('is_bearish', (c,), f'Bool.eqb (is_bearish FNum {ct}) {C.cbool(bool(cs.is_bearish(arr)))}')
            add('candle_includes_price', (c, p), f'Bool.eqb (candle_includes_price FNum {ct} {f(p)}) {C.cbool(bool(cs.candle_includes_price(arr, p)))}')
            try:
                r = cs.split_candle(arr.copy(), p)
            except Exception:
                r = None
            if r is None:
                add('split_candle', (c, p), f'res_same pair_same (split_candle FNum {ct} {f(p)}) Raise')
            else:
                a, b = r
                add('split_candle', (c, p), f'res_same pair_same (split_candle FNum {ct} {f(p)}) (Val ({candle_term(a)}, {candle_term(b)}))')
    if 'backtest' in names:
        for _ in range(n_random):
            pc, c = rnd_candle(rng), rnd_candle(rng)
            if rng.random() < 0.3:
                c[1] = pc[2]
            r = bm._get_fixed_jumped_candle(np.array(pc), np.array(c))
            add('fix_jump', (pc, c), f'csame (fix_jump FNum {candle_term(pc)} {candle_term(c)}) {candle_term(r)}')
    if 'helpers' in names:
        for _ in range(n_random):
            lo, hi = sorted([rng.choice([rng.uniform(-100, 100), float(rng.randrange(-50, 50)), round(rng.uniform(-10, 10), 2)]) for _ in range(2)])
            g = float(rng.choice([40, 119, rng.randrange(40, 120), rng.randrange(30, 130)]))
            r = call_res(jh.convert_number, 119.0, 40.0, hi, lo, g)
            if r is None: skipped += 1
            else: add('convert_number', (hi, lo, g), res_num(f'(convert_number FNum {f(119)} {f(40)} {f(hi)} {f(lo)} {f(g)})', r))
            q1, q2 = rng.choice([-1, 1]) * rnd_price(rng), rng.choice([-1, 1]) * rnd_price(rng)
            p1, p2 = rnd_price(rng), rnd_price(rng)
            add('estimate_average_price', (q1, p1, q2, p2), same_num(f'(estimate_average_price FNum {f(q1)} {f(p1)} {f(q2)} {f(p2)})', jh.estimate_average_price(q1, p1, q2, p2)))
            tt = rng.choice(['long', 'short'])
            fee = rng.choice([0.0, 0.001, 0.0004, 0.00075])
            add('estimate_PNL', (q1, p1, p2, tt, fee), same_num(f'(estimate_PNL FNum {f(q1)} {f(p1)} {f(p2)} "{tt}"%string {f(fee)})', jh.estimate_PNL(q1, p1, p2, tt, fee)))
            add('estimate_PNL_percentage', (q1, p1, p2, tt), same_num(f'(estimate_PNL_percentage FNum {f(q1)} {f(p1)} {f(p2)} "{tt}"%string)', jh.estimate_PNL_percentage(q1, p1, p2, tt)))
            x = rng.choice([rnd_price(rng), -rnd_price(rng), round(rnd_price(rng), 3)])
            pr = rng.randrange(0, 9)
            add('floor_with_precision', (x, pr), same_num(f'(floor_with_precision FNum {f(x)} {C.cz(pr)})', jh.floor_with_precision(x, pr)))
            cur = rnd_price(rng)
            op = cur * rng.choice([1.0, 1 + 0.00015, 1 - 0.00015, 1 + 0.000149, 1 - 0.000151, 1 + rng.uniform(-0.0004, 0.0004), 1.01, 0.9])
            if cur != 0.0:                     # a zero price to compare with makes the Python function divide by zero: outside the translated domain
                add('is_price_near', (op, cur), f'Bool.eqb (is_price_near FNum {f(op)} {f(cur)} {f(0.00015)}) {C.cbool(bool(jh.is_price_near(op, cur)))}')
            else:
                skipped += 1
    if 'utils' in names:
        for _ in range(n_random):
            cap = rng.choice([rnd_price(rng) * 10, 10000.0, 13.7, round(rng.uniform(1, 1e5), 2)])
            price = rnd_price(rng)
            prec = rng.randrange(0, 9)
            fee = rng.choice([0.0, 0.0, 0.001, 0.0004, 0.00075, 0.01])
            r = call_res(utils.size_to_qty, cap, price, prec, fee)
            # Base/Num.v converts integers to binary64 exactly only below 2^63 (stated there): a quotient whose shifted value reaches that
            # magnitude (a capital of millions at a price of 1e-5 with 8 decimals) is outside the domain the generated kernels are evaluated on
            big = price != 0 and abs(cap / price) * 10 ** prec >= 2.0 ** 62
            if r is None or big: skipped += 1
            else: add('size_to_qty', (cap, price, prec, fee), res_num(f'(size_to_qty FNum {f(cap)} {f(price)} {C.cz(prec)} {f(fee)})', r))
            entry = price
            stop = entry * rng.choice([0.9, 0.99, 1.01, 1.1, 1.0, 0.5])
            risk = rng.choice([1.0, 2.0, 0.5, 10.0, 100.0, 3.3])
            r = call_res(utils.risk_to_qty, cap, risk, entry, stop, prec, fee)
            if r is None or big: skipped += 1
            else: add('risk_to_qty', (cap, risk, entry, stop, prec, fee), res_num(f'(risk_to_qty FNum {f(cap)} {f(risk)} {f(entry)} {f(stop)} {C.cz(prec)} {f(fee)})', r))
            rpq = abs(entry - stop)
            r = call_res(utils.risk_to_size, cap, risk, rpq, entry)
            if r is None: skipped += 1
            else: add('risk_to_size', (cap, risk, rpq, entry), res_num(f'(risk_to_size FNum {f(cap)} {f(risk)} {f(rpq)} {f(entry)})', r))
            tt = rng.choice(['long', 'short'])
            mx = float(rng.choice([1, 2, 5, 10, 50]))
            add('limit_stop_loss', (entry, stop, tt, mx), same_num(f'(limit_stop_loss FNum {f(entry)} {f(stop)} "{tt}"%string {f(mx)})', utils.limit_stop_loss(entry, stop, tt, mx)))
            add('estimate_risk', (entry, stop), res_num(f'(estimate_risk FNum {f(entry)} {f(stop)})', call_res(utils.estimate_risk, entry, stop)))
            add('qty_to_size', (cap, price), res_num(f'(qty_to_size FNum {f(cap)} {f(price)})', call_res(utils.qty_to_size, cap, price)))
    if 'position' in names:
        class P:      # the three properties evaluated on a stand-in object carrying exactly the attributes they read
            pass
        for _ in range(n_random):
            p = P()
            p.entry_price = rnd_price(rng)
            p.leverage = rng.choice(list(range(1, 126)))
            p.type = rng.choice(['long', 'short', 'close'])
            p.is_close = p.type == 'close'
            p.mode = rng.choice(['isolated', 'isolated', 'cross', 'spot'])
            p._liquidation_price = float('nan')
            p._initial_margin_rate = Position._initial_margin_rate.fget(p)
            add('pos_initial_margin_rate', (p.leverage,), same_num(f'(pos_initial_margin_rate FNum {f(p.leverage)})', p._initial_margin_rate))
            r = call_res(Position.liquidation_price.fget, p)
            add('pos_liquidation_price', (p.is_close, p.mode, p.type, p.entry_price, p.leverage),
                res_num(f'(pos_liquidation_price FNum {C.cbool(p.is_close)} "{p.mode}"%string "{p.type}"%string {f(p.entry_price)} {f(p.leverage)})', r))
            r = call_res(Position.bankruptcy_price.fget, p)
            add('pos_bankruptcy_price', (p.type, p.entry_price, p.leverage),
                res_num(f'(pos_bankruptcy_price FNum "{p.type}"%string {f(p.entry_price)} {f(p.leverage)})', r))
    return out, skipped


def validate(res, names, seed, n_random):
    """adds obligations to `res`; returns list of failing (kernel, args)"""
    from translator import gen_all
    ok, msgs = gen_all.generate()
    msgs = gen_all.relevant(msgs, ['candle', 'backtest', 'helpers', 'utils', 'position', 'optimize']); ok = not msgs     # Run/KernelRun.v imports all py2v modules
    res.oblige('translator py2v regenerated Gen/*.v from /repo without an untranslatable construct', ok, '\n'.join(msgs))
    if not ok:
        return [('translator', m) for m in msgs]
    okm, log = C.coq_make(['theories/Run/KernelRun.vo'])
    res.oblige('generated kernels compile (make Run/KernelRun.vo)', okm, log)
    if not okm:
        return [('compile', log[-500:])]
    cases, skipped = gen_cases(names, seed, n_random)
    SH = 600
    shards = []
    for i in range(0, len(cases), SH):
        body = ('From Coq Require Import ZArith List Bool String PrimFloat.\nFrom JV Require Import Base.Num Run.Harness Run.KernelRun.\n'
                'Import ListNotations.\nOpen Scope float_scope.\nDefinition checks : list bool := [\n' +
                ';\n'.join(c[2] for c in cases[i:i + SH]) + '\n].\nEval vm_compute in (bad_indices checks).\n')
        shards.append((f'kern_{"_".join(names)}_{i // SH}', body))
    outs = C.coq_eval_many(shards)
    bad, errs = [], []
    for si, (rc, out) in enumerate(outs):
        r = C.parse_results(out)
        if rc != 0 or len(r) != 1:
            errs.append(out[-1500:])
            continue
        bad += [si * SH + k for k in C.parse_nat_list(r[0])]
    res.oblige('kernel validation shards evaluated', not errs, '\n'.join(errs))
    fails = [(cases[i][0], cases[i][1]) for i in bad]
    per = {}
    for c in cases:
        per[c[0]] = per.get(c[0], 0) + 1
    res.oblige(f'translation validation: generated kernels {sorted(per)} = Python functions, bit-for-bit at binary64',
               not fails, str(fails[:5]))
    res.extra.setdefault('kernel_validation', {}).update({'cases_per_kernel': per, 'skipped_python_zero_division': skipped,
                                                         'mismatches': len(fails)})
    res.add_cases(len(cases), len({str(c[1]) for c in cases}), [{'kernel': c[0], 'args': c[1]} for c in cases[:2]],
                  'generated kernels evaluated by Coq at binary64 vs the Python functions on lattice-exhaustive and random arguments')
    return fails
