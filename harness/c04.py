"""C04 — spot balances equal a cash-account model; no overspending or overselling.

proof:   Props/C04.v (Model/Spot.v refines Spec/RefSpot.v for every well-formed history; refutation outside)
tie:     the hand-written model vs the real Order / Position / SpotExchange objects on generated histories
         (lattice-exact and short-decimal streams; compared inside Coq, exact rationals)
search:  the reference account (Spec/RefSpot.v) evaluated by Coq on the implementation's own observations
"""
import json
from decimal import Decimal
from fractions import Fraction

from . import common as C

PID = 'C04'
THEOREMS = ['C04_spot_account_refines', 'C04_uncovered_sell_refuted']


def num(x):
    fr = Fraction(Decimal(repr(float(x))))
    return f'(q {C.cz(fr.numerator)} {C.cz(fr.denominator)})'


def gen_history(rng, stream):
    """ops: ('submit', id, side, type, qty, price, ro) | ('execute', id) | ('cancel', id)"""
    if stream == 'lattice':
        qtys = [0.5, 1.0, 2.0, 4.0, 0.25, 8.0, 3.0]
        prices = [16.0, 32.0, 64.0, 100.0, 128.0, 96.0, 50.0]
        fee = rng.choice([0.0, 1 / 8, 1 / 16, 0.0, 1 / 4])
    else:
        qtys = [0.1, 0.2, 0.3, 0.7, 1.1, 0.05, 2.4]
        prices = [1.0, 2.0, 4.0, 0.5]
        fee = 0.0
    balance = rng.choice([1000.0, 4096.0, 100000.0, 10000.0]) if stream == 'lattice' else rng.choice([10.0, 100.0, 3.0])
    ops, nid = [], 0
    active, base_guess = [], 0.0
    for _ in range(rng.choice([3, 6, 12, 25])):
        r = rng.random()
        if r < 0.55 or not active:
            nid += 1
            side = rng.choice(['buy', 'sell', 'sell']) if base_guess > 0 else rng.choice(['buy', 'buy', 'buy', 'sell'])
            typ = rng.choice(['MARKET', 'LIMIT', 'STOP'])
            q = rng.choice(qtys)
            if side == 'sell' and base_guess > 0 and rng.random() < 0.85:
                fit = [x for x in qtys if x <= base_guess]
                q = base_guess if (rng.random() < 0.3 or not fit) else rng.choice(fit)
            ops.append(('submit', nid, side, typ, q, rng.choice(prices), side == 'sell' and rng.random() < 0.8))
            active.append((nid, side, q))
        elif r < 0.8:
            oid, side, q = rng.choice(active)
            ops.append(('execute', oid))
            if rng.random() < 0.85:
                active = [a for a in active if a[0] != oid]
            if side == 'buy':
                base_guess = round(base_guess + q * (1 - fee), 10)
            else:
                base_guess = max(0.0, round(base_guess - q, 10))
        else:
            oid, side, q = rng.choice(active)
            ops.append(('cancel', oid))
            if rng.random() < 0.85:
                active = [a for a in active if a[0] != oid]
    return balance, fee, ops


def gen_fine(rng):
    """eight-decimal quantities, a fee in basis points and arbitrary prices: qty x price and qty x (1 - fee) have more than eight decimals, so the
    float products are not exact; every order fits with a margin (no decision sits on the rejection boundary), compared up to 1e-10"""
    qtys = [0.01234567, 0.00340001, 0.25, 0.1, 0.07654321, 0.5, 0.00012345, 0.6, 1.0]
    prices = [43210.5, 101.37, 0.031234567, 2750.125, 19999.99]
    fee = rng.choice([0.001, 0.0004, 0.00075, 0.0])
    balance = 1000000.0
    ops, nid, active = [], 0, []
    base_guess, resting_sells = 0.0, 0.0
    for _ in range(rng.choice([4, 8, 14, 25])):
        r = rng.random()
        if r < 0.55 or not active:
            nid += 1
            q = rng.choice(qtys)
            side = 'sell' if (rng.random() < 0.5 and resting_sells + q <= 0.9 * base_guess) else 'buy'
            typ = rng.choice(['MARKET', 'LIMIT', 'STOP'])
            ops.append(('submit', nid, side, typ, q, rng.choice(prices), side == 'sell' and rng.random() < 0.8))
            active.append((nid, side, q))
            if side == 'sell': resting_sells += q
        elif r < 0.8:
            oid, side, q = rng.choice(active)
            ops.append(('execute', oid))
            active = [a for a in active if a[0] != oid]
            if side == 'buy':
                base_guess += q * (1 - fee)
            else:
                base_guess -= q; resting_sells -= q
        else:
            oid, side, q = rng.choice(active)
            ops.append(('cancel', oid))
            active = [a for a in active if a[0] != oid]
            if side == 'sell': resting_sells -= q
    return balance, fee, ops


def run_impl(balance, fee, ops):
    from . import driver
    from jesse.exceptions import InsufficientBalance
    e = driver.session('spot', fee=fee, balance=balance)
    p = driver.position('BTC-USDT')
    p.current_price = 64.0
    objs, obs = {}, []

    def snap(ok):
        return (ok, e.assets['USDT'], e.assets['BTC'], p.qty, e.limit_orders_sum.get('BTC-USDT', 0), e.stop_orders_sum.get('BTC-USDT', 0))
    for op in ops:
        try:
            if op[0] == 'submit':
                _, oid, side, typ, q, price, ro = op
                objs[oid] = driver.submit('BTC-USDT', side, typ, q, price, reduce_only=ro)
            elif op[0] == 'execute':
                if op[1] in objs: objs[op[1]].execute()
            else:
                if op[1] in objs: objs[op[1]].cancel()
            obs.append(snap(True))
        except InsufficientBalance:
            obs.append(snap(False))
            break
        except Exception as ex:
            obs.append(('error', type(ex).__name__))
            break
    return obs


def sell_all_probe(balance, fee, ops):
    """'position size equals the base balance', decided on the implementation alone: after the history every resting order is cancelled and the WHOLE position
    (the float the position object reports) is sold at market; a cash account that holds exactly that much base accepts the order, and the fill leaves no base"""
    from . import driver
    from jesse.exceptions import InsufficientBalance
    e = driver.session('spot', fee=fee, balance=balance)
    p = driver.position('BTC-USDT')
    p.current_price = 64.0
    objs = {}
    try:
        for op in ops:
            if op[0] == 'submit':
                _, oid, side, typ, q, price, ro = op
                objs[oid] = driver.submit('BTC-USDT', side, typ, q, price, reduce_only=ro)
            elif op[0] == 'execute':
                if op[1] in objs: objs[op[1]].execute()
            else:
                if op[1] in objs: objs[op[1]].cancel()
        for o in objs.values():
            o.cancel()
    except Exception:
        return None
    held, pq = e.assets['BTC'], p.qty
    if not pq > 0:
        return None
    try:
        o = driver.submit('BTC-USDT', 'sell', 'MARKET', pq, 64.0, reduce_only=False)
        o.execute()
    except InsufficientBalance:
        return {'what': 'selling exactly the reported position was rejected', 'position_qty': repr(pq), 'base_balance': repr(held)}
    except Exception as ex:
        return {'what': 'selling exactly the reported position raised ' + type(ex).__name__, 'position_qty': repr(pq), 'base_balance': repr(held)}
    if abs(e.assets['BTC']) > 1e-10 or abs(p.qty) > 1e-10:
        return {'what': 'base left after selling the whole position', 'position_qty': repr(pq), 'base_balance': repr(held), 'base_after': repr(e.assets['BTC']), 'position_after': repr(p.qty)}
    return 'ok'


def c_op(op):
    if op[0] == 'submit':
        _, oid, side, typ, q, price, ro = op
        return (f'Submit (mko {C.cnat(oid)} {"Buy" if side == "buy" else "Sell"} {typ.capitalize()} {num(q)} {num(price)} {C.cbool(ro)})')
    return f'{"Execute" if op[0] == "execute" else "Cancel"} {C.cnat(op[1])}'


def c_obs(o):
    if o[0] == 'error':
        return '(true, q 123456789 1, q 0 1, q 0 1, q 0 1, q 0 1)'     # an exception class the model never produces
    return f'({C.cbool(o[0])}, {num(o[1])}, {num(o[2])}, {num(o[3])}, {num(o[4])}, {num(o[5])})'


def uncovered(balance, fee, ops, obs):
    """does the history execute a sell larger than the base held at that moment (outside the theorem's wf)?"""
    sells = {}
    for op, o in zip(ops, obs):
        if op[0] == 'submit' and op[2] == 'sell':
            sells[op[1]] = op[4]
    prev_base = 0.0
    done = set()
    for op, o in zip(ops, obs):
        if op[0] == 'execute' and op[1] in sells and op[1] not in done:
            done.add(op[1])
            if sells[op[1]] > prev_base + 1e-12:
                return True
        if op[0] == 'cancel':
            done.add(op[1])
        if o[0] != 'error':
            prev_base = o[2]
    return False


def run(tier, seed, replay=None):
    res = C.Result(PID, tier, seed)
    res.trusted = ['Coq 8.16.1 kernel + vm_compute', 'Model/Spot.v (hand-written) tied by exact correspondence', 'harness/c04.py, harness/driver.py']
    res.assumptions = ['exact rational arithmetic; inputs on a dyadic lattice or short decimals with power-of-two prices and fee 0, where sum_floats/'
                       'subtract_floats and the float products are exact (checked by comparing repr-decimals)',
                       'one traded symbol; live-trading branches not modelled; the strategy layer is absent (inert strategy attached)']
    C.standard_proof_step(res, 'Props.C04', THEOREMS, ['theories/Props/C04.vo', 'theories/Run/C04Run.vo'])
    rng = C.rng_for(seed, PID)
    cases = [(10000.0, 0.0, [('submit', 1, 'buy', 'MARKET', 10.0, 100.0, False), ('execute', 1), ('submit', 2, 'sell', 'LIMIT', 10.0, 110.0, True),
                             ('submit', 3, 'sell', 'STOP', 10.0, 90.0, False), ('execute', 2), ('execute', 3)]),      # F17 witness
             (10000.0, 0.0, [('submit', 1, 'buy', 'MARKET', 10.0, 100.0, False), ('execute', 1), ('submit', 2, 'sell', 'LIMIT', 4.0, 110.0, True),
                             ('cancel', 2), ('submit', 3, 'sell', 'LIMIT', 13.0, 120.0, True)]),                      # F3 witness (fixed)
             (1.0, 0.0, [('submit', 1, 'buy', 'MARKET', 0.3, 1.0, False), ('execute', 1), ('submit', 2, 'sell', 'LIMIT', 0.1, 2.0, True),
                         ('submit', 3, 'sell', 'MARKET', 0.2, 1.0, True)])]
    for i in range(500 if tier == 'quick' else 6000):
        cases.append(gen_history(rng, 'lattice' if i % 3 else 'decimal'))
    obs = [run_impl(*c) for c in cases]

    def exact(ob):
        # every observed number must be a short decimal (<= 15 significant digits): then Decimal(str(x)) arithmetic and the
        # conversion back to float are exact, and the implementation's numbers can be read as exact rationals through repr
        return all(o[0] == 'error' or all(len(Decimal(repr(float(v))).as_tuple().digits) <= 15 for v in o[1:]) for o in ob)
    keep = [i for i in range(len(cases)) if exact(obs[i])]
    res.extra['discarded_inexact_histories'] = len(cases) - len(keep)
    cases = [cases[i] for i in keep]
    obs = [obs[i] for i in keep]
    hdr = 'From Coq Require Import ZArith QArith Qcanon List Bool.\nFrom JV Require Import Base.Num Model.Spot Spec.RefSpot Run.Harness Run.C04Run.\nImport ListNotations.\n'
    jobs = []
    SH = 150
    for i in range(0, len(cases), SH):
        body = ';\n'.join(f'({num(b)}, {num(f_)}, {C.clist([c_op(o) for o in ops[:len(ob)]])}, {C.clist([c_obs(x) for x in ob])})'
                          for (b, f_, ops), ob in zip(cases[i:i + SH], obs[i:i + SH]))
        jobs.append((f'c04_{i // SH}', i, hdr + f'Definition cs : list scase := [\n{body}\n].\nEval vm_compute in (bad_indices (map model_agrees cs)).\n'
                     'Eval vm_compute in (bad_indices (map impl_meets_ref cs)).\n'))
    outs = C.coq_eval_many([(j[0], j[2]) for j in jobs])
    bad_model, bad_ref, errs = [], [], []
    for j, (rc, out) in zip(jobs, outs):
        r = C.parse_results(out)
        if rc != 0 or len(r) != 2:
            errs.append(out[-1200:]); continue
        bad_model += [j[1] + k for k in C.parse_nat_list(r[0])]
        bad_ref += [j[1] + k for k in C.parse_nat_list(r[1])]
    # the fine stream: inexact float products, compared up to 1e-10
    fine = [gen_fine(rng) for _ in range(150 if tier == 'quick' else 2000)]
    fobs = [run_impl(*c) for c in fine]
    probes = [sell_all_probe(*c) if (ob and all(x[0] is True for x in ob)) else None for c, ob in zip(fine, fobs)]
    res.extra.update({'sell_whole_position_probes': sum(1 for x in probes if x is not None)})
    fjobs = []
    for i in range(0, len(fine), SH):
        body = ';\n'.join(f'({num(b)}, {num(f_)}, {C.clist([c_op(o) for o in ops[:len(ob)]])}, {C.clist([c_obs(x) for x in ob])})'
                          for (b, f_, ops), ob in zip(fine[i:i + SH], fobs[i:i + SH]))
        fjobs.append((f'c04_fine_{i // SH}', i, hdr + f'Definition cs : list scase := [\n{body}\n].\nEval vm_compute in (bad_indices (map model_agrees_close cs)).\n'
                      'Eval vm_compute in (bad_indices (map impl_meets_ref_close cs)).\n'))
    fbad_model, fbad_ref = [], []
    for j, (rc, out) in zip(fjobs, C.coq_eval_many([(j[0], j[2]) for j in fjobs])):
        r = C.parse_results(out)
        if rc != 0 or len(r) != 2:
            errs.append(out[-1200:]); continue
        fbad_model += [j[1] + k for k in C.parse_nat_list(r[0])]
        fbad_ref += [j[1] + k for k in C.parse_nat_list(r[1])]
    res.oblige('C04 case shards evaluated', not errs, '\n'.join(errs))
    res.oblige('correspondence: Model/Spot.v = real objects after every operation on eight-decimal quantities, basis-point fees and arbitrary prices (up to 1e-10)',
               not fbad_model, json.dumps([fine[i] for i in fbad_model[:2]])[:1500])
    res.extra.update({'fine_histories': len(fine), 'fine_model_mismatches': len(fbad_model), 'fine_reference_mismatches': len(fbad_ref)})
    res.oblige('correspondence: Model/Spot.v = real Order/Position/SpotExchange objects after every operation (exact)', not bad_model,
               json.dumps([cases[i] for i in bad_model[:2]])[:1500])
    nrej = sum(1 for ob in obs if ob and ob[-1][0] is False)
    kinds = {}
    for c in cases:
        for o in c[2]:
            kinds[o[0]] = kinds.get(o[0], 0) + 1
    res.add_cases(len(cases), len({json.dumps(c) for c in cases if any(o[0] == 'execute' for o in c[2])}),
                  [{'balance': cases[5][0], 'fee': cases[5][1], 'ops': cases[5][2][:8]}],
                  'random histories of submit/cancel/execute (repeated calls on final orders included) over buy/sell x MARKET/LIMIT/STOP; two thirds on a '
                  'dyadic lattice with fees k/16, one third with short decimal quantities (0.1, 0.2, 0.3 ...); non-trivial = distinct with an execution')
    res.extra.update({'op_histogram': kinds, 'histories_ending_in_rejection': nrej, 'monitor_evaluations': len(cases),
                      'model_mismatches': len(bad_model), 'reference_mismatches': len(bad_ref)})
    seen = set()
    for i in sorted(fbad_ref, key=lambda i: len(fine[i][2]))[:1]:
        b, f_, ops = fine[i]
        seen.add('spot_fine')
        res.violation('spot_balances_differ_from_the_cash_account_beyond_1e-10', 'spot balances / position differ from the reference cash account by more than 1e-10 '
                      'on quantities with eight decimals', {'balance': b, 'fee': f_, 'ops': ops[:len(fobs[i])], 'implementation_observed': fobs[i]})
    for i, pr_ in enumerate(probes):
        if isinstance(pr_, dict):
            b, f_, ops = fine[i]
            res.violation('position_size_is_not_the_base_balance', 'position size equals the base balance: ' + pr_['what'], dict(pr_, balance=b, fee=f_, ops=ops))
            break
    for i in sorted(bad_ref, key=lambda i: len(cases[i][2])):
        b, f_, ops = cases[i]
        site = 'uncovered_sell_execution' if uncovered(b, f_, ops, obs[i]) else 'spot:' + '+'.join(sorted({o[0] + (':' + o[2] + ':' + o[3] if o[0] == 'submit' else '') for o in ops[:len(obs[i])]}))[:120]
        if site in seen or len(seen) > 4:
            continue
        seen.add(site)
        res.violation(site, 'spot balances / position / accept-reject decision differ from the reference cash account',
                      {'balance': b, 'fee': f_, 'ops': ops[:len(obs[i])], 'implementation_observed': obs[i]})
    return res.finish()
