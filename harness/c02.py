"""C02 — resting orders fill exactly when and where the price reaches them; MARKET orders fill at once.

proof:   Props/C02.v (no missed fill for every reaction of the strategy layer; fills only inside the range, at the order price; nothing
         left in range at the end of the minute; executing-set characterisation; pending MARKET orders all settled)
tie:     Model/Match.match_minute (exact rationals) vs the real _simulate_price_change_effect driven with scripted reactions
         (orders submitted / cancelled from the fill callback); kernels regenerated from /repo
search:  the Coq monitor (Run/C02Run.monitor: the property read as a state machine over submit/cancel/execute/matcher events, deciding with
         the generated candle_includes_price / split_candle at binary64) evaluated on the event streams of real sessions, both simulators
"""
import json
from fractions import Fraction

from . import common as C

PID = 'C02'
THEOREMS = ['C02_live_queue_pass_settles_every_queued_order', 'C02_registry_invariant_reachable', 'C02_resting_order_is_filled', 'C02_filled_only_inside_range', 'C02_fill_at_own_price', 'C02_nothing_left_in_range',
            'C02_executing_iff', 'C02_market_order_queued', 'C02_pending_market_orders_all_settled']
CODES = {1: 'resting_order_filled_outside_matching', 2: 'filled_at_a_price_outside_what_is_left_of_the_minute',
         3: 'order_left_unfilled_in_a_minute_whose_range_contained_its_price', 4: 'execution_of_unknown_order',
         5: 'market_order_pending_while_a_later_candle_is_processed'}


def qq(x):
    fr = Fraction(float(x))
    return f'(q {C.cz(fr.numerator)} {C.cz(fr.denominator)})'


def cndq(c):
    return '(mkq ' + ' '.join(qq(x) for x in c) + ')'


def cndf(c):
    return '(mk ' + ' '.join(C.cfloat(float(x)) for x in c) + ')'


# ------------------------------------------------------------------------------------------ (1) match loop correspondence
def gen_minute(rng):
    step = 0.5
    o = rng.choice([100.0, 64.0, 250.0])
    c = o + rng.randrange(-8, 9) * step
    hi = max(o, c) + rng.choice([0, 0, 1, 2, 5]) * step
    lo = min(o, c) - rng.choice([0, 0, 1, 2, 5]) * step
    lat = [lo - step * 2 + i * step for i in range(int((hi - lo) / step) + 5)]
    if rng.random() < 0.3:
        lat = [o, c, hi, lo] + lat[:3]                               # prices exactly on open/high/low/close
    n = rng.choice([0, 1, 2, 2, 3, 4, 6])
    orders = [(i + 1, rng.choice(lat)) for i in range(n)]
    script, nxt = {}, n + 1
    pool = [i for i, _ in orders]
    for _ in range(rng.choice([0, 1, 1, 2, 3])):
        if not pool: break
        trig = rng.choice(pool)
        if trig in script: continue
        cancels = [i for i in pool if i != trig and rng.random() < 0.25]
        news = []
        for _ in range(rng.choice([0, 1, 1, 2])):
            news.append((nxt, rng.choice(lat))); pool.append(nxt); nxt += 1
        script[trig] = (cancels, news)
    return [1000.0, o, c, hi, lo, 7.0], orders, script


def real_minute(candle, orders, script):
    from . import driver as D
    C.use_repo()
    import numpy as np
    from jesse.strategies import Strategy
    from jesse.store import store
    import jesse.modes.backtest_mode as bm
    fills, tag2o = [], {}

    class Scr(Strategy):
        def should_long(self): return False
        def go_long(self): pass
        def _on_updated_position(self, order):
            t = getattr(order, '_tag', None)
            fills.append(t)
            if t in script:
                cancels, news = script[t]
                for i in cancels:
                    if i in tag2o: tag2o[i].cancel()
                for (i, p) in news:
                    o = D.submit('BTC-USDT', 'buy', 'LIMIT', 1.0, p); o._tag = i; tag2o[i] = o
    D.session(typ='futures', balance=1e9, strategy_cls=Scr)
    for (i, p) in orders:
        o = D.submit('BTC-USDT', 'buy', 'LIMIT', 1.0, p); o._tag = i; tag2o[i] = o
    parts = []
    orig = bm._update_all_routes_a_partial_candle

    def pub(exchange, symbol, c):
        parts.append([float(x) for x in c]); orig(exchange, symbol, c)
    bm._update_all_routes_a_partial_candle = pub
    try:
        k = np.array(candle, dtype=float); k[0] = store.app.time
        bm._simulate_price_change_effect(k, 'Sandbox', 'BTC-USDT')
    finally:
        bm._update_all_routes_a_partial_candle = orig
    left = [o._tag for o in store.orders.get_active_orders('Sandbox', 'BTC-USDT') if o.is_active]
    return [float(x) for x in k], fills, parts, left


# ------------------------------------------------------------------------------------------ (1b) the pass over the live queue
def gen_pass(rng):
    """ids are submission serial numbers on both sides: 0..n-1 queued at the start, later ones as the hooks submit them"""
    n = rng.choice([1, 1, 2, 3])
    script = {}
    for _ in range(rng.choice([0, 1, 2, 3, 4])):
        trig = rng.randrange(0, n + 4)
        if trig in script: continue
        ops = []
        for _ in range(rng.choice([1, 1, 2, 3])):
            r = rng.random()
            ops.append(('M',) if r < 0.55 else ('L',) if r < 0.8 else ('C', rng.randrange(0, n + 5)))
        script[trig] = ops
    return n, script


def real_pass(n, script):
    from . import driver as D
    C.use_repo()
    from jesse.strategies import Strategy
    from jesse.store import store
    from jesse.exchanges.sandbox.Sandbox import Sandbox
    executed, tag2o = [], {}
    api = Sandbox('Sandbox')

    def sub(kind):
        o = api.market_order('BTC-USDT', 1.0, 10.0, 'buy', False) if kind == 'M' else api.limit_order('BTC-USDT', 1.0, 5.0, 'buy', False)
        o._tag = len(tag2o); tag2o[o._tag] = o

    class Scr(Strategy):
        def should_long(self): return False
        def go_long(self): pass
        def _on_updated_position(self, order):
            t = order._tag
            executed.append(t)
            for op_ in script.get(t, []):
                if op_[0] == 'C':
                    if op_[1] in tag2o: tag2o[op_[1]].cancel()
                else:
                    sub(op_[0])
    D.session(typ='futures', balance=1e9, strategy_cls=Scr)
    for i in range(n):
        sub('M')
    store.orders.execute_pending_market_orders()
    still = sorted(t for t, o in tag2o.items() if o.is_active)
    return executed, still, len(store.orders.to_execute)


# ------------------------------------------------------------------------------------------ (2) event streams of real sessions
def streams(trace):
    """per symbol: list of (coq term, source event) following Run/C02Run.ev"""
    out, buf = {}, {}
    py_bad = []
    sub = {}
    for e in trace:
        k = e['k']
        sym = e.get('sym')
        if k == 'submit':
            sub[e['id']] = e
            if e['type'] == 'MARKET' and e['cur'] is not None and e['price'] != e['cur']:
                py_bad.append(('market_order_price_is_not_the_current_price', e))
            item = (f"ESub {C.cnat(e['id'])} {C.cfloat(e['price'])} {C.cbool(e['type'] != 'MARKET')}", e)
        elif k == 'cancel':
            if e['was'] != 'ACTIVE': continue
            item = (f"ECan {C.cnat(e['id'])}", e)
        elif k == 'exec_begin':                     # hooks run inside Order.execute: the fill comes before what they do
            if e['was'] != 'ACTIVE': continue
            s0 = sub.get(e['id'])
            if s0 is not None and (s0['price'] != e['price'] or s0['qty'] != e['qty']):
                py_bad.append(('order_price_or_quantity_changed_between_submission_and_fill', {'submit': s0, 'execute': e}))
            item = (f"EExe {C.cnat(e['id'])}", e)
        elif k == 'match':
            if len(e['candles']) == 1:
                item = (f"EMatch {cndf(e['candles'][0])}", e)
            else:
                buf[sym] = (e, [])
                continue
        elif k == 'match_abort':                   # an exception left the matcher: the stream ends here
            buf.pop(sym, None)
            break
        elif k == 'match_end':
            if sym in buf:
                m, evs = buf.pop(sym)
                cs = m['candles']
                for i, c in enumerate(cs):
                    c2 = list(c)
                    if i > 0:
                        c2[3] = max(c2[3], cs[i - 1][2]); c2[4] = min(c2[4], cs[i - 1][2])
                    out.setdefault(sym, []).append((f'EMatch {cndf(c2)}', {'k': 'match', 'sym': sym, 'candles': [c2], 'chunk_minute': i, 't': c[0] + 60000}))
                    last = i == len(cs) - 1
                    for (term, src) in evs:
                        if src['t'] == c[0] + 60000 or (last and src['t'] > c[0] + 60000) or (i == 0 and src['t'] < c[0] + 60000):
                            out[sym].append((term, src))
                    out[sym].append(('EEnd', {'k': 'match_end', 'sym': sym}))
                continue
            item = ('EEnd', e)
        else:
            continue
        if sym in buf and k in ('submit', 'cancel', 'exec_begin'):
            buf[sym][1].append(item)
        else:
            out.setdefault(sym, []).append(item)
    return out, py_bad



def match_loop_correspondence(rng, count, tag):
    """Model/Match.match_minute (Coq, exact rationals) against the real _simulate_price_change_effect on `count` scripted minutes (resting orders in and
    outside the range, reactions that cancel and place orders at fills).  Returns (n_good, cases that ran into an exception, cases where model and code differ, coq errors).
    Shared by C02 and C08: both properties' theorems are about match_minute."""
    hdr = ('From Coq Require Import ZArith QArith Qcanon List Bool Arith PrimFloat.\nFrom JV Require Import Base.Num Model.Match Run.Harness Run.KernelRun Run.C02Run.\n'
           'Import ListNotations.\n')
    mcases = []
    for _ in range(count):
        candle, orders, script = gen_minute(rng)
        try:
            k, fills, parts, left = real_minute(candle, orders, script)
        except Exception as ex:
            mcases.append({'candle': candle, 'orders': orders, 'script': script, 'error': type(ex).__name__ + ': ' + str(ex)[:200]}); continue
        mcases.append({'candle': k, 'orders': orders, 'script': script, 'fills': fills, 'parts': parts, 'left': left})
    merr = [m for m in mcases if 'error' in m]
    good = [m for m in mcases if 'error' not in m]

    def mterm(m):
        sc = C.clist([f"({C.cnat(t)}, ({C.clist([C.cnat(i) for i in cn])}, {C.clist([f'({C.cnat(i)}, {qq(p)})' for i, p in nw])}))" for t, (cn, nw) in sorted(m['script'].items())])
        return (f"({cndq(m['candle'])}, {C.clist([f'({C.cnat(i)}, {qq(p)})' for i, p in m['orders']])}, {sc}, {C.clist([C.cnat(i) for i in m['fills']])}, "
                f"{C.clist([cndq(p) for p in m['parts']])}, {C.clist([C.cnat(i) for i in m['left']])})")
    jobs = []
    for j in range(0, len(good), 100):
        body = ';\n'.join(mterm(m) for m in good[j:j + 100])
        jobs.append((f'{tag}_{j // 100}', j, hdr + f'Definition cs : list minute_case := [\n{body}\n].\nEval vm_compute in (bad_indices (map minute_agrees cs)).\n'))
    outs = C.coq_eval_many([(j[0], j[2]) for j in jobs], timeout=1500)
    bad, errs = [], []
    for j, (rc, o) in zip(jobs, outs):
        r = C.parse_results(o)
        if rc != 0 or len(r) != 1:
            errs.append(o[-600:]); continue
        bad += [good[j[1] + i] for i in C.parse_nat_list(r[0])]
    return len(good), merr, bad, errs


def run(tier, seed, replay=None):
    from . import engine as E
    res = C.Result(PID, tier, seed)
    res.trusted = ['Coq 8.16.1 kernel + vm_compute', 'translator py2v (kernels re-validated bit-for-bit by harness/kernels.py)',
                   'Model/Match.v, Model/Lifecycle.v hand-written, tied by correspondence (c02 match loop, c08 sort, c05 registries)', 'harness/c02.py, engine.py, driver.py']
    res.assumptions = ['theorem (i) is about the normal simulator\'s per-minute loop; the fast simulator\'s chunk loop is covered by the monitor only',
                       'orders keep their identity: the strategy layer does not create a second order object with the same id',
                       'the monitor reads "first minute whose range contains the price" at minute granularity, with the range of the minute of submission '
                       'restricted to what is left of it when the order is submitted']
    from translator import gen_all
    ok, msgs = gen_all.generate()
    msgs = gen_all.relevant(msgs, ['candle', 'backtest']); ok = not msgs
    res.oblige('translator regenerated the kernels from /repo', ok, '\n'.join(msgs))
    C.standard_proof_step(res, 'Props.C02', THEOREMS, ['theories/Props/C02.vo', 'theories/Run/C02Run.vo'])
    rng = C.rng_for(seed, PID)
    hdr = ('From Coq Require Import ZArith QArith Qcanon List Bool Arith PrimFloat.\nFrom JV Require Import Base.Num Model.Match Run.Harness Run.KernelRun Run.C02Run.\n'
           'Import ListNotations.\n')
    # (1)
    mcases = []
    for _ in range(150 if tier == 'quick' else 2500):
        candle, orders, script = gen_minute(rng)
        try:
            k, fills, parts, left = real_minute(candle, orders, script)
        except Exception as ex:
            mcases.append({'candle': candle, 'orders': orders, 'script': script, 'error': type(ex).__name__ + ': ' + str(ex)[:200]}); continue
        mcases.append({'candle': k, 'orders': orders, 'script': script, 'fills': fills, 'parts': parts, 'left': left})
    merr = [m for m in mcases if 'error' in m]
    good = [m for m in mcases if 'error' not in m]

    def mterm(m):
        sc = C.clist([f"({C.cnat(t)}, ({C.clist([C.cnat(i) for i in cn])}, {C.clist([f'({C.cnat(i)}, {qq(p)})' for i, p in nw])}))" for t, (cn, nw) in sorted(m['script'].items())])
        return (f"({cndq(m['candle'])}, {C.clist([f'({C.cnat(i)}, {qq(p)})' for i, p in m['orders']])}, {sc}, {C.clist([C.cnat(i) for i in m['fills']])}, "
                f"{C.clist([cndq(p) for p in m['parts']])}, {C.clist([C.cnat(i) for i in m['left']])})")
    jobs = []
    SH = 100
    for j in range(0, len(good), SH):
        body = ';\n'.join(mterm(m) for m in good[j:j + SH])
        jobs.append((f'c02_m_{j // SH}', ('m', j), hdr + f'Definition cs : list minute_case := [\n{body}\n].\nEval vm_compute in (bad_indices (map minute_agrees cs)).\n'))
    pcases, perr = [], []
    for _ in range(120 if tier == 'quick' else 2000):
        n, script = gen_pass(rng)
        try:
            executed, still, qlen = real_pass(n, script)
            pcases.append((n, script, executed, still, qlen))
        except Exception as ex:
            perr.append({'n': n, 'script': script, 'error': type(ex).__name__ + ': ' + str(ex)[:200]})

    def pterm(pc):
        n, script, executed, still, qlen = pc
        def op(o):
            return {'M': 'Submit true', 'L': 'Submit false'}.get(o[0]) or f'CancelOne {C.cnat(o[1])}'
        sc = C.clist([f"({C.cnat(t)}, {C.clist([op(o) for o in ops])})" for t, ops in sorted(script.items())])
        return f"({C.cnat(n)}, {sc}, {C.clist([C.cnat(i) for i in executed])}, {C.clist([C.cnat(i) for i in still])}, {C.cnat(qlen)})"
    hdr_p = hdr + 'From JV Require Import Model.Lifecycle.\n'
    for j in range(0, len(pcases), 200):
        body = ';\n'.join(pterm(pc) for pc in pcases[j:j + 200])
        jobs.append((f'c02_p_{j // 200}', ('p', j), hdr_p + f'Definition cs : list pass_case := [\n{body}\n].\nEval vm_compute in (bad_indices (map pass_agrees cs)).\n'))
    # (1c) the fast matcher against the normal matcher on the real code: chunks of gapped minutes with several resting orders and reactions must be
    # filled in the same minutes by both (the fast matcher walks the chunk along the normal simulator's minute candles)
    from . import c12 as K
    chunk_diffs, n_chunks = [], 0
    for _ in range(60 if tier == 'quick' else 1500):
        ks_, orders_, script_ = K.gen_chunk(rng)
        try:
            _, ff_, _, fl_ = K.real_chunk(ks_, orders_, script_)
            sf_, sl_ = K.real_step_chunk(ks_, orders_, script_)
        except Exception:
            continue
        n_chunks += 1
        if ff_ != sf_ or sorted(fl_) != sorted(sl_):
            chunk_diffs.append({'chunk_candles': ks_, 'resting_orders': orders_, 'reactions': {str(k_): v_ for k_, v_ in script_.items()},
                                'fast_fills_id_minute': ff_, 'normal_fills_id_minute': sf_, 'fast_left': fl_, 'normal_left': sl_})
    # (2)
    sessions = 24 if tier == 'quick' else 300
    metas, py_bad, sess_err = [], [], []
    n_events = n_fills = n_market = 0
    for sidx in range(sessions):
        sc = E.gen_script(rng, rng.randrange(1 << 30))
        sc['digest'] = False
        sc['liquidate_every'] = rng.choice([0, 0, 0, 7])
        sc['nested_market'] = rng.choice([0, 0, 2, 3])
        if sc['nested_market'] and rng.random() < 0.6: sc['offs'] = [0]          # market entries
        cs = E.gen_candles(rng, rng.choice([60, 120, 180]))
        typ = rng.choice(['futures', 'futures', 'spot'])
        if typ == 'spot': sc['side'] = 'long'
        tf = rng.choice(['1m', '3m', '5m', '15m'])
        fast = sidx % 2 == 1
        kw = dict(exchange_type=typ, leverage=rng.choice([1, 2, 5]), fee=rng.choice([0.0, 0.001]), fast=fast)
        out = E.run_session({'BTC-USDT': cs}, [('BTC-USDT', tf)], scripts={'BTC-USDT': sc}, with_vids=True, **kw)
        if out['error'] and not E.benign_error(out['error']):
            sess_err.append({'error': out['error'], 'script': sc, 'timeframe': tf, **kw})
        st, pb = streams(out['trace'])
        for (what, e) in pb:
            py_bad.append({'clause': what, 'event': e, 'script': sc, 'timeframe': tf, **kw})
        for sym, items in st.items():
            n_events += len(items)
            n_fills += sum(1 for t, _ in items if t.startswith('EExe'))
            n_market += sum(1 for t, _ in items if t.startswith('ESub') and t.endswith('false'))
            metas.append({'session': sidx, 'sym': sym, 'items': items, 'script': sc, 'timeframe': tf, 'candles': cs, **kw})
            body = ';\n'.join(t for t, _ in items)
            jobs.append((f'c02_s_{sidx}_{sym.replace("-", "_")}', ('s', len(metas) - 1),
                         hdr + f'Definition es : list ev := [\n{body}\n].\nEval vm_compute in (let r := monitor {C.cbool(not out['error'])} es in [fst r; snd r]).\n'))
    outs = C.coq_eval_many([(j[0], j[2]) for j in jobs], timeout=1500)
    bad_minutes, bad_pass, viol, errs = [], [], [], []
    for j, (rc, o) in zip(jobs, outs):
        r = C.parse_results(o)
        if rc != 0 or len(r) != 1:
            errs.append(o[-600:]); continue
        v = C.parse_nat_list(r[0])
        if j[1][0] == 'm':
            bad_minutes += [good[j[1][1] + i] for i in v]
        elif j[1][0] == 'p':
            bad_pass += [pcases[j[1][1] + i] for i in v]
        elif v[1] != 0:
            viol.append((metas[j[1][1]], v[0], v[1]))
    res.oblige('C02 case files evaluated', not errs, '\n'.join(errs[:3]))
    res.oblige('scripted minutes ran on the real matcher', not merr, json.dumps(merr[:2], default=str)[:600])
    res.oblige('correspondence: Model/Match.match_minute with scripted reactions = _simulate_price_change_effect (fills, partial candles, orders left)',
               not bad_minutes, json.dumps(bad_minutes[:2], default=str)[:900])
    res.oblige('scripted queue passes ran on the real execute_pending_market_orders', not perr, json.dumps(perr[:2], default=str)[:600])
    res.oblige('correspondence: Model/Market.pass with scripted hooks = OrdersState.execute_pending_market_orders (orders executed in order, orders left active, queue length)',
               not bad_pass, json.dumps(bad_pass[:2], default=str)[:900])
    res.oblige('sessions ran without an engine error', not sess_err, json.dumps(sess_err[:2], default=str)[:600])
    res.add_cases(len(good) + n_events, len({json.dumps(m, default=str) for m in good}) + n_events, good[:1],
                  f'{len(good)} scripted minutes (lattice candles incl. prices exactly on open/high/low/close, 0..6 resting orders in and outside the range, reactions that '
                  f'cancel and submit up to 2 levels deep) and {n_events} events of {sessions} real sessions (scripted strategies: multi-point entries, stop-loss/take-profit '
                  f'ladders, modifications, liquidations; spot and futures; 1m..15m; normal and fast simulator alternately)')
    res.extra.update({'queue_passes': len(pcases), 'queue_pass_executions': sum(len(p[2]) for p in pcases), 'scripted_minutes': len(good), 'scripted_fills': sum(len(m['fills']) for m in good), 'sessions': sessions, 'session_events': n_events,
                      'session_fills': n_fills, 'market_orders': n_market, 'fast_sessions': sessions // 2})
    seen = set()
    for (m, idx, code) in viol:
        site = f"{CODES.get(code, code)}:{'fast' if m['fast'] else 'normal'}"
        if site in seen: continue
        seen.add(site)
        lo = max(0, idx - 12)
        res.violation(site, CODES.get(code, str(code)), {'simulator': 'fast' if m['fast'] else 'normal', 'exchange_type': m['exchange_type'], 'timeframe': m['timeframe'],
                                                         'script': m['script'], 'event_index': idx, 'events_before': [s for _, s in m['items'][lo:idx + 1]],
                                                         'candles': m['candles'], 'fee': m['fee'], 'leverage': m['leverage']})
    res.extra['chunks_on_both_real_matchers'] = n_chunks
    if chunk_diffs:
        res.violation('fast_matcher_fills_differ_from_the_normal_matcher_on_a_chunk', 'a chunk is filled differently by the fast matcher: an order is filled in another minute '
                      'than the first one whose range contains its price, or left unfilled', chunk_diffs[0])
    for b in py_bad:
        site = f"{b['clause']}:{'fast' if b['fast'] else 'normal'}"
        if site in seen: continue
        seen.add(site)
        res.violation(site, b['clause'], b)
    return res.finish()
