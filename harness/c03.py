"""C03 — the futures account always equals an average-cost margin account model.

proof:   Props/C03.v (Model/Futures.v refines Spec/RefFutures.v for every legal history; fill = average-cost fill;
         reduce-only never increases/flips; submit+cancel restores the available margin)
tie:     the hand-written model vs the real Order / Position / FuturesExchange objects after every operation
search:  the reference account evaluated by Coq on the implementation's own observations
"""
import json
from fractions import Fraction

from . import common as C

PID = 'C03'
THEOREMS = ['C03_futures_account_refines', 'C03_fill_is_average_cost', 'C03_reduce_only_never_increases', 'C03_submit_cancel_restores']
SYMS = ['BTC-USDT', 'ETH-USDT']


def num(x):
    fr = Fraction(float(x))
    return f'(q {C.cz(fr.numerator)} {C.cz(fr.denominator)})'


def gen_history(rng):
    nsym = rng.choice([1, 1, 2])
    lev = rng.choice([1, 2, 4, 8, 3, 10])
    fee = rng.choice([0.0, 0.0, 1 / 1024, 1 / 2048, 0.0004])
    balance = rng.choice([4096.0, 10000.0, 1000.0])
    price = {i: 64.0 for i in range(nsym)}
    ops, nid = [], 0
    live = []          # (id, sym, side, qty, ro)
    pos = {i: 0.0 for i in range(nsym)}
    for _ in range(rng.choice([4, 8, 15, 30, 45])):
        r = rng.random()
        i = rng.randrange(nsym)
        if r < 0.18:
            price[i] = max(8.0, price[i] + rng.choice([-4, -2, -1, -0.5, 0.5, 1, 2, 4]))
            ops.append(('price', i, price[i]))
        elif r < 0.6 or not live:
            nid += 1
            side = rng.choice(['buy', 'sell'])
            typ = rng.choice(['MARKET', 'LIMIT', 'STOP'])
            qty = rng.choice([0.5, 1.0, 2.0, 4.0, 8.0, 16.0, 3.0, 0.25])
            pr = price[i] if typ == 'MARKET' else price[i] + rng.choice([-2, -1, 1, 2, 0.5])
            ro = False
            if pos[i] != 0 and rng.random() < 0.45:
                ro = True
                side = 'sell' if pos[i] > 0 else 'buy'
                if rng.random() < 0.3:
                    qty = abs(pos[i]) * rng.choice([1, 2, 0.5])       # exact close / oversize / half
            if rng.random() < 0.03:
                qty = 512.0                                            # large: provokes a margin rejection
            ops.append(('submit', nid, i, side, typ, qty, pr, ro))
            live.append((nid, i, side, qty, ro))
        elif r < 0.85:
            oid, j, side, qty, ro = rng.choice(live)
            if ro and pos[j] == 0:
                ops.append(('cancel', oid))          # legal histories cancel resting exits once the position is closed
            else:
                ops.append(('execute', oid))
                sq = qty if side == 'buy' else -qty
                if ro:
                    if pos[j] * sq < 0:
                        sq = max(-abs(pos[j]), min(abs(pos[j]), sq))
                    else:
                        sq = 0
                pos[j] += sq
            if rng.random() < 0.9:
                live = [x for x in live if x[0] != oid]
        else:
            oid = rng.choice(live)[0]
            ops.append(('cancel', oid))
            if rng.random() < 0.9:
                live = [x for x in live if x[0] != oid]
    return balance, lev, fee, nsym, ops


def run_impl(balance, lev, fee, nsym, ops):
    from . import driver
    from jesse.exceptions import InsufficientMargin
    e = driver.session('futures', fee=fee, leverage=lev, balance=balance, symbols=tuple(SYMS[:nsym]))
    P = [driver.position(s) for s in SYMS[:nsym]]
    for p in P:
        p.current_price = 64.0
    objs, obs = {}, []

    def snap(ok):
        return (ok, e.wallet_balance, e.available_margin, [(p.qty, p.entry_price if p.entry_price is not None else 0.0, p.pnl) for p in P])
    for op in ops:
        try:
            if op[0] == 'submit':
                _, oid, i, side, typ, q, price, ro = op
                objs[oid] = driver.submit(SYMS[i], side, typ, q, price, reduce_only=ro)
            elif op[0] == 'execute':
                if op[1] in objs: objs[op[1]].execute()
            elif op[0] == 'cancel':
                if op[1] in objs: objs[op[1]].cancel()
            else:
                P[op[1]].current_price = op[2]
            obs.append(snap(True))
        except InsufficientMargin:
            obs.append(snap(False))
            break
        except Exception as ex:
            obs.append(('error', type(ex).__name__ + ':' + str(ex)[:80]))
            break
    return obs


def c_op(op):
    if op[0] == 'submit':
        _, oid, i, side, typ, q, price, ro = op
        return f'FSubmit (mkf {C.cnat(oid)} {C.cnat(i)} {"Buy" if side == "buy" else "Sell"} {typ.capitalize()} {num(q)} {num(price)} {C.cbool(ro)})'
    if op[0] == 'price':
        return f'FPrice {C.cnat(op[1])} {num(op[2])}'
    return f'{"FExecute" if op[0] == "execute" else "FCancel"} {C.cnat(op[1])}'


def c_obs(o, nsym):
    if o[0] == 'error':
        return '(true, q 123456789 1, q 0 1, [])'
    ps = C.clist([f'({num(a)}, {num(b)}, {num(c)})' for (a, b, c) in o[3]])
    return f'({C.cbool(o[0])}, {num(o[1])}, {num(o[2])}, {ps})'


def run(tier, seed, replay=None):
    res = C.Result(PID, tier, seed)
    res.trusted = ['Coq 8.16.1 kernel + vm_compute', 'Model/Futures.v (hand-written) tied by correspondence', 'harness/c03.py, harness/driver.py']
    res.assumptions = ['theorems in exact rational arithmetic; the implementation computes in binary64, values are compared up to a relative 1e-9 and '
                       'decisions exactly on histories whose decision margins exceed 1e-6 (others discarded and counted)',
                       'the strategy layer is absent (inert strategy attached); live-trading branches not modelled; mark prices are set by the harness']
    C.standard_proof_step(res, 'Props.C03', THEOREMS, ['theories/Props/C03.vo', 'theories/Run/C03Run.vo'])
    rng = C.rng_for(seed, PID)
    cases = [gen_history(rng) for _ in range(400 if tier == 'quick' else 5000)]
    obs = [run_impl(*c) for c in cases]
    # nearly all-in submissions: the history is run once, the available margin is read off the implementation, and one more non-reduce-only order is
    # appended whose margin requirement (notional / leverage) lies 0.012-0.05 percent below (must be accepted) or above (must be rejected) that margin
    # - the accept/reject clause at its boundary, at a distance the robustness filter (1e-6) keeps
    n_probe = 0
    for k in range(min(len(cases), 150 if tier == 'quick' else 1500)):
        b, l, f_, n, ops = cases[k]
        ob = obs[k]
        if not ob or ob[-1][0] is not True or len(ob) != len(ops):
            continue
        am = ob[-1][2]
        if not am > 1.0:
            continue
        i = rng.randrange(n)
        cur = 64.0
        for o in ops:
            if o[0] == 'price' and o[1] == i: cur = o[2]
        typ = rng.choice(['MARKET', 'LIMIT', 'STOP'])
        side = rng.choice(['buy', 'sell'])
        pr = cur if typ == 'MARKET' else cur + rng.choice([-2, -1, 1, 2, 0.5])
        delta = rng.choice([1 / 4096, 1 / 8192, 1 / 2048, -1 / 4096, -1 / 8192])
        qty = am * l / pr * (1 - delta)
        nid = 1 + max([o[1] for o in ops if o[0] == 'submit'] + [0])
        ops2 = ops + [('submit', nid, i, side, typ, qty, pr, False)]
        cases.append((b, l, f_, n, ops2)); obs.append(run_impl(b, l, f_, n, ops2)); n_probe += 1
    hdr = 'From Coq Require Import ZArith QArith Qcanon List Bool.\nFrom JV Require Import Base.Num Model.Spot Model.Futures Spec.RefFutures Run.Harness Run.C03Run.\nImport ListNotations.\n'
    jobs = []
    SH = 100
    for i in range(0, len(cases), SH):
        body = ';\n'.join(f'({num(b)}, {num(l)}, {num(f_)}, {C.cnat(n)}, {num(64.0)}, {C.clist([c_op(o) for o in ops[:len(ob)]])}, {C.clist([c_obs(x, n) for x in ob])})'
                          for (b, l, f_, n, ops), ob in zip(cases[i:i + SH], obs[i:i + SH]))
        jobs.append((f'c03_{i // SH}', i, hdr + f'Definition cs : list fcase := [\n{body}\n].\nEval vm_compute in (bad_indices (map case_robust cs)).\n'
                     'Eval vm_compute in (bad_indices (map model_agrees cs)).\nEval vm_compute in (bad_indices (map impl_meets_ref_legal cs)).\n'
                     'Eval vm_compute in (bad_indices (map case_legal cs)).\n'))
    outs = C.coq_eval_many([(j[0], j[2]) for j in jobs], timeout=1500)
    fragile, bad_model, bad_ref, errs, illegal = set(), [], [], [], set()
    for j, (rc, out) in zip(jobs, outs):
        r = C.parse_results(out)
        if rc != 0 or len(r) != 4:
            errs.append(out[-1200:]); continue
        fragile |= {j[1] + k for k in C.parse_nat_list(r[0])}
        bad_model += [j[1] + k for k in C.parse_nat_list(r[1])]
        bad_ref += [j[1] + k for k in C.parse_nat_list(r[2])]
        illegal |= {j[1] + k for k in C.parse_nat_list(r[3])}
    bad_model = [i for i in bad_model if i not in fragile]
    bad_ref = [i for i in bad_ref if i not in fragile]
    res.oblige('C03 case shards evaluated', not errs, '\n'.join(errs))
    res.oblige('correspondence: Model/Futures.v = real Order/Position/FuturesExchange objects after every operation (1e-9 relative, decisions exact)',
               not bad_model, json.dumps([cases[i] for i in bad_model[:1]])[:1500])
    kinds = {}
    for c in cases:
        for o in c[4]:
            kinds[o[0]] = kinds.get(o[0], 0) + 1
    res.add_cases(len(cases), len({json.dumps(c) for k, c in enumerate(cases) if k not in fragile and any(o[0] == 'execute' for o in c[4])}),
                  [{'balance': cases[0][0], 'leverage': cases[0][1], 'fee': cases[0][2], 'symbols': cases[0][3], 'ops': cases[0][4][:8]}],
                  'random legal histories over 1-2 symbols sharing the wallet: market/limit/stop, long and short, increases, partial and oversize '
                  'reductions, exact closes, flips, reduce-only exits, repeated execute/cancel calls, price moves, occasional over-margin submissions, and nearly all-in submissions placed 0.012-0.05 percent below / above the available margin read off the run; '
                  'leverage 1..10, fees 0, 1/1024, 1/2048, 0.0004; non-trivial = distinct, robust, with an execution')
    res.extra.update({'op_histogram': kinds, 'discarded_fragile_decisions': len(fragile), 'histories_outside_the_legal_quantifier (model correspondence only)': len(illegal), 'monitor_evaluations': len(cases) - len(fragile),
                      'near_all_in_probe_histories': n_probe, 'histories_ending_in_rejection': sum(1 for ob in obs if ob and ob[-1][0] is False),
                      'model_mismatches': len(bad_model), 'reference_mismatches': len(bad_ref)})
    seen = set()
    for i in sorted(bad_ref, key=lambda i: len(cases[i][4])):
        b, l, f_, n, ops = cases[i]
        last = ops[len(obs[i]) - 1]
        site = 'futures:' + last[0] + (':' + last[4] + (':ro' if last[7] else '') if last[0] == 'submit' else '')
        if site in seen or len(seen) > 3:
            continue
        seen.add(site)
        res.violation(site, 'wallet / position / available margin / accept-reject decision differ from the reference average-cost margin account',
                      {'balance': b, 'leverage': l, 'fee': f_, 'symbols': n, 'ops': ops[:len(obs[i])], 'implementation_observed': obs[i][-3:]})
    return res.finish()
