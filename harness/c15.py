"""C15 — indicators match their definitions, ranges and orderings.

proof:   Props/C15.v (RSI, Williams %R, stochastic %K ranges; Donchian ordering and enclosure; ATR and variance non-negative; SMA/EMA homogeneity) over
         the definitional models of Model/Indicators.v, for every input
tie:     the definitional models evaluated in Coq against jesse.indicators (29 series, lattice inputs incl. constant/alternating/huge/tiny prices, periods 2..60)
search:  range / ordering / enclosure / sign / scaling / selector monitors on the implementation for the property's whole list
"""
import json

from . import common as C
from . import ind

PID = 'C15'
THEOREMS = ['C15_rsi_in_range', 'C15_willr_in_range', 'C15_stoch_k_in_range', 'C15_donchian_ordered_and_enclosing', 'C15_atr_nonneg', 'C15_var_nonneg',
            'C15_sma_homogeneous', 'C15_ema_homogeneous', 'C15_wma_homogeneous', 'C15_trima_homogeneous', 'C15_wilders_homogeneous', 'C15_dema_homogeneous',
            'C15_tema_homogeneous', 'C15_macd_homogeneous', 'C15_mfi_in_range', 'C15_keltner_ordered', 'C15_atr_homogeneous']
MA_SELECTOR = {0: 'sma', 1: 'ema', 2: 'wma', 3: 'dema', 4: 'tema', 5: 'trima', 6: 'kama', 9: 'fwma', 10: 'hma', 11: 'linearreg', 12: 'wilders', 13: 'sinwma', 14: 'supersmoother',
               15: 'supersmoother_3_pole', 16: 'gauss', 17: 'high_pass', 18: 'high_pass_2_pole', 20: 'jma', 21: 'reflex', 22: 'trendflex', 23: 'smma', 25: 'pwma', 26: 'swma',
               27: 'alma', 30: 'nma', 31: 'edcf', 33: 'maaq', 34: 'srwma', 35: 'sqwma', 36: 'vpwma', 37: 'cwma', 38: 'jsa', 39: 'epma'}
RANGES = {'rsi': (0, 100, None), 'willr': (-100, 0, None), 'mfi': (0, 100, None), 'adx': (0, 100, None), 'stochf': (0, 100, None), 'stoch': (0, 100, None), 'srsi': (0, 100, None),
          'aroonosc': (-100, 100, None), 'cmo': (-100, 100, None), 'ultosc': (0, 100, None)}
NONNEG = ['atr', 'natr', 'stddev', 'var', 'trange']
BANDS = ['bollinger_bands', 'keltner', 'donchian']
HOMOGENEOUS = ['sma', 'ema', 'wma', 'dema', 'tema', 'trima', 'smma', 'wilders', 'hma', 'zlema']


def monitor(tier, seed, progress):
    C.use_repo()
    import numpy as np
    import jesse.indicators as ta
    import warnings
    warnings.simplefilter('ignore')
    rng = C.rng_for(seed, PID + ':monitor')
    viol, n_checks = {}, 0
    styles = ['walk', 'trend', 'flat', 'alternating', 'constant', 'spiky', 'big', 'tiny', 'awkward', 'noisy_then_flat', 'flat_then_noisy']
    periods = [2, 3, 5, 14, 20, 33, 60] if tier == 'quick' else list(range(2, 61))
    for style in styles:
        for p in periods:
            n = rng.choice([p + 1, 2 * p + 3, 90, 150]) if not style.endswith('_flat') and not style.startswith('flat_then') else 4 * p + 40
            cs, _ = ind.gen_series(rng, n, style)
            arr = np.array(cs)
            scale = float(np.nanmax(np.abs(arr[:, 1:5])))
            base = {'series': style, 'period': p, 'length': n, 'candles': cs}

            def bad(site, **kw):
                viol.setdefault(site, dict(base, **kw))
            # ranges
            for name, (lo, hi, _) in RANGES.items():
                f = getattr(ta, name, None)
                if f is None: continue
                progress(dict(base, indicator=name))
                try:
                    r = f(arr, p, sequential=True) if name not in ('stochf', 'stoch', 'srsi', 'ultosc') else f(arr, sequential=True)
                except Exception:
                    continue
                for fld, v in ind.fields(r).items():
                    a = ind.numeric_array(v)
                    if a is None: continue
                    n_checks += 1
                    fin = a[np.isfinite(a)]
                    if len(fin) and (fin.min() < lo - 1e-7 or fin.max() > hi + 1e-7):
                        bad(f'out_of_range:{name}', field=fld, min=float(fin.min()), max=float(fin.max()), range=[lo, hi])
            # non-negative
            for name in NONNEG:
                f = getattr(ta, name, None)
                if f is None: continue
                progress(dict(base, indicator=name))
                try:
                    r = f(arr, p, sequential=True) if name != 'trange' else f(arr, sequential=True)
                except Exception:
                    continue
                a = ind.numeric_array(r)
                if a is None: continue
                n_checks += 1
                fin = a[np.isfinite(a)]
                if len(fin) and fin.min() < -1e-9 * scale * scale:
                    bad(f'negative:{name}', min=float(fin.min()))
            # bands ordered, donchian encloses the window
            for name in BANDS:
                progress(dict(base, indicator=name))
                try:
                    r = getattr(ta, name)(arr, p, sequential=True)
                except Exception:
                    continue
                up, mid, low = (ind.numeric_array(x) for x in (r.upperband, r.middleband, r.lowerband))
                n_checks += 1
                ok = np.isfinite(up) & np.isfinite(mid) & np.isfinite(low)
                tol = 1e-9 * scale
                half = np.isfinite(mid) & ~(np.isfinite(up) & np.isfinite(low))
                if half.any():
                    i = int(np.where(half)[0][0])
                    bad(f'band_undefined_where_the_middle_is_defined:{name}', index=i, upper=float(up[i]), middle=float(mid[i]), lower=float(low[i]))
                if ok.any() and ((up[ok] < mid[ok] - tol).any() or (mid[ok] < low[ok] - tol).any()):
                    i = int(np.where(ok & ((up < mid - tol) | (mid < low - tol)))[0][0])
                    bad(f'bands_not_ordered:{name}', index=i, upper=float(up[i]), middle=float(mid[i]), lower=float(low[i]))
                if name == 'donchian' and ok.any():
                    for i in np.where(ok)[0]:
                        if arr[i, 3] > up[i] + tol or arr[i, 4] < low[i] - tol:
                            bad('channel_does_not_enclose_price:donchian', index=int(i)); break
            # definitions of the windowed indicators that have no Coq model (square roots, absolute deviations): a straightforward reference
            # computed window by window with exactly rounded sums; compared where the definition is well conditioned
            import math as _m
            tp_ = [(r_[3] + r_[4] + r_[2]) / 3.0 for r_ in cs]
            cl_ = [r_[2] for r_ in cs]

            def cmp_series(name, got, want, cond, rtol=1e-6):
                nonlocal n_checks
                n_checks += 1
                if got is None or len(got) != len(want):
                    bad(f'definition:{name}', reason='length', got=None if got is None else len(got), want=len(want)); return
                for i_, (g_, w_, c_) in enumerate(zip(got, want, cond)):
                    if w_ is None:
                        if not (g_ != g_):
                            bad(f'definition:{name}', index=i_, implementation=float(g_), definition='undefined (window not full)'); return
                        continue
                    if not c_:
                        continue
                    if g_ != g_ or abs(g_ - w_) > rtol * max(1.0, abs(w_)) * (scale if name in ('stddev', 'bollinger') else 1.0):
                        bad(f'definition:{name}', index=i_, implementation=float(g_), definition=float(w_)); return
            if n >= p:
                want, cond = [], []
                for i_ in range(n):
                    if i_ < p - 1: want.append(None); cond.append(True); continue
                    w_ = tp_[i_ - p + 1:i_ + 1]; m_ = _m.fsum(w_) / p; md_ = _m.fsum(abs(x_ - m_) for x_ in w_) / p
                    s_ = 0.0
                    for x_ in w_: s_ += x_
                    # a flat window counts only when the plain left-to-right float mean of it is exact: then the definition gives md = 0 and CCI = 0
                    # without any rounding; on other flat windows the value is 0/0 up to rounding and nothing is demanded
                    flat_ = all(x_ == w_[0] for x_ in w_) and s_ / p == w_[0]
                    want.append(0.0 if flat_ else (tp_[i_] - m_) / (0.015 * md_) if md_ > 0 else 0.0)
                    cond.append(flat_ or md_ > 1e-9 * scale)
                progress(dict(base, indicator='cci'))
                try: cmp_series('cci', ind.numeric_array(ta.cci(arr, p, sequential=True)), want, cond, rtol=1e-6)
                except Exception: pass
                want, cond = [], []
                for i_ in range(n):
                    if i_ < p - 1: want.append(None); cond.append(True); continue
                    w_ = cl_[i_ - p + 1:i_ + 1]; m_ = _m.fsum(w_) / p
                    want.append(_m.sqrt(_m.fsum((x_ - m_) ** 2 for x_ in w_) / p)); cond.append(True)
                progress(dict(base, indicator='stddev'))
                try: cmp_series('stddev', ind.numeric_array(ta.stddev(arr, p, sequential=True)), want, cond, rtol=1e-7)
                except Exception: pass
                progress(dict(base, indicator='bollinger_bands'))
                try:
                    bb_ = ta.bollinger_bands(arr, p, sequential=True)
                    mids_ = [None if i_ < p - 1 else _m.fsum(cl_[i_ - p + 1:i_ + 1]) / p for i_ in range(n)]
                    cmp_series('bollinger', ind.numeric_array(bb_.upperband), [None if m_ is None else m_ + 2 * s_ for m_, s_ in zip(mids_, want)], cond, rtol=1e-7)
                    cmp_series('bollinger', ind.numeric_array(bb_.lowerband), [None if m_ is None else m_ - 2 * s_ for m_, s_ in zip(mids_, want)], cond, rtol=1e-7)
                except Exception: pass
                if n > p + 2:
                    # a recursive smoother in its recurrence step: Wilder's ATR, p * ATR_i - (p - 1) * ATR_{i-1} = true range of candle i
                    progress(dict(base, indicator='atr'))
                    try:
                        a_ = ind.numeric_array(ta.atr(arr, p, sequential=True))
                        n_checks += 1
                        for i_ in range(p + 1, n):
                            if a_[i_] != a_[i_] or a_[i_ - 1] != a_[i_ - 1]:
                                continue
                            tr_ = max(cs[i_][3] - cs[i_][4], abs(cs[i_][3] - cs[i_ - 1][2]), abs(cs[i_][4] - cs[i_ - 1][2]))
                            step_ = p * a_[i_] - (p - 1) * a_[i_ - 1]
                            if abs(step_ - tr_) > 1e-7 * scale * p:
                                bad('definition:atr', index=i_, recurrence_step=float(step_), true_range=float(tr_)); break
                    except Exception: pass
                if n > p:
                    vol_ = [r_[5] for r_ in cs]
                    want, cond = [], []
                    for i_ in range(n):
                        if i_ < p: want.append(None if i_ < p - 1 else 0.0); cond.append(i_ < p - 1); continue
                        pos_ = _m.fsum(tp_[j_] * vol_[j_] for j_ in range(i_ - p + 1, i_ + 1) if tp_[j_] > tp_[j_ - 1])
                        neg_ = _m.fsum(tp_[j_] * vol_[j_] for j_ in range(i_ - p + 1, i_ + 1) if tp_[j_] < tp_[j_ - 1])
                        want.append(100.0 if neg_ == 0 else 100 - 100 / (1 + pos_ / neg_)); cond.append(neg_ == 0 or neg_ > 1e-9 * scale)
                    progress(dict(base, indicator='mfi'))
                    try: cmp_series('mfi', ind.numeric_array(ta.mfi(arr, p, sequential=True)), want, cond, rtol=1e-6)
                    except Exception: pass
            # homogeneity: scaling the prices by 4 scales the average by 4 (exact in binary64)
            for name in HOMOGENEOUS:
                f = getattr(ta, name, None)
                if f is None: continue
                progress(dict(base, indicator=name))
                try:
                    a = ind.numeric_array(f(arr, p, sequential=True))
                    arr4 = arr.copy(); arr4[:, 1:5] *= 4.0
                    b = ind.numeric_array(f(arr4, p, sequential=True))
                except Exception:
                    continue
                n_checks += 1
                for i in range(len(a)):
                    if not ind.same(4.0 * a[i], b[i], 4 * scale):
                        bad(f'not_homogeneous:{name}', index=i, value=float(a[i]), value_at_4x=float(b[i])); break
            # the generic selector returns what the selected moving average returns
            for mt, name in MA_SELECTOR.items():
                f = getattr(ta, name, None)
                if f is None: continue
                progress(dict(base, indicator='ma', matype=mt))
                try:
                    import inspect as _insp
                    st_ = rng.choice(['close', 'hl2', 'high', 'ohlc4'])
                    if 'source_type' not in _insp.signature(f).parameters: st_ = 'close'
                    a = ind.numeric_array(ta.ma(arr, p, matype=mt, source_type=st_, sequential=True))
                    kw_ = {'source_type': st_} if 'source_type' in _insp.signature(f).parameters else {}
                    b = ind.numeric_array(f(arr, p, sequential=True, **kw_))          # "for the same arguments"
                except Exception:
                    continue
                n_checks += 1
                if a is None or b is None or len(a) != len(b) or any(not ind.same(x, y, scale) for x, y in zip(a, b)):
                    bad(f'selector_differs:{name}', matype=mt)
    return {'viol': viol, 'n_checks': n_checks}


def run(tier, seed, replay=None):
    res = C.Result(PID, tier, seed)
    res.trusted = ['Coq 8.16.1 kernel + vm_compute', 'Model/Indicators.v (definitional models) tied by value correspondence', 'harness/c15.py, ind.py']
    res.assumptions = ['agreement with the textbook definition is the Coq-evaluated correspondence of the 29 modelled series (exact rationals vs binary64, relative 1e-8); '
                       'indicators that need square roots or are not modelled (stddev, Bollinger, CCI, ADX family; Keltner with a moving average other than the EMA) are covered by the monitors only',
                       'range theorems for candle-based oscillators assume low <= close <= high']
    C.standard_proof_step(res, 'Props.C15', THEOREMS, ['theories/Props/C15.vo', 'theories/Run/IndRun.vo'])
    rng = C.rng_for(seed, PID)
    cases, bad, errs = ind.correspondence(rng, 150 if tier == 'quick' else 2500)
    res.oblige('indicator model case files evaluated', not errs, '\n'.join(errs[:2]))
    impl_err = [c for c in cases if 'error' in c and not (c['name'].startswith('donchian') and c['n'] < c['period'])]
    res.oblige('the core indicators ran on the generated series', not impl_err, json.dumps(impl_err[:2])[:500])
    res.oblige('correspondence: the definitional models = jesse.indicators (sma, ema, wma, trima, roc, mom, var, wilders, dema, tema, macd x3, rsi, atr, obv, donchian x3, willr, '
               'stochf %K, typprice, medprice, mfi, keltner x3)', not bad, json.dumps([{k: b[k] for k in ('name', 'period', 'style', 'n')} for b in bad[:4]]))
    mon = ind.run_child('c15', tier, seed)
    res.oblige('the monitors ran without crashing the interpreter', mon.get('crash') is None, json.dumps(mon.get('crash'))[:600])
    if mon.get('crash') is not None:
        res.violation('indicator_crashed:' + str(mon['crash'].get('indicator')), 'an indicator call killed the interpreter', mon['crash'])
    res.add_cases(len(cases) + mon.get('n_checks', 0), len(cases) + mon.get('n_checks', 0), [],
                  f"{len(cases)} definitional-model correspondence cases; {mon.get('n_checks', 0)} monitor evaluations on the implementation (ranges of {len(RANGES)} oscillators, "
                  f"{len(NONNEG)} volatility measures, {len(BANDS)} band families, scaling of {len(HOMOGENEOUS)} averages, {len(MA_SELECTOR)} matypes of the selector) over 8 series "
                  f"styles incl. constant, alternating, huge and tiny prices")
    res.extra.update({'correspondence_cases': len(cases), 'monitor_evaluations': mon.get('n_checks', 0)})
    for site, v in sorted(mon.get('viol', {}).items()):
        res.violation(site, site.replace('_', ' '), v)
    return res.finish()
