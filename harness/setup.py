"""./check --setup : regenerate Gen/ from /repo, build the whole Coq development (full .vo build)."""
import os
import sys
from . import common as C


def main():
    os.makedirs(C.BUILD, exist_ok=True)
    try:
        from translator import gen_all
        gen_all.generate()
    except ImportError:
        pass
    ok, log = C.coq_make()
    print(log[-3000:])
    if not ok:
        print('SETUP FAILED')
        return 1
    print('setup ok')
    return 0
