"""C19 — optimizer DNA decodes into in-range, typed, monotone hyper-parameters.

proof:          Props/C19.v (exact rationals over the GENERATED convert_number; alphabet constant regenerated)
tie:            kernel validation (convert_number bit-exact) + Model/Hp.dna_to_hp vs helpers.dna_to_hp at binary64
                + precedence model vs real research.backtest sessions that record self.hp
search/monitor: Coq monitor on the implementation's decoded values for the whole alphabet
"""
import json
import os

from . import common as C
from . import kernels

PID = 'C19'
THEOREMS = ['C19_alphabet', 'C19_float_decoding', 'C19_int_decoding', 'C19_position_local', 'C19_precedence',
            'C19_float_end_refuted_at_binary64']
f = kernels.f


def cval(v):
    if isinstance(v, bool) or not isinstance(v, (int, float)):
        return '(@VFloat FNum nan)'
    return f'(@VInt FNum {C.cz(v)})' if isinstance(v, int) else f'(@VFloat FNum {f(v)})'


def cdecl(d):
    t = {int: 'HInt', float: 'HFloat'}.get(d['type'], 'HOther')
    return f'(mkd {t} {f(d["min"])} {f(d["max"])})'


def gen_decl(rng, adversarial=True):
    k = rng.random()
    ty = rng.choice([int, float])
    if ty is int:
        lo = rng.choice([rng.randrange(-100, 100), rng.randrange(-10, 10), 0, 1, -1, rng.randrange(0, 1000)])
        hi = lo + rng.choice([0, 1, 2, 5, 10, 79, 80, 100, 1000, rng.randrange(0, 500)])
        return {'name': 'p', 'type': int, 'min': lo, 'max': hi, 'default': lo}
    if k < 0.3:
        lo, hi = sorted([round(rng.uniform(-100, 100), rng.choice([0, 1, 2, 3])) for _ in range(2)])
    elif k < 0.6:
        lo, hi = sorted([rng.uniform(-1000, 1000) for _ in range(2)])
    elif k < 0.8:
        lo = rng.choice([0.0, 0.1, -0.1, 1e-6, -77.3, 0.62, 1e6])
        hi = lo + rng.choice([0.0, 1e-9, 0.3, 1.0, 77.92, 1e6])
    else:
        lo, hi = sorted([10 ** rng.uniform(-6, 6) * rng.choice([-1, 1]) for _ in range(2)])
    return {'name': 'p', 'type': float, 'min': float(lo), 'max': float(hi), 'default': float(lo)}


def run(tier, seed, replay=None):
    res = C.Result(PID, tier, seed)
    res.trusted = ['Coq 8.16.1 kernel + vm_compute', 'translator py2v (convert_number, charset constant), validated bit-for-bit on every run',
                   'Model/Hp.v (zip loop and precedence, hand-written) tied by correspondence', 'harness/c19.py']
    res.assumptions = ['range/monotonicity/end theorems are over exact rationals; at binary64 the end-point clause is refuted (known finding F6) and the '
                       'monitor checks the implementation values directly', 'Python round() = round-half-even as modelled by Num.roundZ']
    kernels.validate(res, ['helpers'], seed, 200 if tier == 'quick' else 3000)
    C.standard_proof_step(res, 'Props.C19', THEOREMS, ['theories/Props/C19.vo', 'theories/Run/C19Run.vo'])

    C.use_repo()
    import jesse.helpers as jh
    rng = C.rng_for(seed, PID)
    charset = [chr(c) for c in range(40, 120)]
    # alphabet as the source declares it (the generated constant is what the theorems use; this is the runtime value)
    import inspect
    from jesse.modes.optimize_mode.Optimize import Optimizer
    src_charset = inspect.signature(Optimizer.__init__).parameters['charset'].default
    res.oblige('runtime alphabet of Optimizer.__init__ = generated constant = chr(40)..chr(119)', list(src_charset) == charset, src_charset)

    # ---------------------------------------------------------------- correspondence of dna_to_hp
    dcases = []
    for i in range(300 if tier == 'quick' else 4000):
        n = rng.choice([1, 2, 3, 5])
        decls = [dict(gen_decl(rng), name=f'p{j}') for j in range(n)]
        m = rng.choice([n, n, n - 1, n + 1, 0])
        dna = ''.join(rng.choice(charset) for _ in range(max(m, 0)))
        if i % 7 == 6 and dna:
            dna = dna[:-1] + rng.choice(['!', 'x', '~'])      # outside the alphabet: convert_number must raise
        if i % 11 == 10:
            decls[0]['type'] = str
        try:
            out = jh.dna_to_hp(decls, dna)
            exp = 'Val ' + C.clist([cval(out[d['name']]) for d in decls[:len(dna)]])
        except Exception:
            exp = 'Raise'
        dcases.append((decls, dna, exp))
    # ---------------------------------------------------------------- monitor cases: whole alphabet per declaration
    mcases = []
    fixed = [{'name': 'p', 'type': float, 'min': -77.3, 'max': 0.62, 'default': 0.0}]     # F6 witness, always replayed
    for d in fixed + [gen_decl(rng) for _ in range(400 if tier == 'quick' else 6000)]:
        try:
            vals = [jh.dna_to_hp([d], g)['p'] for g in charset]
        except Exception as e:
            vals = []
        mcases.append((d, vals))
    hdr = ('From Coq Require Import ZArith List Bool PrimFloat.\nFrom JV Require Import Base.Num Model.Hp Run.Harness Run.KernelRun Run.C19Run.\n'
           'Import ListNotations.\nOpen Scope float_scope.\n')
    jobs = []
    SH = 300
    for i in range(0, len(dcases), SH):
        body = ';\n'.join(f'({C.clist([cdecl(d) for d in ds])}, {C.clist([C.cz(ord(ch)) for ch in dna])}, {exp})' for ds, dna, exp in dcases[i:i + SH])
        jobs.append((f'c19_d_{i // SH}', ('d', i), hdr + f'Definition cs : list dcase := [\n{body}\n].\nEval vm_compute in (bad_indices (map model_agrees cs)).\n'))
    SM = 60
    for i in range(0, len(mcases), SM):
        body = ';\n'.join(f'({ {int: "HInt", float: "HFloat"}[d["type"]] }, {f(d["min"])}, {f(d["max"])}, {C.clist([cval(v) for v in vals])})'
                          for d, vals in mcases[i:i + SM])
        jobs.append((f'c19_m_{i // SM}', ('m', i), hdr + f'Definition cs : list mcase := [\n{body}\n].\nEval vm_compute in (map monitor cs).\n'))
    outs = C.coq_eval_many([(j[0], j[2]) for j in jobs])
    bad_model, codes, errs = [], {}, []
    for j, (rc, out) in zip(jobs, outs):
        r = C.parse_results(out)
        if rc != 0 or len(r) != 1:
            errs.append(out[-1500:]); continue
        kind, off = j[1]
        if kind == 'd':
            bad_model += [off + k for k in C.parse_nat_list(r[0])]
        else:
            for k, code in enumerate(C.parse_nat_list(r[0])):
                codes[off + k] = code
    res.oblige('C19 case shards evaluated', not errs and len(codes) == len(mcases), '\n'.join(errs))
    res.oblige('correspondence: Model/Hp.dna_to_hp (binary64) = helpers.dna_to_hp, bit-for-bit, incl. raising cases', not bad_model,
               str([(dcases[i][0], dcases[i][1], dcases[i][2]) for i in bad_model[:3]]))

    # ---------------------------------------------------------------- precedence against real sessions
    prec_bad = precedence_sessions(res, rng, tier)

    res.add_cases(len(dcases) + len(mcases), len({str(c[0]) for c in mcases}) + len({str(c[:2]) for c in dcases}),
                  [{'decl': str(mcases[1][0]), 'first_values': mcases[1][1][:3]}],
                  'random/adversarial (min,max,type) declarations x the whole 80-letter alphabet; dna strings shorter/longer than the declarations, '
                  'letters outside the alphabet, unsupported types')
    res.extra.update({'monitor_evaluations': len(mcases), 'model_mismatches': len(bad_model),
                      'monitor_failures': sum(1 for c in codes.values() if c)})
    seen = set()
    for i, code in sorted(codes.items()):
        if not code:
            continue
        d, vals = mcases[i]
        scale = max(1.0, abs(d['min']), abs(d['max']))
        ulp_only = (d['type'] is float and vals and (code & ~(1 | 8)) == 0 and abs(vals[-1] - d['max']) <= 1e-9 * scale
                    and all(d['min'] <= v <= d['max'] for v in vals[:-1]))
        site = 'float_last_gene_ulp' if ulp_only else 'decode:' + '+'.join(n for b, n in [(1, 'range'), (2, 'monotone'), (4, 'first'), (8, 'last'), (16, 'type')] if code & b) + ':' + d['type'].__name__
        if site in seen:
            continue
        seen.add(site)
        res.violation(site, 'decoded hyper-parameter values violate range / monotonicity / end points / type',
                      {'declaration': {k: str(v) for k, v in d.items()}, 'clauses_failed_bitmask': code,
                       'decoded_first_last': [vals[:2], vals[-2:]] if vals else 'raised'})
    for b in prec_bad[:1]:
        res.violation('precedence', 'self.hp of a backtest does not follow explicit > dna() > defaults', b)
    return res.finish()


def precedence_sessions(res, rng, tier):
    """real research.backtest runs; the strategy records self.hp"""
    C.use_repo()
    import numpy as np
    import jesse.helpers as jh
    from jesse import research
    from jesse.strategies import Strategy
    seen = {}

    def mk(decls, dna):
        class S(Strategy):
            def hyperparameters(self): return decls
            def dna(self): return dna
            def should_long(self): return False
            def go_long(self): pass
            def should_cancel_entry(self): return True
            def before(self): seen['hp'] = None if self.hp is None else dict(self.hp)
        return S
    candles = np.array([[1_600_000_000_000 + i * 60000, 10.0, 10.0, 10.0, 10.0, 1.0] for i in range(6)])
    cfg = {'starting_balance': 1000, 'fee': 0, 'type': 'futures', 'futures_leverage': 1, 'futures_leverage_mode': 'cross',
           'exchange': 'Sandbox', 'warm_up_candles': 0}
    combos = []
    variants = 6 if tier == 'quick' else 40
    for explicit in (True, False):
        for nd in (0, 2):
            for ng in (0, 2):
                for v in range(variants):
                    combos.append((explicit, nd, ng, v))
    bad = []
    rows = []
    letters = '()*PQvw'                     # first, second, third, middle, last letters of the alphabet: the ends of the range matter
    for (explicit, nd, ng, v) in combos:
        # variant 0 is the fixed one of earlier runs; the others draw ranges that contain 0, defaults different from what is injected, and
        # injected values that are falsy (0, 0.0), negative, equal to a bound or equal to the default
        if v == 0:
            decls = [{'name': f'p{j}', 'type': int if j == 0 else float, 'min': 10 + j, 'max': 20 + j, 'default': 15 + j} for j in range(nd)]
            dna = 'w(' [:ng] if ng else ''
            ex = {'p0': 999, 'p1': 0.5} if explicit else None
        else:
            decls = []
            for j in range(nd):
                lo = rng.choice([0, 0, -40, 10, -3])
                hi = lo + rng.choice([79, 10, 1, 158])
                ty = int if (j == 0) == (v % 2 == 0) else float
                de = rng.choice([lo + 5, hi, lo + 1]) if ty is int else rng.choice([lo + 0.5, float(hi), lo + 2.25])
                decls.append({'name': f'p{j}', 'type': ty, 'min': lo if ty is int else float(lo), 'max': hi if ty is int else float(hi), 'default': de})
            dna = ''.join(rng.choice(letters) for _ in range(ng)) if ng else ''
            ex = {f'p{j}': rng.choice([0, 0.0, 0, -1, 999, 0.5, 15, 1e-9]) for j in range(2)} if explicit else None
        seen.clear()
        try:
            research.backtest(cfg, [{'exchange': 'Sandbox', 'strategy': mk(decls, dna), 'symbol': 'BTC-USDT', 'timeframe': '1m'}], [],
                              {jh.key('Sandbox', 'BTC-USDT'): {'exchange': 'Sandbox', 'symbol': 'BTC-USDT', 'candles': candles}},
                              hyperparameters=ex)
            hp = seen.get('hp', 'no-hook')
        except Exception as e:
            hp = 'raised:' + type(e).__name__
        cand = {0: ex, 1: (jh.dna_to_hp(decls, dna) if ng else None), 2: {d['name']: d['default'] for d in decls} if decls else None, 3: None}
        rows.append(((explicit, nd, ng, v), hp, cand, decls, dna))
    body = ('From Coq Require Import List.\nFrom JV Require Import Run.C19Run.\nImport ListNotations.\nEval vm_compute in ' +
            C.clist([f'source_code {C.cbool(e)} {C.cnat(nd)} {C.cnat(ng)}' for (e, nd, ng, _v) in combos]) + '.\n')
    rc, out = C.coq_eval('c19_prec', body)
    r = C.parse_results(out)
    okc = rc == 0 and len(r) == 1
    kinds = C.parse_nat_list(r[0]) if okc else []
    res.oblige('precedence model evaluated', okc and len(kinds) == len(combos), out[-800:])
    def same(a, b):
        # exactly the same mapping: names, types and values (0 and 0.0 and False are different answers)
        if a is None or b is None or isinstance(a, str) or isinstance(b, str):
            return a is b or a == b
        return list(a.keys()) == list(b.keys()) and all(type(a[k_]) is type(b[k_]) and a[k_] == b[k_] for k_ in a)
    for (combo, hp, cand, decls, dna), kind in zip(rows, kinds):
        if not same(hp, cand[kind]):
            bad.append({'explicit_given': combo[0], 'declarations': [{**d, 'type': d['type'].__name__} for d in decls], 'dna': dna, 'explicit': str(cand[0]), 'strategy_saw': str(hp),
                        'model_says_source': ['explicit', 'dna()', 'defaults', 'none'][kind], 'expected': str(cand[kind])})
    res.oblige(f'correspondence: effective_hp (Model/Hp.v) = self.hp seen by a strategy in {len(combos)} real sessions (explicit x declarations x dna, ranges containing 0, falsy injected values)',
               not bad, json.dumps(bad[:2]))
    res.add_cases(len(combos), len(combos), [{'session': str(rows[0][0]), 'hp_seen': str(rows[0][1])}],
                  'research.backtest sessions for every combination of explicit hyperparameters / declared defaults / dna()')
    return bad
