"""C01 — backtest decisions never depend on future candles (no look-ahead).

proof:   Props/C01.v: every read of the input arrays that the simulators make in step i (GENERATED from backtest_mode.py with its guards)
         lies inside the rows before the end of the step, hence - for an arbitrary engine behaviour F - the state after the steps that end
         before t is the same for two inputs that agree before t (normal simulator: every t; fast simulator: t on a chunk boundary)
tie:     the generator is fail-closed on any other use of the input; the reads it predicts over a whole run are compared (as multisets,
         inside Coq) with the reads recorded on the real input arrays of real sessions
search:  two-run differential on the real engine: same prefix, different tail, compare everything observable up to t
"""
import json
import math

from . import common as C

PID = 'C01'
THEOREMS = ['C01_prep_reads_inside_prefix', 'C01_step_reads_inside_prefix', 'C01_fast_reads_inside_prefix', 'C01_step_simulator_no_lookahead', 'C01_fast_simulator_no_lookahead']
TFM = {'1m': 1, '3m': 3, '5m': 5, '15m': 15, '30m': 30, '45m': 45, '1h': 60, '2h': 120}
OBSERVABLE = ('hook', 'submit', 'reject', 'cancel', 'execute', 'exec_begin')


class Recorder:
    """records every __getitem__ on the root input arrays handed to the simulators"""

    def __init__(self):
        self.reads = {}
        self.info = {}

    def __enter__(self):
        C.use_repo()
        import numpy as np
        import jesse.modes.backtest_mode as bm
        from jesse.config import config
        self.bm = bm
        rec = self

        class Rec(np.ndarray):
            def __array_finalize__(self, obj):
                self._root = False

            def __getitem__(self, key):
                if getattr(self, '_root', False):
                    rec.reads.setdefault(self._name, []).append(key)
                return super().__getitem__(key)
        self.orig = (bm._step_simulator, bm._skip_simulator)

        def wrap(fn, fast):
            def inner(candles, *a, **k):
                for key in candles:
                    r = candles[key]['candles'].view(Rec)
                    r._root = True; r._name = key
                    candles[key]['candles'] = r
                rec.info = {'fast': fast, 'first': f"{config['app']['considering_candles'][0][0]}-{config['app']['considering_candles'][0][1]}",
                            'timeframes': list(config['app']['considering_timeframes']), 'len': {k_: len(v['candles']) for k_, v in candles.items()},
                            'step': int(bm._calculate_minimum_candle_step()) if fast else None}
                return fn(candles, *a, **k)
            return inner
        bm._step_simulator, bm._skip_simulator = wrap(self.orig[0], False), wrap(self.orig[1], True)
        return self

    def __exit__(self, *a):
        self.bm._step_simulator, self.bm._skip_simulator = self.orig


def norm_key(key):
    if isinstance(key, slice) and key.step is None and key.start is not None and key.stop is not None:
        return (int(key.start), int(key.stop))
    try:
        k = int(key)
        return (k, k + 1)
    except (TypeError, ValueError):
        return None


def gen_pair(rng, E, fast, directed=None, force=None):
    """directed = (trading timeframe, data-route timeframe, cut minute): a configuration suggested by a read outside the prefix"""
    syms = ['BTC-USDT'] if rng.random() < 0.6 else ['BTC-USDT', 'ETH-USDT']
    if force is not None:
        syms = ['BTC-USDT', 'ETH-USDT'][:force['symbols']]
    tfs = {s: rng.choice(['1m', '3m', '5m', '15m']) for s in syms}
    if force is not None:
        tfs = {s: force['tf'] for s in syms}
    data = []
    for s in syms:
        for tf in rng.choice([[], [], ['15m'], ['30m'], ['5m', '1h'], ['15m', '30m']]):
            if tf != tfs[s]: data.append((s, tf))
    # a second symbol that is only a data route: its candles are readable by the first symbol's strategy at every hook, but nothing trades on it
    data_only = None
    if len(syms) == 2 and (rng.random() < 0.5 if force is None else force['data_only']):
        data_only = syms[1]
        data = [d for d in data if d[0] != data_only] + [(data_only, tf) for tf in rng.choice([['5m'], ['15m'], ['3m', '15m'], [tfs[syms[0]]]])]
    n = rng.choice([90, 150, 180])
    unit = 1
    for s in syms:
        unit = unit * TFM[tfs[s]] // math.gcd(unit, TFM[tfs[s]])
    t = rng.randrange(1, n // unit) * unit if fast else rng.randrange(1, n)
    if force is not None and not fast:
        # cut on the last minute of a trading candle: whatever happens inside that candle before its last minute is observable before the cut
        t = min(n - 2, rng.randrange(1, n // unit) * unit + unit - 1)
    if directed is not None:
        syms = ['BTC-USDT']
        tfs = {'BTC-USDT': directed[0]}
        data = [('BTC-USDT', directed[1])] if directed[1] != directed[0] else []
        t = directed[2]
        n = max(n, t + 30)
    a, b = {}, {}
    for s in syms:
        ca = E.gen_candles(rng, n)
        tail = E.gen_candles(rng, n - t, base=ca[t - 1][2] * rng.choice([0.5, 0.9, 1.0, 1.1, 2.0]), style=rng.choice(['walk', 'spiky', 'trend']))
        cb = [list(c) for c in ca[:t]] + [[ca[0][0] + (t + i) * E.M] + list(c[1:]) for i, c in enumerate(tail)]
        a[s], b[s] = ca, cb
    warm = None
    if rng.random() < 0.4:
        wl = 120
        warm = {'num': 60, 'candles': {}}
        for s in syms:
            w = E.gen_candles(rng, wl, base=a[s][0][1])
            for i, c in enumerate(w): c[0] = a[s][0][0] - (wl - i) * E.M
            warm['candles'][s] = w
    scripts = {}
    for s in syms:
        if s == data_only:
            continue
        sc = E.gen_script(rng, rng.randrange(1 << 30))
        sc['liquidate_every'] = rng.choice([0, 0, 7])
        scripts[s] = sc
    typ = rng.choice(['futures', 'futures', 'spot'])
    if typ == 'spot':
        for s in scripts: scripts[s]['side'] = 'long'
    kw = dict(exchange_type=typ, leverage=rng.choice([1, 2, 5]), fee=rng.choice([0.0, 0.001]), fast=fast)
    return {'routes': [(s, tfs[s]) for s in syms if s != data_only], 'data_routes': data, 'a': a, 'b': b, 't': t, 'warm': warm, 'scripts': scripts, 'kw': kw}


def observable(trace, cutoff):
    out = []
    for e in trace:
        if e['k'] in OBSERVABLE and e['t'] <= cutoff:
            out.append(e)
    return out


def run(tier, seed, replay=None):
    from . import engine as E
    res = C.Result(PID, tier, seed)
    res.trusted = ['Coq 8.16.1 kernel + vm_compute', 'translator/simidx.py (fail-closed extraction of the reads of the input arrays; its output is compared with recorded reads on every run)',
                   'harness/c01.py, engine.py']
    res.assumptions = ['the simulators reach the input arrays only through the extracted reads (every other use of `candles` inside _step_simulator, _skip_simulator and '
                       '_simulate_new_candles stops the generation); callees receive rows or slices, never the arrays',
                       'everything else (stores, matching, strategy, hooks) is an arbitrary function of the rows read and of the state: it cannot see rows that were not read',
                       'fast simulator: the cut is on a chunk boundary, as the property says']
    from translator import gen_all
    ok, msgs = gen_all.generate()
    msgs = gen_all.relevant(msgs, ['simidx']); ok = not msgs
    res.oblige('translator regenerated the simulators\' reads of the input arrays (Gen/simidx.v)', ok, '\n'.join(msgs))
    C.standard_proof_step(res, 'Props.C01', THEOREMS, ['theories/Props/C01.vo', 'theories/Run/C01Run.vo'])
    rng = C.rng_for(seed, PID)
    pairs = 10 if tier == 'quick' else 120
    diffs, sess_err, acc_cases, acc_meta, skipped, compared_events = [], [], [], [], 0, 0
    for k in range(pairs):
        p = gen_pair(rng, E, fast=(k % 2 == 1))
        outs = []
        for side in ('a', 'b'):
            with Recorder() as rec:
                out = E.run_session(p[side], p['routes'], data_routes=p['data_routes'], scripts=p['scripts'], warmup=p['warm'], with_vids=True, **p['kw'])
            outs.append(out)
            if out['error'] and not E.benign_error(out['error']):
                sess_err.append({'error': out['error'], 'routes': p['routes'], 'data_routes': p['data_routes'], **p['kw']})
            if side == 'a' and rec.info and not out['error']:
                counts = sorted({TFM[tf] for tf in rec.info['timeframes'] if tf != '1m'})
                for key, reads in rec.reads.items():
                    norm = [norm_key(x) for x in reads]
                    acc_cases.append((rec.info['step'], rec.info['len'][key], counts, key == rec.info['first'], norm))
                    acc_meta.append({'array': key, 'fast': rec.info['fast'], 'step': rec.info['step'], 'len': rec.info['len'][key], 'timeframes': rec.info['timeframes'],
                                     'first': key == rec.info['first'], 'reads': len(reads)})
        cutoff = E.T0 + p['t'] * E.M
        oa, ob = observable(outs[0]['trace'], cutoff), observable(outs[1]['trace'], cutoff)
        ea, eb = outs[0]['error'], outs[1]['error']
        if ea or eb:
            # an aborted run: compare what both produced up to the cut only when neither aborted before it
            skipped += 1
            continue
        compared_events += len(oa)
        if oa != ob:
            idx = next((i for i in range(min(len(oa), len(ob))) if oa[i] != ob[i]), min(len(oa), len(ob)))
            diffs.append({'cut_minute': p['t'], 'routes': p['routes'], 'data_routes': p['data_routes'], 'simulator': 'fast' if p['kw']['fast'] else 'normal',
                          'warm_up': bool(p['warm']), 'first_difference_index': idx, 'run_a': oa[idx] if idx < len(oa) else None, 'run_b': ob[idx] if idx < len(ob) else None,
                          'scripts': p['scripts'], 'candles_a': p['a'], 'candles_b': p['b'], **{k_: v for k_, v in p['kw'].items()}})
    hdr = 'From Coq Require Import ZArith List Bool Arith.\nFrom JV Require Import Run.Harness Run.C01Run.\nImport ListNotations.\nLocal Open Scope Z_scope.\n'
    if not all(o[1] for o in res.obligations) and not diffs:
        # the proof (or the generation) broke and the random pairs found nothing: look for a read outside the prefix in the generated
        # access lists and aim pairs at it
        rc, o = C.coq_eval('c01_search', hdr + 'Eval vm_compute in (firstn 3 bad_step_reads).\nEval vm_compute in (firstn 3 bad_fast_reads).\n')
        import re
        TFN = {v: k_ for k_, v in TFM.items()}
        targets = []
        if rc == 0:
            parts = o.split('=')
            nums = [[int(x) for x in re.findall(r'-?\d+', part.split(':')[0])] for part in parts[1:3]]
            for j in range(0, len(nums[0]) - 1, 2):
                i, c = nums[0][j], nums[0][j + 1]
                targets.append((False, ('1m' if c == 1 else TFN.get(c, '5m'), TFN.get(c, '5m'), i + 1)))
                targets.append((False, ('1m', TFN.get(c, '5m'), i + 1)))
            for j in range(0, len(nums[1]) - 2, 3):
                i, st, c = nums[1][j:j + 3]
                targets.append((True, (TFN.get(st, '5m'), TFN.get(c, '15m'), i + st)))
        res.extra['directed_targets'] = [list(t_[1]) + [t_[0]] for t_ in targets]
        for (fast_, d_) in targets:
            for _ in range(3):
                p = gen_pair(rng, E, fast=fast_, directed=d_)
                p['scripts']['BTC-USDT']['raise_at'] = None
                oo = [E.run_session(p[side], p['routes'], data_routes=p['data_routes'], scripts=p['scripts'], warmup=p['warm'], with_vids=True, **p['kw']) for side in ('a', 'b')]
                if oo[0]['error'] or oo[1]['error']:
                    continue
                cutoff = E.T0 + p['t'] * E.M
                oa, ob = observable(oo[0]['trace'], cutoff), observable(oo[1]['trace'], cutoff)
                if oa != ob:
                    idx = next((i_ for i_ in range(min(len(oa), len(ob))) if oa[i_] != ob[i_]), min(len(oa), len(ob)))
                    diffs.append({'cut_minute': p['t'], 'routes': p['routes'], 'data_routes': p['data_routes'], 'simulator': 'fast' if fast_ else 'normal',
                                  'warm_up': bool(p['warm']), 'first_difference_index': idx, 'run_a': oa[idx] if idx < len(oa) else None,
                                  'run_b': ob[idx] if idx < len(ob) else None, 'scripts': p['scripts'], 'candles_a': p['a'], 'candles_b': p['b'],
                                  'directed_by_read_outside_prefix': list(d_), **{k_: v for k_, v in p['kw'].items()}})
                    break
            if diffs:
                break
        if not diffs:
            # no read outside the prefix could be located in the lists (or they could not be regenerated): a fixed battery of the configurations in
            # which a peek is observable - entries resting inside trading candles longer than a minute, a second symbol that is only read, both simulators
            for force in [dict(symbols=2, data_only=True, tf='5m'), dict(symbols=2, data_only=True, tf='3m'), dict(symbols=2, data_only=False, tf='5m'),
                          dict(symbols=1, data_only=False, tf='5m'), dict(symbols=1, data_only=False, tf='15m')]:
                for fast_ in (False, True):
                    for _ in range(10 if force['data_only'] else 4):
                        p = gen_pair(rng, E, fast=fast_, force=force)
                        for sc_ in p['scripts'].values():
                            sc_['raise_at'] = None; sc_['entry_every'] = 2; sc_['offs'] = [-1, 0, 1]
                        oo = [E.run_session(p[side], p['routes'], data_routes=p['data_routes'], scripts=p['scripts'], warmup=p['warm'], with_vids=True, **p['kw']) for side in ('a', 'b')]
                        if oo[0]['error'] or oo[1]['error']:
                            continue
                        cutoff = E.T0 + p['t'] * E.M
                        oa, ob = observable(oo[0]['trace'], cutoff), observable(oo[1]['trace'], cutoff)
                        if oa != ob:
                            idx = next((i_ for i_ in range(min(len(oa), len(ob))) if oa[i_] != ob[i_]), min(len(oa), len(ob)))
                            diffs.append({'cut_minute': p['t'], 'routes': p['routes'], 'data_routes': p['data_routes'], 'simulator': 'fast' if fast_ else 'normal',
                                          'warm_up': bool(p['warm']), 'first_difference_index': idx, 'run_a': oa[idx] if idx < len(oa) else None,
                                          'run_b': ob[idx] if idx < len(ob) else None, 'scripts': p['scripts'], 'candles_a': p['a'], 'candles_b': p['b'],
                                          'from_the_fixed_battery': force, **{k_: v for k_, v in p['kw'].items()}})
                            break
                    if diffs: break
                if diffs: break
    odd = [m for m, c in zip(acc_meta, acc_cases) if any(x is None for x in c[4])]

    def aterm(c):
        step, ln, counts, first, reads = c
        return (f"({'None' if step is None else '(Some ' + C.cz(step) + ')'}, {C.cnat(ln)}, {C.clist([C.cz(x) for x in counts])}, {C.cbool(first)}, "
                f"{C.clist([f'({C.cz(lo)}, {C.cz(hi)})' for (lo, hi) in reads if True])})")
    usable = [(m, c) for m, c in zip(acc_meta, acc_cases) if all(x is not None for x in c[4])]
    jobs = [(f'c01_a_{j}', hdr + f'Definition c : access_case := {aterm(c)}.\nEval vm_compute in (bad_indices [accesses_agree c]).\n') for j, (m, c) in enumerate(usable)]
    outs = C.coq_eval_many(jobs, timeout=1500)
    bad_acc, errs = [], []
    for (m, c), (rc, o) in zip(usable, outs):
        r = C.parse_results(o)
        if rc != 0 or len(r) != 1:
            errs.append(o[-600:]); continue
        if C.parse_nat_list(r[0]):
            bad_acc.append(m)
    res.oblige('C01 case files evaluated', not errs, '\n'.join(errs[:3]))
    res.oblige('every recorded read of an input array is a row or a two-sided slice', not odd, json.dumps(odd[:3])[:600])
    res.oblige('correspondence: reads predicted by the generated access lists over the whole run = reads recorded on the real input arrays (multisets)',
               not bad_acc, json.dumps(bad_acc[:3])[:900])
    res.oblige('sessions ran without an engine error', not sess_err, json.dumps(sess_err[:2], default=str)[:600])
    res.add_cases(pairs, pairs, [], f'{pairs} pairs of real sessions with a common prefix and different tails (1-2 symbols, trading 1m..15m, data routes up to 1h, spot/futures, '
                  f'warm-up on/off, normal and fast simulator alternately; scripted strategies reading every route at every hook); {compared_events} observable events '
                  f'compared up to the cut; {skipped} pairs skipped because a run aborted on the strategy\'s own error; {len(usable)} input arrays with recorded reads')
    res.extra.update({'pairs': pairs, 'pairs_compared': pairs - skipped, 'events_compared': compared_events, 'arrays_with_recorded_reads': len(usable),
                      'recorded_reads': sum(m['reads'] for m in acc_meta)})
    seen = set()
    for d in diffs:
        site = f"prefix_differs:{d['simulator']}"
        if site in seen: continue
        seen.add(site)
        res.violation(site, 'two runs whose inputs agree before t differ in what was observable up to t', d)
    return res.finish()
