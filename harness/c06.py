"""C06 — position events and the trade log are a faithful record of the fills.

proof:   Props/C06.v (event grammar, one trade per cycle made of that cycle's fills, wallet identity for regular fill sequences;
         refutation witnesses for oversize reduce-only exits and flips)
tie:     Model/Trades.tstep (exact rationals) vs the real Order/Position/ClosedTrades/Strategy objects driven fill by fill
         (wallet, position, hooks fired with the size seen, closed trades and their derived fields), regular and irregular fills
search:  Coq monitors of the grammar, the trade records and the wallet identity on the traces of real sessions
"""
import json
import math
from fractions import Fraction

from . import common as C

PID = 'C06'
THEOREMS = ['C06_hooks_form_cycles', 'C06_hook_reports_size', 'C06_trades_are_the_cycles', 'C06_wallet_identity', 'C06_wallet_identity_flat', 'C06_multi_symbol_wallet_identity',
            'C06_oversize_reduce_only_refuted', 'C06_flip_refuted']
HOOKS = {'on_open_position': 0, 'on_close_position': 1, 'on_increased_position': 2, 'on_reduced_position': 3}


def qq(x):
    # the decimal value jesse itself computes with: sum_floats / subtract_floats go through Decimal(str(x)), so 0.8 - 0.1 - 0.7 is exactly 0 there
    fr = Fraction(repr(float(x))) if math.isfinite(float(x)) else Fraction(float(x))
    return f'(q {C.cz(fr.numerator)} {C.cz(fr.denominator)})'


def oq(x):
    return 'None' if x is None or (isinstance(x, float) and (math.isnan(x) or math.isinf(x))) else f'(Some {qq(x)})'


def rows(a):
    return C.clist([f'({qq(r[0])}, {qq(r[1])})' for r in a])


# ------------------------------------------------------------------------------------------ fill sequences on the real objects
def dsum(a, b):
    from decimal import Decimal
    return float(Decimal(str(a)) + Decimal(str(b)))


def gen_fills(rng, irregular, long_cycle=False):
    """signed qty on a 0.25 lattice or on a lattice of tenths (decimal quantities whose binary sums are inexact: 0.8 - 0.1 - 0.7), prices on a 0.5 lattice"""
    fs, q = [], 0.0
    dec = rng.random() < 0.5
    OPEN, INC, RED, OVER = ([0.8, 0.3, 1.1, 0.7, 2.3], [0.1, 0.2, 0.7], (0.1, 0.2, 0.3, 0.7, 1.1), [0.1, 0.3, 1]) if dec else \
                           ([1, 2, 0.5, 4, 1.5], [0.5, 1, 2], (0.25, 0.5, 1, 1.5), [0.5, 1, 2])
    n_fills = rng.choice([24, 30, 45]) if long_cycle else rng.choice([2, 3, 4, 6, 8, 12])
    for k_ in range(n_fills):
        price = 100.0 + rng.randrange(-20, 21) * 0.5
        r = rng.random()
        if long_cycle and q != 0:
            # one position cycle with dozens of fills on each side (scaling in and out, as a grid strategy does), closed by the last fill
            r = 0.4 if k_ == n_fills - 1 else (0.1 if r < 0.6 else 0.7)
        if q == 0:
            sq = rng.choice(OPEN) * rng.choice([1, -1])
            ro = irregular and r < 0.05
        elif r < 0.3:                                   # increase
            sq = math.copysign(rng.choice(INC), q)
            ro = irregular and rng.random() < 0.15
        elif r < 0.55:                                  # close
            sq, ro = -q, rng.random() < 0.7
        elif r < 0.85 or not irregular:                 # reduce
            m = [x for x in RED if x < abs(q)]
            sq = -math.copysign(rng.choice(m), q) if m else -q
            ro = rng.random() < 0.7
        else:                                           # oversize: reduce-only closes, otherwise flips
            sq = -math.copysign(dsum(abs(q), rng.choice(OVER)), q)
            ro = rng.random() < 0.5
        fs.append((sq, price, bool(ro)))
        if q == 0: q = sq
        elif q * sq > 0: q = q if ro else dsum(q, sq)
        elif abs(sq) > abs(q): q = 0.0 if ro else dsum(q, sq)
        else: q = dsum(q, sq)
    return fs


def real_fills(fee, balance, fs):
    from . import driver as D
    C.use_repo()
    from jesse.strategies import Strategy
    from jesse.store import store
    hooks = []

    class Rec(Strategy):
        def should_long(self): return False
        def go_long(self): pass
        def on_open_position(self, order): hooks.append((0, float(self.position.qty)))
        def on_close_position(self, order): hooks.append((1, float(self.position.qty)))
        def on_increased_position(self, order): hooks.append((2, float(self.position.qty)))
        def on_reduced_position(self, order): hooks.append((3, float(self.position.qty)))
    ex = D.session(typ='futures', fee=fee, leverage=100, balance=balance, strategy_cls=Rec)
    for (sq, price, ro) in fs:
        p = D.position('BTC-USDT')
        p.current_price = price
        o = D.submit('BTC-USDT', 'buy' if sq > 0 else 'sell', 'LIMIT', abs(sq), price, reduce_only=ro)
        o.execute()
    trades = []
    for t in store.completed_trades.trades:
        def f(x):
            try:
                v = float(x)
                return None if math.isnan(v) or math.isinf(v) else v
            except Exception:
                return None
        with __import__('warnings').catch_warnings():
            __import__('warnings').simplefilter('ignore')
            trades.append({'short': t.type == 'short', 'buys': [[float(a), float(b)] for a, b in t.buy_orders[:]] if len(t.buy_orders) else [],
                           'sells': [[float(a), float(b)] for a, b in t.sell_orders[:]] if len(t.sell_orders) else [],
                           'qty': float(t.qty), 'entry': f(t.entry_price), 'exit': f(t.exit_price), 'pnl': f(t.pnl)})
    return float(ex.assets['USDT']), float(D.position('BTC-USDT').qty), hooks, trades


def fills_term(fee, balance, fs, impl):
    w, pq, hooks, trades = impl
    tt = C.clist([f"({C.cbool(t['short'])}, {rows(t['buys'])}, {rows(t['sells'])}, {qq(t['qty'])}, {oq(t['entry'])}, {oq(t['exit'])}, {oq(t['pnl'])})" for t in trades])
    return (f"({qq(fee)}, {qq(balance)}, {C.clist([f'(mkfill {qq(a)} {qq(b)} {C.cbool(r)})' for a, b, r in fs])}, "
            f"({qq(w)}, {qq(pq)}, {C.clist([f'({C.cnat(h)}, {qq(v)})' for h, v in hooks])}, {tt}))")


def run(tier, seed, replay=None):
    res = C.Result(PID, tier, seed)
    res.trusted = ['Coq 8.16.1 kernel + vm_compute', 'Model/Trades.v + Model/Futures.position_fill hand-written, tied by correspondence', 'harness/c06.py, driver.py, engine.py']
    res.assumptions = ['the correspondence drives one symbol per fill sequence; the multi-symbol wallet identity is a theorem over the same per-symbol step',
                       'the wallet identity is proved for REGULAR fill sequences (no reduce-only order larger than the position, no flip, no reduce-only order on the '
                       'position\'s own side); the irregular ones are refuted by witnesses and listed as known findings']
    C.standard_proof_step(res, 'Props.C06', THEOREMS, ['theories/Props/C06.vo', 'theories/Run/C06Run.vo'])
    rng = C.rng_for(seed, PID)
    hdr = ('From Coq Require Import ZArith QArith Qcanon List Bool Arith.\nFrom JV Require Import Base.Num Model.Trades Run.Harness Run.C06Run.\nImport ListNotations.\n')
    cases, errs_real = [], []
    for k in range(200 if tier == 'quick' else 3000):
        fee = rng.choice([0.0, 0.001, 0.0005])
        fs = gen_fills(rng, irregular=(k % 3 == 0), long_cycle=(k % 10 == 5))
        try:
            impl = real_fills(fee, 1e7, fs)
            cases.append((fee, 1e7, fs, impl))
        except Exception as ex:
            errs_real.append({'fills': fs, 'fee': fee, 'error': type(ex).__name__ + ': ' + str(ex)[:200]})
    jobs = []
    SH = 100
    for j in range(0, len(cases), SH):
        body = ';\n'.join(fills_term(*c) for c in cases[j:j + SH])
        jobs.append((f'c06_f_{j // SH}', j, hdr + f'Definition cs : list fills_case := [\n{body}\n].\nEval vm_compute in (bad_indices (map model_agrees cs)).\n'
                     'Eval vm_compute in (bad_indices (map (fun c => negb (case_regular c)) cs)).\n'))
    outs = C.coq_eval_many([(j[0], j[2]) for j in jobs], timeout=1500)
    bad, errs, n_regular = [], [], 0
    for j, (rc, o) in zip(jobs, outs):
        r = C.parse_results(o)
        if rc != 0 or len(r) != 2:
            errs.append(o[-600:]); continue
        bad += [cases[j[1] + i] for i in C.parse_nat_list(r[0])]
        n_regular += len(C.parse_nat_list(r[1]))
    res.oblige('C06 case files evaluated', not errs, '\n'.join(errs[:3]))
    res.oblige('fill sequences ran on the real objects', not errs_real, json.dumps(errs_real[:2])[:600])
    res.oblige('correspondence: Model/Trades.trun = real Order/Position/ClosedTrades/Strategy objects (wallet, position, hooks, closed trades and their fields)',
               not bad, json.dumps([{'fee': b[0], 'fills': b[2], 'impl': b[3]} for b in bad[:2]], default=str)[:1500])
    # where model and objects disagree, decide the property itself on what the real objects did: the same Coq monitors as for sessions (hook grammar,
    # hooks match the fills, closed trades = cycles of the fills, wallet = start + net PnL) on the object-level run
    obj_viol = []
    if bad:
        MONS = {1: 'hook_grammar', 2: 'hooks_do_not_match_the_fills', 3: 'closed_trades_are_not_the_cycles_of_the_fills', 4: 'wallet_differs_from_start_plus_net_pnl_of_closed_trades'}
        KINDS = {0: 'regular', 1: 'reduce_only_order_on_the_positions_own_side', 2: 'oversize_reduce_only_exit', 3: 'position_flip', 4: 'reduce_only_order_opens'}

        def bterm(b):
            fee, bal, fs, (wallet, pq, hooks, trades) = b
            tt = C.clist([f"({C.cbool(t['short'])}, {rows(t['buys'])}, {rows(t['sells'])}, {qq(t['qty'])}, {oq(t['entry'])}, {oq(t['exit'])}, {oq(t['pnl'])})" for t in trades])
            return (f"({qq(fee)}, {qq(bal)}, {C.clist([f'(mkfill {qq(a)} {qq(b_)} {C.cbool(r)})' for a, b_, r in fs])}, "
                    f"{C.clist([f'({C.cnat(h)}, {qq(v)})' for h, v in hooks])}, {tt}, {qq(wallet)}, {C.cbool(pq == 0)})")
        bjobs = [(f'c06_b_{j}', hdr + f'Definition c : session_case := {bterm(b)}.\nEval vm_compute in (mon_all c).\n') for j, b in enumerate(bad[:12])]
        for b, (rc, o) in zip(bad[:12], C.coq_eval_many(bjobs, timeout=900)):
            r = C.parse_results(o)
            if rc != 0 or len(r) != 1:
                continue
            v = C.parse_nat_list(r[0])
            for mi in range(1, 5):
                if v[mi]:
                    obj_viol.append((f'{MONS[mi]}:{KINDS[v[0]]}', {'fee': b[0], 'starting_balance': b[1], 'fills_signed_qty_price_reduce_only': b[2], 'final_wallet': b[3][0],
                                                                 'final_position_qty': b[3][1], 'hooks_code_qty': b[3][2], 'closed_trades': b[3][3]}))
    # ------------------------------------------------------------------ monitors on real sessions
    from . import engine as E
    KIND = {0: 'regular', 1: 'reduce_only_order_on_the_positions_own_side', 2: 'oversize_reduce_only_exit', 3: 'position_flip', 4: 'reduce_only_order_opens'}
    MON = {1: 'hook_grammar', 2: 'hooks_do_not_match_the_fills', 3: 'closed_trades_are_not_the_cycles_of_the_fills', 4: 'wallet_differs_from_start_plus_net_pnl_of_closed_trades'}
    sessions = 30 if tier == 'quick' else 400
    scases, smeta, sess_err, py_viol, runaway, py_open = [], [], [], [], 0, []
    for k in range(sessions):
        sc = E.gen_script(rng, rng.randrange(1 << 30))
        sc['digest'] = False
        sc['liquidate_every'] = rng.choice([0, 0, 7, 13])
        if k % 3 == 0:
            # keep the declared exits inside the position: regular sessions
            sc['exit_style'] = 'on_open'; sc['modify'] = rng.choice(['none', 'on_reduce']); sc['points'] = 1
        if k % 6 in (1, 4):
            # no exits at all: the position (short for k % 6 == 1, long for 4) is still open at the last candle and is closed by the forced close
            sc.update({'side': 'short' if k % 6 == 1 else 'long', 'exit_style': 'none', 'liquidate_every': 0, 'modify': 'none', 'cancel_entry': 'never', 'offs': [0], 'points': 1})
        cs = E.gen_candles(rng, rng.choice([120, 240]))
        kw = dict(exchange_type='futures', leverage=rng.choice([1, 2, 5]), fee=rng.choice([0.0, 0.001]), fast=rng.random() < 0.3)
        tf = rng.choice(['1m', '3m', '5m'])
        out = E.run_session({'BTC-USDT': cs}, [('BTC-USDT', tf)], scripts={'BTC-USDT': sc}, with_vids=True, balance=10000.0, **kw)
        if out['error']:
            if 'RunawayFills' in out['error']: runaway += 1
            elif not E.benign_error(out['error']): sess_err.append({'error': out['error'], 'script': sc, 'timeframe': tf, **kw})
            continue
        sub = {e['id']: e for e in out['trace'] if e['k'] == 'submit'}
        fills = [(e['qty'], e['price'], sub[e['id']]['ro']) for e in out['trace'] if e['k'] == 'exec_begin' and e['was'] == 'ACTIVE' and e['id'] in sub]
        hooks = [(HOOKS[e['hook']], e['qty']) for e in out['trace'] if e['k'] == 'hook' and e['hook'] in HOOKS]
        trades = []
        for t in out.get('trades', []):
            def f(x):
                return None if x is None or math.isnan(x) or math.isinf(x) else x
            trades.append({'short': t['type'] == 'short', 'buys': [[abs(q_), p_] for (sd, q_, p_) in t['orders'] if sd == 'buy'],
                           'sells': [[abs(q_), p_] for (sd, q_, p_) in t['orders'] if sd == 'sell'], 'qty': 0.0 if math.isnan(t['qty']) else t['qty'],
                           'entry': f(t['entry']), 'exit': f(t['exit']), 'pnl': f(t['pnl'])})
        wallet = out['final']['USDT']
        flat = all(v == 0 for v in out.get('positions', {}).values())
        if not flat:
            # forced close at session end: a session that ran to its end leaves no position open (Strategy._terminate closes it with a market order,
            # which is one more fill of the last cycle, reported through on_close_position and recorded as that cycle's closed trade)
            py_open.append({'script': sc, 'timeframe': tf, 'candles': cs, 'positions_after_the_session': out.get('positions'), 'last_fills': fills[-3:], 'last_hooks': hooks[-3:], **kw})
        scases.append((kw['fee'], 10000.0, fills, hooks, trades, wallet, flat))
        meta = {'script': sc, 'timeframe': tf, 'candles': cs, 'fills': fills, 'hooks': hooks, 'trades': trades, 'final_wallet': wallet, 'flat_at_end': flat, **kw}
        smeta.append(meta)
        m = (out['result'] or {}).get('metrics') or {}
        if m and flat and 'net_profit' in m and abs((m['finishing_balance'] - m['starting_balance']) - m['net_profit']) > 1e-6 * (1 + abs(m['net_profit'])):
            py_viol.append((len(scases) - 1, {'starting_balance': m['starting_balance'], 'finishing_balance': m['finishing_balance'], 'net_profit': m['net_profit']}))

    def sterm(c):
        fee, bal, fills, hooks, trades, wallet, flat = c
        tt = C.clist([f"({C.cbool(t['short'])}, {rows(t['buys'])}, {rows(t['sells'])}, {qq(t['qty'])}, {oq(t['entry'])}, {oq(t['exit'])}, {oq(t['pnl'])})" for t in trades])
        return (f"({qq(fee)}, {qq(bal)}, {C.clist([f'(mkfill {qq(a)} {qq(b)} {C.cbool(r)})' for a, b, r in fills])}, "
                f"{C.clist([f'({C.cnat(h)}, {qq(v)})' for h, v in hooks])}, {tt}, {qq(wallet)}, {C.cbool(flat)})")
    sjobs = [(f'c06_s_{j}', hdr + f'Definition c : session_case := {sterm(c)}.\nEval vm_compute in (mon_all c).\n') for j, c in enumerate(scases)]
    souts = C.coq_eval_many(sjobs, timeout=1500)
    serrs, sviol, kinds_seen = [], [], {}
    for j, (rc, o) in enumerate(souts):
        r = C.parse_results(o)
        if rc != 0 or len(r) != 1:
            serrs.append(o[-600:]); continue
        v = C.parse_nat_list(r[0])
        kinds_seen[KIND[v[0]]] = kinds_seen.get(KIND[v[0]], 0) + 1
        for mi in range(1, 5):
            if v[mi]:
                sviol.append((f'{MON[mi]}:{KIND[v[0]]}', j))
        for (jj, mm) in py_viol:
            if jj == j:
                sviol.append((f'reported_net_profit_and_finishing_balance_disagree:{KIND[v[0]]}', j))
                smeta[j]['metrics'] = mm
    res.oblige('C06 session monitor files evaluated', not serrs, '\n'.join(serrs[:3]))
    res.oblige('sessions ran without an engine error', not sess_err, json.dumps(sess_err[:2], default=str)[:600])
    seen = set()
    if py_open:
        res.violation('position_left_open_after_the_session', 'a session that ran to its end leaves a position open: the forced close at session end did not close the last cycle', py_open[0])
    for site, rep in obj_viol:
        if site in seen: continue
        seen.add(site)
        res.violation(site, site.split(':')[0].replace('_', ' ') + ' on a fill sequence driven through the real Order/Position/Strategy objects (' + site.split(':')[1].replace('_', ' ') + ')', rep)
    for site, j in sviol:
        if site in seen: continue
        seen.add(site)
        m = smeta[j]
        res.violation(site, site.split(':')[0].replace('_', ' ') + ' (first irregular fill of the session: ' + site.split(':')[1].replace('_', ' ') + ')',
                      {k_: m[k_] for k_ in m if k_ != 'candles'} | {'candles': m['candles']})
    res.extra.update({'sessions': sessions, 'sessions_monitored': len(scases), 'sessions_by_first_irregular_fill': kinds_seen, 'runaway_sessions_skipped': runaway,
                      'session_fills': sum(len(c[2]) for c in scases), 'session_trades': sum(len(c[4]) for c in scases)})
    res.add_cases(len(cases), len({json.dumps(c[2]) for c in cases}), [{'fee': cases[0][0], 'fills': cases[0][2]}] if cases else [],
                  f'{len(cases)} fill sequences of 2..12 fills on a quarter-unit / half-price lattice, fee 0 / 0.0005 / 0.001, long and short cycles, increases, partial and full exits; '
                  f'a third of them with irregular fills (oversize reduce-only exits, flips, reduce-only orders on the position\'s own side); {n_regular} sequences regular')
    res.extra.update({'fill_sequences': len(cases), 'regular_sequences': n_regular, 'fills': sum(len(c[2]) for c in cases)})
    return res.finish()
