"""Direct driver of jesse's Order / Position / Exchange objects outside pytest (no simulator, an inert
strategy attached so that the strategy layer does not react behind the harness's back)."""
from . import common as C

_state = {}


def session(typ='futures', fee=0.0, leverage=1, mode='cross', balance=10000.0, symbols=('BTC-USDT',), exchange='Sandbox',
            strategy_cls=None):
    C.use_repo()
    import numpy as np
    import jesse.helpers as jh
    import jesse.config as jc
    from jesse.config import set_config
    from jesse.routes import router
    from jesse.store import store
    from jesse.strategies import Strategy
    from jesse.research.backtest import _format_config
    from jesse.modes.backtest_mode import _prepare_routes

    class Inert(Strategy):
        def should_long(self): return False
        def go_long(self): pass
        def _on_updated_position(self, order): pass

    jc.reset_config()
    jc.config['app']['trading_mode'] = 'backtest'
    jh.CACHED_CONFIG.clear()
    cfg = {'starting_balance': balance, 'fee': fee, 'type': typ, 'futures_leverage': leverage, 'futures_leverage_mode': mode,
           'exchange': exchange, 'warm_up_candles': 0}
    set_config(_format_config(cfg))
    routes = [{'exchange': exchange, 'strategy': strategy_cls or Inert, 'symbol': s, 'timeframe': '1m'} for s in symbols]
    router.initiate(routes, [])
    store.app.time = 1_600_000_000_000
    store.candles.init_storage(100)
    _prepare_routes(None)
    for s_ in symbols:
        store.candles.add_candle(np.array([store.app.time - 60000, 10., 10., 10., 10., 1.]), exchange, s_, '1m',
                                 with_execution=False, with_generation=False)
    _state['exchange'] = exchange
    return store.exchanges.storage[exchange]


def submit(symbol, side, typ, qty, price, reduce_only=False):
    import jesse.helpers as jh
    from jesse.models import Order
    from jesse.store import store
    o = Order({'id': jh.generate_unique_id(), 'symbol': symbol, 'exchange': _state['exchange'], 'side': side, 'type': typ,
               'reduce_only': reduce_only, 'qty': jh.prepare_qty(qty, side), 'price': price})
    store.orders.add_order(o)
    return o


def position(symbol):
    from jesse.store import store
    return store.positions.storage[f"{_state['exchange']}-{symbol}"]
