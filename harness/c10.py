"""C10 — smart order routing and declarative exit orders.

proof:   Props/C10.v (routing theorems over the GENERATED is_price_near; exit bookkeeping invariant for every op sequence)
tie:     kernel validation of is_price_near; entry_route/exit_route (binary64) vs the real Strategy._submit_*_orders and
         Broker.reduce_position_at; the exits model vs the real Strategy driven through the same declaration/position ops
search:  monitors over real backtest traces with scripted strategies (every `after` observation point)
"""
import json
import math
from fractions import Fraction

from . import common as C
from . import kernels

PID = 'C10'
THEOREMS = ['C10_market_band', 'C10_entry_routing', 'C10_exit_routing', 'C10_exits_match_latest_declaration',
            'C10_closed_position_has_no_exit_orders']
f = kernels.f


def qq(x):
    fr = Fraction(float(x))
    return f'(q {C.cz(fr.numerator)} {C.cz(fr.denominator)})'


def routing_cases(rng, n):
    """returns (entry_cases, exit_cases) with the implementation's observation"""
    from . import driver
    C.use_repo()
    import numpy as np
    from jesse.strategies import Strategy
    from jesse.store import store
    from jesse.routes import router
    from jesse.exceptions import OrderNotAllowed

    class S(Strategy):
        def should_long(self): return False
        def go_long(self): pass
    driver.session('futures', leverage=10, balance=1e12, strategy_cls=S)
    st = router.routes[0].strategy
    p = driver.position('BTC-USDT')
    t = [store.app.time]

    def set_price(cur):
        t[0] += 60000
        store.candles.add_candle(np.array([t[0], cur, cur, cur, cur, 1.0]), 'Sandbox', 'BTC-USDT', '1m', with_execution=False, with_generation=False)

    def grab(before):
        new = store.orders.get_orders('Sandbox', 'BTC-USDT')[before:]
        store.orders.to_execute.clear()
        if len(new) != 1:
            return ('count', len(new))
        o = new[0]
        r = ('RO', o.side, o.type, abs(float(o.qty)), float(o.price), bool(o.reduce_only), 1 if o.qty > 0 else -1)
        o.cancel()
        return r

    def prices_near(cur):
        b = 0.00015
        return [cur, cur * (1 + b), cur * (1 - b), math.nextafter(cur * (1 + b), 9e99), math.nextafter(cur * (1 - b), 0), cur * (1 + b * 0.99),
                cur * (1 - b * 1.01), cur * 1.001, cur * 0.999, cur * 1.5, cur * 0.5, cur + 0.25, max(cur - 0.25, cur * 0.75)]
    entries, exits = [], []
    for _ in range(n):
        cur = rng.choice([100.0, 64.0, 100000.0, 0.0123, kernels.rnd_price(rng)])
        price = rng.choice(prices_near(cur))
        pcur = rng.choice([cur, cur, cur * 1.0002, cur * 0.9998, cur * 1.01])
        q = rng.choice([1.0, 0.5, 2.0, 0.001])
        side = rng.choice(['buy', 'sell'])
        set_price(cur)
        p.current_price = pcur
        before = len(store.orders.get_orders('Sandbox', 'BTC-USDT'))
        try:
            if side == 'buy':
                st._buy = np.array([[q, price]]); st._submit_buy_orders()
            else:
                st._sell = np.array([[q, price]]); st._submit_sell_orders()
            ob = grab(before)
        except OrderNotAllowed:
            ob = ('NotAllowed',)
        except ValueError:
            ob = ('Invalid',)
        entries.append((side, q, price, cur, pcur, ob))
    for long in (True, False):
        driver.session('futures', leverage=10, balance=1e12, strategy_cls=S)
        st = router.routes[0].strategy
        p = driver.position('BTC-USDT')
        t[0] = store.app.time
        set_price(100.0)
        p.current_price = 100.0
        o = driver.submit('BTC-USDT', 'buy' if long else 'sell', 'MARKET', 1000.0, 100.0)
        o.execute()
        for _ in range(n // 2):
            cur = rng.choice([100.0, 64.0, 100000.0, kernels.rnd_price(rng)])
            price = rng.choice(prices_near(cur))
            q = rng.choice([1.0, 0.5, 2.0, -1.0, 1000.0, 1500.0, 4000.0, -1000.5])          # below, equal to and above the open quantity (1000)
            before = len(store.orders.get_orders('Sandbox', 'BTC-USDT'))
            try:
                st.broker.reduce_position_at(q, price, cur)
                ob = grab(before)
            except OrderNotAllowed:
                ob = ('NotAllowed',)
            except ValueError:
                ob = ('Invalid',)
            exits.append((long, q, price, cur, ob))
    return entries, exits


def c_robs(ob):
    if ob[0] == 'RO':
        _, side, typ, q, price, ro, sign = ob
        ok_sign = (sign > 0) == (side == 'buy')
        return f'(RO {"Buy" if side == "buy" else "Sell"} {typ.capitalize()} {f(q if ok_sign else -q)} {f(price)} {C.cbool(ro)})'
    if ob[0] == 'NotAllowed':
        return 'RNotAllowed'
    if ob[0] == 'Invalid':
        return 'RInvalid'
    return '(RO Buy Market nan nan false)'


def exits_cases(rng, n, kind):
    """drive the real Strategy through declaration / position ops; kind = 'stop_loss' | 'take_profit'"""
    from . import driver
    C.use_repo()
    import numpy as np
    from jesse.strategies import Strategy
    from jesse.store import store
    from jesse.routes import router
    pend = {}

    class S(Strategy):
        def should_long(self): return False
        def go_long(self):
            # a single entry row, or a scaled entry whose planned average price (95) differs from the price of the first fill (100)
            self.buy = (4.0, 100.0) if not pend.get('scaled') else [(2.0, 100.0), (2.0, 90.0)]
        def on_open_position(self, order):
            if 'open' in pend: setattr(self, kind, pend.pop('open'))
        def on_close_position(self, order):
            if 'close' in pend: setattr(self, kind, pend.pop('close'))
    lo = [80.0, 84.0, 88.0, 92.0, 95.0, 97.0] if kind == 'stop_loss' else [105.0, 108.0, 112.0, 116.0, 120.0]
    tag = 'stop-loss' if kind == 'stop_loss' else 'take-profit'
    out = []

    def rnd_decl():
        k = rng.choice([1, 1, 2, 3])
        return [(rng.choice([0.5, 1.0, 0.25]), rng.choice(lo)) for _ in range(k)]
    for case_no in range(n):
        pend.clear()
        pend['scaled'] = case_no % 2 == 1
        driver.session('futures', leverage=10, balance=1e9, strategy_cls=S)
        st = router.routes[0].strategy
        p = driver.position('BTC-USDT')
        store.candles.add_candle(np.array([store.app.time, 100.0, 100.0, 100.0, 100.0, 1.0]), 'Sandbox', 'BTC-USDT', '1m', with_execution=False, with_generation=False)
        p.current_price = 100.0
        ops, obs = [], []
        is_open, prepared, declared = False, False, False
        for _ in range(rng.choice([3, 6, 10, 16])):
            r = rng.random()
            try:
                if not is_open:
                    if r < 0.35:
                        d = rnd_decl() if rng.random() < 0.8 else None
                        setattr(st, kind, d); ops.append(('set', d)); declared = d is not None; prepared = False
                    elif r < 0.7:
                        if getattr(st, kind) is not None and not isinstance(getattr(st, kind), (list, tuple, np.ndarray)): continue
                        st._execute_long(); store.orders.to_execute.clear(); ops.append(('prepare',)); prepared = True
                        for o in list(store.orders.get_active_orders('Sandbox', 'BTC-USDT')):       # drop the entry order itself: not under test
                            o.cancel()
                    else:
                        if declared and not prepared: continue      # real code would iterate over _stop_loss = None (TypeError): outside the model
                        hook = rng.choice([None, None, 'decl', 'none'])
                        if hook == 'decl': pend['open'] = rnd_decl()
                        if hook == 'none': pend['open'] = None
                        hd = pend.get('open', 'keep')
                        o = driver.submit('BTC-USDT', 'buy', 'MARKET', 4.0, 100.0); o.execute()
                        ops.append(('open', hd)); is_open = True
                else:
                    if r < 0.3:
                        cur_d = getattr(st, kind)
                        if isinstance(cur_d, np.ndarray) and rng.random() < 0.5:
                            k = rng.randrange(len(cur_d))
                            cur_d[k][1] = rng.choice(lo)                       # the strategy edits its declaration in place
                            ops.append(('set', [(float(a), float(b)) for a, b in cur_d]))
                        else:
                            d = rnd_decl()
                            setattr(st, kind, d); ops.append(('set', d))
                    elif r < 0.6:
                        st._detect_and_handle_entry_and_exit_modifications(); ops.append(('detect',))
                    elif r < 0.8:
                        act = [o for o in store.orders.get_active_orders('Sandbox', 'BTC-USDT') if o.is_active and o.submitted_via == tag]
                        if not act: continue
                        k = rng.randrange(len(act)); act[k].cancel(); ops.append(('dropnth', k))
                    else:
                        hook = rng.choice([None, 'decl'])
                        if hook == 'decl': pend['close'] = rnd_decl()
                        hd = pend.get('close')
                        o = driver.submit('BTC-USDT', 'sell', 'MARKET', abs(p.qty), 100.0); o.execute()
                        ops.append(('close', hd)); is_open = False; prepared = False; declared = hd is not None
            except Exception as e:
                ops.append(('error', type(e).__name__)); obs.append('error'); break
            act = [o for o in store.orders.get_active_orders('Sandbox', 'BTC-USDT') if o.is_active and o.submitted_via == tag]
            obs.append([(abs(float(o.qty)), float(o.price)) for o in act])
        out.append((ops, obs))
    return out


def c_rows(d):
    return 'None' if d is None else '(Some ' + C.clist([f'({qq(a)}, {qq(b)})' for (a, b) in d]) + ')'


def c_xop(o):
    if o[0] == 'set': return f'SetDecl {c_rows(o[1])}'
    if o[0] == 'prepare': return 'Prepare'
    if o[0] == 'detect': return 'Detect'
    if o[0] == 'dropnth': return f'DropNth {C.cnat(o[1])}'
    if o[0] == 'open': return 'OpenPos None' if o[1] == 'keep' else f'OpenPos (Some {c_rows(o[1])})'
    if o[0] == 'close': return f'ClosePos {c_rows(o[1])}'
    return 'Detect'


def trace_monitors(res, rng, tier):
    """property clauses on real backtest traces, at every `after` observation point"""
    from . import engine as E
    bad = []
    n_obs = 0
    sessions = 30 if tier == 'quick' else 300
    for k in range(sessions):
        sc = E.gen_script(rng, rng.randrange(1 << 30))
        sc['modify'] = rng.choice(['update', 'both', 'inplace', 'inplace', 'on_reduce'])
        sc['exit_style'] = rng.choice(['on_open', 'at_entry', 'on_open'])
        cs = E.gen_candles(rng, rng.choice([90, 180]))
        typ = rng.choice(['futures', 'futures', 'spot'])
        if typ == 'spot':
            sc['side'] = 'long'
        out = E.run_session({'BTC-USDT': cs}, [('BTC-USDT', rng.choice(['1m', '3m', '5m']))], scripts={'BTC-USDT': sc}, exchange_type=typ,
                            leverage=rng.choice([1, 2, 5]), fee=rng.choice([0.0, 0.001]), fast=rng.random() < 0.3)
        if out['error'] and not E.benign_error(out['error']):
            bad.append({'clause': 'session_error', 'error': out['error'], 'script': sc})
            continue
        tr = out['trace']
        pending_cancel = None
        flipped = False
        for ev in tr:
            if ev['k'] == 'execute' and ev.get('pos_before') and ev.get('pos_after') and ev['pos_before'] * ev['pos_after'] < 0:
                flipped = True              # known finding F16: a flip fires no close hook, so exits of the old side are never cancelled
            if ev['k'] != 'hook':
                continue
            if ev['hook'] == 'should_cancel_entry':
                pending_cancel = ev
            if ev['hook'] != 'after':
                continue
            n_obs += 1
            act = ev['active']
            sl = [(abs(a[2]), a[3]) for a in act if a[5] == 'stop-loss']
            tp = [(abs(a[2]), a[3]) for a in act if a[5] == 'take-profit']
            if ev['qty'] == 0:
                ro = [a for a in act if a[4]]
                if ro:
                    bad.append({'clause': 'exit_order_active_while_closed', 't': ev['t'], 'active': act, 'script': sc})
                if pending_cancel is not None and pending_cancel['i'] == ev['i']:
                    entries = [a for a in act if not a[4]]
                    if pending_cancel['extra']['answer'] and entries and pending_cancel['qty'] == 0:
                        # entries resting now were (re)submitted after the cancel in the same step, or the cancel did not happen
                        resub = [e for e in tr if e['k'] == 'submit' and e['t'] == ev['t']]
                        if not resub:
                            bad.append({'clause': 'entry_not_cancelled', 't': ev['t'], 'active': act, 'script': sc})
            else:
                for name, rows, declared in (('stop_loss', sl, ev['extra']['stop_loss']), ('take_profit', tp, ev['extra']['take_profit'])):
                    avail = [tuple(r) for r in (declared or [])]
                    for r in rows:
                        m = [d for d in avail if abs(abs(d[0]) - r[0]) < 1e-9 and (abs(d[1] - r[1]) < 1e-9 or r[1] == ev['price'])]
                        if not m:
                            bad.append({'clause': f'stale_{name}_order' + ('_after_position_flip' if flipped else ''), 't': ev['t'], 'order': r, 'declared': declared,
                                        'script': sc, 'candles': cs, 'exchange_type': typ})
                            break
                        avail.remove(m[0])
            pending_cancel = None
    return bad, n_obs, sessions


def run(tier, seed, replay=None):
    res = C.Result(PID, tier, seed)
    res.trusted = ['Coq 8.16.1 kernel + vm_compute (PrimFloat for the routing correspondence)', 'translator py2v (is_price_near, validated bit-for-bit)',
                   'Model/Routing.v (hand-written) tied by correspondence', 'harness/c10.py, driver.py, engine.py']
    res.assumptions = ['routing theorems in exact arithmetic; routing correspondence at binary64 (bit-exact incl. the 0.015% boundary and its float neighbours)',
                       'the exits model abstracts one exit kind of one position; orders routed as MARKET (price within the band) execute in the same '
                       'step and are outside the bookkeeping model (covered by the trace monitors)']
    kernels.validate(res, ['helpers'], seed, 150 if tier == 'quick' else 2000)
    C.standard_proof_step(res, 'Props.C10', THEOREMS, ['theories/Props/C10.vo', 'theories/Run/C10Run.vo'])
    rng = C.rng_for(seed, PID)
    n = 300 if tier == 'quick' else 3000
    entries, exits = routing_cases(rng, n)
    xs = exits_cases(rng, 60 if tier == 'quick' else 600, 'stop_loss') + exits_cases(rng, 60 if tier == 'quick' else 600, 'take_profit')
    hdr = ('From Coq Require Import ZArith QArith Qcanon List Bool PrimFloat.\nFrom JV Require Import Base.Num Model.Spot Model.Routing Run.Harness Run.KernelRun Run.C10Run.\n'
           'Import ListNotations.\nOpen Scope float_scope.\n')
    checks = [f'entry_same {"Buy" if s == "buy" else "Sell"} {f(q)} {f(p)} {f(cur)} {f(pcur)} {c_robs(ob)}' for (s, q, p, cur, pcur, ob) in entries]
    checks += [f'exit_same {C.cbool(long)} {f(q)} {f(p)} {f(cur)} {c_robs(ob)}' for (long, q, p, cur, ob) in exits]
    xbody = ';\n'.join(f'({C.clist([c_xop(o) for o in ops if o[0] != "error"])}, ' +
                       C.clist([C.clist([f"({qq(a)}, {qq(b)})" for (a, b) in ob]) for ob in obs if ob != 'error']) + ')' for ops, obs in xs)
    jobs = [('c10_route', hdr + 'Definition cs : list bool := [\n' + ';\n'.join(checks) + '\n].\nEval vm_compute in (bad_indices cs).\n'),
            ('c10_exits', hdr + f'Definition cs : list xcase := [\n{xbody}\n].\nEval vm_compute in (bad_indices (map exits_agree cs)).\n')]
    outs = C.coq_eval_many(jobs)
    r0, r1 = C.parse_results(outs[0][1]), C.parse_results(outs[1][1])
    ok_eval = outs[0][0] == 0 and outs[1][0] == 0 and len(r0) == 1 and len(r1) == 1
    res.oblige('C10 case files evaluated', ok_eval, (outs[0][1] + outs[1][1])[-1500:])
    bad_route = C.parse_nat_list(r0[0]) if ok_eval else []
    bad_exits = C.parse_nat_list(r1[0]) if ok_eval else []
    allr = [('entry',) + e for e in entries] + [('exit',) + e for e in exits]
    res.oblige('correspondence: entry_route / exit_route (binary64) = Strategy._submit_buy/sell_orders and Broker.reduce_position_at',
               not bad_route, str([allr[i] for i in bad_route[:3]]))
    res.oblige('correspondence: exits bookkeeping model = real Strategy (declarations, engine passes, cancels, opens, closes)', not bad_exits,
               json.dumps([xs[i] for i in bad_exits[:2]])[:1500])
    errs = sum(1 for ops, obs in xs if 'error' in obs)
    tbad, n_obs, sessions = trace_monitors(res, rng, tier)
    types = {}
    for e in entries + exits:
        k = e[-1][0] + (':' + e[-1][2] if e[-1][0] == 'RO' else '')
        types[k] = types.get(k, 0) + 1
    res.add_cases(len(allr) + len(xs) + sessions, len({str(a) for a in allr}) + len({json.dumps(x) for x in xs}) + sessions,
                  [{'routing': allr[0]}, {'exits_ops': xs[0][0][:6]}],
                  'routing: prices at, around and exactly on the 0.015% boundary (incl. adjacent doubles) and far from it, both sides, long and short '
                  'positions; exits: random sequences of set-declaration / prepare / open / engine pass / cancel-nth / close with hook-made declarations; '
                  'traces: scripted strategies modifying exits in update_position / on_reduced_position, re-declared and edited in place')
    res.extra.update({'routing_outcomes': types, 'exit_sequences_with_error': errs, 'trace_sessions': sessions, 'after_observation_points': n_obs,
                      'monitor_evaluations': n_obs})
    seen = set()
    for i in bad_route[:20]:
        c = allr[i]
        site = f'routing:{c[0]}'
        if site not in seen:
            seen.add(site)
            res.violation(site, 'order routed with a type / side / quantity / price / reduce-only flag other than the routing rules give', {'case': c})
    for i in bad_exits[:5]:
        if 'exits_model' not in seen:
            seen.add('exits_model')
            res.violation('exits_bookkeeping', 'resting exit orders differ from the bookkeeping model', {'ops': xs[i][0], 'observed': xs[i][1]})
    for b in tbad:
        if b['clause'] not in seen:
            seen.add(b['clause'])
            res.violation('trace:' + b['clause'], 'C10 clause violated at an observation point of a real backtest', b)
    return res.finish()
