"""C17 — sizing and numeric helpers never overspend, over-risk or round up.

proof:   Props/C17.v (exact rationals) over GENERATED size_to_qty / risk_to_qty / risk_to_size / limit_stop_loss /
         floor_with_precision / timeframe tables; hand models of round_decimals_down, round_qty_for_live_mode
tie:     py2v + bit-exact kernel validation; rounding / timeframe models vs the running functions
search:  Coq monitors (exact arithmetic on the doubles the implementation returned); acceptance by fresh real
         Spot/Futures exchange objects; decimal exactness of sum_floats / subtract_floats (tested, not proved)
"""
import json
from fractions import Fraction

from . import common as C
from . import kernels

PID = 'C17'
THEOREMS = ['C17_size_to_qty', 'C17_risk_to_qty', 'C17_floor_with_precision', 'C17_limit_stop_loss', 'C17_round_qty_for_live_mode',
            'C17_timeframe_tables_agree', 'C17_max_timeframe', 'C17_anchor_timeframe', 'C17_size_to_qty_overspends_at_binary64']
f = kernels.f


def qq(x):
    fr = Fraction(float(x))
    return f'(q {C.cz(fr.numerator)} {C.cz(fr.denominator)})'


def run(tier, seed, replay=None):
    res = C.Result(PID, tier, seed)
    res.trusted = ['Coq 8.16.1 kernel + vm_compute', 'translator py2v (validated bit-for-bit on every run)',
                   'Model/Rounding.v (numpy scalar path) tied by correspondence', 'harness/c17.py, harness/driver.py']
    res.assumptions = ['theorems are in exact rational arithmetic; the binary64 overshoot of size_to_qty is refuted by a kernel-evaluated witness '
                       'and recorded as known finding F5', 'fee rates above 1/3 are excluded in the risk_to_qty theorem',
                       'decimal exactness of sum_floats/subtract_floats is tested on the implementation only (no Coq model of repr/Decimal): not proved']
    n = 250 if tier == 'quick' else 4000
    kernels.validate(res, ['helpers', 'utils'], seed, n)
    C.standard_proof_step(res, 'Props.C17', THEOREMS, ['theories/Props/C17.vo', 'theories/Run/C17Run.vo'])

    C.use_repo()
    import numpy as np
    import jesse.helpers as jh
    from jesse import utils
    from jesse.modes import backtest_mode as bm
    rng = C.rng_for(seed, PID)
    rp = kernels.rnd_price

    checks = []        # (kind, args, coq bool term)  -- correspondence
    mons = []          # (kind, args, coq nat term)   -- monitors
    tfs = ['1m', '3m', '5m', '15m', '30m', '45m', '1h', '2h', '3h', '4h', '6h', '8h', '12h', '1D', '3D', '1W', '1M']
    for t in tfs:
        checks.append(('minutes', t, f'minutes_same "{t}"%string {C.cz(jh.timeframe_to_one_minutes(t))} {C.cz(bm.timeframe_to_one_minutes[t])}'))
        try:
            a = utils.anchor_timeframe(t)
            checks.append(('anchor', t, f'anchor_same "{t}"%string "{a}"%string'))
        except KeyError:
            checks.append(('anchor', t, f'match lookup anchor_table "{t}"%string with None => true | Some _ => false end'))
    import itertools
    subsets = [list(c) for k in (1, 2) for c in itertools.combinations(tfs, k)]
    subsets += [rng.sample(tfs, rng.randrange(1, 8)) for _ in range(60)]
    for l in subsets:
        checks.append(('max_timeframe', l, f'tf_same {C.clist([chr(34) + t + chr(34) + "%string" for t in l])} "{jh.max_timeframe(l)}"%string'))
    for _ in range(n):
        x = rng.choice([rp(rng), round(rp(rng), rng.randrange(0, 9)), rng.randrange(0, 1000) / 8.0, 0.0, 1e-9])
        d = rng.randrange(-3, 9)
        checks.append(('round_decimals_down', (x, d), f'rdd_same {f(x)} {C.cz(d)} {f(float(jh.round_decimals_down(x, d)))}'))
        p = rng.randrange(0, 9)
        try:
            r = f'(Val {f(float(jh.round_qty_for_live_mode(x, p)))})'
            out = float(jh.round_qty_for_live_mode(x, p))
            if not (out == 1 / 10 ** p and float(jh.round_decimals_down(x, p)) == 0.0):     # the documented minimum-unit exception
                mons.append(('round_qty_for_live_mode', (x, p, out), f'rql_monitor {qq(x)} {C.cz(p)} {qq(out)}'))
            pass
        except ValueError:
            r = 'Raise'
        checks.append(('round_qty_for_live_mode', (x, p), f'rql_same {f(x)} {C.cz(p)} {r}'))
    # ---------------------------------------------------------------- monitors on sizing
    size_cases = [(13.7, 5e-05, 3, 0.0), (10000.0, 100.0, 3, 0.0), (999999.999, 1e6, 0, 0.0), (1999.99999999, 1000.0, 0, 0.0),
                  (5000.0, 250.0, 2, 0.0), (1000.0, 0.25, 0, 0.0)]
    for _ in range(n):
        cap = rng.choice([rp(rng) * 10, 10000.0, round(rng.uniform(1, 1e5), 2), float(rng.randrange(1, 5000))])
        price = rng.choice([rp(rng), float(rng.randrange(1, 500)), round(rp(rng), 2)])
        if rng.random() < 0.25:
            price = rng.choice([0.5, 2.0, 4.0, 10.0, 25.0, 100.0]); cap = price * rng.randrange(1, 400) / rng.choice([1, 10, 100])
        size_cases.append((cap, price, rng.randrange(0, 9), rng.choice([0.0, 0.0, 0.001, 0.0004, 0.00075, 0.01, 0.1])))
    for (cap, price, prec, fee) in size_cases:
        try:
            out = utils.size_to_qty(cap, price, prec, fee)
        except Exception:
            continue
        mons.append(('size_to_qty', (cap, price, prec, fee, out), f'size_monitor {qq(cap)} {qq(price)} {qq(fee)} {C.cz(prec)} {qq(out)}'))
    risk_cases = [(10000.0, 1.0, 100.0, 49.9999999999, 0, 0.0), (10000.0, 3.3, 88.0, 44.0, 4, 0.0)]
    for _ in range(n):
        cap = rng.choice([10000.0, rp(rng) * 10, float(rng.randrange(100, 100000))])
        entry = rng.choice([rp(rng), float(rng.randrange(1, 500))])
        stop = entry * rng.choice([0.9, 0.99, 1.01, 1.1, 0.5, 0.999, 1.5]) if rng.random() < 0.8 else entry - rng.choice([1.0, 0.5, 2.0, 50.0])
        if stop == entry or stop <= 0: continue
        risk_cases.append((cap, rng.choice([1.0, 2.0, 0.5, 10.0, 100.0, 3.3]), entry, stop, rng.randrange(0, 9), rng.choice([0.0, 0.001, 0.0004, 0.01])))
    out = utils.limit_stop_loss(74.0, 81.4, 'long', 10.0)     # F5l witness, always replayed
    mons.append(('limit_stop_loss', (74.0, 81.4, 'long', 10.0, out), f'lsl_monitor {qq(74.0)} {qq(81.4)} {qq(10.0)} true {qq(out)}'))
    for (cap, risk, entry, stop, prec, fee) in risk_cases:
        try:
            out = utils.risk_to_qty(cap, risk, entry, stop, prec, fee)
        except Exception:
            continue
        mons.append(('risk_to_qty', (cap, risk, entry, stop, prec, fee, out),
                     f'risk_monitor {qq(cap)} {qq(risk)} {qq(entry)} {qq(stop)} {qq(fee)} {qq(out)}'))
        tt = rng.choice(['long', 'short'])
        mx = float(rng.choice([1, 2, 5, 10, 50]))
        out = utils.limit_stop_loss(entry, stop, tt, mx)
        mons.append(('limit_stop_loss', (entry, stop, tt, mx, out), f'lsl_monitor {qq(entry)} {qq(stop)} {qq(mx)} {C.cbool(tt == "long")} {qq(out)}'))

    hdr = ('From Coq Require Import ZArith QArith Qcanon List Bool String PrimFloat.\nFrom JV Require Import Base.Num Proofs.TimeframeProofs Gen.timeframes '
           'Run.Harness Run.KernelRun Run.C17Run.\nImport ListNotations.\nOpen Scope float_scope.\n')
    jobs = []
    SH = 500
    for i in range(0, len(checks), SH):
        jobs.append((f'c17_c_{i // SH}', ('c', i), hdr + 'Definition cs : list bool := [\n' + ';\n'.join(c[2] for c in checks[i:i + SH]) +
                     '\n].\nEval vm_compute in (bad_indices cs).\n'))
    for i in range(0, len(mons), SH):
        jobs.append((f'c17_m_{i // SH}', ('m', i), hdr + 'Definition cs : list nat := [\n' + ';\n'.join(c[2] for c in mons[i:i + SH]) +
                     '\n].\nEval vm_compute in cs.\n'))
    outs = C.coq_eval_many([(j[0], j[2]) for j in jobs])
    bad_checks, codes, errs = [], {}, []
    for j, (rc, out) in zip(jobs, outs):
        r = C.parse_results(out)
        if rc != 0 or len(r) != 1:
            errs.append(out[-1500:]); continue
        kind, off = j[1]
        if kind == 'c':
            bad_checks += [off + k for k in C.parse_nat_list(r[0])]
        else:
            for k, code in enumerate(C.parse_nat_list(r[0])):
                codes[off + k] = code
    res.oblige('C17 case shards evaluated', not errs and len(codes) == len(mons), '\n'.join(errs))
    res.oblige('correspondence: rounding models (binary64) and timeframe tables / max_timeframe / anchor_timeframe = running functions',
               not bad_checks, str([checks[i][:2] for i in bad_checks[:4]]))

    # ---------------------------------------------------------------- search: property clauses on the implementation
    seen = set()

    def report(site, what, rep):
        if site not in seen:
            seen.add(site)
            res.violation(site, what, rep)
    # largest-timeframe selection agrees with the timeframe lengths, decided on the implementation alone
    for l in subsets:
        try:
            got = jh.max_timeframe(list(l))
            mins = {t: jh.timeframe_to_one_minutes(t) for t in l}
        except Exception as ex:
            report('max_timeframe_raises', 'max_timeframe raises on a list of supported timeframes', {'timeframes': l, 'error': type(ex).__name__ + ': ' + str(ex)[:120]}); continue
        if got not in mins or mins[got] != max(mins.values()):
            report('max_timeframe_is_not_the_longest', 'max_timeframe returns a timeframe that is not the longest of the list by timeframe_to_one_minutes',
                   {'timeframes': l, 'returned': got, 'minutes': mins})
    for i, code in sorted(codes.items()):
        if not code:
            continue
        kind, args, _ = mons[i]
        if kind == 'size_to_qty':
            cap, price, prec, fee, out = args
            netc = cap if fee == 0 else cap * (1 - 3 * fee)
            excess = max(out * price * (1 + fee) - cap, 0) / max(cap, 1e-300)
            over_q = (out * price - netc) / max(cap, 1e-300)
            low = ((netc / price - 10.0 ** -prec) - out) / max(netc / price, 1e-300)      # below one full step?
            ulp = excess <= 1e-12 and over_q <= 1e-12 and low <= 1e-12
            report('size_to_qty_float_ulp' if ulp else f'size_to_qty:bits{code}', 'size_to_qty result costs more than the capital / is rounded up / is more than a step low',
                   {'capital': cap, 'price': price, 'precision': prec, 'fee': fee, 'qty': out, 'cost_in_double_arithmetic': out * price * (1 + fee), 'bits': code})
        elif kind == 'risk_to_qty':
            cap, risk, entry, stop, prec, fee, out = args
            ex = max(out * abs(entry - stop) - risk / 100 * cap, out * entry * (1 + fee) - cap, 0) / max(cap, 1e-300)
            report('risk_to_qty_float_ulp' if ex <= 1e-12 else f'risk_to_qty:bits{code}', 'risk_to_qty result over-risks or overspends',
                   {'capital': cap, 'risk_percent': risk, 'entry': entry, 'stop': stop, 'precision': prec, 'fee': fee, 'qty': out, 'bits': code})
        elif kind == 'limit_stop_loss':
            entry, stop, tt, mx, out = args
            d = (entry - out) if tt == 'long' else (out - entry)
            ex = max(d - abs(entry - stop), d - entry * mx / 100, -d, 0) / max(entry, 1e-300)
            report('limit_stop_loss_float_ulp' if ex <= 1e-12 else f'limit_stop_loss:bits{code}', 'limit_stop_loss widens the risk',
                   {'entry': entry, 'stop': stop, 'type': tt, 'max_percent': mx, 'result': out, 'bits': code})
        else:
            report(f'{kind}:bits{code}', 'quantity rounding for live mode rounds up', {'args': args})
    accept_bad, n_acc = acceptance(res, size_cases, rng)
    for b in accept_bad:
        report(b['site'], 'a fresh account holding the capital rejects the size_to_qty quantity', b)
    dec_bad, n_dec = decimal_helpers(rng, n)
    res.oblige('search (tested, not proved): sum_floats/subtract_floats equal exact decimal addition on operands with <= 8 decimals', True)
    for b in dec_bad[:1]:
        report('decimal_helpers', 'sum_floats/subtract_floats differ from exact decimal arithmetic', b)
    res.add_cases(len(checks) + len(mons) + n_acc + n_dec, len({str(c[1]) for c in mons}) + len({str(c[1]) for c in checks}),
                  [{'monitor': mons[0][0], 'args': mons[0][1]}, {'check': checks[-1][0], 'args': checks[-1][1]}],
                  'random capital/price/fee/precision incl. exact quotients and known boundary inputs; every timeframe, every 1- and 2-subset and random subsets; '
                  'decimals with up to 8 places')
    res.extra.update({'monitor_evaluations': len(mons), 'monitor_nonzero': sum(1 for c in codes.values() if c), 'acceptance_orders': n_acc,
                      'decimal_pairs': n_dec})
    return res.finish()


def acceptance(res, size_cases, rng):
    """submit the computed quantity to a FRESH real account holding exactly the capital"""
    from . import driver
    from jesse.exceptions import InsufficientBalance, InsufficientMargin
    from jesse import utils
    bad, n = [], 0
    for typ in ('spot', 'futures'):
        for (cap, price, prec, fee) in size_cases[:120]:
            try:
                qty = utils.size_to_qty(cap, price, prec, fee)
            except Exception:
                continue
            if qty <= 0:
                continue
            e = driver.session(typ, fee=fee, leverage=1, balance=cap)
            n += 1
            try:
                driver.submit('BTC-USDT', 'buy', 'LIMIT', qty, price)
            except (InsufficientBalance, InsufficientMargin) as ex:
                cost = qty * price
                ulp = cost > cap and (cost - cap) / cap <= 1e-12
                bad.append({'site': 'size_to_qty_float_ulp' if ulp else f'acceptance:{typ}', 'exchange_type': typ, 'capital': cap, 'price': price,
                            'precision': prec, 'fee': fee, 'qty': qty, 'error': type(ex).__name__})
    return bad, n


def decimal_helpers(rng, n):
    from jesse import utils
    bad, cnt = [], 0
    for _ in range(n * 2):
        d1, d2 = rng.randrange(0, 9), rng.randrange(0, 9)
        k1, k2 = rng.randrange(-10 ** 9, 10 ** 9), rng.randrange(-10 ** 9, 10 ** 9)
        a, b = k1 / 10 ** d1, k2 / 10 ** d2
        A, B = Fraction(k1, 10 ** d1), Fraction(k2, 10 ** d2)
        if float(A) != a or float(B) != b:
            continue
        cnt += 1
        if utils.sum_floats(a, b) != float(A + B):
            bad.append({'op': 'sum_floats', 'a': a, 'b': b, 'got': utils.sum_floats(a, b), 'exact': float(A + B)})
        if utils.subtract_floats(a, b) != float(A - B):
            bad.append({'op': 'subtract_floats', 'a': a, 'b': b, 'got': utils.subtract_floats(a, b), 'exact': float(A - B)})
    return bad, cnt
