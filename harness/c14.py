"""C14 — sequential and single-value indicator results agree.

proof:   Props/C14.v (for the shape `slice_candles; res = F(...); res if sequential else res[-1]` with ARBITRARY F: the single value is the last entry of
         the sequential result on inputs within the warm-up window, and on longer inputs the last entry of the sequential result on the trailing window;
         state machines, and each modelled core indicator, return one entry per input)
tie:     syntactic classification of every indicator file on /repo (which public functions have that shape); core models vs jesse.indicators
search:  monitor over EVERY public indicator: one entry per candle in every field, last entry = single value, long input = trailing window
"""
import ast
import json
import os

from . import common as C
from . import ind

PID = 'C14'
THEOREMS = ['C14_sequential_is_whole_series', 'C14_single_is_last_of_sequential', 'C14_single_on_long_input_is_sequential_on_trailing_window',
            'C14_state_machines_one_entry_per_input', 'C14_core_indicators_one_entry_per_candle', 'C14_mfi_keltner_one_entry_per_candle']
WARMUP = 240


def shape_classification(repo):
    """which public indicator functions are literally `candles = slice_candles(candles, sequential)` ... `return X if sequential else X[-1]` with no other use
    of `sequential`"""
    d = os.path.join(repo, 'jesse', 'indicators')
    standard, other = [], []
    for fn in sorted(os.listdir(d)):
        if not fn.endswith('.py') or fn == '__init__.py':
            continue
        name = fn[:-3]
        try:
            tree = ast.parse(open(os.path.join(d, fn)).read())
        except SyntaxError:
            other.append(name); continue
        f = [n for n in tree.body if isinstance(n, ast.FunctionDef) and n.name == name]
        if not f:
            continue
        f = f[0]
        uses = [n for n in ast.walk(f) if isinstance(n, ast.Name) and n.id == 'sequential' and isinstance(n.ctx, ast.Load)]
        slices = [n for n in ast.walk(f) if isinstance(n, ast.Call) and isinstance(n.func, ast.Name) and n.func.id == 'slice_candles'
                  and len(n.args) == 2 and ast.unparse(n.args[1]) == 'sequential']
        rets = [n for n in ast.walk(f) if isinstance(n, ast.Return) and isinstance(n.value, ast.IfExp) and ast.unparse(n.value.test) == 'sequential'
                and ast.unparse(n.value.orelse) == ast.unparse(n.value.body) + '[-1]']
        # the tuple form: `if sequential: return T(a, b) else: return T(a[-1], b[-1])`
        ifs = []
        for n in ast.walk(f):
            if isinstance(n, ast.If) and ast.unparse(n.test) == 'sequential' and len(n.body) == 1 and len(n.orelse) == 1 \
                    and isinstance(n.body[0], ast.Return) and isinstance(n.orelse[0], ast.Return) \
                    and isinstance(n.body[0].value, ast.Call) and isinstance(n.orelse[0].value, ast.Call) \
                    and ast.unparse(n.body[0].value.func) == ast.unparse(n.orelse[0].value.func) \
                    and [ast.unparse(a) + '[-1]' for a in n.body[0].value.args] == [ast.unparse(a) for a in n.orelse[0].value.args] and not n.body[0].value.keywords:
                ifs.append(n)
        all_rets = [n for n in ast.walk(f) if isinstance(n, ast.Return)]
        if len(slices) == 1 and len(rets) >= 1 and len(uses) == len(slices) + len(rets) and len(rets) == len(all_rets):
            standard.append(name)
        elif len(slices) == 1 and len(ifs) == 1 and len(uses) == 2 and len(all_rets) == 2:
            standard.append(name)
        else:
            other.append(name)
    return standard, other


def monitor(tier, seed, progress):
    C.use_repo()
    import numpy as np
    rng = C.rng_for(seed, PID + ':monitor')
    viol, n_checks, n_ind = {}, 0, 0
    for (name, f, sig) in ind.all_indicators():
        ok_any = False
        # several consecutive truncations of the same series: what the single value must equal depends on the shape of the last few candles
        # (a tie inside the last window, a swing high one to three candles from the end), so the end of the input is moved candle by candle
        groups = [[60, 61, 62, 63], [300, 301]] if tier == 'quick' else [[30, 31, 32], [60, 61, 62, 63], [WARMUP - 1, WARMUP, WARMUP + 1, WARMUP + 2], [300, 301, 302], [500, 501]]
        series = []
        # inputs shorter than most periods (a strategy's first candles): the one-entry-per-candle clause only - what the warm-up filler is (NaN, 0.0, the
        # price itself) differs between indicators and is not part of the property; mfi returned 2 * period - n entries here (finding F31, repaired)
        short = [3, 8] if tier == 'quick' else [2, 3, 5, 8, 13]
        cs_short, style_s = ind.gen_series(rng, max(short), 'walk')
        series += [(n_, cs_short[:n_], style_s) for n_ in short]
        for g in groups:
            cs_all, style_g = ind.gen_series(rng, max(g), rng.choice(['walk', 'spiky', 'trend']))
            series += [(n_, cs_all[:n_], style_g) for n_ in g]
        for (n, cs, style) in series:
            arr = np.array(cs)
            vs = ind.variants(sig, rng)
            if n > WARMUP + 20:
                # a period longer than the warm-up window on an input longer than that period
                longp = {nm: WARMUP + 10 for nm, prm in sig.parameters.items() if nm == 'period' and isinstance(prm.default, int)}
                if longp:
                    vs = vs + [longp]
            for params in vs:
                progress({'indicator': name, 'params': params, 'length': n, 'candles': cs})
                try:
                    seq = ind.fields(ind.call(f, sig, arr, True, params))
                    one = ind.fields(ind.call(f, sig, arr, False, params))
                except Exception as e:
                    continue
                ok_any = True
                tail = None
                if n > WARMUP:
                    try:
                        tail = ind.fields(ind.call(f, sig, arr[-WARMUP:].copy(), True, params))
                    except Exception:
                        tail = None
                scale = float(np.nanmax(np.abs(arr[:, 1:5])))
                for fld, v in seq.items():
                    a = ind.numeric_array(v)
                    n_checks += 1
                    base = {'indicator': name, 'field': fld, 'params': params, 'length': n, 'series': style, 'candles': cs}
                    if a is None:
                        viol.setdefault(f'field_is_not_a_numeric_series:{name}', dict(base, got=repr(v)[:120])); continue
                    if len(a) != n:
                        viol.setdefault(f'entries_differ_from_candles:{name}', dict(base, entries=len(a))); continue
                    if n < 30:
                        continue
                    ref = a if n <= WARMUP else (ind.numeric_array(tail.get(fld)) if tail is not None else None)
                    if ref is None or len(ref) == 0:
                        continue
                    sv = one.get(fld)
                    pos = -1
                    if name == 'minmax' and fld in ('is_min', 'is_max'):
                        # documented: the single-value FLAGS are those of the entry order+1 from the end (the other fields are the last entries)
                        pos = -(int(params.get('order', sig.parameters['order'].default)) + 1)
                        if len(ref) < -pos:
                            continue
                    if not ind.same(ref[pos], sv, scale):
                        what = 'single_value_differs_from_last_entry' if n <= WARMUP else 'single_value_on_long_input_differs_from_trailing_window'
                        viol.setdefault(f'{what}:{name}', dict(base, single_value=repr(sv)[:60], last_entry=float(ref[pos])))
        n_ind += ok_any
    return {'viol': viol, 'n_checks': n_checks, 'n_ind': n_ind}


def run(tier, seed, replay=None):
    res = C.Result(PID, tier, seed)
    res.trusted = ['Coq 8.16.1 kernel + vm_compute', 'Model/Indicators.v hand-written (core set) tied by value correspondence', 'harness/c14.py, ind.py']
    res.assumptions = ['the theorem about the sequential/single-value shape is for an arbitrary series computation F, so it covers every indicator whose public function has '
                       'that shape (classified syntactically on every run); the one-entry-per-candle clause is proved for the modelled core only',
                       'indicators outside the standard shape, and every indicator\'s lengths, are covered by the monitor']
    C.standard_proof_step(res, 'Props.C14', THEOREMS, ['theories/Props/C14.vo', 'theories/Run/IndRun.vo'])
    standard, other = shape_classification(os.environ.get('VERIF_REPO', '/repo'))
    res.oblige('shape classification of jesse/indicators/*.py ran (standard shape: covered by the theorem for arbitrary F)', len(standard) + len(other) > 100,
               f'{len(standard)} standard, {len(other)} other')
    rng = C.rng_for(seed, PID)
    cases, bad, errs = ind.correspondence(rng, 75 if tier == 'quick' else 600)
    res.oblige('indicator model case files evaluated', not errs, '\n'.join(errs[:2]))
    res.oblige('correspondence: Model/Indicators.v = jesse.indicators on the core set', not bad, json.dumps([{k: b[k] for k in ('name', 'period', 'style', 'n')} for b in bad[:4]]))
    mon = ind.run_child('c14', tier, seed)
    res.oblige('the monitor ran over every indicator without crashing the interpreter', mon.get('crash') is None, json.dumps(mon.get('crash'))[:600])
    if mon.get('crash') is not None:
        res.violation('indicator_crashed:' + str(mon['crash'].get('indicator')), 'an indicator call killed the interpreter', mon['crash'])
    res.add_cases(mon.get('n_checks', 0), mon.get('n_checks', 0), [], f"{mon.get('n_ind', 0)} public indicators x input lengths below/at/above the warm-up window ({WARMUP}) x default and "
                  f"varied parameters: {mon.get('n_checks', 0)} fields checked (one entry per candle, last entry = single value, long input = trailing window); "
                  f'{len(standard)} indicator functions have the standard shape, {len(other)} do not')
    res.extra.update({'indicators_monitored': mon.get('n_ind', 0), 'standard_shape': len(standard), 'other_shape': other, 'correspondence_cases': len(cases)})
    for site, v in sorted(mon.get('viol', {}).items()):
        res.violation(site, site.split(':')[0].replace('_', ' ') + ' (' + site.split(':')[1] + ')', v)
    return res.finish()
