import sys, warnings, inspect, math
warnings.filterwarnings('ignore')
sys.path.insert(0,'/repo')
import numpy as np
import jesse.indicators as ta
rng=np.random.default_rng(7)
def mk(n):
    c=100+np.cumsum(rng.normal(0,1,n)); o=np.roll(c,1); o[0]=c[0]
    h=np.maximum(o,c)+rng.uniform(0,1,n); l=np.minimum(o,c)-rng.uniform(0,1,n)
    v=rng.uniform(10,100,n); t=1_600_000_000_000+60_000*np.arange(n)
    return np.column_stack([t,o,c,h,l,v])
C=mk(400)
names=[n for n in dir(ta) if callable(getattr(ta,n)) and not n.startswith('_') and inspect.isfunction(getattr(ta,n))]
print(len(names))
def fields(r):
    if isinstance(r,tuple): return list(r)
    return [r]
nonc=[];err=[];nolen=[];nolast=[]
for n in names:
    f=getattr(ta,n)
    sig=inspect.signature(f)
    if 'sequential' not in sig.parameters: continue
    try:
        full=fields(f(C,sequential=True))
        k=300
        pre=fields(f(C[:k],sequential=True))
        single=fields(f(C,sequential=False))
    except Exception as e:
        err.append((n,type(e).__name__,str(e)[:60])); continue
    bad=False
    for a,b in zip(full,pre):
        try:
            a=np.asarray(a,dtype=float); b=np.asarray(b,dtype=float)
        except Exception as e:
            err.append((n,'nonnumeric')); break
        if a.shape[0]!=len(C): nolen.append((n,a.shape)); break
        if not np.allclose(a[:k],b,rtol=1e-9,atol=1e-12,equal_nan=True):
            idx=np.where(~np.isclose(a[:k],b,rtol=1e-9,atol=1e-12,equal_nan=True))[0]
            nonc.append((n,len(idx),int(idx[0]),int(idx[-1]))); break
    # single: on C (400>240) equals seq on last 240
    try:
        s240=fields(f(C[-240:],sequential=True))
        for a,b in zip(single,s240):
            try: b=np.asarray(b,dtype=float)
            except Exception: break
            av=float('nan') if a is None else float(a)
            if not (np.isclose(av,b[-1],rtol=1e-9,atol=1e-12,equal_nan=True)):
                nolast.append((n,av,b[-1])); break
    except Exception as e:
        err.append((n,'single',str(e)[:60]))
print('NONCAUSAL',len(nonc)); 
for x in nonc: print('  ',x)
print('LEN',nolen)
print('LAST',nolast)
print('ERR',err)
