from sess import *
e=session('futures', fee=0.0, leverage=1, balance=4096.0)
P=store.positions.storage['Sandbox-BTC-USDT']; P.current_price=64.0
def show(t): print(t,'buys',e.buy_orders['BTC'][:].tolist(),'sells',e.sell_orders['BTC'][:].tolist(),'backing',e.sell_orders['BTC'].array[:4].tolist(),'idx',e.sell_orders['BTC'].index,'pos',P.qty,'avail',e.available_margin)
a=submit('BTC-USDT','sell','LIMIT',8,63.0); b=submit('BTC-USDT','buy','MARKET',7,64.0); b.execute()
c=submit('BTC-USDT','sell','LIMIT',8,67.0); show('two sells, pos 7')
a.execute(); show('after exec a (flip to -1)')
print('c status', c.status)
import traceback
print('---- trace')
e=session('futures', fee=0.0, leverage=1, balance=4096.0)
P=store.positions.storage['Sandbox-BTC-USDT']; P.current_price=64.0
a=submit('BTC-USDT','sell','LIMIT',8,63.0); b=submit('BTC-USDT','buy','MARKET',7,64.0); b.execute()
c=submit('BTC-USDT','sell','LIMIT',8,67.0)
_oc=Order.cancel
def cc(self,silent=False,source=''):
    traceback.print_stack(limit=8); _oc(self,silent,source)
Order.cancel=cc
a.execute()
