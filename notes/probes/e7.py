import sys, warnings
warnings.filterwarnings('ignore')
sys.path.insert(0,'/repo')
import numpy as np
from jesse.research import backtest
from jesse.strategies import Strategy
import jesse.helpers as jh
from jesse.store import store
from jesse.services.candle import generate_candle_from_one_minutes
LOG=[]
class S(Strategy):
    def should_long(self): return self.index==7
    def go_long(self):
        self.buy = 1, self.price - 0.25   # limit below, fills mid-window
    def should_cancel_entry(self): return False
    def before(self):
        one=self.get_candles(self.exchange,self.symbol,'1m')
        if len(one)<5: return
        five=self.get_candles(self.exchange,self.symbol,"5m")
        n=len(one)
        # expected aggregation
        exp=[]
        for k in range(0,n,5):
            ch=one[k:k+5]
            exp.append([ch[0][0],ch[0][1],ch[-1][2],ch[:,3].max(),ch[:,4].min(),ch[:,5].sum()])
        exp=np.array(exp)
        ok = exp.shape==five.shape and np.allclose(exp,five)
        if not ok: LOG.append((self.index,n,five[-1].tolist(),exp[-1].tolist(), five.shape, exp.shape))
def candles(n=60, seed=1):
    rng=np.random.default_rng(seed)
    c=100+np.cumsum(rng.choice([-0.5,0.5,0.25,-0.25],n)); o=np.roll(c,1); o[0]=c[0]
    h=np.maximum(o,c)+0.5; l=np.minimum(o,c)-0.5
    t=1_600_000_200_000+60_000*np.arange(n)
    t=t-(t[0]%(300_000))
    return np.column_stack([t,o,c,h,l,np.ones(n)])
def run(fast=False):
    LOG.clear()
    ex='Sandbox'
    cfg={'starting_balance':10000,'fee':0,'type':'futures','futures_leverage':2,'futures_leverage_mode':'cross','exchange':ex,'warm_up_candles':0}
    routes=[{'exchange':ex,'strategy':S,'symbol':'BTC-USDT','timeframe':'1m'}]
    dr=[{'exchange':ex,'symbol':'BTC-USDT','timeframe':'5m'}]
    cs={f'{ex}-BTC-USDT':{'exchange':ex,'symbol':'BTC-USDT','candles':candles()}}
    r=backtest(cfg,routes,dr,cs,fast_mode=fast)
    print('fast' if fast else 'step', 'mismatches', len(LOG)); 
    for x in LOG[:4]: print('  ',x)
run(False); run(True)
