From Coq Require Import QArith Qcanon Lqa Bool.
Open Scope Qc_scope.

Definition leb (x y : Qc) : bool := match x ?= y with Gt => false | _ => true end.
Definition ltb (x y : Qc) : bool := match x ?= y with Lt => true | _ => false end.
Definition eqb (x y : Qc) : bool := match x ?= y with Eq => true | _ => false end.

Lemma cmpT (x y : Q) : CompareSpecT (x == y)%Q (x < y)%Q (y < x)%Q (x ?= y)%Q.
Proof. apply CompareSpec2Type, Qcompare_spec. Qed.
Lemma leb_spec x y : reflect (x <= y) (leb x y).
Proof. unfold leb, Qcle, Qccompare. destruct (cmpT (this x) (this y)); constructor; lra. Qed.
Lemma ltb_spec x y : reflect (x < y) (ltb x y).
Proof. unfold ltb, Qclt, Qccompare. destruct (cmpT (this x) (this y)); constructor; lra. Qed.
Lemma eqb_spec x y : reflect (x = y) (eqb x y).
Proof. unfold eqb, Qccompare. destruct (cmpT (this x) (this y)); constructor.
  - now apply Qc_is_canon. - intros ->; lra. - intros ->; lra. Qed.

Record candle := C { ts : Qc; o : Qc; c : Qc; h : Qc; l : Qc; v : Qc }.
Definition is_bullish k := leb (o k) (c k).
Definition is_bearish k := ltb (c k) (o k).
Definition btw a p b := ltb a p && ltb p b.

(* shape of what py2v will emit for services/candle.py:split_candle *)
Definition split_candle (k : candle) (p : Qc) : option (candle * candle) :=
  let t := ts k in let o := o k in let c := c k in let h := h k in let l := l k in let v := v k in
  if is_bullish k && btw l p o then Some (C t o p o p v, C t p c h l v)
  else if eqb p o then Some (k, k)
  else if is_bearish k && btw o p h then Some (C t o p p o v, C t p c h l v)
  else if is_bearish k && btw l p c then Some (C t o p h p v, C t p c c l v)
  else if is_bullish k && btw c p h then Some (C t o p p l v, C t p c h c v)
  else if is_bearish k && eqb p c then Some (C t o c h c v, C t p p p l v)
  else if is_bullish k && eqb p c then Some (C t o c c l v, C t p p h p v)
  else if is_bearish k && eqb p h then Some (C t o h h o v, C t h c h l v)
  else if is_bullish k && eqb p l then Some (C t o l o l v, C t l c h l v)
  else if is_bearish k && eqb p l then Some (C t o l h l v, C t l c c l v)
  else if is_bullish k && eqb p h then Some (C t o h h l v, C t h c h c v)
  else if is_bearish k && btw c p o then Some (C t o p h p v, C t p c p l v)
  else if is_bullish k && btw o p c then Some (C t o p p l v, C t p c h p v)
  else None.

Definition valid k := l k <= o k /\ l k <= c k /\ o k <= h k /\ c k <= h k.
Definition qmax (a b : Qc) := if leb a b then b else a.
Definition qmin (a b : Qc) := if leb a b then a else b.

Ltac brk :=
  repeat match goal with
  | |- context [leb ?a ?b] => destruct (leb_spec a b)
  | |- context [ltb ?a ?b] => destruct (ltb_spec a b)
  | |- context [eqb ?a ?b] => destruct (eqb_spec a b)
  end.

Lemma neq_Q (a b : Qc) : a <> b -> ~ (this a == this b)%Q.
Proof. intros H E. apply H, Qc_is_canon, E. Qed.
Ltac qc := unfold Qcle, Qclt in *; 
  repeat match goal with
  | H : @eq Qc ?a ?b |- _ => apply (f_equal this) in H
  | H : ?a <> ?b |- _ => apply neq_Q in H
  end;
  try lra.

Theorem split_total_valid k p : valid k -> l k <= p -> p <= h k ->
  exists a b, split_candle k p = Some (a, b) /\ valid a /\ valid b /\
    o a = o k /\ c b = c k /\ qmax (h a) (h b) = h k /\ qmin (l a) (l b) = l k /\
    ts a = ts k /\ ts b = ts k /\ (p <> o k -> c a = p /\ o b = p).
Proof.
  destruct k as [t0 o0 c0 h0 l0 v0]. unfold valid, split_candle, is_bullish, is_bearish, btw, qmax, qmin; cbn [ts o c h l v].
  intros (H1 & H2 & H3 & H4) H5 H6.
  brk; cbn [andb]; try (exfalso; qc; fail);
  (eexists; eexists; split; [reflexivity|]); cbn [ts o c h l v];
  repeat split; brk; try subst; try congruence; try (apply Qc_is_canon; qc); qc.
Qed.
Print Assumptions split_total_valid.
