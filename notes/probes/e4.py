import sys, warnings, random, math
warnings.filterwarnings('ignore')
sys.path.insert(0,'/repo')
import jesse.helpers as jh
from jesse import utils
print('max_timeframe', jh.max_timeframe(['1m','3D']), jh.max_timeframe(['1D','1W']), jh.max_timeframe(['4h','1M']))
# size_to_qty boundary
random.seed(3)
bad=0
for t in range(300000):
    prec=random.randint(0,8)
    price=round(10**random.uniform(-6,6), random.randint(0,8)) or 1.0
    cap=round(10**random.uniform(0,6), random.randint(0,4))
    fee=random.choice([0,0,0.0005,0.001,0.00075])
    q=utils.size_to_qty(cap,price,precision=prec,fee_rate=fee)
    cost=q*price*(1+fee)
    if cost>cap:
        bad+=1
        if bad<6: print('over', cap,price,prec,fee,q,cost)
print('bad size_to_qty',bad)
# dna endpoints
bad=0
for t in range(200000):
    lo=round(random.uniform(-100,100), random.randint(0,6)); hi=round(lo+10**random.uniform(-3,3), random.randint(0,6))
    if hi<=lo: continue
    hpd=[{'name':'a','type':float,'min':lo,'max':hi}]
    v0=jh.dna_to_hp(hpd,'(')['a']; v1=jh.dna_to_hp(hpd,'w')['a']
    if v0!=lo or v1!=hi:
        bad+=1
        if bad<6: print('endpoint',lo,hi,v0,v1)
    prev=None
    for ch in range(40,120):
        v=jh.dna_to_hp(hpd,chr(ch))['a']
        if not (lo<=v<=hi) or (prev is not None and v<prev):
            bad+=1
            if bad<12: print('range/mono',lo,hi,chr(ch),v,prev)
        prev=v
print('bad dna',bad)
