exec(open('e12.py').read().split("def fixed(cs):")[0])
import random, hashlib
LOG=[]
def dig(a): return hashlib.md5(np.ascontiguousarray(a).tobytes()).hexdigest()[:8]
_b=S.before
def before(self):
    v=[int(self.time), self.index, float(self.price), float(self.position.qty), float(self.balance), float(self.available_margin)]
    for tf in ('1m', self.timeframe, '15m'):
        try:
            c=self.get_candles(self.exchange,self.symbol,tf); v.append((tf,len(c),dig(c)))
        except Exception as e: v.append((tf,'ERR'))
    LOG.append(tuple(v))
S.before=before
def run2(P, cs, tf, fast, typ='futures'):
    ORD.clear(); SEQ[0]=0; S.P=P; ex='Sandbox'; LOG.clear()
    cfg={'starting_balance':100000,'fee':0.001,'type':typ,'futures_leverage':4,'futures_leverage_mode':'cross','exchange':ex,'warm_up_candles':0}
    routes=[{'exchange':ex,'strategy':S,'symbol':'BTC-USDT','timeframe':tf}]
    dr=[{'exchange':ex,'symbol':'BTC-USDT','timeframe':'15m'}]
    jh.CACHED_CONFIG.clear()
    backtest(cfg,routes,dr,{f'{ex}-BTC-USDT':{'exchange':ex,'symbol':'BTC-USDT','candles':cs.copy()}},fast_mode=fast)
    ev=[(o['n'],o['type'],o['side'],o['qty'],o['price'],o['created'],o['fill'],o['cancel']) for o in sorted(ORD.values(), key=lambda v:v['n'])]
    return list(LOG), ev
rng=random.Random(21); bad=0
for case in range(120):
    tf=rng.choice(['5m','15m','3m','1m'])
    n=120; cs=candles(n, 5000+case); cs2=candles(n, 9000+case)
    cut=rng.choice([30,45,60,75,90])   # multiple of 15 -> chunk boundary for all tfs
    mix=cs.copy(); mix[cut:,1:]=cs2[cut:,1:]
    P={'dir':rng.choice(['long','short']),'enter_at':set(rng.sample(range(1,12),4)),
       'entries':[(rng.choice([1,2,4])*0.5, rng.choice([-2,-1,0,0,1,2])/512) for _ in range(rng.choice([1,1,2]))],
       'sl':rng.choice([None,1/1024,1/512,1/256]),'tp':rng.choice([None,1/1024,1/512,1/256]),'cancel':rng.random()<0.5}
    tcut=int(cs[0][0])+60000*cut
    for fast in (False,True):
        try:
            l1,e1=run2(P,cs,tf,fast); l2,e2=run2(P,mix,tf,fast)
        except Exception as e:
            print(case,fast,'EXC',type(e).__name__, str(e)[:60]); continue
        p1=[x for x in l1 if x[0]<=tcut]; p2=[x for x in l2 if x[0]<=tcut]
        def clip(ev): 
            out=[]
            for (n_,ty,sd,q,p,cr,fi,ca) in ev:
                if cr<=tcut: out.append((n_,ty,sd,q,p,cr,fi if (fi is not None and fi<=tcut) else None, ca if (ca is not None and ca<=tcut) else None))
            return out
        if p1!=p2 or clip(e1)!=clip(e2):
            bad+=1
            if bad<4: print('LOOKAHEAD?',case,tf,fast,cut,len(p1),len(p2))
print('bad',bad)
