import sys, warnings
warnings.filterwarnings('ignore')
sys.path.insert(0,'/repo')
import numpy as np
from jesse.research import backtest
from jesse.strategies import Strategy
from jesse.store import store
import jesse.helpers as jh
class A(Strategy):
    def should_long(self): return False
    def go_long(self): pass
    def terminate(self): print('  daily_balance', [round(x,2) for x in store.app.daily_balance])
class B(Strategy):
    def should_long(self): return self.index==1
    def go_long(self): self.buy = 10, self.price*0.5     # resting limit far below: reserves 10*price/2 quote
    def should_cancel_entry(self): return False
    def after(self):
        if self.index in (1,2,1439,1440,1441): print('   idx',self.index,'bal',self.balance,'pv',self.portfolio_value,'n orders',len(self.orders), 'db', list(store.app.daily_balance))
    def terminate(self): print('  B: balance', self.balance, 'orders', [(o.type,o.status,o.qty,o.price) for o in self.orders], 'pv', self.portfolio_value)
def candles(n,base):
    c=np.full(n,float(base)); t=1_600_000_200_000+60_000*np.arange(n); t-=t[0]%86_400_000
    return np.column_stack([t,c,c,c,c,np.ones(n)])
ex='Sandbox'
def run(order):
    cfg={'starting_balance':10000,'fee':0,'type':'spot','exchange':ex,'warm_up_candles':0}
    rs={'A':{'exchange':ex,'strategy':A,'symbol':'ETH-USDT','timeframe':'1m'},'B':{'exchange':ex,'strategy':B,'symbol':'BTC-USDT','timeframe':'1m'}}
    routes=[rs[k] for k in order]
    cs={f'{ex}-BTC-USDT':{'exchange':ex,'symbol':'BTC-USDT','candles':candles(3000,100)},f'{ex}-ETH-USDT':{'exchange':ex,'symbol':'ETH-USDT','candles':candles(3000,10)}}
    jh.CACHED_CONFIG.clear()
    r=backtest(cfg,routes,[],cs,generate_equity_curve=True)
    ec=r['equity_curve']
    print(order, [round(x['value'],2) for x in ec[0]['data']] if ec else ec)
run('AB'); run('BA')
