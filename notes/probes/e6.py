import sys, warnings
warnings.filterwarnings('ignore')
sys.path.insert(0,'/repo')
import numpy as np
from jesse.research import backtest
from jesse.strategies import Strategy
import jesse.helpers as jh
class S(Strategy):
    def should_long(self): return self.index==2
    def go_long(self):
        self.buy = 1, self.price
        self.stop_loss = 1, self.price*0.9
        self.take_profit = 1, self.price*1.05
    def should_cancel_entry(self): return True
def candles(n=200, seed=1):
    rng=np.random.default_rng(seed)
    c=100+np.cumsum(rng.normal(0,0.5,n)); o=np.roll(c,1); o[0]=c[0]
    h=np.maximum(o,c)+rng.uniform(0,.3,n); l=np.minimum(o,c)-rng.uniform(0,.3,n)
    t=1_600_000_000_000+60_000*np.arange(n)
    return np.column_stack([t,o,c,h,l,np.ones(n)])
def run(ex='Sandbox', typ='futures', lev=2, fee=0.001, bal=1000, fast=False):
    cfg={'starting_balance':bal,'fee':fee,'type':typ,'futures_leverage':lev,'futures_leverage_mode':'cross','exchange':ex,'warm_up_candles':0}
    routes=[{'exchange':ex,'strategy':S,'symbol':'BTC-USDT','timeframe':'5m'}]
    cs={f'{ex}-BTC-USDT':{'exchange':ex,'symbol':'BTC-USDT','candles':candles()}}
    r=backtest(cfg,routes,[],cs,fast_mode=fast)
    m=r['metrics']
    return {k:m.get(k) for k in ('total','net_profit','fee','finishing_balance')}
print('unit testing?', jh.is_unit_testing())
a=run()
print('probe first   ', a)
print('other lev/fee ', run(lev=5, fee=0.0))
print('probe again   ', run())
try:
    print('other exch    ', run(ex='Binance Perpetual Futures'))
except Exception as e: print('ERR other exch', type(e).__name__, str(e)[:100])
print('spot          ', run(typ='spot'))
print('probe again   ', run())
print('fast          ', run(fast=True))
