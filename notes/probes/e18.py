from sess import *
from jesse.exceptions import InsufficientMargin
import random
from fractions import Fraction as Fr
def run(seed):
    r=random.Random(seed)
    lev=r.choice([1,2,4,8]); fee=r.choice([0.0,1/1024,1/2048]); syms=('BTC-USDT','ETH-USDT')[:r.choice([1,2])]
    e=session('futures', fee=fee, leverage=lev, balance=4096.0, symbols=syms)
    P={s:store.positions.storage['Sandbox-'+s] for s in syms}
    price={s:64.0 for s in syms}
    for s in syms: P[s].current_price=price[s]
    # reference
    W=Fr(4096); pos={s:[Fr(0),None] for s in syms}; rest=[]   # rest: (order,sym,qtysigned,price)
    F=Fr(fee)
    def avail():
        a=W
        for s in syms:
            q,en=pos[s]
            if q!=0:
                pnl=(Fr(price[s])-en)*q
                a-= abs(q)*en/lev - pnl
            b=sum(abs(Fr(o.qty))*Fr(o.price) for (o,ss) in rest if ss==s and o.side=='buy')
            sl=sum(abs(Fr(o.qty))*Fr(o.price) for (o,ss) in rest if ss==s and o.side=='sell')
            a-= max(b,sl)/lev
        return a
    live=[]  # all active orders (o, sym)
    def check(tag):
        for s in syms:
            q,en=pos[s]
            assert abs(P[s].qty-float(q))<=1e-9, (seed,tag,'qty',s,P[s].qty,q)
            if q!=0: assert abs(P[s].entry_price-float(en))<=1e-9*float(en), (seed,tag,'entry',s,P[s].entry_price,en)
        assert abs(e.wallet_balance-float(W))<=1e-7, (seed,tag,'wallet',e.wallet_balance,float(W))
        assert abs(e.available_margin-float(avail()))<=1e-7, (seed,tag,'avail',e.available_margin,float(avail()))
    for step in range(r.randint(5,40)):
        op=r.random(); s=r.choice(syms)
        if op<0.2:
            price[s]=max(8.0, price[s]+r.choice([-4,-2,-1,-0.5,0.5,1,2,4])); P[s].current_price=price[s]; check('price')
        elif op<0.6:
            q,en=pos[s]
            side=r.choice(['buy','sell']); typ=r.choice(['MARKET','LIMIT','STOP']); qty=r.choice([0.5,1,2,4,8,16,64]); pr=price[s] if typ=='MARKET' else price[s]+r.choice([-2,-1,1,2])
            ro=False
            if q!=0 and r.random()<0.4:
                ro=True; side='sell' if q>0 else 'buy'
            need=abs(Fr(qty)*Fr(pr))/lev
            mg=abs(float(need-avail()))
            if mg<1e-6: return 'tie-skip'
            expect_reject=(not ro) and need>avail()
            try:
                o=submit(s,side,typ,qty,pr,reduce_only=ro)
                assert not expect_reject,(seed,'should reject',qty,pr,float(avail()))
            except InsufficientMargin:
                assert expect_reject,(seed,'spurious reject',qty,pr,float(avail()))
                return 'rejected-end'
            live.append((o,s)); 
            if not ro: rest.append((o,s))
            check('submit')
        elif op<0.75 and live:
            o,s=r.choice(live); o.cancel(); live.remove((o,s))
            if (o,s) in rest: rest.remove((o,s))
            check('cancel')
            if r.random()<0.2: o.cancel(); check('cancel-again')
        elif live:
            o,s=r.choice(live); 
            q,en=pos[s]; oq=Fr(o.qty); op_=Fr(o.price)
            if o.reduce_only and q==0:   # illegal under the quantifier: skip (strategy layer cancels)
                continue
            o.execute(); live.remove((o,s))
            if (o,s) in rest: rest.remove((o,s))
            W-=abs(oq*op_)*F
            if q==0: pos[s]=[oq,op_]
            elif q+oq==0: W+=(op_-en)*q; pos[s]=[Fr(0),None]
            elif q*oq>0:
                if not o.reduce_only: pos[s]=[q+oq,(abs(oq)*op_+abs(q)*en)/(abs(oq)+abs(q))]
            else:
                if abs(oq)>abs(q):
                    W+=(op_-en)*q
                    if o.reduce_only: pos[s]=[Fr(0),None]
                    else: pos[s]=[q+oq,op_]
                else:
                    W+=(op_-en)*(-oq); pos[s]=[q+oq,en]
            check('execute')
            if pos[s][0]==0:
                for (oo,ss) in list(live):
                    if ss==s: oo.cancel(); live.remove((oo,ss)); 
                    if (oo,ss) in rest and ss==s: rest.remove((oo,ss))
                check('close-cancel-all')
            if r.random()<0.2: o.execute(); check('execute-again')
    return 'ok'
res={}
for seed in range(3000):
    try:
        x=run(seed)
    except AssertionError as ex:
        x='FAIL'; 
        if res.get('FAIL',0)<5: print('FAIL',ex.args[0])
    res[x]=res.get(x,0)+1
print(res)
