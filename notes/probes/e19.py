from sess import *
e=session('futures', fee=0.0, leverage=1, balance=4096.0)
P=store.positions.storage['Sandbox-BTC-USDT']; P.current_price=64.0
def show(t): print(t,'buys',e.buy_orders['BTC'][:].tolist(),'sells',e.sell_orders['BTC'][:].tolist(),'idx',e.sell_orders['BTC'].index,'pos',P.qty,'avail',e.available_margin)
a=submit('BTC-USDT','sell','LIMIT',8,63.0); b=submit('BTC-USDT','buy','MARKET',8,64.0); b.execute(); show('after buy')
c=submit('BTC-USDT','sell','LIMIT',8,67.0); show('two sells')
a.execute(); show('after exec a (closes)')
print('c status', c.status)
