import sys, warnings, random
warnings.filterwarnings('ignore')
sys.path.insert(0,'/repo')
import numpy as np
from jesse.research import backtest
from jesse.strategies import Strategy
from jesse.models import Order
import jesse.helpers as jh
from jesse.store import store
ORD={}; SEQ=[0]
_oi=Order.__init__; _oe=Order.execute; _oc=Order.cancel
def _init(self, attributes=None, should_silent=False, **kw):
    _oi(self, attributes, should_silent, **kw)
    SEQ[0]+=1
    ORD[self.id]={'n':SEQ[0],'type':self.type,'side':self.side,'qty':float(self.qty),'price':float(self.price),'created':int(store.app.time),'ro':bool(self.reduce_only),'fill':None,'cancel':None}
def _exec(self, silent=False):
    was=self.status; _oe(self, silent)
    if was=='ACTIVE' and self.id in ORD: ORD[self.id]['fill']=int(store.app.time)
def _cancel(self, silent=False, source=''):
    was=self.status; _oc(self, silent, source)
    if was=='ACTIVE' and self.id in ORD: ORD[self.id]['cancel']=int(store.app.time)
Order.__init__=_init; Order.execute=_exec; Order.cancel=_cancel
class S(Strategy):
    P=None
    def should_long(self): return self.P['dir']=='long' and self.index in self.P['enter_at']
    def should_short(self): return self.P['dir']=='short' and self.index in self.P['enter_at']
    def _entry(self):
        pts=[(q, self.price*(1+d)) for q,d in self.P['entries']]
        return pts if len(pts)>1 else pts[0]
    def go_long(self): self.buy=self._entry()
    def go_short(self): self.sell=self._entry()
    def on_open_position(self, order):
        e=self.position.entry_price; s=1 if self.is_long else -1; q=abs(self.position.qty)
        if self.P['sl'] is not None: self.stop_loss = [(q/2, e*(1-s*self.P['sl'])),(q/2, e*(1-s*2*self.P['sl']))]
        if self.P['tp'] is not None: self.take_profit = [(q/2, e*(1+s*self.P['tp'])),(q/2, e*(1+s*2*self.P['tp']))]
    def should_cancel_entry(self): return self.P['cancel']
def candles(n, seed):
    rng=random.Random(seed); p=1024.0; rows=[]
    t0=1_600_000_200_000; t0-=t0%(3600_000)
    for i in range(n):
        o=p if rng.random()<0.7 else p+rng.choice([-3,-2,-1,1,2,3])*0.25
        c=o+rng.choice([-8,-4,-2,-1,0,1,2,4,8])*0.25
        h=max(o,c)+rng.choice([0,0,1,2,6])*0.25; l=min(o,c)-rng.choice([0,0,1,2,6])*0.25
        rows.append([t0+60000*i,o,c,h,l,1.0]); p=c
    return np.array(rows)
def fixed(cs):
    cs=cs.copy()
    for i in range(1,len(cs)):
        pc=cs[i-1][2]
        if pc<cs[i][1]: cs[i][1]=pc; cs[i][4]=min(pc,cs[i][4])
        elif pc>cs[i][1]: cs[i][1]=pc; cs[i][3]=max(pc,cs[i][3])
    return cs
def run(P, cs, tf, fast):
    ORD.clear(); SEQ[0]=0; S.P=P; ex='Sandbox'
    cfg={'starting_balance':100000,'fee':0,'type':'futures','futures_leverage':4,'futures_leverage_mode':'cross','exchange':ex,'warm_up_candles':0}
    routes=[{'exchange':ex,'strategy':S,'symbol':'BTC-USDT','timeframe':tf}]
    jh.CACHED_CONFIG.clear()
    backtest(cfg,routes,[],{f'{ex}-BTC-USDT':{'exchange':ex,'symbol':'BTC-USDT','candles':cs.copy()}},fast_mode=fast)
    return [dict(v) for v in sorted(ORD.values(), key=lambda v:v['n'])]
def audit(orders, cs):
    fc=fixed(cs); t0=int(cs[0][0]); n=len(cs); issues=[]
    for o in orders:
        if o['type']=='MARKET': 
            if o['fill'] is None and o['cancel'] is None: issues.append(('market-unfilled',o))
            continue
        # minute index m has close-time t0+60000*(m+1); created time = store.app.time at submission
        m_sub=(o['created']-t0)//60000   # submitted while store.app.time = end of minute m_sub-1 => first fully eligible minute index = m_sub
        end = o['fill'] if o['fill'] is not None else (o['cancel'] if o['cancel'] is not None else t0+60000*(n+1))
        m_end=(end-t0)//60000-1          # minute index in which fill/cancel happened
        for m in range(max(m_sub,0), min(m_end, n)):   # minutes strictly before the terminal minute
            if fc[m][4] <= o['price'] <= fc[m][3]:
                issues.append(('missed', m, o)); break
        if o['fill'] is not None:
            m=m_end
            if 0<=m<n and not (fc[m][4] <= o['price'] <= fc[m][3]): issues.append(('fill-outside', m, o))
    return issues
rng=random.Random(11)
tot={'step':0,'fast':0}
shown=0
for case in range(250):
    tf=rng.choice(['5m','15m','3m','1m'])
    n=rng.choice([60,90,120]); cs=candles(n, 1000+case)
    P={'dir':rng.choice(['long','short']),'enter_at':set(rng.sample(range(1,12),4)),
       'entries':[(rng.choice([1,2,4])*0.5, rng.choice([-2,-1,0,0,1,2])/512) for _ in range(rng.choice([1,1,2]))],
       'sl':rng.choice([None,1/1024,1/512,1/256]),'tp':rng.choice([None,1/1024,1/512,1/256]),'cancel':rng.random()<0.5}
    for mode in ('step','fast'):
        try:
            orders=run(P,cs,tf,mode=='fast')
        except Exception as e:
            print(case,mode,'EXC',type(e).__name__,str(e)[:80]); continue
        iss=audit(orders,cs)
        if iss:
            tot[mode]+=1
            if shown<6:
                shown+=1; print('CASE',case,tf,mode,P); 
                for x in iss[:3]: print('   ',x)
print(tot)
