from sess import *
from jesse.exceptions import InsufficientBalance
e = session('spot', fee=0.0, balance=1000.0)
p = store.positions.storage['Sandbox-BTC-USDT']
p.current_price = 10.0
b = submit('BTC-USDT','buy','MARKET',10,10.0); b.execute()
print('assets', e.assets, 'pos', p.qty)
s1 = submit('BTC-USDT','sell','LIMIT',4,12.0)
print('limit sum', e.limit_orders_sum)
s1.cancel()
print('after cancel limit sum', e.limit_orders_sum)
try:
    s2 = submit('BTC-USDT','sell','LIMIT',13,12.0)
    print('ACCEPTED oversell of 13 with base 10!', e.limit_orders_sum)
    s2.execute(); print(e.assets, p.qty)
except InsufficientBalance as ex:
    print('rejected ok')
