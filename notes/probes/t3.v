From Coq Require Import QArith Qcanon Lqa.
Open Scope Qc_scope.
Lemma this_mult x y : (this (x * y) == this x * this y)%Q. Proof. unfold Qcmult, Q2Qc; cbn [this]. apply Qred_correct. Qed.
Lemma t1 : forall a b c : Qc, a <= b -> 0 <= c -> a * c <= b * c.
Proof. intros a b c H1 H2. unfold Qcle in *. rewrite !this_mult. change (this 0) with 0%Q in *. nra. Qed.
Lemma t2 : forall q1 p1 q2 p2 : Qc, q1 + q2 <> 0 -> ((q1*p1 + q2*p2) / (q1+q2)) * (q1+q2) = q1*p1 + q2*p2.
Proof. intros. field. assumption. Qed.
Print Assumptions t1.
Print Assumptions t2.
From Coq Require Import PrimFloat FloatAxioms.
Lemma t3 : forall x y, PrimFloat.leb x y = true -> PrimFloat.leb x y = true. Proof. auto. Qed.
Print Assumptions t3.
Lemma t4 : (PrimFloat.leb (0.1 + 0.2) 0.3 = false)%float. Proof. vm_compute. reflexivity. Qed.
Print Assumptions t4.
