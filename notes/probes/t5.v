From Coq Require Import ZArith PrimFloat Uint63 FloatOps SpecFloat.
Open Scope float_scope.
(* floor of a finite double as Z *)
Definition floorZ (x : float) : Z :=
  match Prim2SF x with
  | S754_finite s m e => let v := (if (0 <=? e)%Z then Z.pos m * 2 ^ e else Z.pos m / 2 ^ (- e))%Z in
                         if s then (if (0 <=? e)%Z then - v else - ((Z.pos m + 2^(-e) - 1) / 2 ^ (- e)))%Z else v
  | _ => 0%Z
  end.
Definition of_Z (z : Z) : float :=
  match z with Z0 => 0 | Zpos p => of_uint63 (Uint63.of_Z (Zpos p)) | Zneg p => - of_uint63 (Uint63.of_Z (Zpos p)) end.
Definition floor_with_precision (num : float) (prec : Z) : float :=
  let temp := of_Z (10 ^ prec) in of_Z (floorZ (num * temp)) / temp.
Definition size_to_qty (size price : float) (prec : Z) : float := floor_with_precision (size / price) prec.
Definition cap := 0x1.b666666666666p+3.   (* 13.7 *)
Definition price := 0x1.a36e2eb1c432dp-15. (* 5e-05 *)
Eval vm_compute in (size_to_qty cap price 3).
Eval vm_compute in (size_to_qty cap price 3 * price).
Eval vm_compute in (ltb cap (size_to_qty cap price 3 * price)).
(* dna endpoint *)
Definition convert_number (omax omin nmax nmin v : float) := (((v - omin) * (nmax - nmin)) / (omax - omin)) + nmin.
Definition lo := -0x1.3533333333333p+6. (* -77.3 *)
Definition hi := 0x1.3d70a3d70a3d7p-1. (* 0.62 *)
Eval vm_compute in (convert_number 119 40 hi lo 119).
Eval vm_compute in (ltb hi (convert_number 119 40 hi lo 119)).
