exec(open('e12.py').read().split("rng=random.Random(11)")[0])
import random
rng=random.Random(11)
for case in range(250):
    tf=rng.choice(['5m','15m','3m','1m'])
    n=rng.choice([60,90,120]); cs=candles(n, 1000+case)
    P={'dir':rng.choice(['long','short']),'enter_at':set(rng.sample(range(1,12),4)),
       'entries':[(rng.choice([1,2,4])*0.5, rng.choice([-2,-1,0,0,1,2])/512) for _ in range(rng.choice([1,1,2]))],
       'sl':rng.choice([None,1/1024,1/512,1/256]),'tp':rng.choice([None,1/1024,1/512,1/256]),'cancel':rng.random()<0.5}
    if case in (81,221):
        t0=int(cs[0][0]); fc=fixed(cs)
        for mode in ('step','fast'):
            orders=run(P,cs,tf,mode=='fast')
            print('CASE',case,tf,mode)
            for o in orders:
                print('   #%d %s %s q=%s p=%s created@min %s fill@min %s cancel@min %s ro=%s'%(o['n'],o['type'],o['side'],o['qty'],o['price'],(o['created']-t0)//60000, None if o['fill'] is None else (o['fill']-t0)//60000-1, None if o['cancel'] is None else (o['cancel']-t0)//60000-1, o['ro']))
        lo=9; hi=20
        print('  candles (fixed) idx: o c h l')
        for m in range(lo,hi): print('   ',m, fc[m][1:5].tolist())
