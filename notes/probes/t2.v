From Coq Require Import QArith Qcanon Lqa Lia List.
Import ListNotations.
Open Scope Qc_scope.

(* reduce Qc goals to Q goals *)
Lemma Qc_le_Q (x y : Qc) : x <= y <-> (this x <= this y)%Q. Proof. reflexivity. Qed.
Lemma Qc_lt_Q (x y : Qc) : x < y <-> (this x < this y)%Q. Proof. reflexivity. Qed.
Lemma Qc_eq_Q (x y : Qc) : x = y <-> (this x == this y)%Q.
Proof. split; [intros ->; reflexivity | apply Qc_is_canon]. Qed.
Lemma this_plus x y : (this (x + y) == this x + this y)%Q. Proof. unfold Qcplus, Q2Qc; cbn [this]. apply Qred_correct. Qed.
Lemma this_mult x y : (this (x * y) == this x * this y)%Q. Proof. unfold Qcmult, Q2Qc; cbn [this]. apply Qred_correct. Qed.
Lemma this_opp x : (this (- x) == - this x)%Q. Proof. unfold Qcopp, Q2Qc; cbn [this]. apply Qred_correct. Qed.
Lemma this_minus x y : (this (x - y) == this x - this y)%Q. Proof. unfold Qcminus. rewrite this_plus, this_opp. reflexivity. Qed.

Ltac qc2q := rewrite ?Qc_le_Q, ?Qc_lt_Q, ?Qc_eq_Q in *; rewrite ?this_plus, ?this_mult, ?this_minus, ?this_opp in *.

Goal forall a b c : Qc, a <= b -> 0 <= c -> a * c <= b * c.
Proof. intros a b c H1 H2. qc2q. change (this 0) with 0%Q in *. nra. Qed.

Lemma this_inv x : (this (/ x) == / this x)%Q. Proof. unfold Qcinv, Q2Qc; cbn [this]. apply Qred_correct. Qed.
Lemma this_div x y : (this (x / y) == this x / this y)%Q. Proof. unfold Qcdiv, Qdiv. rewrite this_mult, this_inv. reflexivity. Qed.
Goal forall e l : Qc, 0 < e -> 1 < l -> e * (1 - 1 / l) < e.
Proof. intros e l H H0. rewrite ?Qc_le_Q, ?Qc_lt_Q, ?Qc_eq_Q in *.
  rewrite this_mult, this_minus, this_div. change (this 0) with 0%Q in *. change (this 1) with 1%Q in *.
  set (E := this e) in *. set (L := this l) in *.
  assert (HL: (0 < / L)%Q) by (apply Qinv_lt_0_compat; lra).
  unfold Qdiv. nra. Qed.

Goal forall q1 p1 q2 p2 : Qc, q1 + q2 <> 0 -> ((q1*p1 + q2*p2) / (q1+q2)) * (q1+q2) = q1*p1 + q2*p2.
Proof. intros. field. assumption. Qed.

Definition ema_step (alpha prev x : Qc) := alpha * x + (1 - alpha) * prev.
Fixpoint ema (alpha prev : Qc) (xs : list Qc) : list Qc :=
  match xs with [] => [] | x :: r => let e := ema_step alpha prev x in e :: ema alpha e r end.
Definition mk (n : Z) := Q2Qc (n # 7).
Definition xs := map (fun n => mk (Z.of_nat n * 13 mod 101)) (seq 0 300).
Time Eval vm_compute in (this (last (ema (Q2Qc (2#15)) (mk 3) xs) 0)).
