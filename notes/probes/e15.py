import sys, warnings
warnings.filterwarnings('ignore')
sys.path.insert(0,'/repo')
import numpy as np
from jesse.research import backtest
from jesse.strategies import Strategy
from jesse.store import store
OUT={}; EV=[]
class S(Strategy):
    def should_long(self): return self.index==2
    def go_long(self):
        self.buy = [(1, self.price), (2, self.price-5)]
        self.stop_loss = 3, self.price+1          # above entry -> replaced by MARKET sell of 3 (not reduce-only) => flip
    def on_open_position(self, order): EV.append(('open',self.position.qty))
    def on_close_position(self, order): EV.append(('close',self.position.qty))
    def on_increased_position(self, order): EV.append(('inc',self.position.qty))
    def on_reduced_position(self, order): EV.append(('red',self.position.qty))
    def should_cancel_entry(self): return True
    def terminate(self):
        OUT['wallet']=self.balance; OUT['pos']=self.position.qty
        OUT['trades']=[]
        for t in store.completed_trades.trades:
            try: OUT['trades'].append((t.type,t.qty,t.entry_price,t.exit_price,t.pnl,[(o.side,o.qty,o.price,o.type) for o in t.orders]))
            except Exception as e: OUT['trades'].append(('ERR',type(e).__name__,str(e)[:50]))
def candles():
    closes=[100,100,100,100,100,101,102,101,100,100,100,100]
    n=len(closes); c=np.array(closes,float); o=np.roll(c,1); o[0]=c[0]
    h=np.maximum(o,c); l=np.minimum(o,c)
    t=1_600_000_200_000+60_000*np.arange(n)
    return np.column_stack([t,o,c,h,l,np.ones(n)])
ex='Sandbox'
cfg={'starting_balance':10000,'fee':0.0,'type':'futures','futures_leverage':2,'futures_leverage_mode':'cross','exchange':ex,'warm_up_candles':0}
routes=[{'exchange':ex,'strategy':S,'symbol':'BTC-USDT','timeframe':'1m'}]
cs={f'{ex}-BTC-USDT':{'exchange':ex,'symbol':'BTC-USDT','candles':candles()}}
try:
    r=backtest(cfg,routes,[],cs)
    m=r['metrics']; print('metrics', {k:m.get(k) for k in ('total','net_profit','finishing_balance')})
except Exception as e:
    import traceback; traceback.print_exc()
print(EV); print(OUT)
