exec(open('e12.py').read().split("rng=random.Random(11)")[0])
import random
import jesse.modes.backtest_mode as bm
rng=random.Random(11)
for case in range(250):
    tf=rng.choice(['5m','15m','3m','1m'])
    n=rng.choice([60,90,120]); cs=candles(n, 1000+case)
    P={'dir':rng.choice(['long','short']),'enter_at':set(rng.sample(range(1,12),4)),
       'entries':[(rng.choice([1,2,4])*0.5, rng.choice([-2,-1,0,0,1,2])/512) for _ in range(rng.choice([1,1,2]))],
       'sl':rng.choice([None,1/1024,1/512,1/256]),'tp':rng.choice([None,1/1024,1/512,1/256]),'cancel':rng.random()<0.5}
    if case==221:
        t0=int(cs[0][0])
        og=bm._get_executing_orders; osrt=bm._sort_execution_orders
        def g(ex,sym,rc):
            r=og(ex,sym,rc); 
            m=(int(rc[0])-t0)//60000
            if 8<=m<=18: print('   get_executing @candle',m,'range',rc[4],rc[3],'->',[ORD[o.id]['n'] for o in r])
            return r
        def srt(orders, sc):
            r=osrt(orders,sc); print('   sorted ->',[ORD[o.id]['n'] for o in r], 'from', [ORD[o.id]['n'] for o in orders]); return r
        bm._get_executing_orders=g; bm._sort_execution_orders=srt
        orders=run(P,cs,tf,True)
