import sys, warnings
warnings.filterwarnings('ignore')
sys.path.insert(0,'/repo')
import numpy as np
from jesse.research import backtest
from jesse.strategies import Strategy
from jesse.store import store
OUT={}
class S(Strategy):
    def should_long(self): return self.index==2
    def go_long(self):
        self.buy = 2, self.price
    def on_open_position(self, order):
        self.take_profit = 1, self.position.entry_price+1
        self.stop_loss = 2, self.position.entry_price-2     # full size stop, never reduced
    def should_cancel_entry(self): return True
    def terminate(self):
        OUT['wallet']=self.balance
        OUT['trades']=[(t.type,t.qty,t.entry_price,t.exit_price,t.pnl,t.fee,[ (o.side,o.qty,o.price,o.type) for o in t.orders]) for t in store.completed_trades.trades]
def candles():
    closes=[100,100,100,100,101.5,101,100,99,97,97,97,97]
    n=len(closes); c=np.array(closes,float); o=np.roll(c,1); o[0]=c[0]
    h=np.maximum(o,c); l=np.minimum(o,c)
    t=1_600_000_200_000+60_000*np.arange(n)
    return np.column_stack([t,o,c,h,l,np.ones(n)])
ex='Sandbox'
cfg={'starting_balance':10000,'fee':0.001,'type':'futures','futures_leverage':2,'futures_leverage_mode':'cross','exchange':ex,'warm_up_candles':0}
routes=[{'exchange':ex,'strategy':S,'symbol':'BTC-USDT','timeframe':'1m'}]
cs={f'{ex}-BTC-USDT':{'exchange':ex,'symbol':'BTC-USDT','candles':candles()}}
r=backtest(cfg,routes,[],cs)
m=r['metrics']
print(OUT)
print('net_profit',m['net_profit'],'finishing',m['finishing_balance'],'start+net',10000+m['net_profit'], 'fee', m['fee'])
