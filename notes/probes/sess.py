import sys, os, warnings
warnings.filterwarnings('ignore')
sys.path.insert(0,'/repo')
import numpy as np
import jesse.helpers as jh
from jesse.config import config, set_config, reset_config
from jesse.routes import router
from jesse.store import store
from jesse.models import Order
from jesse.enums import order_types, sides
from jesse.strategies import Strategy

class Dummy(Strategy):
    def should_long(self): return False
    def go_long(self): pass
    def _on_updated_position(self, order): pass

def session(typ='futures', fee=0.0, leverage=1, mode='cross', balance=10000.0, symbols=('BTC-USDT',), exchange='Sandbox'):
    from jesse.research.backtest import _format_config
    import jesse.config as jc
    jc.config['app']['trading_mode']='backtest'
    jh.CACHED_CONFIG.clear()
    cfg={'starting_balance':balance,'fee':fee,'type':typ,'futures_leverage':leverage,'futures_leverage_mode':mode,'exchange':exchange,'warm_up_candles':0}
    set_config(_format_config(cfg))
    routes=[{'exchange':exchange,'strategy':Dummy,'symbol':s,'timeframe':'1m'} for s in symbols]
    router.initiate(routes, [])
    store.app.time = 1_600_000_000_000
    store.candles.init_storage(100)
    from jesse.modes.backtest_mode import _prepare_routes
    _prepare_routes(None)
    for s_ in symbols:
        store.candles.add_candle(np.array([store.app.time-60000,10.,10.,10.,10.,1.]), exchange, s_, '1m', with_execution=False, with_generation=False)
    return store.exchanges.storage[exchange]

def submit(symbol, side, typ, qty, price, reduce_only=False, exchange='Sandbox'):
    o = Order({'id': jh.generate_unique_id(),'symbol':symbol,'exchange':exchange,'side':side,'type':typ,'reduce_only':reduce_only,
               'qty': jh.prepare_qty(qty, side),'price':price})
    store.orders.add_order(o)
    return o
