import sys, random, itertools
sys.path.insert(0,'/repo')
import numpy as np
from jesse.libs import DynamicNumpyArray
def run(ops, bucket):
    a = DynamicNumpyArray((bucket,2)); m=[]; c=0
    for op in ops:
        if op[0]=='a':
            c+=1; a.append(np.array([c,c])); m.append(c)
        elif op[0]=='m':
            k=op[1]; items=[]
            for _ in range(k): c+=1; items.append([c,c]); m.append(c)
            a.append_multiple(np.array(items))
        elif op[0]=='d':
            if not m: continue
            i=op[1]%len(m); a.delete(i,axis=0); del m[i]
        if len(a)!=len(m): return 'len',ops
        if len(m)>0 and a[:][:,0].tolist()!=m: return 'content',ops,a[:][:,0].tolist(),m
        if len(m)>0 and a[-1][0]!=m[-1]: return 'last',ops
    return None
random.seed(1)
bad=0
for t in range(200000):
    bucket=random.choice([1,2,3,4])
    ops=[]
    for _ in range(random.randint(1,14)):
        r=random.random()
        if r<0.45: ops.append(('a',))
        elif r<0.6: ops.append(('m',random.randint(1,6)))
        else: ops.append(('d',random.randint(0,5)))
    try:
        res=run(ops,bucket)
    except Exception as e:
        res=('EXC',type(e).__name__,str(e)[:80],ops)
    if res:
        bad+=1
        if bad<8: print(bucket,res)
print('bad',bad)
