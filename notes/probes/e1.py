import os, sys
sys.path.insert(0,'/repo')
import numpy as np
from jesse.libs import DynamicNumpyArray
def mk(n, bucket=3, drop=None):
    a = DynamicNumpyArray((bucket,2), drop)
    for i in range(n): a.append(np.array([i+1, 10*(i+1)]))
    return a
a = mk(4)
print('len', len(a), 'arr rows', a.array.shape)
print('a[-2:]', a[-2:].tolist(), 'expected', [[3,30],[4,40]])
print('a[1:-1]', a[1:-1].tolist())
print('a[:10]', a[:10].tolist())
print('a[-10:]', a[-10:].tolist())
try:
    print('a[2:1]', a[2:1].tolist())
except Exception as e: print('ERR', e)
# delete negative
a = mk(4); a.delete(-1, axis=0); print('del -1 ->', a[:].tolist(), len(a))
a = mk(4); a.delete(0, axis=0); print('del 0 ->', a[:].tolist(), len(a))
# delete then append across bucket boundary
a = mk(5, bucket=3)   # index=4, array 6? 
print('shape', a.array.shape)
a.delete(0, axis=0); print(a.array.shape, len(a))
try:
    for i in range(6): a.append(np.array([100+i, 0]))
    print('ok', a[:].tolist())
except Exception as e: print('ERR append after delete', type(e), e)
# many deletes
a = mk(7, bucket=3); 
try:
    for k in range(5): a.delete(0, axis=0)
    print(len(a), a.array.shape, a[:].tolist())
    for i in range(8): a.append(np.array([100+i, 0]))
    print('ok', a[:].tolist())
except Exception as e: print('ERR', type(e), e)
# append_multiple
a = DynamicNumpyArray((3,2))
a.append_multiple(np.array([[1,1],[2,2]]))
print(len(a), a[:].tolist(), a.array.shape)
a.append_multiple(np.array([[3,3],[4,4],[5,5],[6,6],[7,7]]))
print(len(a), a[:].tolist(), a.array.shape)
# setitem slice
a = mk(5); a[-2:] = np.array([[9,9],[8,8]]); print(a[:].tolist())
a = mk(5); 
try:
    a[1:3] = np.array([[9,9],[8,8]]); print(a[:].tolist())
except Exception as e: print("ERR", e)
# drop_at
a = DynamicNumpyArray((3,2), drop_at=6)
for i in range(14):
    a.append(np.array([i+1,0])); 
    print(i+1, len(a), a[:][:,0].tolist())
# get item on empty, a[0] after flush
a = mk(2); a.flush(); print(len(a))
try: a[0]
except IndexError as e: print('IndexError ok')
a = mk(3)
print(a[-3], end=' ');
try: print(a[-4])
except IndexError: print('IE')
