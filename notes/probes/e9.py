from sess import *
e = session('futures', symbols=('BTC-USDT',))
store.candles.init_storage(100)
def c(ts,v): return np.array([ts,v,v,v,v,1.0])
T=1_600_000_000_000
# short store, unknown older ts
for k in range(5): store.candles.add_candle(c(T+60000*k, k+1.0),'Sandbox','BTC-USDT','1m',with_execution=False,with_generation=False)
try:
    store.candles.add_candle(c(T-60000, 99.0),'Sandbox','BTC-USDT','1m',with_execution=False,with_generation=False)
    print('older unknown on short store: no error')
except Exception as ex: print('older unknown on short store:', type(ex).__name__)
# long store, replace row 1
store.candles.init_storage(100)
for k in range(30): store.candles.add_candle(c(T+60000*k, k+1.0),'Sandbox','BTC-USDT','1m',with_execution=False,with_generation=False)
for row in (0,1,2,5,28):
    store.candles.add_candle(c(T+60000*row, 777.0),'Sandbox','BTC-USDT','1m',with_execution=False,with_generation=False)
    got=store.candles.get_candles('Sandbox','BTC-USDT','1m')[row][1]
    print('replace row',row,'->',got)
