exec(open('e12.py').read().split("def fixed(cs):")[0])
import random
BAD=[]
CNT={'after_open':0,'with_exits':0,'mods':0}
class S2(S):
    R=None
    def update_position(self):
        r=self.R
        if r.random()<0.35:
            e=self.position.entry_price; s=1 if self.is_long else -1; q=abs(self.position.qty)
            k=r.choice([1,2,3]); CNT['mods']+=1
            if r.random()<0.5:
                self.stop_loss=[(q/k, e*(1-s*(j+1)*r.choice([1,2,3])/1024)) for j in range(k)]
            else:
                self.take_profit=[(q/k, e*(1+s*(j+1)*r.choice([1,2,3])/1024)) for j in range(k)]
    def after(self):
        if self.position.is_open:
            act=[o for o in self.orders if o.is_active and o.reduce_only]
            CNT['after_open']+=1; CNT['with_exits']+= (1 if act else 0)
            for via,decl in (('stop-loss',self._stop_loss),('take-profit',self._take_profit)):
                os_=sorted((round(abs(o.qty),9),round(o.price,9)) for o in act if o.submitted_via==via)
                rows=sorted((round(abs(a),9),round(b,9)) for a,b in (decl if decl is not None else []))
                # injection: multiset inclusion
                tmp=list(rows); ok=True
                for x in os_:
                    if x in tmp: tmp.remove(x)
                    else: ok=False
                if not ok: BAD.append((self.index,via,os_,rows))
            other=[o for o in act if o.submitted_via not in ('stop-loss','take-profit')]
            if other: BAD.append((self.index,'untagged',[(o.type,o.qty,o.price) for o in other]))
        else:
            act=[o for o in self.orders if o.is_active and o.reduce_only]
            if act: BAD.append((self.index,'exit-active-while-closed',len(act)))
tot=0
rng=random.Random(31)
for case in range(150):
    tf=rng.choice(['5m','3m','1m']); n=120; cs=candles(n, 7000+case)
    P={'dir':rng.choice(['long','short']),'enter_at':set(rng.sample(range(1,12),4)),
       'entries':[(rng.choice([1,2,4])*0.5, rng.choice([-2,-1,0,0,1,2])/512) for _ in range(rng.choice([1,1,2]))],
       'sl':rng.choice([None,1/512,1/256]),'tp':rng.choice([None,1/512,1/256]),'cancel':rng.random()<0.5}
    S2.P=P; S2.R=random.Random(case); BAD.clear(); ORD.clear(); SEQ[0]=0
    ex='Sandbox'
    cfg={'starting_balance':100000,'fee':0,'type':'futures','futures_leverage':4,'futures_leverage_mode':'cross','exchange':ex,'warm_up_candles':0}
    routes=[{'exchange':ex,'strategy':S2,'symbol':'BTC-USDT','timeframe':tf}]
    jh.CACHED_CONFIG.clear()
    try:
        backtest(cfg,routes,[],{f'{ex}-BTC-USDT':{'exchange':ex,'symbol':'BTC-USDT','candles':cs.copy()}})
    except Exception as e:
        print(case,'EXC',type(e).__name__,str(e)[:90]); continue
    if BAD:
        tot+=1
        if tot<5: print('CASE',case,tf,P,'\n   ',BAD[:2])
print('cases with stale/odd exits',tot, CNT)
