"""Extract, fail-closed, every access the two simulators make to the INPUT candle arrays, with the guards under which it is made.

Source: jesse/modes/backtest_mode.py, functions _step_simulator (loop variable i) and _simulate_new_candles (i = candle_index,
candles_step), plus the loop header of _skip_simulator.  Every occurrence of the name `candles` (the session's input) inside these
functions must have one of the shapes listed below; anything else stops the generation (the tie is broken, the check reports it).

Output (Gen/simidx.v): for each simulator a list of (guard, lo, hi): while simulating step i the rows lo..hi-1 of an input array
are read when guard holds (Python indexing: a negative bound counts from the END of the array, i.e. reads the future).
"""
import ast


class Untranslatable(Exception):
    pass


def _is_input_rows(node):
    """candles[j]['candles']"""
    return (isinstance(node, ast.Subscript) and isinstance(node.slice, ast.Constant) and node.slice.value == 'candles'
            and isinstance(node.value, ast.Subscript) and isinstance(node.value.value, ast.Name) and node.value.value.id == 'candles'
            and isinstance(node.value.slice, ast.Name) and node.value.slice.id == 'j')


def zexpr(e, env):
    if isinstance(e, ast.Constant) and isinstance(e.value, int) and not isinstance(e.value, bool):
        return f'({e.value})' if e.value < 0 else str(e.value)
    if isinstance(e, ast.Name):
        if e.id in env:
            return env[e.id]
        raise Untranslatable(f'line {e.lineno}: integer name {e.id!r} is not one of {sorted(env)}')
    if isinstance(e, ast.BinOp) and isinstance(e.op, (ast.Add, ast.Sub, ast.Mult, ast.Mod, ast.FloorDiv)):
        op = {ast.Add: '+', ast.Sub: '-', ast.Mult: '*', ast.Mod: 'mod', ast.FloorDiv: '/'}[type(e.op)]
        return f'({zexpr(e.left, env)} {op} {zexpr(e.right, env)})'
    if isinstance(e, ast.UnaryOp) and isinstance(e.op, ast.USub):
        return f'(- {zexpr(e.operand, env)})'
    raise Untranslatable(f'line {getattr(e, "lineno", "?")}: index expression {ast.dump(e)[:120]}')


def bexpr(e, env):
    """a guard over the integer names; None when the test does not mention them only (such a guard is dropped: the obligation gets stronger)"""
    try:
        if isinstance(e, ast.Compare) and len(e.ops) == 1:
            l, r = zexpr(e.left, env), zexpr(e.comparators[0], env)
            op = e.ops[0]
            if isinstance(op, ast.Eq): return f'({l} =? {r})'
            if isinstance(op, ast.NotEq): return f'(negb ({l} =? {r}))'
            if isinstance(op, ast.Lt): return f'({l} <? {r})'
            if isinstance(op, ast.LtE): return f'({l} <=? {r})'
            if isinstance(op, ast.Gt): return f'({r} <? {l})'
            if isinstance(op, ast.GtE): return f'({r} <=? {l})'
        if isinstance(e, ast.BoolOp) and isinstance(e.op, ast.And):
            parts = [bexpr(v, env) for v in e.values]
            if all(p is not None for p in parts):
                return '(' + ' && '.join(parts) + ')'
    except Untranslatable:
        return None
    return None



def _terminates(stmts):
    """the statement list always leaves the enclosing block (continue / return / raise / break as its last statement)"""
    return bool(stmts) and isinstance(stmts[-1], (ast.Continue, ast.Return, ast.Raise, ast.Break))


def _nest_early_exits(stmts):
    """`if T: ...; continue` followed by REST (no else)  ==>  `if T: ...; continue  else: REST`, recursively: the statements after an
    early exit run under the negated test, which is how guards_of() reads guards"""
    out = []
    for k, st in enumerate(stmts):
        for field in ('body', 'orelse'):
            if hasattr(st, field) and isinstance(getattr(st, field), list) and not isinstance(st, (ast.FunctionDef, ast.ClassDef)):
                setattr(st, field, _nest_early_exits(getattr(st, field)))
        if isinstance(st, ast.If) and not st.orelse and _terminates(st.body) and k + 1 < len(stmts):
            st.orelse = _nest_early_exits(stmts[k + 1:])
            out.append(st)
            return out
        out.append(st)
    return out


def _is_path(e, aliases):
    """candles | alias | path['const'] | path[j]"""
    if isinstance(e, ast.Name):
        return e.id == 'candles' or e.id in aliases
    if isinstance(e, ast.Subscript) and not isinstance(e.slice, ast.Slice):
        if isinstance(e.slice, ast.Constant) and isinstance(e.slice.value, str):
            return _is_path(e.value, aliases)
        if isinstance(e.slice, ast.Name) and e.slice.id == 'j':
            return _is_path(e.value, aliases)
    return False


class _Subst(ast.NodeTransformer):
    def __init__(self, table):
        self.table = table

    def visit_Name(self, n):
        if isinstance(n.ctx, ast.Load) and n.id in self.table:
            import copy
            return ast.copy_location(copy.deepcopy(self.table[n.id]), n)
        return n


def _is_int_expr(e, ints):
    """an integer expression over the step variables (and other integer locals already resolved)"""
    if isinstance(e, ast.Constant):
        return isinstance(e.value, int) and not isinstance(e.value, bool)
    if isinstance(e, ast.Name):
        return e.id in ints
    if isinstance(e, ast.BinOp) and isinstance(e.op, (ast.Add, ast.Sub, ast.Mult, ast.Mod, ast.FloorDiv)):
        return _is_int_expr(e.left, ints) and _is_int_expr(e.right, ints)
    if isinstance(e, ast.UnaryOp) and isinstance(e.op, ast.USub):
        return _is_int_expr(e.operand, ints)
    return False


def _inline_aliases(fn, int_names):
    """local names bound ONCE to a path into the per-symbol input (`x = candles[j]`, `y = x['candles']`) or to an integer expression over the
    step variables (`chunk_end = i + candles_step`, `i = candle_index`) are replaced by what they stand for; their assignments are dropped"""
    import copy
    stores = {}
    for n in ast.walk(fn):
        if isinstance(n, ast.Name) and isinstance(n.ctx, ast.Store):
            stores[n.id] = stores.get(n.id, 0) + 1
        elif isinstance(n, ast.arg):
            stores[n.arg] = stores.get(n.arg, 0) + 1
    table = {}
    changed = True
    while changed:
        changed = False
        for n in ast.walk(fn):
            if isinstance(n, ast.Assign) and len(n.targets) == 1 and isinstance(n.targets[0], ast.Name):
                nm = n.targets[0].id
                if nm in table or stores.get(nm) != 1 or nm in ('candles', 'j', 'count'):
                    continue
                v = n.value
                names = {x.id for x in ast.walk(v) if isinstance(x, ast.Name)}
                if _is_path(v, table) and ('j' in names or names & set(table)):
                    table[nm] = _Subst(table).visit(copy.deepcopy(v)); changed = True
                elif _is_int_expr(v, set(int_names) | {k for k, t in table.items() if _is_int_expr(t, set(int_names))}) and names \
                        and not (isinstance(v, ast.Name) and v.id == nm):
                    table[nm] = _Subst(table).visit(copy.deepcopy(v)); changed = True
    if table:
        class Drop(ast.NodeTransformer):
            def visit_Assign(self, n):
                if len(n.targets) == 1 and isinstance(n.targets[0], ast.Name) and n.targets[0].id in table:
                    return None
                return self.generic_visit(n)
        fn = Drop().visit(fn)
        fn = _Subst(table).visit(fn)
    return fn


def _loops_over_values(fn):
    """`for x in candles.values():` / `for j, x in candles.items():`  ==>  `for j in candles:` with x standing for candles[j]"""
    import copy

    class T(ast.NodeTransformer):
        def visit_For(self, n):
            self.generic_visit(n)
            it = n.iter
            if isinstance(it, ast.Call) and isinstance(it.func, ast.Attribute) and isinstance(it.func.value, ast.Name) and it.func.value.id == 'candles' and not it.args:
                item = None
                if it.func.attr == 'values' and isinstance(n.target, ast.Name):
                    item = n.target.id
                elif it.func.attr == 'items' and isinstance(n.target, ast.Tuple) and len(n.target.elts) == 2 and all(isinstance(e, ast.Name) for e in n.target.elts):
                    item = n.target.elts[1].id
                    key = n.target.elts[0].id
                    n.body = [_Subst({key: ast.Name('j', ast.Load())}).visit(b) for b in n.body]
                if item is not None:
                    path = ast.Subscript(ast.Name('candles', ast.Load()), ast.Name('j', ast.Load()), ast.Load())
                    n.body = [_Subst({item: path}).visit(b) for b in n.body]
                    n.target = ast.Name('j', ast.Store())
                    n.iter = ast.Name('candles', ast.Load())
            return n
    return T().visit(copy.deepcopy(fn))


def _inline_helpers(fn, fns, depth=0):
    """a call statement `helper(..., <path into the input>, ...)` of a function defined in the same module is replaced by the helper's body with
    the arguments substituted: what the helper reads of the input is read at the call site.  Only helpers that are plain procedures (no value
    used, a final bare return at most) are inlined; anything else is left for accesses() to reject."""
    import copy

    def mentions_input(e):
        return any(isinstance(x, ast.Name) and x.id == 'candles' for x in ast.walk(e))

    class T(ast.NodeTransformer):
        def visit_Expr(self, n):
            c = n.value
            if isinstance(c, ast.Call) and isinstance(c.func, ast.Name) and c.func.id in fns and c.func.id not in ALLOWED_CALLS and c.func.id != fn.name \
                    and not c.keywords and any(mentions_input(a) for a in c.args):
                h = fns[c.func.id]
                params = [a.arg for a in h.args.args]
                if len(params) != len(c.args) or h.args.vararg or h.args.kwarg or h.args.kwonlyargs:
                    return n
                body = [b for b in h.body if not (isinstance(b, ast.Expr) and isinstance(b.value, ast.Constant))]
                if any(isinstance(x, ast.Return) and x.value is not None for b in body for x in ast.walk(b)) or \
                        any(isinstance(x, (ast.Yield, ast.YieldFrom, ast.Global, ast.Nonlocal)) for b in body for x in ast.walk(b)):
                    return n
                stored = {x.id for b in body for x in ast.walk(b) if isinstance(x, ast.Name) and isinstance(x.ctx, ast.Store)}
                if stored & set(params):
                    return n
                table = {p_: a for p_, a in zip(params, c.args)}
                return [_Subst(table).visit(copy.deepcopy(b)) for b in body if not isinstance(b, ast.Return)]
            return n
    out = T().visit(fn)
    return out


def normalise(fn, fns=None, int_names=('i', 'candle_index', 'candles_step', 'count', 'length')):
    """a copy of fn brought back to the shapes accesses() knows, by rewrites that preserve what the function reads of the input:
    loops over candles.values()/items() become loops over the keys; aliases of paths into the input and of integer expressions are inlined;
    procedure-like helpers that receive a path into the input are inlined at the call; statements after an early `continue`/`return` are
    nested under the negated test."""
    import copy
    fn = _loops_over_values(fn)
    fn = _inline_aliases(fn, int_names)
    if fns:
        fn = _inline_helpers(fn, fns)
        fn = _loops_over_values(fn)
        fn = _inline_aliases(fn, int_names)
    fn.body = _nest_early_exits(fn.body)
    ast.fix_missing_locations(fn)
    return fn


ALLOWED_CALLS = {'_simulation_minutes_length', '_prepare_times_before_simulation', '_simulate_new_candles', '_generate_outputs'}


def accesses(fn, env, first_set_name=None):
    """walk fn collecting accesses; checks every use of `candles` (and of the alias of candles[key]['candles'])"""
    out = []
    parents = {}
    for n in ast.walk(fn):
        for c in ast.iter_child_nodes(n):
            parents[c] = n

    def guards_of(node):
        gs = []
        cur = node
        while cur in parents:
            p = parents[cur]
            if isinstance(p, ast.If):
                g = bexpr(p.test, env)
                if g is not None:
                    if cur in p.body: gs.append(g)
                    elif cur in p.orelse: gs.append(g[6:-1] if g.startswith('(negb ') else f'(negb {g})')
            cur = p
        return gs

    def in_tf_loop(node):
        cur = node
        while cur in parents:
            cur = parents[cur]
            if isinstance(cur, ast.For) and isinstance(cur.target, ast.Name) and cur.target.id == 'timeframe':
                if ast.unparse(cur.iter) != "config['app']['considering_timeframes']":
                    raise Untranslatable(f'line {cur.lineno}: timeframe loop over {ast.unparse(cur.iter)}')
                return True
        return False

    aliases = set()
    handled = set()
    for n in ast.walk(fn):
        if _is_input_rows(n):
            handled.add(n.value.value)
            p = parents[n]
            if isinstance(p, ast.Subscript) and p.value is n:
                sl = p.slice
                if isinstance(sl, ast.Slice):
                    if sl.step is not None or sl.lower is None or sl.upper is None:
                        raise Untranslatable(f'line {p.lineno}: slice of the input array without both bounds')
                    lo, hi = zexpr(sl.lower, env), zexpr(sl.upper, env)
                else:
                    lo = zexpr(sl, env); hi = f'({lo} + 1)'
                g = guards_of(p)
                out.append((p.lineno, ' && '.join(g) if g else 'true', lo, hi, 'per_tf' if in_tf_loop(p) else 'once'))
            else:
                raise Untranslatable(f'line {n.lineno}: the whole input array is used, not a row or a slice of it')
    # candles[key]['candles'] assigned to a name (the first symbol's array, used for timestamps)
    for n in ast.walk(fn):
        if isinstance(n, ast.Assign) and len(n.targets) == 1 and isinstance(n.targets[0], ast.Name):
            v = n.value
            if (isinstance(v, ast.Subscript) and isinstance(v.slice, ast.Constant) and v.slice.value == 'candles' and isinstance(v.value, ast.Subscript)
                    and isinstance(v.value.value, ast.Name) and v.value.value.id == 'candles' and isinstance(v.value.slice, ast.Name)
                    and v.value.slice.id == 'key'):
                aliases.add(n.targets[0].id)
                handled.add(v.value.value)
    for n in ast.walk(fn):
        if isinstance(n, ast.Name) and n.id in aliases and isinstance(n.ctx, ast.Load):
            p = parents[n]
            # alias[i][0]  (a timestamp)
            if isinstance(p, ast.Subscript) and p.value is n and not isinstance(p.slice, ast.Slice):
                lo = zexpr(p.slice, env)
                g = guards_of(p)
                if in_tf_loop(p):
                    raise Untranslatable(f'line {p.lineno}: timestamp read inside the timeframe loop')
                out.append((p.lineno, ' && '.join(g) if g else 'true', lo, f'({lo} + 1)', 'first'))
            elif isinstance(p, ast.Call) and isinstance(p.func, ast.Name) and p.func.id == 'len' and p.args == [n]:
                pass                                    # the length of the session, no row is read
            else:
                raise Untranslatable(f'line {n.lineno}: use of {n.id} that is not a single row')
    for n in ast.walk(fn):
        if isinstance(n, ast.Name) and n.id == 'candles' and n not in handled:
            p = parents[n]
            if isinstance(p, ast.For) and p.iter is n:
                continue
            if isinstance(p, ast.Subscript) and p.value is n and isinstance(parents[p], ast.Subscript) and isinstance(parents[p].slice, ast.Constant) \
                    and parents[p].slice.value in ('exchange', 'symbol'):
                continue
            if isinstance(p, ast.Call) and isinstance(p.func, ast.Name) and p.func.id in ALLOWED_CALLS and n in p.args:
                continue
            if isinstance(p, ast.arg) or isinstance(n.ctx, ast.Store):
                continue
            raise Untranslatable(f'line {n.lineno}: unrecognised use of the input `candles` in {fn.name}')
    return sorted(out)


def check_warmup(repo):
    """the store is pre-loaded from the warm-up input only: the session's trading candles reach nothing but the simulator call"""
    import os
    path = os.path.join(repo, 'jesse/research/backtest.py')
    tree = ast.parse(open(path).read())
    fns = {n.name: n for n in ast.walk(tree) if isinstance(n, ast.FunctionDef)}
    if '_isolated_backtest' not in fns:
        raise Untranslatable(f'{path}: _isolated_backtest not found')
    fn = fns['_isolated_backtest']
    mod_fns = {n.name: n for n in tree.body if isinstance(n, ast.FunctionDef) and n.name != '_isolated_backtest'}
    parents = {}
    for n in ast.walk(fn):
        for c in ast.iter_child_nodes(n):
            parents[c] = n
    copies = [n for n in ast.walk(fn) if isinstance(n, ast.Assign) and ast.unparse(n) == 'trading_candles_dict = copy.deepcopy(candles)']
    if len(copies) != 1:
        raise Untranslatable('_isolated_backtest: trading_candles_dict = copy.deepcopy(candles) not found')
    for n in ast.walk(fn):
        if isinstance(n, ast.Name) and n.id == 'trading_candles_dict' and isinstance(n.ctx, ast.Load):
            p = parents[n]
            if not (isinstance(p, ast.Call) and isinstance(p.func, ast.Name) and p.func.id == 'simulator' and p.args and p.args[0] is n):
                raise Untranslatable(f'{path}: line {n.lineno}: the trading candles are used outside the simulator call')
        if isinstance(n, ast.Name) and n.id == 'candles' and isinstance(n.ctx, ast.Load):
            p = parents[n]
            ok = (isinstance(p, ast.Call) and ast.unparse(p) == 'copy.deepcopy(candles)')
            if not ok and isinstance(p, ast.Call) and isinstance(p.func, ast.Name) and p.func.id in mod_fns and n in p.args:
                # handed to a helper of the same module that only inspects it (validation): the helper must not reach the store, the router or
                # the simulator, import anything, or call anything but builtins / exceptions on it
                h = mod_fns[p.func.id]
                reach = {x.id for x in ast.walk(h) if isinstance(x, ast.Name)} | {x.attr for x in ast.walk(h) if isinstance(x, ast.Attribute)}
                ok = not (reach & {'store', 'router', 'simulator', 'inject_warmup_candles_to_store', 'jesse_config', 'set_config', 'add_candle', 'storage'}) \
                    and not any(isinstance(x, (ast.Import, ast.ImportFrom, ast.Global)) for x in ast.walk(h))
            if not ok and not (isinstance(p, ast.Attribute) and p.attr in ('items', 'values', 'keys')):
                raise Untranslatable(f'{path}: line {n.lineno}: unrecognised use of the input candles in _isolated_backtest')
    inj = [n for n in ast.walk(fn) if isinstance(n, ast.Call) and isinstance(n.func, ast.Name) and n.func.id == 'inject_warmup_candles_to_store']
    if len(inj) != 1 or ast.unparse(inj[0].args[0]) != "warmup_candles_dict[key]['candles']":
        raise Untranslatable(f'{path}: inject_warmup_candles_to_store is not fed from warmup_candles_dict[key][\'candles\']')
    path2 = os.path.join(repo, 'jesse/modes/backtest_mode.py')
    tree2 = ast.parse(open(path2).read())
    fns2 = {n.name: n for n in tree2.body if isinstance(n, ast.FunctionDef)}
    if '_handle_warmup_candles' not in fns2:
        raise Untranslatable(f'{path2}: _handle_warmup_candles not found')
    inj2 = [n for n in ast.walk(fns2['_handle_warmup_candles']) if isinstance(n, ast.Call) and isinstance(n.func, ast.Name) and n.func.id == 'inject_warmup_candles_to_store']
    if len(inj2) != 1 or ast.unparse(inj2[0].args[0]) != "warmup_candles[jh.key(exchange, symbol)]['candles']":
        raise Untranslatable(f'{path2}: _handle_warmup_candles does not inject warmup_candles[...]')
    others = [n for n in ast.walk(tree2) if isinstance(n, ast.Call) and isinstance(n.func, ast.Name) and n.func.id == 'inject_warmup_candles_to_store']
    if len(others) != 1:
        raise Untranslatable(f'{path2}: inject_warmup_candles_to_store is called from {len(others)} places')


def generate(path):
    import os
    check_warmup(os.path.dirname(os.path.dirname(os.path.dirname(os.path.abspath(path)))))
    tree = ast.parse(open(path).read())
    fns = {n.name: n for n in tree.body if isinstance(n, ast.FunctionDef)}
    for need in ('_step_simulator', '_skip_simulator', '_simulate_new_candles'):
        if need not in fns:
            raise Untranslatable(f'{path}: function {need} not found')
    # the loop headers
    step_fn, skip_fn, new_fn = fns['_step_simulator'], fns['_skip_simulator'], fns['_simulate_new_candles']

    def main_loop(fn, want):
        loops = [n for n in ast.walk(fn) if isinstance(n, ast.For) and isinstance(n.target, ast.Name) and n.target.id == 'i'
                 and isinstance(n.iter, ast.Call) and isinstance(n.iter.func, ast.Name) and n.iter.func.id == 'range']
        if len(loops) != 1 or ast.unparse(loops[0].iter) != want:
            raise Untranslatable(f'{fn.name}: main loop is not `for i in {want}`: {[ast.unparse(l.iter) for l in loops]}')
        return loops[0]
    main_loop(step_fn, 'range(length)')
    lp = main_loop(skip_fn, 'range(0, length, candles_step)')
    calls = [n for n in ast.walk(lp) if isinstance(n, ast.Call) and isinstance(n.func, ast.Name) and n.func.id == '_simulate_new_candles']
    if len(calls) != 1 or [ast.unparse(a) for a in calls[0].args] != ['candles', 'i', 'current_step']:
        raise Untranslatable('_skip_simulator: call of _simulate_new_candles(candles, i, current_step) not found')
    cur = [n for n in lp.body if isinstance(n, ast.Assign) and ast.unparse(n.targets[0]) == 'current_step']
    if len(cur) != 1 or ast.unparse(cur[0].value) != 'min(candles_step, length - i)':
        raise Untranslatable('_skip_simulator: current_step = min(candles_step, length - i) not found')
    # _simulate_new_candles(candles, candle_index, candles_step): i = candle_index
    if [a.arg for a in new_fn.args.args] != ['candles', 'candle_index', 'candles_step']:
        raise Untranslatable('_simulate_new_candles: unexpected parameters')
    for n in ast.walk(new_fn):
        if isinstance(n, ast.Name) and isinstance(n.ctx, ast.Store) and n.id in ('i', 'candle_index', 'candles_step'):
            p_ = [m for m in ast.walk(new_fn) if isinstance(m, ast.Assign) and n in m.targets]
            if n.id == 'i' and p_ and ast.unparse(p_[0]) == 'i = candle_index':
                continue
            raise Untranslatable(f'_simulate_new_candles: {n.id} is reassigned at line {n.lineno}')
    sa = accesses(normalise(step_fn, fns), {'i': 'i', 'count': 'count'})
    fa = accesses(normalise(new_fn, fns), {'i': 'i', 'candle_index': 'i', 'count': 'count', 'candles_step': 'step'})
    # _skip_simulator itself must not touch the rows
    ka = accesses(normalise(skip_fn, fns), {'i': 'i', 'candles_step': 'step'})
    if ka:
        raise Untranslatable(f'_skip_simulator reads the input rows directly at lines {[a[0] for a in ka]}')

    # the helpers that receive the whole input before the loop
    for need in ('_simulation_minutes_length', '_prepare_times_before_simulation'):
        if need not in fns:
            raise Untranslatable(f'{path}: function {need} not found')
    la = accesses(fns['_simulation_minutes_length'], {})
    if la:
        raise Untranslatable('_simulation_minutes_length reads rows of the input')
    ln_fn = fns['_simulation_minutes_length']
    if ast.unparse(ln_fn.body[-1]) != 'return len(first_candles_set)':
        raise Untranslatable('_simulation_minutes_length does not return len(first_candles_set)')
    pa = accesses(fns['_prepare_times_before_simulation'], {})
    if any(a[4] != 'first' for a in pa):
        raise Untranslatable('_prepare_times_before_simulation reads more than timestamps of the first symbol')
    for fn_, nm in ((step_fn, '_step_simulator'), (skip_fn, '_skip_simulator')):
        cl = [n for n in ast.walk(fn_) if isinstance(n, ast.Call) and isinstance(n.func, ast.Name) and n.func.id == '_prepare_times_before_simulation']
        if len(cl) != 1:
            raise Untranslatable(f'{nm}: _prepare_times_before_simulation is not called exactly once')
    # when the strategies are executed: `elif <test>: ... r.strategy._execute()` inside `for r in router.routes`
    def exec_guard(fn, env):
        """the test under which a route whose timeframe is NOT 1m is executed: the path condition of `r.strategy._execute()` inside
        `for r in router.routes`, with boolean locals inlined and `r.timeframe == timeframes.MINUTE_1` replaced by False.  A 1m route must
        be executed unconditionally (the same condition with that test replaced by True simplifies to True on some path)."""
        import copy
        A = 'r.timeframe == timeframes.MINUTE_1'

        def simp(e, a_val):
            if ast.unparse(e) == A:
                return a_val
            if isinstance(e, ast.UnaryOp) and isinstance(e.op, ast.Not):
                v = simp(e.operand, a_val)
                return (not v) if isinstance(v, bool) else ast.UnaryOp(ast.Not(), v)
            if isinstance(e, ast.BoolOp):
                vals = [simp(v, a_val) for v in e.values]
                absorbing = isinstance(e.op, ast.Or)
                if any(v is absorbing for v in vals):
                    return absorbing
                vals = [v for v in vals if not isinstance(v, bool)]
                if not vals:
                    return not absorbing
                return vals[0] if len(vals) == 1 else ast.BoolOp(e.op, vals)
            return e
        found, one_minute_ok = [], False
        for n in ast.walk(fn):
            if isinstance(n, ast.For) and ast.unparse(n.iter) == 'router.routes' and isinstance(n.target, ast.Name) and n.target.id == 'r':
                loop = copy.deepcopy(n)
                # boolean locals assigned once inside the loop are inlined
                stores = {}
                for m in ast.walk(loop):
                    if isinstance(m, ast.Name) and isinstance(m.ctx, ast.Store):
                        stores[m.id] = stores.get(m.id, 0) + 1
                table = {}
                for m in ast.walk(loop):
                    if isinstance(m, ast.Assign) and len(m.targets) == 1 and isinstance(m.targets[0], ast.Name) and stores.get(m.targets[0].id) == 1 \
                            and isinstance(m.value, (ast.Compare, ast.BoolOp, ast.UnaryOp)) and m.targets[0].id not in env:
                        table[m.targets[0].id] = _Subst(table).visit(copy.deepcopy(m.value))
                loop = _Subst(table).visit(loop)
                loop.body = _nest_early_exits(loop.body)
                ast.fix_missing_locations(loop)
                par = {}
                for m in ast.walk(loop):
                    for c in ast.iter_child_nodes(m):
                        par[c] = m
                for m in ast.walk(loop):
                    if isinstance(m, ast.Call) and ast.unparse(m) == 'r.strategy._execute()':
                        conds = []
                        cur = m
                        while cur in par and cur is not loop:
                            q = par[cur]
                            if isinstance(q, ast.If):
                                if cur in q.body: conds.append(q.test)
                                elif cur in q.orelse: conds.append(ast.UnaryOp(ast.Not(), q.test))
                            elif isinstance(q, (ast.For, ast.While, ast.Try, ast.With)) and q is not loop:
                                raise Untranslatable(f'{fn.name}: line {m.lineno}: r.strategy._execute() inside a nested {type(q).__name__}')
                            cur = q
                        cond = ast.BoolOp(ast.And(), conds) if len(conds) > 1 else (conds[0] if conds else ast.Constant(True))
                        if not conds or simp(cond, True) is True:
                            one_minute_ok = True
                        other = simp(cond, False) if conds else True
                        if other is False:
                            continue
                        if other is True:
                            raise Untranslatable(f'{fn.name}: line {m.lineno}: routes of every timeframe are executed at every step')
                        g = bexpr(other, env)
                        if g is None:
                            raise Untranslatable(f'{fn.name}: line {m.lineno}: strategy execution test {ast.unparse(other)}')
                        found.append(g)
        if len(found) != 1 or not one_minute_ok:
            raise Untranslatable(f'{fn.name}: expected one timeframe test guarding r.strategy._execute() (and unconditional execution of 1m routes), found {found}')
        return found[0]
    if '_execute_routes' not in fns or [a.arg for a in fns['_execute_routes'].args.args] != ['candle_index', 'candles_step']:
        raise Untranslatable('_execute_routes(candle_index, candles_step) not found')
    calls = [n for n in ast.walk(lp) if isinstance(n, ast.Call) and isinstance(n.func, ast.Name) and n.func.id == '_execute_routes']
    if len(calls) != 1 or [ast.unparse(a) for a in calls[0].args] != ['i', 'current_step']:
        raise Untranslatable('_skip_simulator: call of _execute_routes(i, current_step) not found')
    eg_step = exec_guard(step_fn, {'i': 'i', 'count': 'count'})
    eg_fast = exec_guard(fns['_execute_routes'], {'candle_index': 'i', 'candles_step': 'step', 'count': 'count'})
    # the chunk length of the fast simulator: gcd over ALL routes (trading and data)
    if '_calculate_minimum_candle_step' not in fns:
        raise Untranslatable('_calculate_minimum_candle_step not found')
    cs = fns['_calculate_minimum_candle_step']
    body = [b for b in cs.body if not (isinstance(b, ast.Expr) and isinstance(b.value, ast.Constant))]
    want = ["consider_time_frames = [timeframe_to_one_minutes[route['timeframe']] for route in router.all_formatted_routes]",
            'return np.gcd.reduce(consider_time_frames)']
    if [ast.unparse(b) for b in body] != want:
        # another arrangement of the function: it has a finite domain (sets of route timeframes), so evaluate it on all of it
        from . import evalfallback
        okg, detail = evalfallback.candle_step_is_gcd(os.path.dirname(os.path.dirname(os.path.dirname(os.path.abspath(path)))))
        if not okg:
            raise Untranslatable(f'_calculate_minimum_candle_step is not the gcd over router.all_formatted_routes: {detail}')
    for (ln, g, lo, hi, cls) in sa + fa:
        uses_count = 'count' in g or 'count' in lo or 'count' in hi
        if uses_count != (cls == 'per_tf'):
            raise Untranslatable(f'line {ln}: an access {"outside" if uses_count else "inside"} the timeframe loop {"uses" if uses_count else "does not use"} count')
    if any(a[4] == 'first' for a in fa):
        raise Untranslatable('_simulate_new_candles reads timestamps of the first symbol')

    def lst(acc, cls):
        return '[' + ';\n   '.join(f'({g}, {lo}, {hi})' for ln, g, lo, hi, c in acc if c == cls) + ']'
    text = ('(* GENERATED by translator/simidx.py from jesse/modes/backtest_mode.py - do not edit; regenerated on every run.\n'
            '   Every read of the input candle arrays made while simulating step i: (guard, lo, hi) = rows lo..hi-1.\n'
            '   *_first: the first symbol\'s array only (timestamps); *_once: every symbol; *_per_tf: every symbol, once per considered timeframe.\n'
            f'   step simulator source lines: {[a[0] for a in sa]}; fast simulator source lines: {[a[0] for a in fa]} *)\n'
            'From Coq Require Import ZArith List Bool.\nImport ListNotations.\nLocal Open Scope Z_scope.\nLocal Open Scope bool_scope.\n\n'
            f'Definition prep_first : list (bool * Z * Z) :=\n  {lst(pa, "first")}.\n'
            f'Definition step_first (i : Z) : list (bool * Z * Z) :=\n  {lst(sa, "first")}.\n'
            f'Definition step_once (i : Z) : list (bool * Z * Z) :=\n  {lst(sa, "once")}.\n'
            f'Definition step_per_tf (i count : Z) : list (bool * Z * Z) :=\n  {lst(sa, "per_tf")}.\n'
            'Definition step_accesses (i count : Z) : list (bool * Z * Z) := step_first i ++ step_once i ++ step_per_tf i count.\n\n'
            f'Definition fast_once (i step : Z) : list (bool * Z * Z) :=\n  {lst(fa, "once")}.\n'
            f'Definition fast_per_tf (i step count : Z) : list (bool * Z * Z) :=\n  {lst(fa, "per_tf")}.\n'
            'Definition fast_accesses (i step count : Z) : list (bool * Z * Z) := fast_once i step ++ fast_per_tf i step count.\n\n'
            '(* when a route of `count` minutes is executed: after minute i (normal) / after the chunk starting at row i (fast) *)\n'
            f'Definition step_executes (i count : Z) : bool := {eg_step}.\n'
            f'Definition fast_executes (i step count : Z) : bool := {eg_fast}.\n\n'
            '(* _calculate_minimum_candle_step: np.gcd.reduce over the timeframes of router.all_formatted_routes (trading AND data routes) *)\n'
            'Definition candle_step (all_route_timeframes : list Z) : Z := fold_left Z.gcd all_route_timeframes 0.\n')
    return text
