"""py2v — fail-closed translator from a small subset of Python (the pure numeric kernels of jesse)
to Gallina, written against the `Num` interface of coq/theories/Base/Num.v.

Every construct that is not understood raises Untranslatable(file:line); nothing is skipped.
Semantics preserved on purpose: evaluation order of float operations (expression trees are kept
as written), Python's chained comparisons, `min`/`max` argument order, true division, `abs`,
`math.floor`, `round`, early `return`, `raise` (-> Raise), `np.nan` results (-> Nan).
"""
import ast
import math

FIELDS = ['c_ts', 'c_open', 'c_close', 'c_high', 'c_low', 'c_vol']


class Untranslatable(Exception):
    pass


COQ_TYPES = {'num': 'N', 'bool': 'bool', 'int': 'Z', 'str': 'string', 'candle': 'candle N',
             'pair_candle': '(candle N * candle N)'}


def float_lit(x):
    """exact dyadic value m * 2^e of a Python float"""
    if x == 0:
        return (0, 0)
    m, e = math.frexp(x)
    m = int(m * (1 << 53))
    e -= 53
    while m % 2 == 0:
        m //= 2
        e += 1
    return (m, e)


def zlit(k):
    return f'({k})%Z' if k < 0 else f'{k}%Z'


class Sig:
    def __init__(self, coq_name, params, ret, res=False, selfmap=None):
        self.coq_name = coq_name      # name of the generated definition
        self.params = params          # list of (python name, type)   (for methods: the self_* params come first)
        self.ret = ret                # 'num' | 'bool' | 'int' | 'str' | 'candle' | 'pair_candle'
        self.res = res                # returns Res <ret> (may raise / nan)
        self.selfmap = selfmap or {}  # attr -> ('param', name, type) | ('call', sigkey)
        self.defaults = {}            # filled from the AST


class FunTranslator:
    def __init__(self, mod, fn, sig, sigs, path):
        self.mod, self.fn, self.sig, self.sigs, self.path = mod, fn, sig, sigs, path
        self.tmp = 0

    def fail(self, node, why):
        raise Untranslatable(f'{self.path}:{getattr(node, "lineno", "?")}: {why} in {self.fn.name}: '
                             f'{ast.dump(node)[:160] if isinstance(node, ast.AST) else node}')

    # ------------------------------------------------------------------ expressions
    def coerce(self, code, ty, want, node):
        if ty == want:
            return code
        if ty == 'int' and want == 'num':
            return f'(ofZ N {code})'
        self.fail(node, f'type {ty} where {want} expected')

    def expr(self, e, env, binds):
        """returns (code, type)"""
        if isinstance(e, ast.Constant):
            v = e.value
            if isinstance(v, bool):
                return ('true' if v else 'false', 'bool')
            if isinstance(v, int):
                return (zlit(v), 'int')
            if isinstance(v, float):
                m, ex = float_lit(v)
                return (f'(lit N {zlit(m)} {zlit(ex)})', 'num')
            if isinstance(v, str):
                return (f'"{v}"%string', 'str')
            self.fail(e, 'constant')
        if isinstance(e, ast.Name):
            if e.id in env:
                return (env[e.id][0], env[e.id][1])
            self.fail(e, f'unknown name {e.id}')
        if isinstance(e, ast.Attribute):
            if isinstance(e.value, ast.Name) and e.value.id == 'self':
                m = self.sig.selfmap.get(e.attr)
                if m is None:
                    self.fail(e, f'self.{e.attr} not declared in sigs')
                if m[0] == 'param':
                    return (env[m[1]][0], m[2])
                if m[0] == 'call':
                    return self.call_sig(self.sigs[m[1]], [], {}, env, binds, e, is_method=True)
            # enum constants like sides.BUY / trade_types.LONG / timeframes.X
            if isinstance(e.value, ast.Name) and e.value.id in ENUMS and e.attr in ENUMS[e.value.id]:
                return (f'"{ENUMS[e.value.id][e.attr]}"%string', 'str')
            self.fail(e, 'attribute')
        if isinstance(e, ast.UnaryOp):
            c, t = self.expr(e.operand, env, binds)
            if isinstance(e.op, ast.USub):
                if t == 'int':
                    return (f'(- {c})%Z', 'int')
                return (f'(opp N {c})', 'num')
            if isinstance(e.op, ast.Not):
                return (f'(negb {self.coerce(c, t, "bool", e)})', 'bool')
            self.fail(e, 'unary op')
        if isinstance(e, ast.BinOp):
            a, ta = self.expr(e.left, env, binds)
            b, tb = self.expr(e.right, env, binds)
            op = type(e.op)
            if ta == 'int' and tb == 'int':
                if op in (ast.Add, ast.Sub, ast.Mult):
                    s = {ast.Add: '+', ast.Sub: '-', ast.Mult: '*'}[op]
                    return (f'({a} {s} {b})%Z', 'int')
                if op is ast.Pow:
                    return (f'({a} ^ {b})%Z', 'int')
                if op is ast.Div:
                    return (f'(div N (ofZ N {a}) (ofZ N {b}))', 'num')
                self.fail(e, 'int binop')
            a = self.coerce(a, ta, 'num', e)
            b = self.coerce(b, tb, 'num', e)
            f = {ast.Add: 'add', ast.Sub: 'sub', ast.Mult: 'mul', ast.Div: 'div'}.get(op)
            if f is None:
                self.fail(e, 'num binop')
            return (f'({f} N {a} {b})', 'num')
        if isinstance(e, ast.BoolOp):
            parts = [self.coerce(*self.expr(v, env, binds), 'bool', e) for v in e.values]
            s = ' && ' if isinstance(e.op, ast.And) else ' || '
            return ('(' + s.join(parts) + ')', 'bool')
        if isinstance(e, ast.Compare):
            items = [e.left] + list(e.comparators)
            codes = [('None', 'none') if (isinstance(x, ast.Constant) and x.value is None)
                     else ('<seq>', 'seq') if isinstance(x, (ast.List, ast.Tuple))
                     else self.expr(x, env, binds)
                     for x in items]
            parts = []
            for i, op in enumerate(e.ops):
                (a, ta), (b, tb) = codes[i], codes[i + 1]
                parts.append(self.compare(op, a, ta, b, tb, e, items[i + 1]))
            return ('(' + ' && '.join(parts) + ')' if len(parts) > 1 else parts[0], 'bool')
        if isinstance(e, ast.IfExp):
            nb = []
            c = self.coerce(*self.expr(e.test, env, nb), 'bool', e)
            a, ta = self.expr(e.body, env, nb)
            b, tb = self.expr(e.orelse, env, nb)
            if nb:
                self.fail(e, 'call that may raise inside a conditional expression')
            if ta != tb:
                a, b, ta = self.coerce(a, ta, 'num', e), self.coerce(b, tb, 'num', e), 'num'
            return (f'(if {c} then {a} else {b})', ta)
        if isinstance(e, ast.Subscript):
            c, t = self.expr(e.value, env, binds)
            if t == 'candle' and isinstance(e.slice, ast.Constant) and isinstance(e.slice.value, int) and 0 <= e.slice.value < 6:
                return (f'({FIELDS[e.slice.value]} {c})', 'num')
            self.fail(e, 'subscript')
        if isinstance(e, ast.Tuple):
            if len(e.elts) == 2:
                (a, ta), (b, tb) = self.expr(e.elts[0], env, binds), self.expr(e.elts[1], env, binds)
                if ta == tb == 'candle':
                    return (f'({a}, {b})', 'pair_candle')
            self.fail(e, 'tuple')
        if isinstance(e, ast.Call):
            return self.call(e, env, binds)
        self.fail(e, 'expression')

    def compare(self, op, a, ta, b, tb, node, rhs_node):
        if tb == 'none' or ta == 'none':
            # `x is None` on a value that is never None in the model
            if isinstance(op, ast.Is):
                return 'false'
            if isinstance(op, ast.IsNot):
                return 'true'
            self.fail(node, 'comparison with None')
        if isinstance(op, (ast.In, ast.NotIn)):
            if isinstance(rhs_node, (ast.List, ast.Tuple)) and ta == 'str':
                alts = [f'String.eqb {a} "{x.value}"%string' for x in rhs_node.elts]
                r = '(' + ' || '.join(alts) + ')'
                return r if isinstance(op, ast.In) else f'(negb {r})'
            self.fail(node, 'in')
        if ta == 'str' and tb == 'str':
            if isinstance(op, ast.Eq):
                return f'(String.eqb {a} {b})'
            if isinstance(op, ast.NotEq):
                return f'(negb (String.eqb {a} {b}))'
            self.fail(node, 'string comparison')
        if ta == 'int' and tb == 'int':
            m = {ast.Lt: f'({a} <? {b})%Z', ast.LtE: f'({a} <=? {b})%Z', ast.Gt: f'({b} <? {a})%Z', ast.GtE: f'({b} <=? {a})%Z',
                 ast.Eq: f'({a} =? {b})%Z', ast.NotEq: f'(negb ({a} =? {b})%Z)'}
            if type(op) in m:
                return m[type(op)]
            self.fail(node, 'int comparison')
        a = self.coerce(a, ta, 'num', node)
        b = self.coerce(b, tb, 'num', node)
        m = {ast.Lt: f'(ltb N {a} {b})', ast.LtE: f'(leb N {a} {b})', ast.Gt: f'(ltb N {b} {a})', ast.GtE: f'(leb N {b} {a})',
             ast.Eq: f'(eqb N {a} {b})', ast.NotEq: f'(negb (eqb N {a} {b}))'}
        if type(op) in m:
            return m[type(op)]
        self.fail(node, 'comparison')

    def call(self, e, env, binds):
        f = e.func
        name = None
        if isinstance(f, ast.Name):
            name = f.id
        elif isinstance(f, ast.Attribute) and isinstance(f.value, ast.Name):
            name = f'{f.value.id}.{f.attr}'
        if name is None:
            self.fail(e, 'call target')
        args = e.args
        if name == 'abs' and len(args) == 1:
            c, t = self.expr(args[0], env, binds)
            if t == 'int':
                return (f'(Z.abs {c})', 'int')
            return (f'(nabs N {c})', 'num')
        if name in ('min', 'max') and len(args) == 2 and not e.keywords:
            a = self.coerce(*self.expr(args[0], env, binds), 'num', e)
            b = self.coerce(*self.expr(args[1], env, binds), 'num', e)
            return (f'(n{name} {a} {b})', 'num')
        if name == 'math.floor' and len(args) == 1:
            return (f'(floorZ N {self.coerce(*self.expr(args[0], env, binds), "num", e)})', 'int')
        if name == 'round' and len(args) == 1:
            return (f'(roundZ N {self.coerce(*self.expr(args[0], env, binds), "num", e)})', 'int')
        if name == 'int' and len(args) == 1:
            c, t = self.expr(args[0], env, binds)
            if t == 'int':
                return (c, t)
            self.fail(e, 'int() of a non-integer')
        if name == 'float' and len(args) == 1:
            c, t = self.expr(args[0], env, binds)
            return (self.coerce(c, t, 'num', e), 'num')
        if name == 'math.isnan' and len(args) == 1:
            return (f'(isnan N {self.coerce(*self.expr(args[0], env, binds), "num", e)})', 'bool')
        if name in ('jh.is_livetrading', 'jh.is_live') and not args:
            return ('false', 'bool')       # the model is of backtest sessions
        if name == 'np.array' and len(args) == 1 and isinstance(args[0], ast.List) and len(args[0].elts) == 6:
            cs = [self.coerce(*self.expr(x, env, binds), 'num', e) for x in args[0].elts]
            return ('(mkC ' + ' '.join(cs) + ')', 'candle')
        key = name.split('.')[-1]
        if key in self.sigs and (name == key or name.split('.')[0] in ('jh', 'self')):
            kw = {k.arg: k.value for k in e.keywords}
            return self.call_sig(self.sigs[key], args, kw, env, binds, e)
        self.fail(e, f'call to {name}')

    def call_sig(self, sig, args, kw, env, binds, node, is_method=False):
        actual = []
        pos = list(args)
        for (pn, pt) in sig.params:
            if pn.startswith('self_'):
                # a method's self parameter: must be a parameter of the caller under the same name
                if pn not in env:
                    self.fail(node, f'callee needs {pn}')
                actual.append(env[pn][0])
                continue
            if pos:
                a = pos.pop(0)
            elif pn in kw:
                a = kw.pop(pn)
            elif pn in sig.defaults:
                a = sig.defaults[pn]
            else:
                self.fail(node, f'missing argument {pn}')
            c, t = self.expr(a, env, binds)
            actual.append(self.coerce(c, t, pt, node))
        if pos or kw:
            self.fail(node, 'too many arguments')
        code = '(' + ' '.join([sig.coq_name, 'N'] + actual) + ')'
        if sig.res:
            self.tmp += 1
            t = f'r{self.tmp}_'
            binds.append((t, code))
            return (t, sig.ret)
        return (code, sig.ret)

    # ------------------------------------------------------------------ statements
    def wrap(self, binds, body):
        for (t, c) in reversed(binds):
            body = f'bindR {c} (fun {t} => {body})'
        return body

    def ret(self, code):
        return f'Val {code}' if self.sig.res else code

    def block(self, stmts, env, depth=0):
        ind = '\n' + '  ' * (depth + 1)
        if not stmts:
            if self.sig.res:
                return 'Raise'       # falling off the end returns None: the caller cannot use it
            self.fail(self.fn, 'control reaches the end of a function that must return a value')
        s, rest = stmts[0], stmts[1:]
        if isinstance(s, ast.Expr) and isinstance(s.value, ast.Constant) and isinstance(s.value.value, str):
            return self.block(rest, env, depth)
        if isinstance(s, (ast.Import, ast.ImportFrom)):
            return self.block(rest, env, depth)
        if isinstance(s, ast.Return):
            if s.value is None:
                self.fail(s, 'bare return')
            if isinstance(s.value, ast.Attribute) and ast.unparse(s.value) == 'np.nan':
                if not self.sig.res:
                    self.fail(s, 'nan result in a function declared pure')
                return 'Nan'
            binds = []
            c, t = self.expr(s.value, env, binds)
            c = self.coerce(c, t, self.sig.ret, s)
            return self.wrap(binds, self.ret(c))
        if isinstance(s, ast.Raise):
            if not self.sig.res:
                self.fail(s, 'raise in a function declared pure')
            return 'Raise'
        if isinstance(s, ast.Assign) and len(s.targets) == 1:
            tg = s.targets[0]
            binds = []
            c, t = self.expr(s.value, env, binds)
            if isinstance(tg, ast.Name):
                env2 = dict(env)
                v = self.fresh(tg.id)
                env2[tg.id] = (v, t)
                return self.wrap(binds, f'let {v} := {c} in{ind}{self.block(rest, env2, depth)}')
            if (isinstance(tg, ast.Subscript) and isinstance(tg.value, ast.Name) and tg.value.id in env
                    and env[tg.value.id][1] == 'candle' and isinstance(tg.slice, ast.Constant)):
                k = tg.slice.value
                old = env[tg.value.id][0]
                c = self.coerce(c, t, 'num', s)
                fields = [c if i == k else f'({FIELDS[i]} {old})' for i in range(6)]
                env2 = dict(env)
                v = self.fresh(tg.value.id)
                env2[tg.value.id] = (v, 'candle')
                return self.wrap(binds, f'let {v} := mkC {" ".join(fields)} in{ind}{self.block(rest, env2, depth)}')
            self.fail(s, 'assignment target')
        if isinstance(s, ast.AugAssign) and isinstance(s.target, ast.Name):
            new = ast.Assign(targets=[ast.Name(id=s.target.id, ctx=ast.Store())],
                             value=ast.BinOp(left=ast.Name(id=s.target.id, ctx=ast.Load()), op=s.op, right=s.value))
            ast.copy_location(new, s)
            ast.fix_missing_locations(new)
            return self.block([new] + rest, env, depth)
        if isinstance(s, ast.If):
            binds = []
            c = self.coerce(*self.expr(s.test, env, binds), 'bool', s)
            a = self.block(list(s.body) + rest, dict(env), depth + 1)
            b = self.block(list(s.orelse) + rest, dict(env), depth + 1)
            return self.wrap(binds, f'if {c}{ind}then {a}{ind}else {b}')
        self.fail(s, 'statement')

    def fresh(self, name):
        self.tmp += 1
        return f'{name}_{self.tmp}'

    def translate(self):
        env = {}
        ps = []
        for (pn, pt) in self.sig.params:
            env[pn] = (pn + '_', pt)
            ps.append(f'({pn}_ : {COQ_TYPES[pt]})')
        # map python self attrs that are params
        rt = COQ_TYPES[self.sig.ret]
        if self.sig.res:
            rt = f'Res {rt}'
        # self_* params are reachable both as self.<attr> (selfmap) and by name for callee passing
        body = self.block(list(self.fn.body), env)
        return f'Definition {self.sig.coq_name} (N : Num) {" ".join(ps)} : {rt} :=\n  {body}.\n'


ENUMS = {
    'sides': {'BUY': 'buy', 'SELL': 'sell'},
    'trade_types': {'LONG': 'long', 'SHORT': 'short'},
    'order_types': {'MARKET': 'MARKET', 'LIMIT': 'LIMIT', 'STOP': 'STOP'},
}


def find_function(tree, name, cls=None):
    for n in ast.walk(tree):
        if cls and isinstance(n, ast.ClassDef) and n.name == cls:
            for m in n.body:
                if isinstance(m, ast.FunctionDef) and m.name == name:
                    return m
        if not cls and isinstance(n, ast.FunctionDef) and n.name == name:
            return n
    return None


def translate_module(path, wanted, sigs):
    """wanted: list of (python function name, class or None, sig key) in dependency order"""
    src = open(path).read()
    tree = ast.parse(src)
    out = []
    for (fname, cls, key) in wanted:
        fn = find_function(tree, fname, cls)
        if fn is None:
            raise Untranslatable(f'{path}: function {cls + "." if cls else ""}{fname} not found')
        sig = sigs[key]
        # python-level defaults
        args = fn.args.args
        ds = fn.args.defaults
        for a, d in zip(args[len(args) - len(ds):], ds):
            sig.defaults[a.arg] = d
        declared = [p for p, _ in sig.params if not p.startswith('self_')]
        actual = [a.arg for a in args if a.arg != 'self']
        if declared != actual:
            raise Untranslatable(f'{path}:{fn.lineno}: parameters of {fname} are {actual}, sigs.py says {declared}')
        if fn.args.vararg or fn.args.kwarg or fn.args.kwonlyargs:
            raise Untranslatable(f'{path}:{fn.lineno}: {fname}: unsupported parameter kinds')
        out.append(FunTranslator(path, fn, sig, sigs, path).translate())
    return out
