"""Fail-closed syntactic checks that the prologue/epilogue of research.backtest have the shape Model/Purity.session assumes:
set_config and reset_config clear the whole get_config memo, router.initiate re-creates the store, the candle arguments are deep-copied."""
import ast
import os


class Untranslatable(Exception):
    pass


def check(repo):
    msgs = []
    cfg = ast.parse(open(os.path.join(repo, 'jesse/config.py')).read())
    fns = {n.name: n for n in cfg.body if isinstance(n, ast.FunctionDef)}
    for name in ('set_config', 'reset_config'):
        if name not in fns:
            raise Untranslatable(f'jesse/config.py: {name} not found')
        stmts = [ast.unparse(b) for b in fns[name].body]
        if 'jh.CACHED_CONFIG.clear()' not in stmts:
            raise Untranslatable(f'jesse/config.py: {name} does not clear jh.CACHED_CONFIG as a top-level statement')
        # nothing may write to CACHED_CONFIG selectively
        for n in ast.walk(fns[name]):
            if isinstance(n, (ast.Delete, ast.Subscript)) and 'CACHED_CONFIG' in ast.unparse(n) and ast.unparse(n) != 'jh.CACHED_CONFIG.clear()':
                raise Untranslatable(f'jesse/config.py: {name} edits jh.CACHED_CONFIG selectively: {ast.unparse(n)[:80]}')
    sc = [ast.unparse(b) for b in fns['set_config'].body]
    if sc.index('jh.CACHED_CONFIG.clear()') > 1:
        raise Untranslatable('jesse/config.py: set_config does not clear the memo before writing the configuration')
    # helpers.get_config: memo keyed by the dotted key only
    hp = ast.parse(open(os.path.join(repo, 'jesse/helpers.py')).read())
    gc = [n for n in hp.body if isinstance(n, ast.FunctionDef) and n.name == 'get_config']
    if len(gc) != 1 or 'CACHED_CONFIG[keys]' not in ast.unparse(gc[0]):
        raise Untranslatable('jesse/helpers.py: get_config does not memoise in CACHED_CONFIG[keys]')
    # router.initiate -> store.reset
    rt = ast.parse(open(os.path.join(repo, 'jesse/routes/__init__.py')).read())
    init = [n for n in ast.walk(rt) if isinstance(n, ast.FunctionDef) and n.name == 'initiate']
    if len(init) != 1 or 'store.reset(' not in ast.unparse(init[0]):
        raise Untranslatable('jesse/routes/__init__.py: RouterClass.initiate does not reset the store')
    # research.backtest: order of the prologue, deep copies, epilogue
    rb = ast.parse(open(os.path.join(repo, 'jesse/research/backtest.py')).read())
    iso = [n for n in rb.body if isinstance(n, ast.FunctionDef) and n.name == '_isolated_backtest']
    if len(iso) != 1:
        raise Untranslatable('jesse/research/backtest.py: _isolated_backtest not found')
    stmts = [ast.unparse(b) for b in iso[0].body]

    def pos(prefix):
        hits = [i for i, x in enumerate(stmts) if x.startswith(prefix)]
        if len(hits) != 1:
            raise Untranslatable(f'_isolated_backtest: expected exactly one statement starting with {prefix!r}, found {len(hits)}')
        return hits[0]
    order = [pos('set_config(_format_config(config))'), pos('router.initiate(routes, data_routes)'), pos('trading_candles_dict = copy.deepcopy(candles)'),
             pos('warmup_candles_dict = copy.deepcopy(warmup_candles)'), pos('backtest_result = simulator('), pos('reset_config()'), pos('store.reset()')]
    if order != sorted(order):
        raise Untranslatable(f'_isolated_backtest: prologue / simulator / epilogue are not in the expected order: {order}')
    return msgs
