"""Translation by exhaustive evaluation, used when a syntactic extractor does not recognise the shape of a small function whose
domain is finite: the function is run (in a child interpreter, on /repo's working tree) on EVERY point of that domain and the table
it defines is compared with / turned into the Coq definition.  This is a translation, not a sample: nothing outside the enumerated
domain exists (sets of the 17 timeframes of jesse.enums.timeframes)."""
import json
import os
import subprocess
import sys

PY = '/venv/bin/python'

_GCD = r'''
import sys, itertools, math, types, json, warnings
warnings.filterwarnings('ignore')
repo = sys.argv[1]; sys.path.insert(0, repo)
import jesse.modes.backtest_mode as bm
from jesse.enums import timeframes as TF
tfs = [v for k, v in vars(TF).items() if not k.startswith('_') and isinstance(v, str)]
mins = bm.timeframe_to_one_minutes
bad, n = [], 0
real_router = bm.router
try:
    for r in range(1, len(tfs) + 1):
        for sub in itertools.combinations(tfs, r):
            bm.router = types.SimpleNamespace(all_formatted_routes=[{'timeframe': t, 'exchange': 'E', 'symbol': 'S'} for t in sub])
            got = int(bm._calculate_minimum_candle_step())
            want = 0
            for t in sub: want = math.gcd(want, mins[t])
            n += 1
            if got != want and len(bad) < 5: bad.append([list(sub), got, want])
    # repeated timeframes and other orders (a sample: the function sees a list, not a set)
    import random
    rng = random.Random(1)
    for _ in range(3000):
        sub = [rng.choice(tfs) for _ in range(rng.randint(1, 6))]
        bm.router = types.SimpleNamespace(all_formatted_routes=[{'timeframe': t, 'exchange': 'E', 'symbol': 'S'} for t in sub])
        got = int(bm._calculate_minimum_candle_step()); want = 0
        for t in sub: want = math.gcd(want, mins[t])
        n += 1
        if got != want and len(bad) < 5: bad.append([list(sub), got, want])
finally:
    bm.router = real_router
print(json.dumps({'evaluated': n, 'bad': bad}))
'''

_MAXTF = r'''
import sys, itertools, json, warnings
warnings.filterwarnings('ignore')
repo = sys.argv[1]; sys.path.insert(0, repo)
import jesse.helpers as jh
from jesse.enums import timeframes as TF
tfs = [v for k, v in vars(TF).items() if not k.startswith('_') and isinstance(v, str)]
# the order the function implements, read off the pairs
wins = {t: 0 for t in tfs}
for a, b in itertools.combinations(tfs, 2):
    w = jh.max_timeframe([a, b]); w2 = jh.max_timeframe([b, a])
    if w != w2 or w not in (a, b):
        print(json.dumps({'error': f'max_timeframe([{a},{b}]) = {w}, reversed = {w2}'})); sys.exit(0)
    wins[w] += 1
order = sorted(tfs, key=lambda t: -wins[t])
if sorted(wins.values()) != list(range(len(tfs))):
    print(json.dumps({'error': 'the pairwise results are not a total order', 'wins': wins})); sys.exit(0)
bad, n = [], 0
for r in range(1, len(tfs) + 1):
    for sub in itertools.combinations(tfs, r):
        got = jh.max_timeframe(list(sub)); want = next(t for t in order if t in sub)
        n += 1
        if got != want and len(bad) < 5: bad.append([list(sub), got, want])
default = jh.max_timeframe([])
print(json.dumps({'evaluated': n, 'bad': bad, 'order': order, 'default': default}))
'''


def _run(code, repo):
    env = dict(os.environ, PYTHONPATH=repo, PYTHONHASHSEED='0', NUMBA_DISABLE_JIT='1')
    r = subprocess.run([PY, '-c', code, repo], stdout=subprocess.PIPE, stderr=subprocess.PIPE, text=True, timeout=600, env=env)
    if r.returncode != 0:
        return {'error': (r.stderr or r.stdout)[-400:]}
    try:
        return json.loads(r.stdout.strip().splitlines()[-1])
    except (ValueError, IndexError):
        return {'error': r.stdout[-400:]}


def candle_step_is_gcd(repo):
    """(ok, detail): _calculate_minimum_candle_step() = gcd of the timeframes of router.all_formatted_routes on every non-empty set of timeframes"""
    d = _run(_GCD, repo)
    if 'error' in d:
        return False, d['error']
    if d['bad']:
        return False, 'counterexamples (route timeframes, returned, gcd): ' + json.dumps(d['bad'])
    return True, f"{d['evaluated']} route sets evaluated"


def max_timeframe_table(repo):
    """(order, default, detail) or raises ValueError: the order helpers.max_timeframe implements, verified on every subset"""
    d = _run(_MAXTF, repo)
    if 'error' in d:
        raise ValueError(str(d['error']))
    if d['bad']:
        raise ValueError('max_timeframe is not `first of a fixed order`: ' + json.dumps(d['bad']))
    # the longest prefix of the order that the if-ladder would list: every timeframe but the default
    order = [t for t in d['order'] if t != d['default']]
    if d['order'][-1] != d['default']:
        raise ValueError(f"the default {d['default']} is not the smallest timeframe of the order {d['order']}")
    return order, d['default'], f"{d['evaluated']} subsets evaluated"


_TABLES = r"""
import sys, json, warnings
warnings.filterwarnings('ignore')
repo = sys.argv[1]; sys.path.insert(0, repo)
from jesse import utils
import jesse.modes.backtest_mode as bm
from jesse.enums import timeframes as TF
tfs = [v for k, v in vars(TF).items() if not k.startswith('_') and isinstance(v, str)]
out = {'utils': [], 'bt': [], 'anchor': []}
for t in tfs:
    out['utils'].append([t, int(utils.timeframe_to_one_minutes(t))])
    if t in bm.timeframe_to_one_minutes: out['bt'].append([t, int(bm.timeframe_to_one_minutes[t])])
    try: out['anchor'].append([t, str(utils.anchor_timeframe(t))])
    except KeyError: pass
print(json.dumps(out))
"""


def timeframe_tables(repo):
    """the three timeframe tables of the CURRENT source, read off the running functions on every timeframe of jesse.enums.timeframes (their
    whole domain); raises ValueError when the evaluation itself fails (the caller then fails closed)"""
    d = _run(_TABLES, repo)
    if 'error' in d:
        raise ValueError(str(d['error']))
    return d
