"""type signatures of the translated kernels (the translator checks parameter names against the AST)"""
from .py2v import Sig

SIGS = {
    # services/candle.py
    'is_bullish': Sig('is_bullish', [('candle', 'candle')], 'bool'),
    'is_bearish': Sig('is_bearish', [('candle', 'candle')], 'bool'),
    'candle_includes_price': Sig('candle_includes_price', [('candle', 'candle'), ('price', 'num')], 'bool'),
    'split_candle': Sig('split_candle', [('candle', 'candle'), ('price', 'num')], 'pair_candle', res=True),
    # modes/backtest_mode.py
    '_get_fixed_jumped_candle': Sig('fix_jump', [('previous_candle', 'candle'), ('candle', 'candle')], 'candle'),
    # helpers.py
    'convert_number': Sig('convert_number', [('old_max', 'num'), ('old_min', 'num'), ('new_max', 'num'), ('new_min', 'num'),
                                             ('old_value', 'num')], 'num', res=True),
    'estimate_average_price': Sig('estimate_average_price', [('order_qty', 'num'), ('order_price', 'num'), ('current_qty', 'num'),
                                                             ('current_entry_price', 'num')], 'num'),
    'estimate_PNL': Sig('estimate_PNL', [('qty', 'num'), ('entry_price', 'num'), ('exit_price', 'num'), ('trade_type', 'str'),
                                         ('trading_fee', 'num')], 'num'),
    'estimate_PNL_percentage': Sig('estimate_PNL_percentage', [('qty', 'num'), ('entry_price', 'num'), ('exit_price', 'num'),
                                                               ('trade_type', 'str')], 'num'),
    'floor_with_precision': Sig('floor_with_precision', [('num', 'num'), ('precision', 'int')], 'num'),
    'is_price_near': Sig('is_price_near', [('order_price', 'num'), ('price_to_compare', 'num'), ('percentage_threshold', 'num')], 'bool'),
    # utils.py
    'estimate_risk': Sig('estimate_risk', [('entry_price', 'num'), ('stop_price', 'num')], 'num', res=True),
    'limit_stop_loss': Sig('limit_stop_loss', [('entry_price', 'num'), ('stop_price', 'num'), ('trade_type', 'str'),
                                               ('max_allowed_risk_percentage', 'num')], 'num'),
    'qty_to_size': Sig('qty_to_size', [('qty', 'num'), ('price', 'num')], 'num', res=True),
    'risk_to_size': Sig('risk_to_size', [('capital_size', 'num'), ('risk_percentage', 'num'), ('risk_per_qty', 'num'),
                                         ('entry_price', 'num')], 'num', res=True),
    'size_to_qty': Sig('size_to_qty', [('position_size', 'num'), ('entry_price', 'num'), ('precision', 'int'), ('fee_rate', 'num')],
                       'num', res=True),
    'risk_to_qty': Sig('risk_to_qty', [('capital', 'num'), ('risk_per_capital', 'num'), ('entry_price', 'num'),
                                       ('stop_loss_price', 'num'), ('precision', 'int'), ('fee_rate', 'num')], 'num', res=True),
    # models/Position.py (methods: self attributes become parameters)
    '_initial_margin_rate': Sig('pos_initial_margin_rate', [('self_leverage', 'num')], 'num',
                                selfmap={'leverage': ('param', 'self_leverage', 'num')}),
    'liquidation_price': Sig('pos_liquidation_price',
                             [('self_is_close', 'bool'), ('self_mode', 'str'), ('self_type', 'str'), ('self_entry_price', 'num'),
                              ('self_leverage', 'num')], 'num', res=True,
                             selfmap={'is_close': ('param', 'self_is_close', 'bool'), 'mode': ('param', 'self_mode', 'str'),
                                      'type': ('param', 'self_type', 'str'), 'entry_price': ('param', 'self_entry_price', 'num'),
                                      '_initial_margin_rate': ('call', '_initial_margin_rate'),
                                      '_liquidation_price': ('param', 'self_entry_price', 'num')}),
    'bankruptcy_price': Sig('pos_bankruptcy_price', [('self_type', 'str'), ('self_entry_price', 'num'), ('self_leverage', 'num')],
                            'num', res=True,
                            selfmap={'type': ('param', 'self_type', 'str'), 'entry_price': ('param', 'self_entry_price', 'num'),
                                     '_initial_margin_rate': ('call', '_initial_margin_rate')}),
}

MODULES = [
    # (output file, source path relative to the repo, [(function, class, sig key)])
    ('candle', 'jesse/services/candle.py', [('is_bullish', None, 'is_bullish'), ('is_bearish', None, 'is_bearish'),
                                            ('candle_includes_price', None, 'candle_includes_price'),
                                            ('split_candle', None, 'split_candle')]),
    ('backtest', 'jesse/modes/backtest_mode.py', [('_get_fixed_jumped_candle', None, '_get_fixed_jumped_candle')]),
    ('helpers', 'jesse/helpers.py', [('convert_number', None, 'convert_number'), ('estimate_average_price', None, 'estimate_average_price'),
                                     ('estimate_PNL', None, 'estimate_PNL'), ('estimate_PNL_percentage', None, 'estimate_PNL_percentage'),
                                     ('floor_with_precision', None, 'floor_with_precision'), ('is_price_near', None, 'is_price_near')]),
    ('utils', 'jesse/utils.py', [('estimate_risk', None, 'estimate_risk'), ('limit_stop_loss', None, 'limit_stop_loss'),
                                 ('qty_to_size', None, 'qty_to_size'), ('risk_to_size', None, 'risk_to_size'),
                                 ('size_to_qty', None, 'size_to_qty'), ('risk_to_qty', None, 'risk_to_qty')]),
    ('position', 'jesse/models/Position.py', [('_initial_margin_rate', 'Position', '_initial_margin_rate'),
                                              ('liquidation_price', 'Position', 'liquidation_price'),
                                              ('bankruptcy_price', 'Position', 'bankruptcy_price')]),
]
