"""Fail-closed syntactic checks for what Model/FastMatch.v assumes about the fast simulator (C12):
the first candle of every chunk is normalised against the previous chunk's last candle, and the chunk matcher walks, and sorts
along, copies of the chunk's candles normalised minute to minute with _get_fixed_jumped_candle."""
import ast
import os


class Untranslatable(Exception):
    pass


def check(repo):
    path = os.path.join(repo, 'jesse/modes/backtest_mode.py')
    tree = ast.parse(open(path).read())
    fns = {n.name: n for n in tree.body if isinstance(n, ast.FunctionDef)}
    for need in ('_simulate_new_candles', '_simulate_price_change_effect_multiple_candles', '_get_fixed_jumped_candle'):
        if need not in fns:
            raise Untranslatable(f'{path}: {need} not found')
    new = fns['_simulate_new_candles']
    ok_edge = False
    for n in ast.walk(new):
        if isinstance(n, ast.If) and ast.unparse(n.test) == 'i != 0':
            body = [ast.unparse(b) for b in n.body]
            if "previous_short_candles = candles[j]['candles'][i - 1]" in body and \
               'short_candles[0] = _get_fixed_jumped_candle(previous_short_candles, short_candles[0])' in body:
                ok_edge = True
    if not ok_edge:
        raise Untranslatable('_simulate_new_candles does not normalise the first candle of a chunk against the previous chunk\'s last candle')
    m = fns['_simulate_price_change_effect_multiple_candles']
    src = [ast.unparse(n) for n in ast.walk(m) if isinstance(n, (ast.Assign, ast.For))]
    if 'path_candles = short_timeframes_candles.copy()' not in src:
        raise Untranslatable('the chunk matcher does not copy the chunk into path_candles')
    loops = [n for n in ast.walk(m) if isinstance(n, ast.For) and ast.unparse(n.iter) == 'range(1, len(path_candles))']
    if len(loops) != 1 or [ast.unparse(b) for b in loops[0].body] != ['path_candles[k] = _get_fixed_jumped_candle(path_candles[k - 1], path_candles[k])']:
        raise Untranslatable('the chunk matcher does not normalise path_candles minute to minute with _get_fixed_jumped_candle')
    if 'current_temp_candle = path_candles[i].copy()' not in src:
        raise Untranslatable('the chunk matcher does not match each minute on its path candle')
    sorts = [ast.unparse(n) for n in ast.walk(m) if isinstance(n, ast.Call) and isinstance(n.func, ast.Name) and n.func.id == '_sort_execution_orders']
    if sorted(sorts) != sorted(['_sort_execution_orders(executing_orders, path_candles)',
                                '_sort_execution_orders(executing_orders, np.vstack((current_temp_candle[None, :], path_candles[i + 1:])))']):
        raise Untranslatable(f'the chunk matcher sorts its candidates differently: {sorts}')
    refresh = [ast.unparse(n) for n in ast.walk(m) if isinstance(n, ast.Call) and isinstance(n.func, ast.Name) and n.func.id == '_get_executing_orders']
    if refresh != ['_get_executing_orders(exchange, symbol, real_candle)', '_get_executing_orders(exchange, symbol, real_candle)']:
        raise Untranslatable(f'the chunk matcher selects its candidates differently: {refresh}')
