(* Props/C05.v — property C05: order lifecycle: one terminal transition, idempotent execute/cancel.
   Model/Lifecycle.v (statuses, registries, trade records) for every history of lifecycle operations and every
   assignment of position effects; idempotence also on the account models of C03/C04 (the ENTIRE state is unchanged). *)
From Coq Require Import QArith Qcanon List Bool Arith.
From JV Require Import Base.Num Model.Spot Model.Futures Model.Lifecycle Proofs.LifecycleProofs.
Import ListNotations.

(* (i) an order that is final stays exactly as it is, whatever happens afterwards *)
Theorem C05_final_forever :
  forall ops (w : world) id s, final_of w id s -> final_of (fold_left lstep ops w) id s.
Proof. exact final_forever. Qed.

(* (ii) executing or cancelling an order that is already final (or unknown) leaves the whole world unchanged ... *)
Theorem C05_execute_final_is_identity : forall w id c s, final_of w id s -> Lifecycle.execute w id c = w.
Proof. exact execute_final_is_identity. Qed.
Theorem C05_cancel_final_is_identity : forall w id s, final_of w id s -> Lifecycle.cancel w id = w.
Proof. exact cancel_final_is_identity. Qed.

(* ... including balances, positions, margin tables: the same on the futures and spot account models *)
Theorem C05_futures_idempotent :
  forall s id o, ffind (forders s) id = Some o -> f_final o = true -> fexecute s id = s /\ fcancel s id = s.
Proof. intros s id o H F. unfold fexecute, fcancel. rewrite H, F. split; reflexivity. Qed.
Theorem C05_spot_idempotent :
  forall s id o, find_order (orders s) id = Some o -> is_final o = true -> Spot.execute s id = s /\ Spot.cancel s id = s.
Proof. intros s id o H F. unfold Spot.execute, Spot.cancel. rewrite H, F. split; reflexivity. Qed.

(* (iii) the orders reported as active are exactly the submitted orders that are not final — in every reachable state *)
Theorem C05_reported_active_is_exact :
  forall ops id, let w := fold_left lstep ops linit in
  In id (filter (is_active w) (active w)) <-> status_of (statuses w) id = Some Lifecycle.Active.
Proof. exact reported_active_is_exact. Qed.

(* (iv) every executed order is recorded in exactly one trade (exactly once); no other order is recorded *)
Theorem C05_executed_recorded_once :
  forall ops id, let w := fold_left lstep ops linit in
  recorded w id = match status_of (statuses w) id with Some Lifecycle.Executed => 1%nat | _ => 0%nat end.
Proof. intros ops id. exact (trades_always ops id). Qed.

Local Open Scope nat_scope.
Example C05_history :
  let ops := [Submit true; Submit false; ExecutePending [Keep]; Submit false; ExecuteOne 1 Keep; CancelOne 1; ExecuteOne 2 Close;
              ExecuteOne 2 Close; Submit true; CancelAll; ExecutePending [Keep]; UpdateActive; CheckReset] in
  let w := fold_left lstep ops linit in
  statuses w = [(0, Lifecycle.Executed); (1, Lifecycle.Executed); (2, Lifecycle.Executed); (3, Lifecycle.Canceled)] /\ trades w = [[0; 1; 2]] /\ temp w = [] /\ active w = [].
Proof. vm_compute. repeat split; reflexivity. Qed.

Print Assumptions C05_final_forever.
Print Assumptions C05_execute_final_is_identity.
Print Assumptions C05_cancel_final_is_identity.
Print Assumptions C05_futures_idempotent.
Print Assumptions C05_spot_idempotent.
Print Assumptions C05_reported_active_is_exact.
Print Assumptions C05_executed_recorded_once.
