(* Props/C10.v — property C10: smart order routing and declarative exit orders.
   Model/Routing.v (hand-written over the GENERATED is_price_near); tied to the code by harness/c10.py. *)
From Coq Require Import ZArith QArith Qcanon List Bool.
From JV Require Import Base.Num Gen.helpers Model.Spot Model.Routing Proofs.RoutingProofs.
Import ListNotations.
Local Open Scope Qc_scope.
Import QcI.

(* within 0.015 percent of the current price <=> market order *)
Theorem C10_market_band : forall p cur, near QcNum p cur = true <-> qabs (1 - p / cur) <= threshold QcNum.
Proof. exact near_spec. Qed.

(* entries: exactly the asked quantity and price, type only from p relative to the current price:
   MARKET within the band, LIMIT at a better price, STOP at a worse price *)
Theorem C10_entry_routing :
  forall sd qty p cur pcur sd' t q' p' ro,
  entry_route QcNum sd qty p cur pcur = Route sd' t q' p' ro ->
  sd' = sd /\ q' = qabs qty /\ ro = false /\
  (t = Market <-> near QcNum p cur = true) /\
  (t = Market -> p' = pcur) /\ (t <> Market -> p' = p) /\
  (t = Limit <-> near QcNum p cur = false /\ (match sd with Buy => p < cur | Sell => cur < p end)) /\
  (t = Stop <-> near QcNum p cur = false /\ (match sd with Buy => cur < p | Sell => p < cur end)).
Proof. exact entry_routing. Qed.

(* exits: reduce-only, closing side, exactly the asked quantity and price; LIMIT on the profit side, STOP on the loss side *)
Theorem C10_exit_routing :
  forall (long : bool) qty p cur sd t q' p' ro,
  exit_route QcNum long qty p cur = Route sd t q' p' ro ->
  sd = (if long then Sell else Buy) /\ q' = qabs qty /\ p' = p /\ ro = true /\
  (t = Market <-> near QcNum p cur = true) /\
  (t = Limit <-> near QcNum p cur = false /\ (if long then cur < p else p < cur)) /\
  (t = Stop <-> near QcNum p cur = false /\ (if long then p < cur else cur < p)).
Proof. exact exit_routing. Qed.

(* for every sequence of declarations, engine passes, individual fills/cancels, opens and closes: after the engine has
   looked at the declarations the resting exit orders inject into the rows of the LATEST declaration with equal
   quantity and price (no stale exit survives a modification) ... *)
Theorem C10_exits_match_latest_declaration :
  forall ops d, let s := detect (fold_left xstep ops xinit) in
  is_open s = true -> decl s = Some d ->
  exists d' base, rows_eqb d d' = true /\ subseq (resting s) (fresh_orders base d') /\ subseq (map snd (resting s)) d'.
Proof. exact exits_match_latest_declaration. Qed.

(* ... and once the position is closed no exit order remains *)
Theorem C10_closed_position_has_no_exit_orders :
  forall ops, let s := fold_left xstep ops xinit in is_open s = false -> resting s = [].
Proof. exact closed_position_has_no_exit_orders. Qed.

Definition zz (n : Z) : Qc := Q2Qc (inject_Z n).
Example C10_exits_example :
  let ops := [SetDecl (Some [(zz 2, zz 90)]); Prepare; OpenPos None; SetDecl (Some [(zz 1, zz 95); (zz 1, zz 92)]); Detect; Drop 1] in
  let s := detect (fold_left xstep ops xinit) in
  is_open s = true /\ map snd (resting s) = [(zz 1, zz 92)].
Proof. vm_compute. split; reflexivity. Qed.

Print Assumptions C10_market_band.
Print Assumptions C10_entry_routing.
Print Assumptions C10_exit_routing.
Print Assumptions C10_exits_match_latest_declaration.
Print Assumptions C10_closed_position_has_no_exit_orders.
