(* Props/C11.v — property C11: research.backtest is a pure, repeatable function of its arguments.
   Only property theorems (closed by `exact`) and Print Assumptions.  Model/Purity.v: the process-global state as cells, the
   session = fixed prologue (memo cleared, configuration entries and store re-created from the arguments) + ARBITRARY body.
   That the prologue and epilogue of the code have this shape is checked syntactically on /repo on every run
   (translator/purity.py, fail-closed); everything the model does not name as a cell is covered by the differential search. *)
From Coq Require Import List Bool Arith.
From JV Require Import Model.Purity Proofs.PurityProofs.
Import ListNotations.

(* (i) frame property of arbitrary programs: two runs from states that agree on what the first run reads before writing it
   return the same result, read and write the same cells, and agree on every written cell *)
Theorem C11_frame :
  forall (V R : Type) (p : prog V R) (s1 s2 : state V) w,
  (forall c, In c w -> s1 c = s2 c) ->
  (forall c, In c (snd (fst (exec p s1 w))) -> s1 c = s2 c) ->
  fst (fst (fst (exec p s1 w))) = fst (fst (fst (exec p s2 w))) /\
  snd (fst (exec p s1 w)) = snd (fst (exec p s2 w)) /\ snd (exec p s1 w) = snd (exec p s2 w) /\
  (forall c, In c (snd (exec p s1 w)) -> snd (fst (fst (exec p s1 w))) c = snd (fst (fst (exec p s2 w))) c).
Proof. exact frame. Qed.

(* (ii) whatever sessions ran before, completed or aborted - i.e. for any two states of the process that differ only in cells the
   prologue overwrites (the get_config memo, the session's configuration entries, the store) - the session returns the same
   result and depends on the same cells, for EVERY body *)
Theorem C11_session_pure :
  forall (V R : Type) keys conf fresh (body : prog V R) (s1 s2 : state V),
  (forall c, In c (prologue_cells V keys conf fresh) \/ s1 c = s2 c) ->
  result (session keys conf fresh body) s1 = result (session keys conf fresh body) s2 /\
  read_before_write (session keys conf fresh body) s1 = read_before_write (session keys conf fresh body) s2.
Proof. exact session_pure. Qed.

(* (iii) the clear is necessary: without it (or with a clear that skips the key) a memo entry of an earlier session wins over the
   session's own configuration; with it get_config returns the session's value *)
Theorem C11_stale_memo_without_clear :
  forall (V R : Type) (old new : V) (ret : option V -> R),
  let body := get_config 0 (fun v => Ret (ret v)) in
  let dirty : state V := fun c => match c with Memo 0 => Some old | _ => None end in
  result (session [] [(0, Some new)] [] body) dirty = ret (Some old) /\
  result (session [0] [(0, Some new)] [] body) dirty = ret (Some new).
Proof. exact stale_memo_without_clear. Qed.

Print Assumptions C11_frame.
Print Assumptions C11_session_pure.
Print Assumptions C11_stale_memo_without_clear.
