(* Props/C16.v — property C16: reported metrics are consistent with the trades and the equity series.
   Only property theorems (closed by `exact`) and Print Assumptions.  Model/Metrics.v states the metrics of
   services/metrics.trades as plain definitions over exact rationals; harness/c16.py evaluates them in Coq against the real
   function on synthetic trade lists, and checks the ratio metrics and the equity samples on the implementation. *)
From Coq Require Import ZArith QArith Qcanon List Bool Arith.
From JV Require Import Base.Num Model.Indicators Model.Metrics Proofs.MetricsProofs.
Import ListNotations.
Local Open Scope Qc_scope.

Theorem C16_total_is_winners_losers_breakeven :
  forall l, total l = (length (wins l) + length (losses l) + length (evens l))%nat.
Proof. exact total_is_wins_losses_evens. Qed.
Theorem C16_net_profit_is_gross_profit_plus_gross_loss :
  forall l, net_profit l = gross_profit l + gross_loss l /\ net_profit l = sum_pnl l.
Proof. exact net_profit_is_gross_profit_plus_gross_loss. Qed.
Theorem C16_longs_and_shorts_partition : forall l, (longs l + shorts l)%nat = total l.
Proof. exact longs_and_shorts_partition. Qed.
Theorem C16_percentages_sum_to_100 :
  forall l, (0 < total l)%nat ->
  longs_percentage l + shorts_percentage l = qofnat 100 /\ shorts_percentage l = qofnat (shorts l) / qofnat (longs l + shorts l) * qofnat 100.
Proof. exact percentages_sum_to_100. Qed.
Theorem C16_win_rate_spec :
  forall l, 0 <= win_rate l /\ win_rate l <= 1 /\ win_rate l * qofnat (length (wins l) + length (losses l)) = qofnat (length (wins l)).
Proof. exact win_rate_spec. Qed.
Theorem C16_expectancy_is_net_profit_per_decided_trade :
  forall l, expectancy l * qofnat (length (wins l) + length (losses l)) = net_profit l.
Proof. exact expectancy_is_net_profit_per_decided_trade. Qed.
Theorem C16_largest_win_bounds : forall l t, In t l -> 0 < m_pnl t -> m_pnl t <= largest_win l.
Proof. exact largest_win_bounds. Qed.
Theorem C16_max_drawdown_never_positive : forall eq, Forall (fun x => 0 < x) eq -> max_drawdown eq <= 0.
Proof. exact max_drawdown_never_positive. Qed.

Print Assumptions C16_total_is_winners_losers_breakeven.
Print Assumptions C16_net_profit_is_gross_profit_plus_gross_loss.
Print Assumptions C16_longs_and_shorts_partition.
Print Assumptions C16_percentages_sum_to_100.
Print Assumptions C16_win_rate_spec.
Print Assumptions C16_expectancy_is_net_profit_per_decided_trade.
Print Assumptions C16_largest_win_bounds.
Print Assumptions C16_max_drawdown_never_positive.
