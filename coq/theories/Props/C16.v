(* Props/C16.v — property C16: reported metrics are consistent with the trades and the equity series.
   Only property theorems (closed by `exact`) and Print Assumptions.  Model/Metrics.v states the metrics of
   services/metrics.trades as plain definitions over exact rationals; harness/c16.py evaluates them in Coq against the real
   function on synthetic trade lists, and checks the ratio metrics and the equity samples on the implementation. *)
From Coq Require Import ZArith QArith Qcanon List Bool Arith.
From Coq Require Import Permutation.
From JV Require Import Base.Num Model.Indicators Model.Metrics Proofs.MetricsProofs Proofs.MetricsSpec Proofs.MetricsOrder.
Import ListNotations.
Local Open Scope Qc_scope.

Theorem C16_total_is_winners_losers_breakeven :
  forall l, total l = (length (wins l) + length (losses l) + length (evens l))%nat.
Proof. exact total_is_wins_losses_evens. Qed.
Theorem C16_net_profit_is_gross_profit_plus_gross_loss :
  forall l, net_profit l = gross_profit l + gross_loss l /\ net_profit l = sum_pnl l.
Proof. exact net_profit_is_gross_profit_plus_gross_loss. Qed.
Theorem C16_longs_and_shorts_partition : forall l, (longs l + shorts l)%nat = total l.
Proof. exact longs_and_shorts_partition. Qed.
Theorem C16_percentages_sum_to_100 :
  forall l, (0 < total l)%nat ->
  longs_percentage l + shorts_percentage l = qofnat 100 /\ shorts_percentage l = qofnat (shorts l) / qofnat (longs l + shorts l) * qofnat 100.
Proof. exact percentages_sum_to_100. Qed.
Theorem C16_win_rate_spec :
  forall l, 0 <= win_rate l /\ win_rate l <= 1 /\ win_rate l * qofnat (length (wins l) + length (losses l)) = qofnat (length (wins l)).
Proof. exact win_rate_spec. Qed.
Theorem C16_expectancy_is_net_profit_per_decided_trade :
  forall l, expectancy l * qofnat (length (wins l) + length (losses l)) = net_profit l.
Proof. exact expectancy_is_net_profit_per_decided_trade. Qed.
Theorem C16_largest_win_bounds : forall l t, In t l -> 0 < m_pnl t -> m_pnl t <= largest_win l.
Proof. exact largest_win_bounds. Qed.
Theorem C16_max_drawdown_never_positive : forall eq, Forall (fun x => 0 < x) eq -> max_drawdown eq <= 0.
Proof. exact max_drawdown_never_positive. Qed.

(* streaks follow from the PnL sequence: the reported winning (losing) streak is the length of the longest block of consecutive
   winners (losers) - no block of consecutive winners is longer, and one has exactly that length; the current streak counts the
   winners (+) or losers (-) at the end of the list *)
Theorem C16_streaks_are_longest_blocks :
  forall l, let '(cur, w, lo) := streaks l in
  ((forall a seg b, l = a ++ seg ++ b -> forallb is_win seg = true -> (length seg <= w)%nat) /\
   (exists a seg b, l = a ++ seg ++ b /\ forallb is_win seg = true /\ length seg = w)) /\
  ((forall a seg b, l = a ++ seg ++ b -> forallb is_loss seg = true -> (length seg <= lo)%nat) /\
   (exists a seg b, l = a ++ seg ++ b /\ forallb is_loss seg = true /\ length seg = lo)) /\
  cur = (Z.of_nat (lead is_win (rev l)) - Z.of_nat (lead is_loss (rev l)))%Z.
Proof. exact streaks_spec. Qed.
Theorem C16_largest_win_is_a_winner :
  forall l, wins l <> [] -> exists t, In t l /\ 0 < m_pnl t /\ m_pnl t = largest_win l.
Proof. exact largest_win_attained. Qed.
Theorem C16_largest_loss_spec :
  forall l, (forall t, In t l -> m_pnl t < 0 -> largest_loss l <= m_pnl t) /\
            (losses l <> [] -> exists t, In t l /\ m_pnl t < 0 /\ m_pnl t = largest_loss l).
Proof. exact largest_loss_spec. Qed.
(* the drawdown at sample k is equity_k over the largest equity among samples 0..k, minus one; the maximum drawdown is one of
   these values and, for a positive equity series, lies in (-1, 0] *)
Theorem C16_drawdown_is_distance_from_running_peak :
  forall eq k, (k < length eq)%nat -> nth k (drawdowns eq) 0 = nth k eq 0 / qmaxl (hd 0 eq) (firstn (S k) eq) - 1.
Proof. exact drawdown_nth. Qed.
Theorem C16_max_drawdown_is_one_of_the_drawdowns : forall eq, eq <> [] -> In (max_drawdown eq) (drawdowns eq).
Proof. exact max_drawdown_attained. Qed.
Theorem C16_max_drawdown_range : forall eq, Forall (fun x => 0 < x) eq -> - (1) < max_drawdown eq /\ max_drawdown eq <= 0.
Proof. exact max_drawdown_range. Qed.
(* the premises are satisfiable and the counters are not trivially zero: W W L W W W E L L *)
Example C16_streaks_example :
  let t x := {| m_pnl := Q2Qc x; m_fee := 0; m_long := true |} in
  streaks [t 1; t 2; t (-1); t 1; t 1; t 3; t 0; t (-2); t (-1)]%Q = ((-2)%Z, 3%nat, 2%nat).
Proof. vm_compute. reflexivity. Qed.

(* "any long/short mix and order": the counting and summing metrics are the same for every reordering of the trade list *)
Theorem C16_metrics_do_not_depend_on_order : forall l l', Permutation l l' ->
  total l = total l' /\ length (wins l) = length (wins l') /\ length (losses l) = length (losses l') /\
  net_profit l = net_profit l' /\ gross_profit l = gross_profit l' /\ gross_loss l = gross_loss l' /\ fee_sum l = fee_sum l' /\
  longs l = longs l' /\ shorts l = shorts l' /\ win_rate l = win_rate l' /\ average_win l = average_win l' /\ average_loss l = average_loss l' /\
  expectancy l = expectancy l'.
Proof. exact metrics_do_not_depend_on_order. Qed.
(* average win / loss follow from the PnL sequence: they lie between 0 and the largest win / the size of the largest loss *)
Theorem C16_average_win_between : forall l, wins l <> [] -> 0 <= average_win l /\ average_win l <= largest_win l.
Proof. exact average_win_between. Qed.
Theorem C16_average_loss_between : forall l, losses l <> [] -> 0 <= average_loss l /\ average_loss l <= - largest_loss l.
Proof. exact average_loss_between. Qed.

Print Assumptions C16_total_is_winners_losers_breakeven.
Print Assumptions C16_net_profit_is_gross_profit_plus_gross_loss.
Print Assumptions C16_longs_and_shorts_partition.
Print Assumptions C16_percentages_sum_to_100.
Print Assumptions C16_win_rate_spec.
Print Assumptions C16_expectancy_is_net_profit_per_decided_trade.
Print Assumptions C16_largest_win_bounds.
Print Assumptions C16_max_drawdown_never_positive.
Print Assumptions C16_streaks_are_longest_blocks.
Print Assumptions C16_largest_win_is_a_winner.
Print Assumptions C16_largest_loss_spec.
Print Assumptions C16_drawdown_is_distance_from_running_peak.
Print Assumptions C16_max_drawdown_is_one_of_the_drawdowns.
Print Assumptions C16_max_drawdown_range.
Print Assumptions C16_metrics_do_not_depend_on_order.
Print Assumptions C16_average_win_between.
Print Assumptions C16_average_loss_between.
