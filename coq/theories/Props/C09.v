(* Props/C09.v — property C09: isolated-margin liquidation happens exactly at the liquidation price.
   liquidation_price / bankruptcy_price / candle_includes_price are GENERATED from /repo on every run;
   _check_for_liquidations is the hand-written Model/Liquidation.v acting on the futures account model. *)
From Coq Require Import ZArith QArith Qcanon List Bool String.
From Coq Require Import PrimFloat.
From JV Require Import Base.Num Gen.candle Gen.position Model.Spot Model.Futures Model.Liquidation Proofs.LiquidationProofs.
Import ListNotations.
Local Open Scope Qc_scope.
Import QcI.

(* the generated formulas, for an open isolated position *)
Theorem C09_formulas :
  forall e l,
  pos_liquidation_price QcNum false "isolated" "long" e l = Val (e * (1 - 1 / l + c004)) /\
  pos_liquidation_price QcNum false "isolated" "short" e l = Val (e * (1 + 1 / l - c004)) /\
  pos_bankruptcy_price QcNum "long" e l = Val (e * (1 - 1 / l)) /\
  pos_bankruptcy_price QcNum "short" e l = Val (e * (1 + 1 / l)).
Proof. intros e l. repeat split; reflexivity. Qed.

(* for every leverage from 1 to 125 (any rational in between) and every positive entry: strictly between the bankruptcy
   price and the entry price, on the losing side *)
Theorem C09_price_ordering :
  forall e l, 0 < e -> 1 <= l -> l <= qofZ 125 ->
  e * (1 - 1 / l) < e * (1 - 1 / l + c004) /\ e * (1 - 1 / l + c004) < e /\
  e < e * (1 + 1 / l - c004) /\ e * (1 + 1 / l - c004) < e * (1 + 1 / l).
Proof. exact liquidation_price_ordering. Qed.

(* the same ordering of the binary64 coefficients for every integer leverage 1..125 (finite sweep, the bound is in the statement) *)
Definition coef_ok (l : Z) : bool :=
  let lf := ofZ FNum l in
  let one := ofZ FNum 1 in
  let c := lit FNum 1152921504606847%Z (-58)%Z in
  let im := div FNum one lf in
  PrimFloat.ltb (sub FNum one im) (add FNum (sub FNum one im) c) && PrimFloat.ltb (add FNum (sub FNum one im) c) one &&
  PrimFloat.ltb one (sub FNum (add FNum one im) c) && PrimFloat.ltb (sub FNum (add FNum one im) c) (add FNum one im).
Theorem C09_price_ordering_binary64_coefficients :
  forall l, In l (map Z.of_nat (seq 1 125)) -> coef_ok l = true.
Proof. apply forallb_forall. vm_compute. reflexivity. Qed.

(* exactly when: isolated mode, open position, the minute's (chunk's) range contains the liquidation price; the order is a
   reduce-only MARKET order for the whole position on the closing side at the bankruptcy price; otherwise nothing *)
Theorem C09_exactly_when :
  forall leverage p k id sym,
  liquidation_order "isolated" leverage p k id sym =
  if qltb 0 (p_qty p) then
    (if candle_includes_price QcNum k (p_entry p * (1 - 1 / leverage + c004))
     then Some {| f_id := id; f_sym := sym; f_side := Sell; f_typ := Market; f_qty := qabs (p_qty p);
                  f_price := p_entry p * (1 - 1 / leverage); f_ro := true; f_status := Active |} else None)
  else if qltb (p_qty p) 0 then
    (if candle_includes_price QcNum k (p_entry p * (1 + 1 / leverage - c004))
     then Some {| f_id := id; f_sym := sym; f_side := Buy; f_typ := Market; f_qty := qabs (p_qty p);
                  f_price := p_entry p * (1 + 1 / leverage); f_ro := true; f_status := Active |} else None)
  else None.
Proof. exact liquidation_exactly_when. Qed.

(* cross-margin (and spot) sessions never force-close *)
Theorem C09_only_isolated :
  forall mode leverage p k id sym, mode <> "isolated"%string -> liquidation_order mode leverage p k id sym = None.
Proof. exact no_liquidation_outside_isolated. Qed.

(* the forced close loses exactly the initial margin (entry value / leverage) plus the fee of the fill *)
Theorem C09_liquidation_effect :
  forall s sym k id o, ffind (forders s) id = None -> 1 <= lev s -> 0 <= p_entry (posn s sym) ->
  let p := posn s sym in
  liquidation_order "isolated" (lev s) p k id sym = Some o ->
  let s' := fst (check_liquidation "isolated" s sym k id) in
  snd (check_liquidation "isolated" s sym k id) = true /\
  p_qty (posn s' sym) = 0 /\
  wallet s' = wallet s - qabs (p_qty p) * p_entry p / lev s - qabs (p_qty p) * f_price o * ffee s /\
  (forall j, j <> sym -> posn s' j = posn s j) /\ (forall j, buys s' j = buys s j /\ sells s' j = sells s j).
Proof. exact liquidation_effect. Qed.

Print Assumptions C09_formulas.
Print Assumptions C09_price_ordering.
Print Assumptions C09_price_ordering_binary64_coefficients.
Print Assumptions C09_exactly_when.
Print Assumptions C09_only_isolated.
Print Assumptions C09_liquidation_effect.
