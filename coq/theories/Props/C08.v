(* Props/C08.v — property C08: fills inside one minute follow a single continuous price path.
   Only the property theorems (closed by `exact`) and Print Assumptions.
   split_candle / candle_includes_price / fix_jump are GENERATED from /repo on every run (Gen/);
   the match loop is the hand-written Model/Match.v with the strategy layer as an arbitrary function. *)
From Coq Require Import ZArith QArith Qcanon List Bool.
From JV Require Import Base.Num Gen.candle Gen.backtest Model.Match Spec.PathSpec
  Proofs.CandleProofs Proofs.CandleProofs2 Proofs.MatchProofs Proofs.SortProofs Proofs.FollowProofs.
Import ListNotations.
Local Open Scope Qc_scope.

(* (i) splitting a valid candle at any price inside its range yields two valid candles that keep
   open, close, high, low (timestamp, volume) and meet at the split price unless it is the open *)
Theorem C08_split_total_valid :
  forall (k : cndl) (p : Qc), valid k -> c_low k <= p -> p <= c_high k ->
  exists a b, split_candle QcNum k p = Val (a, b) /\ valid a /\ valid b /\
    c_open a = c_open k /\ c_close b = c_close k /\
    qmax (c_high a) (c_high b) = c_high k /\ qmin (c_low a) (c_low b) = c_low k /\
    c_ts a = c_ts k /\ c_ts b = c_ts k /\ c_vol a = c_vol k /\ c_vol b = c_vol k /\
    (p <> c_open k -> c_close a = p /\ c_open b = p).
Proof. exact split_total_valid. Qed.

(* (ii) the later half walks exactly the rest of the price path from the first touch of p *)
Theorem C08_split_is_path_cut :
  forall (k a b : cndl) (p : Qc), valid k -> c_low k <= p -> p <= c_high k ->
  split_candle QcNum k p = Val (a, b) ->
  exists ws', cut (path k) p = Some ws' /\ dedup ws' = dedup (path b).
Proof. exact split_is_path_cut. Qed.

(* (iii) the order the match loop fills next is one that the path touches first, among all active
   orders whose price is inside what is left of the minute *)
Theorem C08_first_fill_is_first_touch :
  forall (k : cndl) (w : list rorder) (o : rorder), valid k -> pick k w (candidates k w) = Some o ->
  forall x, In x (executing k w) ->
  exists d1 d2, touch_dist (path k) (oprice o) = Some d1 /\ touch_dist (path k) (oprice x) = Some d2 /\ d1 <= d2.
Proof. exact first_fill_first_touch. Qed.

(* (iv) every terminating run of the match loop — for ANY reaction of the strategy layer to fills —
   fills each order at its own price inside what is left of the minute, the remaining candle after
   each fill being the rest of the path from that fill; at the end no active order's price is inside
   what remains *)
Theorem C08_fills_follow_path :
  forall (react : rorder -> cndl -> list rorder -> list rorder) (fuel : nat) (k : cndl) (w : list rorder)
         fills rest w', valid k ->
  match_minute react fuel k w = Done fills rest w' ->
  follows k fills /\ valid rest /\ executing rest w' = [].
Proof. exact match_follows_path. Qed.

(* the documented gap normalisation: a valid candle stays valid, its open moves to the previous close
   and its range is stretched exactly to that price *)
Theorem C08_fix_jump_valid :
  forall (prev c : cndl), valid c ->
  let c' := fix_jump QcNum prev c in
  valid c' /\ c_open c' = c_close prev /\ c_close c' = c_close c /\ c_ts c' = c_ts c /\ c_vol c' = c_vol c /\
  c_high c' = qmax (c_high c) (c_close prev) /\ c_low c' = qmin (c_low c) (c_close prev).
Proof. exact fix_jump_valid. Qed.

(* non-vacuity: a rising candle, three resting orders, a reaction that places a new order *)
Example C08_run_exists :
  let k := mkC (N := QcNum) (QcI.qofZ 1) (QcI.qofZ 10) (QcI.qofZ 12) (QcI.qofZ 14) (QcI.qofZ 8) (QcI.qofZ 1) in
  let w := [ {| oid := 1; oprice := QcI.qofZ 13 |}; {| oid := 2; oprice := QcI.qofZ 9 |}; {| oid := 3; oprice := QcI.qofZ 11 |} ] in
  let react := fun (o : rorder) (_ : cndl) (w : list rorder) => if Nat.eqb (oid o) 2 then {| oid := 4; oprice := QcI.qofZ 10 |} :: w else w in
  match match_minute react 10 k w with
  | Done fills _ w' => map (fun f => oid (fst f)) fills = [2; 4; 3; 1]%nat /\ w' = []
  | _ => False
  end.
Proof. vm_compute. split; reflexivity. Qed.

Print Assumptions C08_split_total_valid.
Print Assumptions C08_split_is_path_cut.
Print Assumptions C08_first_fill_is_first_touch.
Print Assumptions C08_fills_follow_path.
Print Assumptions C08_fix_jump_valid.
