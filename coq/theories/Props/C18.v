(* Props/C18.v — property C18: the dynamic array behaves like a growing list of rows.
   This file contains only the property theorems, each closed by `exact <lemma>`, and
   Print Assumptions. Model: Model/DynArray.v (DynamicNumpyArray, method by method);
   spec: Spec/ListSpec.v (a Python list with the optional drop-oldest limit). *)
From Coq Require Import ZArith List Bool.
From JV Require Import Spec.ListSpec Model.DynArray Proofs.DynArrayProofs.
Import ListNotations.
Local Open Scope Z_scope.

(* For every bucket size b > 0, every drop_at d > 0 (or none), every row type and every
   operation sequence that is valid on the list (no unbounded size, no bound on length):
   the array returns, operation by operation, exactly what the list returns. *)
Theorem C18_refines_list :
  forall (A : Type) (zero : A) (drop_at : option Z) (b : nat) (ops : list (op A)),
    match drop_at with Some d => 0 < d | None => True end ->
    (0 < b)%nat ->
    valid_run zero drop_at [] ops = true ->
    run zero drop_at (init zero b) ops = map (@Ok A) (lrun zero drop_at [] ops).
Proof. intros A zero drop_at b ops Hd. exact (refines_list zero drop_at Hd b ops). Qed.

(* ... in particular no operation that is valid on the list raises. *)
Theorem C18_no_spurious_error :
  forall (A : Type) (zero : A) (drop_at : option Z) (b : nat) (ops : list (op A)) (r : res A),
    match drop_at with Some d => 0 < d | None => True end ->
    (0 < b)%nat ->
    valid_run zero drop_at [] ops = true ->
    In r (run zero drop_at (init zero b) ops) -> exists o, r = Ok o.
Proof. intros A zero drop_at b ops r Hd. exact (no_spurious_error zero drop_at Hd b ops r). Qed.

(* With the drop-oldest limit d >= 2 and single appends, the content is always a suffix of
   everything appended (the most recent rows) and stays shorter than d. *)
Theorem C18_drop_is_suffix :
  forall (A : Type) (zero : A) (d : Z) (rows : list A), 2 <= d ->
    (exists k, appends zero d rows = skipn k rows) /\ zlen (appends zero d rows) < d.
Proof. intros A zero. exact (drop_is_suffix zero). Qed.

(* non-vacuity: a history crossing two bucket boundaries with interleaved deletes,
   slice reads with negative bounds and a bulk append is valid on the list *)
Example C18_premises_met :
  valid_run 0 None []
    [Append 1; Append 2; AppendMany [3; 4; 5]; Delete 0; Append 6; Delete (-1); Append 7; Append 8;
     GetS (Some (-2)) None; SetS (Some 1) (Some 3) [9; 10]; GetI (-1); Past 2; Last; Len] = true.
Proof. vm_compute. reflexivity. Qed.

Print Assumptions C18_refines_list.
Print Assumptions C18_no_spurious_error.
Print Assumptions C18_drop_is_suffix.
