(* Props/C02.v — property C02: resting orders fill exactly when and where the price reaches them; MARKET orders are settled
   by the next execute_pending_market_orders.  Only property theorems (closed by `exact`) and Print Assumptions.
   candle_includes_price / split_candle are GENERATED from /repo (Gen/); the match loop (Model/Match.v) and the order
   registries (Model/Lifecycle.v) are hand-written models tied to the code by correspondence (harness c08/c05/c02). *)
From Coq Require Import ZArith QArith Qcanon List Bool.
From JV Require Import Base.Num Gen.candle Model.Match Model.Lifecycle Spec.PathSpec
  Model.Market Proofs.LifecycleProofs Proofs.MatchProofs Proofs.SortProofs Proofs.RestingProofs Proofs.MarketProofs.
Import ListNotations.
Local Open Scope Qc_scope.

(* (i) NO MISSED FILL.  For ANY reaction of the strategy layer to fills (submissions, cancellations of other orders): an order
   that is active when the minute starts, whose price lies in the minute's range, and that the strategy layer does not cancel
   (nor duplicate) during the minute, is filled in that minute.  (The candle passed to the matcher is already gap-normalised:
   its range is extended to the previous close, C08_fix_jump_valid.) *)
Theorem C02_resting_order_is_filled :
  forall (react : rorder -> cndl -> list rorder -> list rorder) (o : rorder),
  (forall o1 a w0, In o w0 -> lone o w0 -> In o (react o1 a w0) /\ lone o (react o1 a w0)) ->
  forall fuel k w fills rest w', valid k -> In o w -> lone o w -> includes k o = true ->
  match_minute react fuel k w = Done fills rest w' -> In o (map fst fills).
Proof. exact resting_order_filled. Qed.

(* (ii) NO FILL OUTSIDE THE RANGE: whatever the strategy layer does, an order filled in a minute has its price inside the
   minute's range *)
Theorem C02_filled_only_inside_range :
  forall (react : rorder -> cndl -> list rorder -> list rorder) fuel k w fills rest w' x, valid k ->
  match_minute react fuel k w = Done fills rest w' -> In x (map fst fills) -> c_low k <= oprice x /\ oprice x <= c_high k.
Proof. exact outside_not_filled. Qed.

(* (iii) AT ITS OWN PRICE: the partial candle published at a fill closes exactly at the order price, unless the order price
   is the open of what is left of the minute (then the published candle is the whole remainder, split_candle's
   `price == open` branch) *)
Theorem C02_fill_at_own_price :
  forall k fills rest, valid k -> chain k fills rest ->
  Forall (fun f : rorder * cndl => c_close (snd f) = oprice (fst f) \/ oprice (fst f) = c_open (snd f)) fills.
Proof. exact chain_fill_price. Qed.

(* (iv) at the end of the minute no active order has its price inside what remains of it, for any reaction *)
Theorem C02_nothing_left_in_range :
  forall (react : rorder -> cndl -> list rorder -> list rorder) fuel k w fills rest w',
  match_minute react fuel k w = Done fills rest w' -> executing rest w' = [].
Proof. exact match_end. Qed.

(* (v) the orders considered are exactly the active orders whose price is inside the candle *)
Theorem C02_executing_iff :
  forall k w o, In o (executing k w) <-> In o w /\ c_low k <= oprice o /\ oprice o <= c_high k.
Proof. exact executing_iff. Qed.

(* (vi) MARKET orders: a submitted market order is queued; execute_pending_market_orders empties the queue, leaves none of
   the queued orders active (for every assignment of position effects) and activates nothing *)
Theorem C02_market_order_queued : forall w, In (next w) (to_exec (submit w true)).
Proof. exact market_order_queued. Qed.
Theorem C02_pending_market_orders_all_settled :
  forall w fl, let w' := lstep w (ExecutePending fl) in
  to_exec w' = [] /\ (forall id, In id (to_exec w) -> Lifecycle.is_active w' id = false) /\
  (forall id, Lifecycle.is_active w' id = true -> Lifecycle.is_active w id = true).
Proof. exact pending_market_orders_all_settled. Qed.

(* (vii) the same for the pass as it is written (the LIVE queue is walked by index): whatever the hooks submit or cancel while the
   queue is walked, and whatever the position effects are, every order queued before OR DURING the pass has been walked, none of
   them is active afterwards, and the queue is empty.  Reg is the registry invariant, which holds in every reachable state
   (C05: registry_always). *)
Theorem C02_live_queue_pass_settles_every_queued_order :
  forall (hook : world -> nat -> list lop) (eff_of : world -> nat -> eff) fuel w w' queue, Reg w ->
  pass hook eff_of fuel 0 w = Some (w', queue) ->
  to_exec w' = [] /\ (exists rest, queue = to_exec w ++ rest) /\ (forall id, In id queue -> Lifecycle.is_active w' id = false).
Proof. exact pass_settles_every_queued_order. Qed.
Theorem C02_registry_invariant_reachable : forall ops, Reg (fold_left lstep ops linit).
Proof. exact registry_always. Qed.

(* non-vacuity: a falling candle; a stop below and a limit above rest; the reaction to the first fill submits a new order and
   cancels nothing: both resting orders and the new one fill *)
Example C02_run_exists :
  let k := mkC (N := QcNum) (QcI.qofZ 1) (QcI.qofZ 10) (QcI.qofZ 7) (QcI.qofZ 12) (QcI.qofZ 6) (QcI.qofZ 1) in
  let w := [ {| oid := 1; oprice := QcI.qofZ 6 |}; {| oid := 2; oprice := QcI.qofZ 11 |}; {| oid := 3; oprice := QcI.qofZ 20 |} ] in
  let react := fun (o : rorder) (_ : cndl) (w : list rorder) => if Nat.eqb (oid o) 2 then {| oid := 4; oprice := QcI.qofZ 8 |} :: w else w in
  match match_minute react 10 k w with
  | Done fills _ w' => map (fun f => oid (fst f)) fills = [2; 4; 1]%nat /\ map oid w' = [3]%nat
  | _ => False
  end.
Proof. vm_compute. split; reflexivity. Qed.

Print Assumptions C02_resting_order_is_filled.
Print Assumptions C02_filled_only_inside_range.
Print Assumptions C02_fill_at_own_price.
Print Assumptions C02_nothing_left_in_range.
Print Assumptions C02_executing_iff.
Print Assumptions C02_market_order_queued.
Print Assumptions C02_pending_market_orders_all_settled.
Print Assumptions C02_live_queue_pass_settles_every_queued_order.
Print Assumptions C02_registry_invariant_reachable.
