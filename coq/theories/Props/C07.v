(* Props/C07.v — property C07: every timeframe is the exact aggregation of the one-minute candles.
   Model/CandleView.v (hand-written: generate_candle_from_one_minutes, get_candles, get_current_candle, the partial-candle
   publication and the window arithmetic of the simulators) over Model/CandleStore.v; timeframe tables GENERATED. *)
From Coq Require Import ZArith QArith Qcanon List Bool Arith Sorted.
From JV Require Import Base.Num Gen.timeframes Model.CandleStore Model.CandleView Proofs.StoreProofs Proofs.ViewProofs Proofs.TimeframeProofs Proofs.FeedProofs.
Import ListNotations.
Local Open Scope nat_scope.

(* Whenever the stored candles of a timeframe of n minutes are the aggregations of the complete windows of the stored
   one-minute candles - possibly followed by one (stale) partial candle of the current window, as left behind by a fill in
   the middle of the window - get_candles returns exactly one candle per started window, each the aggregation of the
   one-minute candles of its window (the last one forming), for every n, every store content and every observation time. *)
Theorem C07_get_candles_is_aggregation :
  forall n, 0 < n -> forall short long, VInv n short long -> inc k_ts short ->
  exists r, get_candles n short long = Some r /\ map Some r = aggs n short.
Proof. exact get_candles_is_aggregation. Qed.

(* THE NORMAL SIMULATOR MAINTAINS THAT INVARIANT.  For every timeframe length n, every series of 1m candles whose timestamps are
   consecutive minutes starting at a time aligned to the timeframe, every number m of simulated minutes, and ANY partial candles
   published at the fills of each minute (whatever orders filled when): feeding the stores minute by minute (1m candle, partial
   candles, the real candle again, completion of the window) leaves the 1m store equal to the first m candles and the timeframe
   store in the invariant; hence at every minute a strategy reads exactly one candle per started window, each the aggregation of
   the stored 1m candles of its window. *)
Theorem C07_step_minute_keeps_invariant :
  forall n, 0 < n -> forall t0, (0 < t0)%Z -> (Z.of_nat n * 60000 | t0)%Z ->
  forall cs : list kc, (forall i, i < length cs -> k_ts (nth i cs dflt) = (t0 + Z.of_nat i * 60000)%Z) ->
  forall (m : nat) (parts long : list kc), m < length cs -> (forall p, In p parts -> k_ts p = tsi t0 m) ->
  VInv n (firstn m cs) long ->
  exists long', step_minute n cs m parts (firstn m cs, long) = (firstn (S m) cs, long') /\ VInv n (firstn (S m) cs) long'.
Proof. exact step_minute_keeps_invariant. Qed.

Theorem C07_normal_simulator_views_are_aggregations :
  forall n, 0 < n -> forall t0, (0 < t0)%Z -> (Z.of_nat n * 60000 | t0)%Z ->
  forall cs : list kc, (forall i, i < length cs -> k_ts (nth i cs dflt) = (t0 + Z.of_nat i * 60000)%Z) ->
  forall (parts : nat -> list kc) (m : nat), m <= length cs -> (forall i p, In p (parts i) -> k_ts p = tsi t0 i) ->
  exists long r, feed n cs parts m = (firstn m cs, long) /\ get_candles n (firstn m cs) long = Some r /\ map Some r = aggs n (firstn m cs).
Proof. exact feed_view_is_aggregation. Qed.

(* the list form that the correspondence harness runs against the real stores is that same fold *)
Theorem C07_feed_list_is_feed :
  forall n, 0 < n -> forall cs (parts : list (list kc)), feed_list n cs parts = feed n cs (fun i => nth i parts []) (length parts).
Proof. exact feed_list_is_feed. Qed.

(* the aggregation itself: window-start timestamp, first open, last close, maximum high, minimum low, summed volume *)
Theorem C07_agg_spec :
  forall x r, agg (x :: r) = Some {| k_ts := k_ts x; k_o := k_o x; k_c := k_c (last (x :: r) x);
                                     k_h := fold_left (fun m y => qmax2 m (k_h y)) r (k_h x);
                                     k_l := fold_left (fun m y => qmin2 m (k_l y)) r (k_l x);
                                     k_v := fold_left (fun m y => (m + k_v y)%Qc) r (k_v x) |}.
Proof. intros x r. reflexivity. Qed.

(* both timeframe tables give the same number of minutes for every timeframe *)
Theorem C07_timeframe_tables_agree :
  forall t, In t all_timeframes -> lookup tf_minutes_utils t = lookup tf_minutes_bt t /\ (0 < minutes t)%Z.
Proof. exact tables_agree. Qed.

Print Assumptions C07_get_candles_is_aggregation.
Print Assumptions C07_step_minute_keeps_invariant.
Print Assumptions C07_normal_simulator_views_are_aggregations.
Print Assumptions C07_feed_list_is_feed.
Print Assumptions C07_agg_spec.
Print Assumptions C07_timeframe_tables_agree.
