(* Props/C07.v — property C07: every timeframe is the exact aggregation of the one-minute candles.
   Model/CandleView.v (hand-written: generate_candle_from_one_minutes, get_candles, get_current_candle, the partial-candle
   publication and the window arithmetic of the simulators) over Model/CandleStore.v; timeframe tables GENERATED. *)
From Coq Require Import ZArith QArith Qcanon List Bool Arith Sorted.
From JV Require Import Base.Num Gen.timeframes Model.CandleStore Model.CandleView Proofs.StoreProofs Proofs.ViewProofs Proofs.TimeframeProofs.
Import ListNotations.
Local Open Scope nat_scope.

(* Whenever the stored candles of a timeframe of n minutes are the aggregations of the complete windows of the stored
   one-minute candles - possibly followed by one (stale) partial candle of the current window, as left behind by a fill in
   the middle of the window - get_candles returns exactly one candle per started window, each the aggregation of the
   one-minute candles of its window (the last one forming), for every n, every store content and every observation time. *)
Theorem C07_get_candles_is_aggregation :
  forall n, 0 < n -> forall short long, VInv n short long -> inc k_ts short ->
  exists r, get_candles n short long = Some r /\ map Some r = aggs n short.
Proof. exact get_candles_is_aggregation. Qed.

(* the aggregation itself: window-start timestamp, first open, last close, maximum high, minimum low, summed volume *)
Theorem C07_agg_spec :
  forall x r, agg (x :: r) = Some {| k_ts := k_ts x; k_o := k_o x; k_c := k_c (last (x :: r) x);
                                     k_h := fold_left (fun m y => qmax2 m (k_h y)) r (k_h x);
                                     k_l := fold_left (fun m y => qmin2 m (k_l y)) r (k_l x);
                                     k_v := fold_left (fun m y => (m + k_v y)%Qc) r (k_v x) |}.
Proof. intros x r. reflexivity. Qed.

(* both timeframe tables give the same number of minutes for every timeframe *)
Theorem C07_timeframe_tables_agree :
  forall t, In t all_timeframes -> lookup tf_minutes_utils t = lookup tf_minutes_bt t /\ (0 < minutes t)%Z.
Proof. exact tables_agree. Qed.

Print Assumptions C07_get_candles_is_aggregation.
Print Assumptions C07_agg_spec.
Print Assumptions C07_timeframe_tables_agree.
