(* Props/C14.v — property C14: sequential and single-value indicator results agree.
   Only property theorems (closed by `exact`) and Print Assumptions.  `indicator warmup F sequential cs` is the shape of the public
   indicator functions: candles = slice_candles(candles, sequential); res = F(candles); return res if sequential else res[-1],
   with F an ARBITRARY computation.  Which indicator files have this shape is checked syntactically on /repo on every run
   (harness/c14.py); the others, and the one-entry-per-candle clause of every indicator, are covered by monitors. *)
From Coq Require Import ZArith QArith Qcanon List Bool Arith.
From JV Require Import Base.Num Model.CandleView Model.Indicators Proofs.IndicatorProofs.
Import ListNotations.

Theorem C14_sequential_is_whole_series :
  forall (A Y : Type) warmup (F : list A -> list Y) cs, indicator warmup F true cs = Sequential (F cs).
Proof. exact @sequential_is_whole_series. Qed.

Theorem C14_single_is_last_of_sequential :
  forall (A Y : Type) warmup (F : list A -> list Y) cs, (length cs <= warmup)%nat ->
  indicator warmup F false cs = Single (last_opt (F cs)).
Proof. exact @single_is_last_of_sequential. Qed.

Theorem C14_single_on_long_input_is_sequential_on_trailing_window :
  forall (A Y : Type) warmup (F : list A -> list Y) cs, (warmup < length cs)%nat ->
  indicator warmup F false cs = Single (last_opt (F (lastn warmup cs))) /\
  indicator warmup F true (lastn warmup cs) = Sequential (F (lastn warmup cs)).
Proof. exact @single_on_long_input_is_sequential_on_trailing_window. Qed.

(* one entry per input candle: for every state machine, and for each modelled core indicator *)
Theorem C14_state_machines_one_entry_per_input :
  forall (X Y S : Type) (step : S -> X -> S * Y) (s : S) (xs : list X), length (mealy step s xs) = length xs.
Proof. intros X Y S step s xs. exact (mealy_length_preserving step s xs). Qed.
Theorem C14_core_indicators_one_entry_per_candle :
  forall p f s g : nat,
  length_preserving (sma p) /\ length_preserving (ema p) /\ length_preserving (wma p) /\ length_preserving (trima p) /\ length_preserving (roc p) /\
  length_preserving (mom p) /\ length_preserving (var p) /\ length_preserving (wilders p) /\ length_preserving (ema0 p) /\ length_preserving (dema p) /\
  length_preserving (tema p) /\ length_preserving (macd_line f s) /\ length_preserving (macd_signal f s g) /\ length_preserving (macd_hist f s g) /\
  length_preserving (rsi p) /\ length_preserving (atr p) /\ length_preserving obv /\
  length_preserving (donchian_upper p) /\ length_preserving (donchian_middle p) /\ length_preserving (donchian_lower p) /\ length_preserving (willr p) /\
  length_preserving (stoch_k p) /\ length_preserving typprice /\ length_preserving medprice.
Proof. exact core_indicators_one_entry_per_candle. Qed.
Theorem C14_mfi_keltner_one_entry_per_candle :
  forall (p : nat) (m : Qc),
  length_preserving (mfi p) /\ length_preserving (keltner_upper p m) /\ length_preserving (keltner_middle p) /\ length_preserving (keltner_lower p m).
Proof. exact mfi_keltner_one_entry_per_candle. Qed.

Print Assumptions C14_sequential_is_whole_series.
Print Assumptions C14_single_is_last_of_sequential.
Print Assumptions C14_single_on_long_input_is_sequential_on_trailing_window.
Print Assumptions C14_state_machines_one_entry_per_input.
Print Assumptions C14_core_indicators_one_entry_per_candle.
Print Assumptions C14_mfi_keltner_one_entry_per_candle.
