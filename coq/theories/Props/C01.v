(* Props/C01.v — property C01: backtest decisions never depend on future candles.
   Only property theorems (closed by `exact`) and Print Assumptions.
   The rows of the input arrays that each simulator reads in step i, with the guards of those reads, are GENERATED from
   jesse/modes/backtest_mode.py on every run (Gen/simidx.v; the generator refuses any other use of the input inside the
   simulators).  Everything else the engine does in a step - candle stores, order matching, strategy, hooks, balances, and the
   recording of whatever is observable - is an ARBITRARY function F of the step index, the rows read and the state so far. *)
From Coq Require Import ZArith List Bool.
From JV Require Import Gen.simidx Model.Engine Proofs.LookaheadProofs.
Import ListNotations.
Local Open Scope Z_scope.

(* every read of the normal simulator in minute i lies inside rows 0..i; a negative (from-the-end) index never occurs *)
Theorem C01_step_reads_inside_prefix :
  forall i count, 0 <= i -> 0 < count -> Forall (inside (i + 1)) (step_accesses i count).
Proof. exact step_accesses_inside. Qed.

(* what is read before the first step is row 0 of the first symbol *)
Theorem C01_prep_reads_inside_prefix : Forall (inside 1) prep_first.
Proof. exact prep_inside. Qed.

(* every read of the fast simulator in the chunk starting at row i lies inside rows 0..i+step-1 *)
Theorem C01_fast_reads_inside_prefix :
  forall i step count, 0 <= i -> 0 < step -> 0 < count -> Forall (inside (i + step)) (fast_accesses i step count).
Proof. exact fast_accesses_inside. Qed.

(* NORMAL SIMULATOR: for every engine behaviour F, every set of timeframes, every number of symbols, every cut point m and
   every two inputs that agree on the first m rows of every symbol, the state after the minutes that end at or before m -
   which contains everything that was observable until then - is the same *)
Theorem C01_step_simulator_no_lookahead :
  forall (Row St : Type) (counts : list Z), Forall (fun c => 0 < c) counts ->
  forall (F : nat -> list (list (option (list Row))) -> St -> St) (P : list (option (list Row)) -> St) (css css' : list (list Row)) (m : nat),
  (1 <= m)%nat -> same_prefix m css css' -> run_step counts F P css m = run_step counts F P css' m.
Proof. exact @step_simulator_no_lookahead. Qed.

(* FAST SIMULATOR: the same with the cut on a chunk boundary k*step *)
Theorem C01_fast_simulator_no_lookahead :
  forall (Row St : Type) (counts : list Z), Forall (fun c => 0 < c) counts ->
  forall (F : nat -> list (list (option (list Row))) -> St -> St) (P : list (option (list Row)) -> St) (step : Z), 0 < step ->
  forall (css css' : list (list Row)) (k : nat), (1 <= k)%nat ->
  same_prefix (Z.to_nat (Z.of_nat k * step)) css css' -> run_fast counts F P step css k = run_fast counts F P step css' k.
Proof. exact @fast_simulator_no_lookahead. Qed.

(* non-vacuity: an engine that records every row it is given; two inputs that differ from row 3 on; after 3 minutes the records
   agree, after 4 they differ (so the recording engine does see what it reads) *)
Example C01_recording_engine :
  let F := fun (_ : nat) (r : list (list (option (list Z)))) (s : list (list (list (option (list Z))))) => s ++ [r] in
  let P := fun (r : list (option (list Z))) => [[r]] in
  let a := [[10; 11; 12; 13; 14; 15]] in let b := [[10; 11; 12; 99; 98; 97]] in
  run_step [1; 3] F P a 3 = run_step [1; 3] F P b 3 /\ run_step [1; 3] F P a 4 <> run_step [1; 3] F P b 4 /\
  length (run_step [1; 3] F P a 3) = 4%nat.
Proof. vm_compute. repeat split; discriminate. Qed.

Print Assumptions C01_prep_reads_inside_prefix.
Print Assumptions C01_step_reads_inside_prefix.
Print Assumptions C01_fast_reads_inside_prefix.
Print Assumptions C01_step_simulator_no_lookahead.
Print Assumptions C01_fast_simulator_no_lookahead.
