(* Props/C13.v — property C13: indicator series are causal.
   Only property theorems (closed by `exact`) and Print Assumptions.  The core indicators are modelled as Mealy machines in the
   conventions of jesse/indicators (Model/Indicators.v, tied by value correspondence); every other indicator is covered by the
   prefix monitor on the implementation (harness/c13.py), not by a theorem. *)
From Coq Require Import ZArith QArith Qcanon List Bool Arith.
From JV Require Import Base.Num Model.CandleView Model.Indicators Proofs.IndicatorProofs.
Import ListNotations.

(* every series produced by a state machine is causal - whatever the state and the step are *)
Theorem C13_state_machines_are_causal :
  forall (X Y S : Type) (step : S -> X -> S * Y) (s : S) (xs : list X) (k : nat),
  mealy step s (firstn k xs) = firstn k (mealy step s xs).
Proof. intros X Y S step s xs k. exact (mealy_causal step s xs k). Qed.

(* causality is closed under composition (an indicator of an indicator) and pointwise combination of two series *)
Theorem C13_causal_compose :
  forall (A B C : Type) (F : list A -> list B) (G : list B -> list C), causal F -> causal G -> causal (fun xs => G (F xs)).
Proof. exact @causal_compose. Qed.
Theorem C13_causal_pointwise :
  forall (A B C D : Type) (f : B -> C -> D) (F : list A -> list B) (G : list A -> list C), causal F -> causal G -> causal (fun xs => map2 f (F xs) (G xs)).
Proof. exact @causal_map2. Qed.

(* every modelled core indicator: the series on a prefix of the input is the prefix of the series on the whole input, for every
   period, every input and every prefix length *)
Theorem C13_core_indicators_causal :
  forall p f s g : nat,
  causal (sma p) /\ causal (ema p) /\ causal (wma p) /\ causal (trima p) /\ causal (roc p) /\ causal (mom p) /\ causal (var p) /\
  causal (wilders p) /\ causal (ema0 p) /\ causal (dema p) /\ causal (tema p) /\
  causal (macd_line f s) /\ causal (macd_signal f s g) /\ causal (macd_hist f s g) /\
  causal (rsi p) /\ causal (atr p) /\ causal obv /\ causal true_range /\
  causal (donchian_upper p) /\ causal (donchian_middle p) /\ causal (donchian_lower p) /\ causal (willr p) /\ causal (stoch_k p) /\
  causal typprice /\ causal medprice.
Proof. exact core_indicators_causal. Qed.
Theorem C13_mfi_keltner_causal :
  forall (p : nat) (m : Qc), causal (mfi p) /\ causal (keltner_upper p m) /\ causal (keltner_middle p) /\ causal (keltner_lower p m).
Proof. exact mfi_keltner_causal. Qed.

Print Assumptions C13_state_machines_are_causal.
Print Assumptions C13_causal_compose.
Print Assumptions C13_causal_pointwise.
Print Assumptions C13_core_indicators_causal.
Print Assumptions C13_mfi_keltner_causal.
