(* Props/C20.v — property C20: candle series handed to the store are gapless and strictly ordered.
   Models: Model/Import.v (_fill_absent_candles), Model/CandleStore.v (add_candle, add_multiple_1m_candles);
   hand-written, tied to the code by correspondence (harness/c20.py). *)
From Coq Require Import ZArith List Bool Sorted.
From JV Require Import Model.Import Model.CandleStore Proofs.ImportProofs Proofs.StoreProofs.
Import ListNotations.
Local Open Scope Z_scope.

(* one candle per minute of the interval ... *)
Theorem C20_fill_length :
  forall (A : Type) (zero : A) (batch : list (icandle A)) start finish l, start <= finish ->
  fill_absent zero batch start finish = Filled l -> Z.of_nat (length l) = (finish - start) / 60000 + 1.
Proof. exact @fill_length. Qed.

(* ... the k-th one exactly on the grid (hence strictly increasing timestamps) ... *)
Theorem C20_fill_grid :
  forall (A : Type) (zero : A) (batch : list (icandle A)) start finish l k c,
  fill_absent zero batch start finish = Filled l -> nth_error l k = Some c -> its c = start + 60000 * Z.of_nat k.
Proof. exact @fill_grid. Qed.

(* ... every provided candle on the grid is kept unchanged ... *)
Theorem C20_fill_keeps :
  forall (A : Type) (zero : A) (batch : list (icandle A)) start finish l k b,
  fill_absent zero batch start finish = Filled l -> (k < length l)%nat ->
  lookup batch (start + 60000 * Z.of_nat k) = Some b -> nth_error l k = Some b.
Proof. exact @fill_keeps. Qed.

(* ... and a missing minute is a flat zero-volume candle at the previous row's close, or at the first
   provided candle's open while no provided candle has been passed yet *)
Theorem C20_fill_missing :
  forall (A : Type) (zero : A) (batch : list (icandle A)) start finish l k c,
  fill_absent zero batch start finish = Filled l -> nth_error l k = Some c ->
  lookup batch (start + 60000 * Z.of_nat k) = None ->
  exists p, c = flat zero (start + 60000 * Z.of_nat k) p /\
    match k with
    | O => exists c0 r, batch = c0 :: r /\ p = iopen c0
    | S j => exists prev, nth_error l j = Some prev /\
              (p = iclose prev \/ (exists c0 r, batch = c0 :: r /\ p = iopen c0))
    end.
Proof. exact @fill_missing. Qed.

(* the store: one addition does what the property says (replace the row with that timestamp / append a
   newer one / ignore an unknown older one) ... *)
Theorem C20_add_candle_spec :
  forall (R : Type) (ts : R -> Z) (arr : list R) (c : R), inc ts arr -> add_candle ts arr c = add_spec ts arr c.
Proof. exact @add_candle_spec. Qed.

(* ... and every sequence of additions leaves strictly increasing timestamps *)
Theorem C20_store_always_increasing :
  forall (R : Type) (ts : R -> Z) (cs : list R), inc ts (fold_left (add_candle ts) cs []).
Proof. exact @store_always_increasing. Qed.

Theorem C20_add_multiple_append :
  forall (R : Type) (ts : R -> Z) (arr batch : list R) b0 r,
  batch = b0 :: r -> (arr = [] \/ exists l, arr = l ++ [last arr b0] /\ ts (last arr b0) < ts b0) ->
  add_multiple ts arr batch = StoreOk (arr ++ batch).
Proof. exact @add_multiple_append. Qed.

Theorem C20_add_multiple_full_overlap :
  forall (R : Type) (ts : R -> Z) (keep old batch : list R) b0 bl o0 ol,
  length old = length batch -> batch <> [] ->
  hd b0 batch = b0 -> last batch bl = bl -> hd o0 old = o0 -> last old ol = ol ->
  ts o0 = ts b0 -> ts ol = ts bl -> ts b0 <= ts bl ->
  add_multiple ts (keep ++ old) batch = StoreOk (keep ++ batch).
Proof. exact @add_multiple_full_overlap. Qed.

(* non-vacuity *)
Example C20_fill_example :
  fill_absent 0 [ {| its := 120000; iopen := 5; iclose := 6; ihigh := 7; ilow := 4; ivol := 9 |} ] 60000 240000
  = Filled [ flat 0 60000 5; {| its := 120000; iopen := 5; iclose := 6; ihigh := 7; ilow := 4; ivol := 9 |}; flat 0 180000 6; flat 0 240000 6 ].
Proof. vm_compute. reflexivity. Qed.

Print Assumptions C20_fill_length.
Print Assumptions C20_fill_grid.
Print Assumptions C20_fill_keeps.
Print Assumptions C20_fill_missing.
Print Assumptions C20_add_candle_spec.
Print Assumptions C20_store_always_increasing.
Print Assumptions C20_add_multiple_append.
Print Assumptions C20_add_multiple_full_overlap.
