(* Props/C17.v — property C17: sizing and numeric helpers never overspend, over-risk or round up.
   size_to_qty, risk_to_qty, risk_to_size, limit_stop_loss, floor_with_precision and the timeframe tables are
   GENERATED from /repo on every run; round_decimals_down / round_qty_for_live_mode are hand-written models
   (numpy scalar path) tied by bit-exact correspondence.  Theorems are in exact rational arithmetic. *)
From Coq Require Import ZArith QArith Qcanon List Bool String.
From Coq Require Import PrimFloat.
From JV Require Import Base.Num Gen.helpers Gen.utils Gen.timeframes Model.Rounding Proofs.SizingProofs Proofs.TimeframeProofs.
Import ListNotations.
Local Open Scope Qc_scope.
Import QcI.

Theorem C17_size_to_qty :
  forall cap price prec fee, 0 <= cap -> 0 < price -> 0 <= fee -> (0 <= prec)%Z ->
  exists q, size_to_qty QcNum cap price prec fee = Val q /\
    q * price * (1 + fee) <= cap /\ q * price <= cap /\
    q <= net_size cap fee / price /\ net_size cap fee / price - / qofZ (10 ^ prec) < q.
Proof. exact size_to_qty_spec. Qed.

Theorem C17_risk_to_qty :
  forall cap risk entry stop prec fee,
  0 <= cap -> 0 <= risk -> 0 < entry -> entry <> stop -> 0 <= fee -> fee * qofZ 3 <= 1 -> (0 <= prec)%Z ->
  exists q, risk_to_qty QcNum cap risk entry stop prec fee = Val q /\
    q * qabs (entry - stop) <= risk / qofZ 100 * cap /\ q * entry * (1 + fee) <= cap.
Proof. exact risk_to_qty_spec. Qed.

Theorem C17_floor_with_precision :
  forall x p, (0 <= p)%Z ->
  let r := floor_with_precision QcNum x p in
  r <= x /\ x - / qofZ (10 ^ p) < r /\ r * qofZ (10 ^ p) = qofZ (qfloor (x * qofZ (10 ^ p))).
Proof. exact fwp_spec. Qed.

Theorem C17_limit_stop_loss :
  forall entry stop (long : bool) maxp, 0 <= entry -> 0 <= maxp ->
  let r := limit_stop_loss QcNum entry stop (if long then "long" else "short")%string maxp in
  let dist := if long then entry - r else r - entry in
  0 <= dist /\ dist <= qabs (entry - stop) /\ dist <= entry * (maxp / qofZ 100).
Proof. exact limit_stop_loss_spec. Qed.

Theorem C17_round_qty_for_live_mode :
  forall q p, (0 <= p)%Z -> 0 <= q ->
  exists r, round_qty_for_live_mode QcNum q p = Val r /\
    ((r <= q /\ q - / qofZ (10 ^ p) < r) \/ (r = 1 / qofZ (10 ^ p) /\ round_decimals_down QcNum q p = 0)).
Proof. exact round_qty_for_live_mode_spec. Qed.

Theorem C17_timeframe_tables_agree :
  forall t, In t all_timeframes -> lookup tf_minutes_utils t = lookup tf_minutes_bt t /\ (0 < minutes t)%Z.
Proof. exact tables_agree. Qed.

Theorem C17_max_timeframe :
  forall l, (forall x, In x l -> In x all_timeframes) -> l <> [] ->
  In (max_timeframe l) l /\ forall x, In x l -> (minutes x <= minutes (max_timeframe l))%Z.
Proof. exact max_timeframe_maximal. Qed.

Theorem C17_anchor_timeframe :
  forall k v, In (k, v) anchor_table -> (minutes k < minutes v)%Z.
Proof. exact anchor_strictly_larger. Qed.

(* At binary64 the "never costs more than the capital" clause is FALSE for the code as it is (known finding F5):
   size_to_qty(13.7, 5e-05, precision 3, fee 0) = 274000 and 274000 * 5e-05 > 13.7 in double arithmetic. *)
Theorem C17_size_to_qty_overspends_at_binary64 :
  exists (cap price : float),
    match size_to_qty FNum cap price 3 0%float with
    | Val q => PrimFloat.ltb cap (PrimFloat.mul q price) = true
    | _ => False
    end.
Proof. exists (0x1.b666666666666p+3)%float, (0x1.a36e2eb1c432dp-15)%float. vm_compute. reflexivity. Qed.

Print Assumptions C17_size_to_qty.
Print Assumptions C17_risk_to_qty.
Print Assumptions C17_floor_with_precision.
Print Assumptions C17_limit_stop_loss.
Print Assumptions C17_round_qty_for_live_mode.
Print Assumptions C17_timeframe_tables_agree.
Print Assumptions C17_max_timeframe.
Print Assumptions C17_anchor_timeframe.
Print Assumptions C17_size_to_qty_overspends_at_binary64.
