(* Props/C19.v — property C19: optimizer DNA decodes into in-range, typed, monotone hyper-parameters.
   convert_number and the alphabet are GENERATED from /repo on every run; the zip loop of dna_to_hp and the
   precedence of _prepare_routes/_init_objects are the hand-written Model/Hp.v (tied by correspondence). *)
From Coq Require Import ZArith QArith Qcanon List Bool.
From Coq Require Import PrimFloat.
From JV Require Import Base.Num Gen.helpers Gen.optimize Model.Hp Proofs.HpProofs.
Import ListNotations.
Local Open Scope Qc_scope.

(* the alphabet is the 80 characters chr(40) .. chr(119) *)
Theorem C19_alphabet : charset = map Z.of_nat (seq 40 80).
Proof. exact charset_is_40_119. Qed.

(* float parameters (exact arithmetic): in range, monotone in the gene, first letter -> min, last -> max *)
Theorem C19_float_decoding :
  forall (h : decl QcNum), d_type h = HFloat -> d_min h <= d_max h ->
  (forall g, In g charset -> exists x, decode h g = Val (VFloat x) /\ d_min h <= x /\ x <= d_max h) /\
  (forall g g' x x', In g charset -> In g' charset -> (g <= g')%Z ->
     decode h g = Val (VFloat x) -> decode h g' = Val (VFloat x') -> x <= x') /\
  decode h (hd 0%Z charset) = Val (VFloat (d_min h)) /\ decode h (last charset 0%Z) = Val (VFloat (d_max h)).
Proof. exact float_decoding. Qed.

(* int parameters with integer bounds: an integer in range, monotone, ends exact *)
Theorem C19_int_decoding :
  forall (h : decl QcNum) (a b : Z), d_type h = HInt -> d_min h = QcI.qofZ a -> d_max h = QcI.qofZ b -> (a <= b)%Z ->
  (forall g, In g charset -> exists z, decode h g = Val (VInt z) /\ (a <= z <= b)%Z) /\
  (forall g g' z z', In g charset -> In g' charset -> (g <= g')%Z ->
     decode h g = Val (VInt z) -> decode h g' = Val (VInt z') -> (z <= z')%Z) /\
  decode h (hd 0%Z charset) = Val (VInt a) /\ decode h (last charset 0%Z) = Val (VInt b).
Proof. exact int_decoding. Qed.

(* the value at position k depends only on declaration k and gene k *)
Theorem C19_position_local :
  forall (decls : list (decl QcNum)) dna vs, dna_to_hp decls dna = Val vs ->
  length vs = Nat.min (length decls) (length dna) /\
  forall k h g, nth_error decls k = Some h -> nth_error dna k = Some g ->
    exists v, nth_error vs k = Some v /\ decode h g = Val v.
Proof. exact dna_to_hp_nth. Qed.

(* explicit hyper-parameters > dna() > declared defaults *)
Theorem C19_precedence :
  forall (explicit : option (list (value QcNum))) decls dna,
  (forall h, explicit = Some h -> effective_hp explicit decls dna = FromExplicit h) /\
  (explicit = None -> dna <> [] -> effective_hp explicit decls dna = FromDna (dna_to_hp decls dna)) /\
  (explicit = None -> dna = [] -> decls <> [] -> effective_hp explicit decls dna = FromDefaults) /\
  (explicit = None -> dna = [] -> decls = [] -> effective_hp explicit decls dna = NoHp).
Proof. exact hp_precedence. Qed.

(* At binary64 the range-end statement is FALSE for the code as it is (known finding F6): the last letter
   decodes above max for (min, max) = (-77.3, 0.62).  Witness evaluated by the kernel. *)
Theorem C19_float_end_refuted_at_binary64 :
  exists (mn mx : PrimFloat.float),
    PrimFloat.leb mn mx = true /\
    match decode (N := FNum) (Build_decl FNum HFloat mn mx mn) 119 with
    | Val (VFloat x) => PrimFloat.ltb mx x = true
    | _ => False
    end.
Proof.
  exists (-0x1.3533333333333p+6)%float, (0x1.3d70a3d70a3d7p-1)%float. vm_compute. split; reflexivity.
Qed.

Print Assumptions C19_alphabet.
Print Assumptions C19_float_decoding.
Print Assumptions C19_int_decoding.
Print Assumptions C19_position_local.
Print Assumptions C19_precedence.
Print Assumptions C19_float_end_refuted_at_binary64.
