(* Props/C03.v — property C03: the futures account always equals an average-cost margin account model.
   Model/Futures.v (hand-written: FuturesExchange + Order + Position) refines Spec/RefFutures.v. *)
From Coq Require Import ZArith QArith Qcanon List Bool.
From JV Require Import Base.Num Model.Spot Model.Futures Spec.RefFutures Proofs.FillProofs Proofs.FuturesProofs.
Import ListNotations.
Local Open Scope Qc_scope.
Import QcI.

(* For every wallet, leverage > 0, fee >= 0, number of symbols sharing the wallet and every legal history of
   submit / cancel / execute / price moves of any length (fresh ids, positive quantities and prices, reduce-only
   orders executed against an open position; a rejected submission ends the history): same accept/reject decisions
   (rejected exactly when notional / leverage exceeds the available margin), same wallet, same available margin,
   same position size, average entry and unrealised PnL for every symbol. *)
Theorem C03_futures_account_refines :
  forall b l f n p0 ops, 0 < l -> 0 <= f -> 0 <= p0 -> fwf (rinit b l f n p0) ops -> fwf_orders ops ->
  let '(s, rs) := frun (finit b l f n p0) ops in let '(r, rs') := rrun (rinit b l f n p0) ops in
  rs = rs' /\
  (ok_end rs = true ->
     wallet s = rw r /\ avail s = ravail r /\
     (forall i, p_qty (posn s i) = p_qty (rpos r i) /\ p_entry (posn s i) = p_entry (rpos r i) /\ pos_pnl (posn s i) = upnl (rpos r i))).
Proof. exact futures_account_refines. Qed.

(* the position update of the code is the average-cost fill: the closing part realises PnL against the average entry,
   the opening part moves it; reduce-only fills neither increase nor flip *)
Theorem C03_fill_is_average_cost :
  forall p sq price ro, sq <> 0 -> (ro = true -> p_qty p <> 0) -> position_fill p sq price ro = ref_fill p sq price ro.
Proof. exact fill_is_average_cost. Qed.

Theorem C03_reduce_only_never_increases :
  forall p sq price, sq <> 0 -> p_qty p <> 0 ->
  let p' := fst (position_fill p sq price true) in qabs (p_qty p') <= qabs (p_qty p) /\ 0 <= p_qty p * p_qty p'.
Proof. exact reduce_only_never_increases. Qed.

(* submitting then cancelling an order restores the available margin exactly *)
Theorem C03_submit_cancel_restores :
  forall s o, Inv s -> fgood o -> ffind (forders s) (f_id o) = None ->
  snd (fsubmit s o) = Accepted -> avail (fcancel (fst (fsubmit s o)) (f_id o)) = avail s.
Proof. exact submit_cancel_restores. Qed.

(* non-vacuity: a legal two-symbol history with an increase, a partial reduction, an oversize reduce-only close and a flip *)
Definition z (n : Z) : Qc := Q2Qc (inject_Z n).
Definition fo (id sym : nat) (sd : side) (t : otype) (q p : Z) (ro : bool) : forder :=
  {| f_id := id; f_sym := sym; f_side := sd; f_typ := t; f_qty := z q; f_price := z p; f_ro := ro; f_status := Active |}.
Example C03_legal_history :
  let ops := [FSubmit (fo 1 0 Buy Market 2 100 false); FExecute 1; FSubmit (fo 2 0 Buy Limit 2 90 false); FExecute 2;
              FPrice 0 (z 110); FSubmit (fo 3 0 Sell Limit 1 110 true); FExecute 3;
              FSubmit (fo 4 1 Sell Market 3 50 false); FExecute 4; FSubmit (fo 5 0 Sell Stop 9 80 true); FExecute 5;
              FSubmit (fo 6 1 Buy Market 5 40 false); FExecute 6; FSubmit (fo 7 1 Sell Limit 1 60 false); FCancel 7] in
  let '(s, rs) := frun (finit (z 10000) (z 2) 0 2 (z 100)) ops in
  ok_end rs = true /\ p_qty (posn s 0) = 0 /\ p_qty (posn s 1) = z 2 /\ wallet s = z 10000 + z 15 - z 45 + z 30.
Proof. vm_compute. repeat split; reflexivity. Qed.

Print Assumptions C03_futures_account_refines.
Print Assumptions C03_fill_is_average_cost.
Print Assumptions C03_reduce_only_never_increases.
Print Assumptions C03_submit_cancel_restores.
