(* Props/C15.v — property C15: indicators match their definitions, ranges and orderings.
   Only property theorems (closed by `exact`) and Print Assumptions.  Model/Indicators.v holds the textbook definitions (exact
   rationals) in jesse's conventions; harness/c15.py evaluates them in Coq against jesse.indicators (that is the "agree with an
   independent straightforward implementation" clause).  The theorems below are the ranges and orderings, for every input. *)
From Coq Require Import ZArith QArith Qcanon List Bool Arith.
From JV Require Import Base.Num Model.CandleView Model.Indicators Proofs.IndicatorBounds Proofs.IndicatorHomog.
Import ListNotations.
Local Open Scope Qc_scope.

Theorem C15_rsi_in_range : forall p xs, (0 < p)%nat -> Forall (in_range 0 (qofnat 100)) (rsi p xs).
Proof. exact rsi_in_range. Qed.
Theorem C15_willr_in_range : forall p xs, (0 < p)%nat -> Forall sane xs -> Forall (in_range (- qofnat 100) 0) (willr p xs).
Proof. exact willr_in_range. Qed.
Theorem C15_stoch_k_in_range : forall p xs, (0 < p)%nat -> Forall sane xs -> Forall (in_range 0 (qofnat 100)) (stoch_k p xs).
Proof. exact stoch_k_in_range. Qed.
(* bands are ordered and the channel encloses the price: for every non-empty window of candles with low <= close <= high *)
Theorem C15_donchian_ordered_and_enclosing : forall l : list kc, l <> [] -> Forall sane l ->
  ll l <= (hh l + ll l) / qofnat 2 /\ (hh l + ll l) / qofnat 2 <= hh l /\ forall k, In k l -> ll l <= k_l k /\ k_h k <= hh l.
Proof. exact donchian_ordered_and_enclosing. Qed.
(* volatility measures are non-negative *)
Theorem C15_atr_nonneg : forall p ks, (0 < p)%nat -> Forall sane ks -> Forall nonneg_opt (atr p ks).
Proof. exact atr_nonneg. Qed.
Theorem C15_var_nonneg : forall p xs, (0 < p)%nat -> Forall nonneg_opt (var p xs).
Proof. exact var_nonneg. Qed.
(* price-homogeneous averages scale linearly with price *)
Theorem C15_sma_homogeneous : forall c p xs, (0 < p)%nat -> sma p (map (Qcmult c) xs) = map (scale_opt c) (sma p xs).
Proof. exact sma_homogeneous. Qed.
Theorem C15_ema_homogeneous : forall c p xs, (0 < p)%nat -> ema p (map (Qcmult c) xs) = map (scale_opt c) (ema p xs).
Proof. exact ema_homogeneous. Qed.
Theorem C15_wma_homogeneous : forall c p xs, wma p (map (Qcmult c) xs) = map (scale_opt c) (wma p xs).
Proof. exact wma_homogeneous. Qed.
Theorem C15_trima_homogeneous : forall c p xs, trima p (map (Qcmult c) xs) = map (scale_opt c) (trima p xs).
Proof. exact trima_homogeneous. Qed.
Theorem C15_wilders_homogeneous : forall c p xs, wilders p (map (Qcmult c) xs) = map (Qcmult c) (wilders p xs).
Proof. exact wilders_homogeneous. Qed.
Theorem C15_dema_homogeneous : forall c p xs, dema p (map (Qcmult c) xs) = map (Qcmult c) (dema p xs).
Proof. exact dema_homogeneous. Qed.
Theorem C15_tema_homogeneous : forall c p xs, tema p (map (Qcmult c) xs) = map (Qcmult c) (tema p xs).
Proof. exact tema_homogeneous. Qed.
(* MACD line, signal and histogram are differences of price-homogeneous averages: they scale with price as well *)
Theorem C15_macd_homogeneous : forall c f s g xs,
  macd_line f s (map (Qcmult c) xs) = map (Qcmult c) (macd_line f s xs) /\
  macd_signal f s g (map (Qcmult c) xs) = map (Qcmult c) (macd_signal f s g xs) /\
  macd_hist f s g (map (Qcmult c) xs) = map (Qcmult c) (macd_hist f s g xs).
Proof. intros c f s g xs. exact (conj (macd_line_homogeneous c f s xs) (conj (macd_signal_homogeneous c f s g xs) (macd_hist_homogeneous c f s g xs))). Qed.
(* a volatility measure in price units scales with the price too: ATR of candles whose prices are multiplied by c >= 0 *)
Theorem C15_atr_homogeneous : forall c p ks, 0 <= c -> atr p (map (scale_kc c) ks) = map (scale_opt c) (atr p ks).
Proof. exact atr_homogeneous. Qed.
(* bounded oscillator: the money flow index of candles with non-negative prices and volumes, every period *)
Theorem C15_mfi_in_range : forall p ks, Forall nonneg_kc ks -> Forall (in_range 0 (qofnat 100)) (mfi p ks).
Proof. exact mfi_in_range. Qed.
(* bands are ordered: Keltner lower <= middle <= upper wherever defined, all three defined at the same indices, any multiplier >= 0 *)
Theorem C15_keltner_ordered : forall p m ks, (0 < p)%nat -> 0 <= m -> Forall sane ks ->
  Forall3 ordered3 (keltner_lower p m ks) (keltner_middle p ks) (keltner_upper p m ks).
Proof. exact keltner_ordered. Qed.
(* the premises are satisfiable and the conclusions are about defined values: four rising/falling candles, period 2 *)
Definition ex_kc (c v : nat) : kc := {| k_ts := 0%Z; k_o := qofnat c; k_c := qofnat c; k_h := qofnat (c + 1); k_l := qofnat (c - 1); k_v := qofnat v |}.
Example C15_mfi_keltner_nonvacuous :
  let ks := [ex_kc 10 5; ex_kc 12 3; ex_kc 11 4; ex_kc 13 2] in
  map (option_map this) (mfi 2 ks) = [None; Some 100; Some 45; Some (260 # 7)]%Q /\
  map (option_map this) (keltner_lower 2 (qofnat 2) ks) = [None; Some 6; Some (13 # 2); Some (85 # 12)]%Q /\
  map (option_map this) (keltner_middle 2 ks) = [None; Some 11; Some 11; Some (37 # 3)]%Q /\
  map (option_map this) (keltner_upper 2 (qofnat 2) ks) = [None; Some 16; Some (31 # 2); Some (211 # 12)]%Q.
Proof. vm_compute. repeat split. Qed.

Print Assumptions C15_rsi_in_range.
Print Assumptions C15_willr_in_range.
Print Assumptions C15_stoch_k_in_range.
Print Assumptions C15_donchian_ordered_and_enclosing.
Print Assumptions C15_atr_nonneg.
Print Assumptions C15_var_nonneg.
Print Assumptions C15_sma_homogeneous.
Print Assumptions C15_ema_homogeneous.
Print Assumptions C15_wma_homogeneous.
Print Assumptions C15_trima_homogeneous.
Print Assumptions C15_wilders_homogeneous.
Print Assumptions C15_dema_homogeneous.
Print Assumptions C15_tema_homogeneous.
Print Assumptions C15_macd_homogeneous.
Print Assumptions C15_mfi_in_range.
Print Assumptions C15_keltner_ordered.
Print Assumptions C15_atr_homogeneous.
