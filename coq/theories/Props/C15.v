(* Props/C15.v — property C15: indicators match their definitions, ranges and orderings.
   Only property theorems (closed by `exact`) and Print Assumptions.  Model/Indicators.v holds the textbook definitions (exact
   rationals) in jesse's conventions; harness/c15.py evaluates them in Coq against jesse.indicators (that is the "agree with an
   independent straightforward implementation" clause).  The theorems below are the ranges and orderings, for every input. *)
From Coq Require Import ZArith QArith Qcanon List Bool Arith.
From JV Require Import Base.Num Model.CandleView Model.Indicators Proofs.IndicatorBounds.
Import ListNotations.
Local Open Scope Qc_scope.

Theorem C15_rsi_in_range : forall p xs, (0 < p)%nat -> Forall (in_range 0 (qofnat 100)) (rsi p xs).
Proof. exact rsi_in_range. Qed.
Theorem C15_willr_in_range : forall p xs, (0 < p)%nat -> Forall sane xs -> Forall (in_range (- qofnat 100) 0) (willr p xs).
Proof. exact willr_in_range. Qed.
Theorem C15_stoch_k_in_range : forall p xs, (0 < p)%nat -> Forall sane xs -> Forall (in_range 0 (qofnat 100)) (stoch_k p xs).
Proof. exact stoch_k_in_range. Qed.
(* bands are ordered and the channel encloses the price: for every non-empty window of candles with low <= close <= high *)
Theorem C15_donchian_ordered_and_enclosing : forall l : list kc, l <> [] -> Forall sane l ->
  ll l <= (hh l + ll l) / qofnat 2 /\ (hh l + ll l) / qofnat 2 <= hh l /\ forall k, In k l -> ll l <= k_l k /\ k_h k <= hh l.
Proof. exact donchian_ordered_and_enclosing. Qed.
(* volatility measures are non-negative *)
Theorem C15_atr_nonneg : forall p ks, (0 < p)%nat -> Forall sane ks -> Forall nonneg_opt (atr p ks).
Proof. exact atr_nonneg. Qed.
Theorem C15_var_nonneg : forall p xs, (0 < p)%nat -> Forall nonneg_opt (var p xs).
Proof. exact var_nonneg. Qed.
(* price-homogeneous averages scale linearly with price *)
Theorem C15_sma_homogeneous : forall c p xs, (0 < p)%nat -> sma p (map (Qcmult c) xs) = map (scale_opt c) (sma p xs).
Proof. exact sma_homogeneous. Qed.
Theorem C15_ema_homogeneous : forall c p xs, (0 < p)%nat -> ema p (map (Qcmult c) xs) = map (scale_opt c) (ema p xs).
Proof. exact ema_homogeneous. Qed.

Print Assumptions C15_rsi_in_range.
Print Assumptions C15_willr_in_range.
Print Assumptions C15_stoch_k_in_range.
Print Assumptions C15_donchian_ordered_and_enclosing.
Print Assumptions C15_atr_nonneg.
Print Assumptions C15_var_nonneg.
Print Assumptions C15_sma_homogeneous.
Print Assumptions C15_ema_homogeneous.
