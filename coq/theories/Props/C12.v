(* Props/C12.v — property C12: fast mode reproduces the normal simulation when fills are unambiguous.
   Only property theorems (closed by `exact`) and Print Assumptions.
   fix_jump, candle_includes_price, split_candle and the simulators' read lists, execution tests and chunk length are GENERATED from
   /repo; the per-minute matcher (Model/Match.v) and the fast chunk matcher (Model/FastMatch.v) are hand-written models tied to
   the code by correspondence (harness c02 / c12). *)
From Coq Require Import ZArith QArith Qcanon List Bool.
From JV Require Import Base.Num Gen.candle Gen.backtest Gen.simidx Spec.PathSpec Model.Match Model.FastMatch Proofs.FastProofs.
Import ListNotations.

(* (i) the fast matcher walks a chunk along its path candles (every minute normalised to start at the previous close, on copies);
   these are exactly the candles the normal simulator matches, minute by minute: the normalisation reads only the previous close
   and keeps the close, so normalising along normalised or along raw predecessors is the same *)
Theorem C12_path_candles_are_the_normal_simulators :
  forall ks : list cndl, norm_chain None ks = step_candles None ks.
Proof. intros ks. exact (path_candles_are_the_normal_simulators ks None None I). Qed.
Theorem C12_normalisation_reads_only_the_previous_close :
  forall p p' k : cndl, c_close p = c_close p' -> fix_jump QcNum p k = fix_jump QcNum p' k.
Proof. exact fix_jump_close_only. Qed.

(* (ii) the chunk length divides every route's timeframe (trading and data); then the fast simulator generates a higher-timeframe
   candle, and runs a route, exactly when the normal simulator does at the chunk's last minute, from exactly the same rows, and
   the normal simulator does neither strictly inside a chunk *)
Theorem C12_step_divides_every_timeframe : forall tfs x, In x tfs -> (candle_step tfs | x)%Z.
Proof. exact candle_step_divides. Qed.
Theorem C12_windows_coincide : forall i step count, fast_per_tf i step count = step_per_tf (i + step - 1) count.
Proof. exact fast_windows_are_step_windows. Qed.
Theorem C12_no_window_inside_chunk : forall i step count m, (0 < step)%Z -> (0 < count)%Z -> (step | count)%Z -> (step | i)%Z ->
  (i <= m)%Z -> (m < i + step - 1)%Z -> Forall (fun a : bool * Z * Z => fst (fst a) = false) (step_per_tf m count).
Proof. exact no_window_inside_chunk. Qed.
Theorem C12_executions_coincide : forall i step count, fast_executes i step count = step_executes (i + step - 1) count.
Proof. exact fast_executes_with_step. Qed.
Theorem C12_no_execution_inside_chunk : forall i step count m, (0 < step)%Z -> (0 < count)%Z -> (step | count)%Z -> (step | i)%Z ->
  (i <= m)%Z -> (m < i + step - 1)%Z -> step_executes m count = false.
Proof. exact no_execution_inside_chunk. Qed.

(* (iii) a chunk of valid minutes with at most one resting order inside the chunk's range, and a strategy layer whose reaction to
   a fill does not read the partial candle and places nothing inside the chunk's range (exits spaced wider than the trading
   candle): the fast matcher and the normal simulator (gap normalisation + per-minute matcher) fill the same order in the same
   minute and leave the same active orders *)
Theorem C12_single_candidate_chunk :
  forall (react : rorder -> cndl -> list rorder -> list rorder) fuel ks real w fl wf sl ws,
  (forall o a a' w0, react o a w0 = react o a' w0) ->
  (forall o a w0, hullset real w0 = [] -> hullset real (react o a w0) = []) ->
  Forall valid ks -> chunk_candle ks = Some real -> (length (hullset real w) <= 1)%nat ->
  fast_chunk react (S (S fuel)) ks w = FDone fl wf ->
  step_chunk react (S (S fuel)) None 0 ks w [] = Some (sl, ws) ->
  ids fl = ids sl /\ wf = ws.
Proof. exact single_candidate_chunk. Qed.

(* non-vacuity: a gapped three-minute chunk, one order inside, a reaction that places an exit far away *)
Example C12_chunk_exists :
  let z := QcI.qofZ in
  let ks := [ mkC (N := QcNum) (z 1%Z) (z 100%Z) (z 102%Z) (z 103%Z) (z 99%Z) (z 1%Z); mkC (N := QcNum) (z 2%Z) (z 104%Z) (z 103%Z) (z 105%Z) (z 102%Z) (z 1%Z);
              mkC (N := QcNum) (z 3%Z) (z 101%Z) (z 106%Z) (z 107%Z) (z 101%Z) (z 1%Z) ] in
  let w := [ {| oid := 1%nat; oprice := z 106%Z |}; {| oid := 2%nat; oprice := z 80%Z |} ] in
  let react := fun (o : rorder) (_ : cndl) (w : list rorder) => {| oid := 9%nat; oprice := z 150%Z |} :: w in
  match fast_chunk react 5%nat ks w, step_chunk react 5%nat None 0%nat ks w [] with
  | FDone fl wf, Some (sl, ws) => ids fl = [(1, 2)]%nat /\ ids sl = [(1, 2)]%nat /\ wf = ws
  | _, _ => False
  end.
Proof. vm_compute. repeat split; reflexivity. Qed.

Print Assumptions C12_path_candles_are_the_normal_simulators.
Print Assumptions C12_normalisation_reads_only_the_previous_close.
Print Assumptions C12_step_divides_every_timeframe.
Print Assumptions C12_windows_coincide.
Print Assumptions C12_no_window_inside_chunk.
Print Assumptions C12_executions_coincide.
Print Assumptions C12_no_execution_inside_chunk.
Print Assumptions C12_single_candidate_chunk.
