(* Props/C04.v — property C04: spot balances equal a cash-account model; no overspending or overselling.
   Model/Spot.v (hand-written: SpotExchange + Order + Position spot rules) refines Spec/RefSpot.v. *)
From Coq Require Import ZArith QArith Qcanon List Bool.
From JV Require Import Base.Num Model.Spot Spec.RefSpot Proofs.SpotProofs.
Import ListNotations.
Local Open Scope Qc_scope.

(* For every starting balance, fee rate in [0,1) and every well-formed history (fresh ids, positive quantities and
   prices, buys not reduce-only, sells executed only while covered by the base held; a rejected submission ends the
   history): the accounting model takes the same accept/reject decisions as the reference cash account, shows the same
   quote and base balances, neither ever negative, the position equals the base balance, and the cached resting-sell
   totals equal the totals of the active sell orders — after any number of cancellations. *)
Theorem C04_spot_account_refines :
  forall b f ops, 0 <= b -> 0 <= f -> f < 1 -> wf (ref_init b f) ops -> wf_orders ops ->
  let '(s, rs) := run (init b f) ops in let '(r, rs') := ref_run (ref_init b f) ops in
  rs = rs' /\
  (ok_end rs = true ->
     quote s = r_quote r /\ base s = r_base r /\ 0 <= quote s /\ 0 <= base s /\ pqty s = base s /\
     limit_sum s = resting Limit (r_orders r) /\ stop_sum s = resting Stop (r_orders r)).
Proof. exact spot_account_refines. Qed.

(* Outside well-formed histories the statement is FALSE for the code as it is (known finding F17): a stop sell that is
   executed after the base has been sold through a limit sell opens a short position in spot. *)
Theorem C04_uncovered_sell_refuted :
  exists ops, let '(s, rs) := run (init (q1 10000) 0) ops in
    ok_end rs = true /\ base s = 0 /\ QcI.qltb (pqty s) 0 = true.
Proof.
  exists [Submit {| o_id := 1; o_side := Buy; o_typ := Market; o_qty := q1 10; o_price := q1 100; o_ro := false; o_status := Active |};
          Execute 1;
          Submit {| o_id := 2; o_side := Sell; o_typ := Limit; o_qty := q1 10; o_price := q1 110; o_ro := true; o_status := Active |};
          Submit {| o_id := 3; o_side := Sell; o_typ := Stop; o_qty := q1 10; o_price := q1 90; o_ro := false; o_status := Active |};
          Execute 2; Execute 3].
  vm_compute. repeat split; reflexivity.
Qed.

(* non-vacuity: a well-formed history with a cancellation and a later sell that is only accepted because of it *)
Example C04_wf_example :
  let ops := [Submit {| o_id := 1; o_side := Buy; o_typ := Market; o_qty := q1 10; o_price := q1 100; o_ro := false; o_status := Active |};
              Execute 1;
              Submit {| o_id := 2; o_side := Sell; o_typ := Limit; o_qty := q1 4; o_price := q1 110; o_ro := true; o_status := Active |};
              Cancel 2;
              Submit {| o_id := 3; o_side := Sell; o_typ := Limit; o_qty := q1 10; o_price := q1 120; o_ro := true; o_status := Active |};
              Submit {| o_id := 4; o_side := Sell; o_typ := Limit; o_qty := q1 1; o_price := q1 120; o_ro := true; o_status := Active |}] in
  snd (run (init (q1 10000) 0) ops) = [Accepted; Done; Accepted; Done; Accepted; Rejected].
Proof. vm_compute. reflexivity. Qed.

Print Assumptions C04_spot_account_refines.
Print Assumptions C04_uncovered_sell_refuted.
