(* Props/C06.v — property C06: position events and the trade log are a faithful record of the fills.
   Only property theorems (closed by `exact`) and Print Assumptions.  Model/Trades.v (hand-written, exact rationals) is tied to
   Order.execute / Position._on_executed_order / ClosedTrades / Strategy._on_updated_position by harness/c06.py.
   A fill sequence is REGULAR when every fill opens a flat position or increases it (not reduce-only), or reduces / closes it by
   at most its size.  The full property (all fill sequences) is FALSE of the faithful model: see the two refutations. *)
From Coq Require Import ZArith QArith Qcanon List Bool.
From JV Require Import Base.Num Model.Trades Proofs.TradesProofs.
Import ListNotations.
Local Open Scope Qc_scope.

(* (i) the hooks form well-formed cycles: open, then increases and reductions, then close; the grammar ends "open" exactly when
   the position is open *)
Theorem C06_hooks_form_cycles :
  forall fee bal fs, all_regular fee (tinit bal) fs = true ->
  fold_left gstep (map fst (ts_hooks (trun fee bal fs))) (Some false) = Some (negb (QcI.qeqb (ts_qty (trun fee bal fs)) 0)).
Proof. exact hooks_form_cycles. Qed.

(* (ii) every fill fires exactly one hook - the one that matches the sizes before and after the fill - and the strategy sees
   the size the fills imply (the running sum of the signed quantities) *)
Theorem C06_hook_reports_size :
  forall fee bal fs, all_regular fee (tinit bal) fs = true -> ts_hooks (trun fee bal fs) = hook_trace 0 fs.
Proof. exact hooks_are_the_trace. Qed.

(* (iii) exactly one closed trade per cycle, made of that cycle's fills in order (typed by the first fill), and the trade being
   built holds the fills of the cycle still open *)
Theorem C06_trades_are_the_cycles :
  forall fee bal fs, all_regular fee (tinit bal) fs = true ->
  ts_closed (trun fee bal fs) = map tr (fst (cycles 0 [] fs)) /\ ts_cur (trun fee bal fs) = tr (snd (cycles 0 [] fs)).
Proof. exact trades_are_the_cycles. Qed.

(* (iv) the wallet has moved by exactly the net PnL (profit minus fees, as ClosedTrade.pnl computes it) of the closed trades
   plus the realised part and the fees of the cycle still open; when flat, by exactly the net PnL of the closed trades *)
Theorem C06_wallet_identity :
  forall fee bal fs, all_regular fee (tinit bal) fs = true ->
  let s := trun fee bal fs in ts_wallet s = bal + sum_pnl fee (ts_closed s) + open_part fee s.
Proof. exact wallet_identity. Qed.
Theorem C06_wallet_identity_flat :
  forall fee bal fs, all_regular fee (tinit bal) fs = true ->
  let s := trun fee bal fs in ts_qty s = 0 -> ts_wallet s = bal + sum_pnl fee (ts_closed s).
Proof. exact wallet_identity_flat. Qed.

(* (iv') several symbols, one wallet: whatever the interleaving of the (regular) fills of the symbols, the wallet has moved by the sum
   over the symbols of the net PnL of their closed trades and of their open cycles' parts: the net PnL of ALL closed trades equals
   the change of the wallet balance whenever every position is flat *)
Theorem C06_multi_symbol_wallet_identity :
  forall fee bal k (l : list (nat * fill)),
  let m0 := {| m_wallet := bal; m_syms := repeat (tinit bal) k |} in
  all_mregular fee m0 l = true ->
  let m := fold_left (mstep fee) l m0 in m_wallet m = bal + total_contribution fee (m_syms m).
Proof. exact multi_symbol_session. Qed.

(* (v) REFUTED outside the regular fills: a reduce-only exit larger than the position (full-size stop after a partial
   take-profit) and a flip both end flat with a wallet that differs from start + net PnL of the closed trades; the flip also
   fires open, open, close *)
Theorem C06_oversize_reduce_only_refuted :
  let s := trun (Q2Qc (1 # 1000)) (zq 10000) oversize_witness in
  ts_qty s = 0 /\ ts_wallet s <> zq 10000 + sum_pnl (Q2Qc (1 # 1000)) (ts_closed s).
Proof. exact oversize_reduce_only_refuted. Qed.
Theorem C06_flip_refuted :
  let s := trun 0 (zq 10000) flip_witness in
  ts_qty s = 0 /\ map fst (ts_hooks s) = [HOpen; HOpen; HClose] /\ ts_wallet s <> zq 10000 + sum_pnl 0 (ts_closed s).
Proof. exact flip_refuted. Qed.

(* non-vacuity: a regular sequence with a scale-in, a partial exit and a close, then a short cycle *)
Example C06_regular_exists :
  let fs := [ {| fl_sq := zq 2; fl_price := zq 100; fl_ro := false |}; {| fl_sq := zq 1; fl_price := zq 103; fl_ro := false |};
              {| fl_sq := - zq 1; fl_price := zq 105; fl_ro := true |}; {| fl_sq := - zq 2; fl_price := zq 99; fl_ro := true |};
              {| fl_sq := - zq 4; fl_price := zq 90; fl_ro := false |}; {| fl_sq := zq 4; fl_price := zq 80; fl_ro := true |} ] in
  all_regular (Q2Qc (1 # 1000)) (tinit (zq 10000)) fs = true /\ length (ts_closed (trun (Q2Qc (1 # 1000)) (zq 10000) fs)) = 2%nat.
Proof. vm_compute. split; reflexivity. Qed.

Print Assumptions C06_hooks_form_cycles.
Print Assumptions C06_hook_reports_size.
Print Assumptions C06_trades_are_the_cycles.
Print Assumptions C06_wallet_identity.
Print Assumptions C06_wallet_identity_flat.
Print Assumptions C06_multi_symbol_wallet_identity.
Print Assumptions C06_oversize_reduce_only_refuted.
Print Assumptions C06_flip_refuted.
