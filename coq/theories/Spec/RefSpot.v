(* Spec/RefSpot.v — the reference cash account of C04: free quote balance, base balance and the set of orders.
   Everything is derived from the order list; nothing is cached. *)
From Coq Require Import ZArith QArith Qcanon List Bool.
From JV Require Import Base.Num Model.Spot.
Import ListNotations.
Local Open Scope Qc_scope.
Import QcI.

(* total quantity of the active (resting) sell orders of one kind *)
Fixpoint resting (k : otype) (os : list order) : Qc :=
  match os with
  | [] => 0
  | o :: r => if is_sell o && typ_eqb (o_typ o) k && negb (is_final o) then o_qty o + resting k r else resting k r
  end.

Record ref := { r_quote : Qc; r_base : Qc; r_fee : Qc; r_orders : list order }.

Definition ref_submit (s : ref) (o : order) : ref * result :=
  match o_side o with
  | Buy =>
      (* rejected exactly when the buy exceeds the free quote balance *)
      if qltb (r_quote s) (o_qty o * o_price o) then (s, Rejected)
      else ({| r_quote := r_quote s - o_qty o * o_price o; r_base := r_base s; r_fee := r_fee s;
               r_orders := r_orders s ++ [set_status o Active] |}, Accepted)
  | Sell =>
      (* rejected exactly when the sell plus the resting sells of its kind (limit sells for a market sell) exceeds the base held *)
      let others := match o_typ o with Market => resting Limit (r_orders s) | Stop => resting Stop (r_orders s) | Limit => resting Limit (r_orders s) end in
      if qltb (r_base s) (o_qty o + others) then (s, Rejected)
      else ({| r_quote := r_quote s; r_base := r_base s; r_fee := r_fee s; r_orders := r_orders s ++ [set_status o Active] |}, Accepted)
  end.

Definition ref_execute (s : ref) (id : nat) : ref :=
  match find_order (r_orders s) id with
  | None => s
  | Some o =>
      if is_final o then s
      else
        let os := replace_order (r_orders s) (set_status o Executed) in
        match o_side o with
        | Buy => {| r_quote := r_quote s; r_base := r_base s + o_qty o * (1 - r_fee s); r_fee := r_fee s; r_orders := os |}
        | Sell => {| r_quote := r_quote s + o_qty o * o_price o * (1 - r_fee s); r_base := r_base s - o_qty o; r_fee := r_fee s; r_orders := os |}
        end
  end.

Definition ref_cancel (s : ref) (id : nat) : ref :=
  match find_order (r_orders s) id with
  | None => s
  | Some o =>
      if is_final o then s
      else
        let os := replace_order (r_orders s) (set_status o Canceled) in
        match o_side o with
        | Buy => {| r_quote := r_quote s + o_qty o * o_price o; r_base := r_base s; r_fee := r_fee s; r_orders := os |}
        | Sell => {| r_quote := r_quote s; r_base := r_base s; r_fee := r_fee s; r_orders := os |}
        end
  end.

Fixpoint ref_run (s : ref) (ops : list op) : ref * list result :=
  match ops with
  | [] => (s, [])
  | Submit o :: r =>
      let '(s', res) := ref_submit s o in
      match res with
      | Rejected => (s', [Rejected])
      | _ => let '(s'', rs) := ref_run s' r in (s'', res :: rs)
      end
  | Execute id :: r => let '(s'', rs) := ref_run (ref_execute s id) r in (s'', Done :: rs)
  | Cancel id :: r => let '(s'', rs) := ref_run (ref_cancel s id) r in (s'', Done :: rs)
  end.

Definition ref_init (balance fee_rate : Qc) : ref := {| r_quote := balance; r_base := 0; r_fee := fee_rate; r_orders := [] |}.

(* well-formed histories: new orders carry fresh ids, positive quantity and price; a sell is executed only while it
   is still covered by the base balance (the strategy layer cancels everything resting when the position closes) *)
Fixpoint wf (s : ref) (ops : list op) : Prop :=
  match ops with
  | [] => True
  | Submit o :: r =>
      find_order (r_orders s) (o_id o) = None /\ 0 < o_qty o /\ 0 < o_price o /\
      match ref_submit s o with (s', Rejected) => True | (s', _) => wf s' r end
  | Execute id :: r =>
      (forall o, find_order (r_orders s) id = Some o -> is_final o = false -> is_sell o = true -> o_qty o <= r_base s) /\
      wf (ref_execute s id) r
  | Cancel id :: r => wf (ref_cancel s id) r
  end.
