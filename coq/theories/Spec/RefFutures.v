(* Spec/RefFutures.v — the reference average-cost margin account of C03.  Nothing is cached: the margin used by
   resting orders is computed from the order list; a fill is decomposed into a closing part (realises PnL against
   the average entry) and an opening part (moves the average entry). *)
From Coq Require Import ZArith QArith Qcanon List Bool.
From JV Require Import Base.Num Model.Spot Model.Futures.
Import ListNotations.
Local Open Scope Qc_scope.
Import QcI.

Record rfut := { rw : Qc; rlev : Qc; rfee : Qc; rn : nat; rpos : nat -> fpos; rorders : list forder }.

Definition side_eqb (a b : side) : bool := match a, b with Buy, Buy | Sell, Sell => true | _, _ => false end.

(* notional (qty x price) of the resting non-reduce-only orders of one side of one symbol *)
Fixpoint resting_notional (sd : side) (sym : nat) (os : list forder) : Qc :=
  match os with
  | [] => 0
  | o :: r => if negb (f_final o) && negb (f_ro o) && side_eqb (f_side o) sd && Nat.eqb (f_sym o) sym
              then f_qty o * f_price o + resting_notional sd sym r else resting_notional sd sym r
  end.

Definition qmaxr (a b : Qc) : Qc := if qleb a b then b else a.
Definition qminr (a b : Qc) : Qc := if qleb a b then a else b.

(* unrealised PnL of an average-cost position: size x (mark - entry), negative size = short *)
Definition upnl (p : fpos) : Qc := p_qty p * (p_cur p - p_entry p).

Definition rspent_on (s : rfut) (i : nat) : Qc :=
  let p := rpos s i in
  (if qeqb (p_qty p) 0 then 0 else qabs (p_qty p) * p_entry p / rlev s - upnl p)
  + qmaxr (resting_notional Buy i (rorders s)) (resting_notional Sell i (rorders s)) / rlev s.
Fixpoint rspent (s : rfut) (n : nat) : Qc := match n with O => 0 | S m => rspent s m + rspent_on s m end.
Definition ravail (s : rfut) : Qc := rw s - rspent s (rn s).

Definition sgn (x : Qc) : Qc := if qltb x 0 then - (1) else if qltb 0 x then 1 else 0.

(* one fill (signed quantity sq at price) on an average-cost position *)
Definition ref_fill (p : fpos) (sq price : Qc) (ro : bool) : fpos * Qc :=
  let size := p_qty p in
  (* a reduce-only fill never increases and never flips *)
  let sqe := if ro then (if qltb (size * sq) 0 then sgn sq * qminr (qabs sq) (qabs size) else 0) else sq in
  let closing := if qltb (size * sqe) 0 then qminr (qabs sqe) (qabs size) else 0 in
  let realised := closing * (price - p_entry p) * sgn size in
  let size' := size + sqe in
  let entry' := if qeqb size 0 then price
                else if qltb 0 (size * sqe) then (qabs size * p_entry p + qabs sqe * price) / (qabs size + qabs sqe)
                else if qltb (qabs size) (qabs sqe) then price else p_entry p in
  ({| p_qty := size'; p_entry := entry'; p_cur := p_cur p |}, realised).

Definition rsubmit (s : rfut) (o : forder) : rfut * result :=
  (* rejected exactly when the notional divided by the leverage exceeds the available margin (never for reduce-only) *)
  if negb (f_ro o) && qltb (ravail s) (f_qty o * f_price o / rlev s) then (s, Rejected)
  else ({| rw := rw s; rlev := rlev s; rfee := rfee s; rn := rn s; rpos := rpos s;
           rorders := rorders s ++ [fset_status o Active] |}, Accepted).

Definition rexecute (s : rfut) (id : nat) : rfut :=
  match ffind (rorders s) id with
  | None => s
  | Some o =>
      if f_final o then s
      else
        let '(p', pnl) := ref_fill (rpos s (f_sym o)) (signed o) (f_price o) (f_ro o) in
        {| rw := rw s - f_qty o * f_price o * rfee s + pnl; rlev := rlev s; rfee := rfee s; rn := rn s;
           rpos := upd (rpos s) (f_sym o) p'; rorders := freplace (rorders s) (fset_status o Executed) |}
  end.

Definition rcancel (s : rfut) (id : nat) : rfut :=
  match ffind (rorders s) id with
  | None => s
  | Some o =>
      if f_final o then s
      else {| rw := rw s; rlev := rlev s; rfee := rfee s; rn := rn s; rpos := rpos s;
              rorders := freplace (rorders s) (fset_status o Canceled) |}
  end.

Definition rprice (s : rfut) (sym : nat) (price : Qc) : rfut :=
  let p := rpos s sym in
  {| rw := rw s; rlev := rlev s; rfee := rfee s; rn := rn s;
     rpos := upd (rpos s) sym {| p_qty := p_qty p; p_entry := p_entry p; p_cur := price |}; rorders := rorders s |}.

Definition rstep (s : rfut) (o : fop) : rfut * result :=
  match o with
  | FSubmit x => rsubmit s x
  | FExecute id => (rexecute s id, Done)
  | FCancel id => (rcancel s id, Done)
  | FPrice sym p => (rprice s sym p, Done)
  end.

Fixpoint rrun (s : rfut) (ops : list fop) : rfut * list result :=
  match ops with
  | [] => (s, [])
  | o :: r => let '(s', res) := rstep s o in
              match res with Rejected => (s', [Rejected]) | _ => let '(s'', rs) := rrun s' r in (s'', res :: rs) end
  end.

Definition rinit (balance leverage fee_rate : Qc) (n : nat) (price0 : Qc) : rfut :=
  {| rw := balance; rlev := leverage; rfee := fee_rate; rn := n;
     rpos := fun _ => {| p_qty := 0; p_entry := 0; p_cur := price0 |}; rorders := [] |}.

(* legal histories (the quantifier of C03): fresh ids, positive quantities and prices, known symbols, and a
   reduce-only order is executed only against an open position *)
Fixpoint fwf (s : rfut) (ops : list fop) : Prop :=
  match ops with
  | [] => True
  | FSubmit o :: r =>
      ffind (rorders s) (f_id o) = None /\ 0 < f_qty o /\ 0 < f_price o /\ (f_sym o < rn s)%nat /\
      match rsubmit s o with (s', Rejected) => True | (s', _) => fwf s' r end
  | FExecute id :: r =>
      (forall o, ffind (rorders s) id = Some o -> f_final o = false -> f_ro o = true -> p_qty (rpos s (f_sym o)) <> 0) /\
      fwf (rexecute s id) r
  | FCancel id :: r => fwf (rcancel s id) r
  | FPrice sym p :: r => 0 < p /\ fwf (rprice s sym p) r
  end.
