(* Spec/ListSpec.v — the abstract object of C18: a plain Python list of rows.
   Python semantics of list[i], list[a:b] (slice.indices normalisation, step 1),
   item / equal-length slice assignment, append, extend, del l[i], clear,
   plus the optional drop-oldest limit. *)
From Coq Require Import ZArith List Bool Lia.
Import ListNotations.
Local Open Scope Z_scope.

Section ListSpec.
Context {A : Type}.

Definition zlen (l : list A) : Z := Z.of_nat (length l).

(* operations of the array API; bounds of slices are optional as in Python *)
Inductive op :=
| Len
| GetI (i : Z)
| GetS (lo hi : option Z)
| SetI (i : Z) (r : A)
| SetS (lo hi : option Z) (rs : list A)
| Append (r : A)
| AppendMany (rs : list A)
| Delete (i : Z)
| Flush
| Last
| Past (k : Z).

Inductive out :=
| ONone                (* the call returns nothing *)
| OLen (n : Z)
| ORow (r : A)
| ORows (rs : list A).

(* Python: normalise a slice bound against a length (slice.indices, step 1) *)
Definition norm_bound (len : Z) (b : Z) : Z :=
  if b <? 0 then Z.max 0 (len + b) else Z.min len b.

Definition slice_lo (len : Z) (lo : option Z) : Z :=
  match lo with None => 0 | Some b => norm_bound len b end.
Definition slice_hi (len : Z) (hi : option Z) : Z :=
  match hi with None => len | Some b => norm_bound len b end.

Definition py_slice (l : list A) (lo hi : option Z) : list A :=
  let s := slice_lo (zlen l) lo in
  let e := slice_hi (zlen l) hi in
  skipn (Z.to_nat s) (firstn (Z.to_nat e) l).

(* number of positions selected by l[lo:hi] *)
Definition slice_len (l : list A) (lo hi : option Z) : Z :=
  Z.max 0 (slice_hi (zlen l) hi - slice_lo (zlen l) lo).

Definition py_index (len i : Z) : Z := if i <? 0 then len + i else i.

Definition upd (l : list A) (n : nat) (x : A) : list A :=
  firstn n l ++ x :: skipn (S n) l.
Definition upd_range (l : list A) (n : nat) (xs : list A) : list A :=
  firstn n l ++ xs ++ skipn (n + length xs) l.
Definition remove_nth (l : list A) (n : nat) : list A :=
  firstn n l ++ skipn (S n) l.

(* drop-oldest: after growing to a non-trivial multiple of d, drop the oldest d/2 rows *)
Definition drop_rule (drop_at : option Z) (l : list A) : list A :=
  match drop_at with
  | None => l
  | Some d =>
      if (negb (zlen l =? 1)) && (zlen l mod d =? 0)
      then skipn (Z.to_nat (d / 2)) l else l
  end.

(* validity of an operation on the list (Python would not raise) *)
Definition valid_op (l : list A) (o : op) : bool :=
  let n := zlen l in
  match o with
  | Len | GetS _ _ | Append _ | AppendMany _ | Flush => true
  | GetI i | SetI i _ | Delete i => (- n <=? i) && (i <? n)
  | SetS lo hi rs => zlen rs =? slice_len l lo hi
  | Last => 0 <? n
  | Past k => (0 <=? k) && (k <? n)
  end.

Definition lstep (dflt : A) (drop_at : option Z) (l : list A) (o : op) : list A * out :=
  let n := zlen l in
  match o with
  | Len => (l, OLen n)
  | GetI i => (l, ORow (nth (Z.to_nat (py_index n i)) l dflt))
  | GetS lo hi => (l, ORows (py_slice l lo hi))
  | SetI i r => (upd l (Z.to_nat (py_index n i)) r, ONone)
  | SetS lo hi rs => (upd_range l (Z.to_nat (slice_lo n lo)) rs, ONone)
  | Append r => (drop_rule drop_at (l ++ [r]), ONone)
  | AppendMany rs => (drop_rule drop_at (l ++ rs), ONone)
  | Delete i => (remove_nth l (Z.to_nat (py_index n i)), ONone)
  | Flush => ([], ONone)
  | Last => (l, ORow (last l dflt))
  | Past k => (l, ORow (nth (Z.to_nat (n - 1 - k)) l dflt))
  end.

(* a whole history: stops being meaningful at the first invalid op, so validity is
   a predicate on the history *)
Fixpoint valid_run (dflt : A) (drop_at : option Z) (l : list A) (ops : list op) : bool :=
  match ops with
  | [] => true
  | o :: r => valid_op l o && valid_run dflt drop_at (fst (lstep dflt drop_at l o)) r
  end.

Fixpoint lrun (dflt : A) (drop_at : option Z) (l : list A) (ops : list op) : list out :=
  match ops with
  | [] => []
  | o :: r => let '(l', x) := lstep dflt drop_at l o in x :: lrun dflt drop_at l' r
  end.

End ListSpec.
Arguments op : clear implicits.
Arguments out : clear implicits.
