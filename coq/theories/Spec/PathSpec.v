(* Spec/PathSpec.v — the continuous intra-minute price path of C08 (exact rationals).
   A rising candle (close >= open) is walked open -> low -> high -> close, a falling one
   open -> high -> low -> close. *)
From Coq Require Import ZArith QArith Qcanon List Bool.
From JV Require Import Base.Num.
Import ListNotations.
Local Open Scope Qc_scope.
Import QcI.

Notation cndl := (candle QcNum).

Definition valid (k : cndl) : Prop :=
  c_low k <= c_open k /\ c_low k <= c_close k /\ c_open k <= c_high k /\ c_close k <= c_high k.

Definition path (k : cndl) : list Qc :=
  if qleb (c_open k) (c_close k) then [c_open k; c_low k; c_high k; c_close k]
  else [c_open k; c_high k; c_low k; c_close k].

Definition between (x p y : Qc) : bool := (qleb x p && qleb p y) || (qleb y p && qleb p x).

(* the rest of a way-point list from the first moment the price p is touched *)
Fixpoint cut (ws : list Qc) (p : Qc) : option (list Qc) :=
  match ws with
  | x :: ((y :: _) as rest) => if between x p y then Some (p :: rest) else cut rest p
  | _ => None
  end.

(* the way-points walked until p is first touched (p included) *)
Fixpoint upto (ws : list Qc) (p : Qc) : list Qc :=
  match ws with
  | x :: ((y :: _) as rest) => if between x p y then [x; p] else x :: upto rest p
  | _ => ws
  end.

(* zero-length legs do not matter *)
Fixpoint dedup (ws : list Qc) : list Qc :=
  match ws with
  | x :: ((y :: _) as rest) => if qeqb x y then dedup rest else x :: dedup rest
  | _ => ws
  end.

Definition qmax (a b : Qc) := if qleb a b then b else a.
Definition qmin (a b : Qc) := if qleb a b then a else b.
Definition lmax (d : Qc) (l : list Qc) := fold_left qmax l d.
Definition lmin (d : Qc) (l : list Qc) := fold_left qmin l d.

(* distance travelled along the way-points until p is first touched *)
Fixpoint touch_dist (ws : list Qc) (p : Qc) : option Qc :=
  match ws with
  | x :: ((y :: _) as rest) =>
      if between x p y then Some (qabs (p - x))
      else match touch_dist rest p with Some d => Some (qabs (y - x) + d) | None => None end
  | _ => None
  end.

(* a sequence of prices is met in this order when walking the way-points *)
Fixpoint along (ws : list Qc) (ps : list Qc) : Prop :=
  match ps with
  | [] => True
  | p :: r => exists ws', cut ws p = Some ws' /\ along ws' r
  end.
