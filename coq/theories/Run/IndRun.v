(* Run/IndRun.v — entry points for harness/ind.py: a model series (exact rationals) against the implementation's series (binary64
   values read as rationals), within a relative tolerance; None = NaN *)
From Coq Require Import ZArith QArith Qcanon List Bool Arith.
From JV Require Import Base.Num Model.CandleView Model.Indicators Run.Harness.
Import ListNotations.
Import QcI.
Local Open Scope Qc_scope.

Definition q (n d : Z) : Qc := Q2Qc (Qmake n (Z.to_pos d)).
Definition mk (t : Z) (o c h l v : Qc) : kc := {| k_ts := t; k_o := o; k_c := c; k_h := h; k_l := l; k_v := v |}.
Definition tol : Qc := q 1 100000000.
(* |model - impl| <= tol * (scale + |impl|) *)
Definition close (scale a b : Qc) : bool := qleb (qabs (a - b)) (tol * (scale + qabs b)).
Definition series_close (scale : Qc) (m i : series) : bool :=
  list_eqb (fun a b => match a, b with None, None => true | Some x, Some y => close scale x y | _, _ => false end) m i.
(* warm-up and division-by-zero conventions differ (the implementation yields NaN/inf where the range is empty): compare where both are defined *)
Definition series_close_where_defined (scale : Qc) (m i : series) : bool :=
  Nat.eqb (length m) (length i) &&
  forallb (fun ab => match fst ab, snd ab with Some x, Some y => close scale x y | _, _ => true end) (combine m i).
Definition some (l : list Qc) : series := map Some l.
