(* Run/C05Run.v — entry points for harness/c05.py *)
From Coq Require Import List Bool Arith.
From JV Require Import Model.Lifecycle Run.Harness.
Import ListNotations.

Definition st_code (s : st) : nat := match s with Active => 0 | Executed => 1 | Canceled => 2 end.
(* observation of the whole registry: status codes by id, storage, active, to_execute, current trade, closed trades, position open *)
Definition snap := (list nat * list nat * list nat * list nat * list nat * list (list nat) * bool)%type.
Definition observe (w : world) : snap :=
  (map (fun p => st_code (snd p)) (statuses w), storage w, active w, to_exec w, temp w, trades w, pos_open w).
Definition nl_eqb := list_eqb Nat.eqb.
Definition snap_eqb (a b : snap) : bool :=
  let '(a1, a2, a3, a4, a5, a6, a7) := a in let '(b1, b2, b3, b4, b5, b6, b7) := b in
  nl_eqb a1 b1 && nl_eqb a2 b2 && nl_eqb a3 b3 && nl_eqb a4 b4 && nl_eqb a5 b5 && list_eqb nl_eqb a6 b6 && Bool.eqb a7 b7.
Fixpoint ltrace (w : world) (ops : list lop) : list snap :=
  match ops with [] => [] | o :: r => let w' := lstep w o in observe w' :: ltrace w' r end.
Definition lcase := (list lop * list snap)%type.
Definition model_agrees (c : lcase) : bool := let '(ops, obs) := c in list_eqb snap_eqb (ltrace linit ops) obs.
