(* Run/C17Run.v — entry points for harness/c17.py *)
From Coq Require Import ZArith QArith Qcanon List Bool String PrimFloat.
From JV Require Import Base.Num Gen.helpers Gen.utils Gen.timeframes Model.Rounding Proofs.TimeframeProofs Run.Harness Run.KernelRun.
Import ListNotations.
Import QcI.

(* rounding models at binary64 against numpy *)
Definition rdd_same (x : float) (d : Z) (r : float) : bool := fsame (round_decimals_down FNum x d) r.
Definition rql_same (x : float) (d : Z) (r : Res float) : bool := res_same fsame (round_qty_for_live_mode FNum x d) r.

(* timeframe model against the running functions *)
Definition tf_same (l : list string) (r : string) : bool := String.eqb (max_timeframe l) r.
Definition minutes_same (t : string) (u b : Z) : bool :=
  match lookup tf_minutes_utils t, lookup tf_minutes_bt t with Some x, Some y => Z.eqb x u && Z.eqb y b | _, _ => false end.
Definition anchor_same (t r : string) : bool := match lookup anchor_table t with Some x => String.eqb x r | None => false end.

(* exact-arithmetic monitors on the implementation's outputs (doubles taken as the rationals they are).
   bit 1: costs more than the capital incl. fees; bit 2: above the exact quotient (rounded up);
   bit 4: more than one precision step below the exact quotient *)
Local Open Scope Qc_scope.
Definition q (n d : Z) : Qc := Q2Qc (Qmake n (Z.to_pos d)).
Definition net (cap fee : Qc) : Qc := if qeqb fee 0 then cap else cap * (1 - fee * (1+1+1)).
Definition size_monitor (cap price fee : Qc) (prec : Z) (out : Qc) : nat :=
  (if qleb (out * price * (1 + fee)) cap then 0 else 1) +
  (if qleb (out * price) (net cap fee) then 0 else 2) +
  (if qltb (net cap fee - price * / qofZ (10 ^ prec)) (out * price) then 0 else 4).
(* bit 1: risks more than the requested share; bit 2: costs more than the capital *)
Definition risk_monitor (cap risk entry stop fee : Qc) (out : Qc) : nat :=
  (if qleb (out * qabs (entry - stop) * qofZ 100) (risk * cap) then 0 else 1) +
  (if qleb (out * entry * (1 + fee)) cap then 0 else 2).
(* bit 1: on the wrong side / farther than the given stop; bit 2: farther than the allowed percentage *)
Definition lsl_monitor (entry stop maxp : Qc) (long : bool) (out : Qc) : nat :=
  let dist := if long then entry - out else out - entry in
  (if qleb 0 dist && qleb dist (qabs (entry - stop)) then 0 else 1) +
  (if qleb (dist * qofZ 100) (entry * maxp) then 0 else 2).
(* bit 1: rounded up although the result is not the minimum unit *)
Definition rql_monitor (x : Qc) (p : Z) (out : Qc) : nat :=
  if qleb out x then 0 else if qeqb (out * qofZ (10 ^ p)) 1 then 0 else 1.
