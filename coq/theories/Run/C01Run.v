(* Run/C01Run.v — entry points for harness/c01.py: the reads of the input arrays predicted by the GENERATED access lists
   (Gen/simidx.v) over a whole run, compared as multisets with the reads recorded on the real arrays. *)
From Coq Require Import ZArith List Bool Arith.
From JV Require Import Gen.simidx Run.Harness.
Import ListNotations.
Local Open Scope Z_scope.

Definition live (l : list (bool * Z * Z)) : list (Z * Z) := flat_map (fun a : bool * Z * Z => let '(g, lo, hi) := a in if g then [(lo, hi)] else []) l.

(* normal simulator, `len` minutes, timeframes `counts` (1m excluded), for the first symbol or another one *)
Definition predicted_step (len : nat) (counts : list Z) (first : bool) : list (Z * Z) :=
  (if first then live prep_first else []) ++ flat_map (fun n => let i := Z.of_nat n in
              live ((if first then step_first i else []) ++ step_once i) ++ flat_map (fun c => live (step_per_tf i c)) counts) (seq 0 len).

(* fast simulator: chunks i = 0, step, 2 step, ... with current_step = min(step, len - i) *)
Definition predicted_fast (len : nat) (step : Z) (counts : list Z) (first : bool) : list (Z * Z) :=
  (if first then live prep_first else []) ++ flat_map (fun n => let i := Z.of_nat n * step in let cur := Z.min step (Z.of_nat len - i) in
              if i <? Z.of_nat len then live (fast_once i cur) ++ flat_map (fun c => live (fast_per_tf i cur c)) counts else [])
           (seq 0 (S (len / Z.to_nat step))).

Definition peqb (a b : Z * Z) : bool := Z.eqb (fst a) (fst b) && Z.eqb (snd a) (snd b).
Definition occ (a : Z * Z) (l : list (Z * Z)) : nat := length (filter (peqb a) l).
Definition same_multiset (p q : list (Z * Z)) : bool := forallb (fun a => Nat.eqb (occ a p) (occ a q)) (p ++ q).

(* mode: None = normal, Some step = fast; actual = the recorded (lo, hi) reads of one input array *)
Definition access_case := (option Z * nat * list Z * bool * list (Z * Z))%type.
Definition accesses_agree (c : access_case) : bool :=
  let '(mode, len, counts, first, actual) := c in
  same_multiset (match mode with None => predicted_step len counts first | Some st => predicted_fast len st counts first end) actual.
(* the reads that disagree (for the replay) *)
Definition accesses_diff (c : access_case) : list (Z * Z) :=
  let '(mode, len, counts, first, actual) := c in
  let p := match mode with None => predicted_step len counts first | Some st => predicted_fast len st counts first end in
  nodup (fun a b => match Z.eq_dec (fst a) (fst b), Z.eq_dec (snd a) (snd b) with left e1, left e2 => left (injective_projections _ _ e1 e2) | right n, _ => right (fun e => n (f_equal fst e)) | _, right n => right (fun e => n (f_equal snd e)) end)
        (filter (fun a => negb (Nat.eqb (occ a p) (occ a actual))) (p ++ actual)).

(* ---------------------------------------------------------------- search for a read outside the prefix (used when the proof breaks) *)
Definition outside (bound : Z) (a : bool * Z * Z) : bool := let '(g, lo, hi) := a in g && ((lo <? 0) || (bound <? hi)).
Definition tf_minutes : list Z := [1; 3; 5; 15; 30; 45; 60; 120].
(* (i, count) of the normal simulator *)
Definition bad_step_reads : list (Z * Z) :=
  flat_map (fun n => let i := Z.of_nat n in
    flat_map (fun c => if existsb (outside (i + 1)) (step_accesses i c) then [(i, c)] else []) tf_minutes) (seq 0 64).
(* (i, step, count) of the fast simulator: i on a chunk boundary, the step divides the timeframe *)
Definition bad_fast_reads : list (Z * Z * Z) :=
  flat_map (fun st =>
    flat_map (fun n => let i := Z.of_nat n * st in
      flat_map (fun c => if (c mod st =? 0) && existsb (outside (i + st)) (fast_accesses i st c) then [(i, st, c)] else []) tf_minutes) (seq 0 24))
    [1; 3; 5; 15].
Definition bad_prep_reads : bool := existsb (outside 1) prep_first.
