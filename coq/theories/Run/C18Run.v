(* Run/C18Run.v — entry points evaluated by harness/c18.py. Rows are identified by an integer. *)
From Coq Require Import ZArith List Bool.
From JV Require Import Spec.ListSpec Model.DynArray Run.Harness.
Import ListNotations.
Local Open Scope Z_scope.

Definition out_eqb (a b : out Z) : bool :=
  match a, b with
  | ONone, ONone => true
  | OLen x, OLen y => x =? y
  | ORow x, ORow y => x =? y
  | ORows x, ORows y => list_eqb Z.eqb x y
  | _, _ => false
  end.

Definition res_eqb (a b : res Z) : bool :=
  match a, b with
  | Ok x, Ok y => out_eqb x y
  | Err IndexError, Err IndexError => true
  | Err ShapeError, Err ShapeError => true
  | _, _ => false
  end.

(* a case: bucket size, drop_at, op list, what the implementation returned *)
Definition case := (nat * option Z * list (op Z) * list (res Z))%type.

(* correspondence: the hand-written model of the class returns what the class returned *)
Definition model_agrees (c : case) : bool :=
  let '(b, d, ops, obs) := c in
  list_eqb res_eqb (run 0 d (init 0 b) ops) obs.

(* the property itself on the implementation's observations: a history valid on the list
   yields exactly the list's outputs *)
Definition impl_meets_spec (c : case) : bool :=
  let '(b, d, ops, obs) := c in
  if valid_run 0 d [] ops then list_eqb res_eqb (map (@Ok Z) (lrun 0 d [] ops)) obs else true.

Definition is_valid (c : case) : bool :=
  let '(b, d, ops, obs) := c in valid_run 0 d [] ops.
