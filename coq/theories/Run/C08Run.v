(* Run/C08Run.v — monitors and model entry points evaluated by harness/c08.py (exact rationals). *)
From Coq Require Import ZArith QArith Qcanon List Bool.
From JV Require Import Base.Num Gen.candle Gen.backtest Model.Match Spec.PathSpec Run.Harness.
Import ListNotations.
Local Open Scope Qc_scope.
Import QcI.

Definition q (n d : Z) : Qc := Q2Qc (Qmake n (Z.to_pos d)).
Definition mkq (a b c d e f : Qc) : cndl := mkC (N := QcNum) a b c d e f.

Definition validb (k : cndl) : bool :=
  qleb (c_low k) (c_open k) && qleb (c_low k) (c_close k) && qleb (c_open k) (c_high k) && qleb (c_close k) (c_high k).

Definition ceqb (a b : cndl) : bool :=
  qeqb (c_ts a) (c_ts b) && qeqb (c_open a) (c_open b) && qeqb (c_close a) (c_close b) &&
  qeqb (c_high a) (c_high b) && qeqb (c_low a) (c_low b) && qeqb (c_vol a) (c_vol b).

(* the post-condition of C08 on what the IMPLEMENTATION's split_candle returned *)
Definition split_post (k : cndl) (p : Qc) (a b : cndl) : bool :=
  validb a && validb b &&
  qeqb (c_open a) (c_open k) && qeqb (c_close b) (c_close k) &&
  qeqb (qmax (c_high a) (c_high b)) (c_high k) && qeqb (qmin (c_low a) (c_low b)) (c_low k) &&
  qeqb (c_ts a) (c_ts k) && qeqb (c_ts b) (c_ts k) && qeqb (c_vol a) (c_vol k) && qeqb (c_vol b) (c_vol k) &&
  (qeqb p (c_open k) || (qeqb (c_close a) p && qeqb (c_open b) p)) &&
  match cut (path k) p with
  | Some ws' => list_eqb qeqb (dedup ws') (dedup (path b))
  | None => false
  end.

(* a split case: candle, price, what the implementation returned (None = it returned nothing / raised) *)
Definition split_case := (cndl * Qc * option (cndl * cndl))%type.
Definition split_meets_spec (c : split_case) : bool :=
  let '(k, p, r) := c in
  if validb k && qleb (c_low k) p && qleb p (c_high k)
  then match r with Some (a, b) => split_post k p a b | None => false end
  else true.
Definition split_model_agrees (c : split_case) : bool :=
  let '(k, p, r) := c in
  match split_candle QcNum k p, r with
  | Val (a, b), Some (a', b') => ceqb a a' && ceqb b b'
  | Raise, None => true
  | _, _ => false
  end.

(* sorting: orders (id, price), the candles handed over, the ids the implementation returned *)
Definition sort_case := (list (nat * Qc) * list cndl * list nat)%type.
Definition mkorders (l : list (nat * Qc)) : list rorder := map (fun x => {| oid := fst x; oprice := snd x |}) l.
Definition sort_model_agrees (c : sort_case) : bool :=
  let '(os, ks, ids) := c in
  list_eqb Nat.eqb (map oid (sort_exec (mkorders os) ks)) ids.

(* the property on the implementation's sorted list (one candle, all orders inside it): its head is
   touched first on the path *)
Definition dist_of (k : cndl) (p : Qc) : option Qc := touch_dist (path k) p.
Definition sort_head_first (c : sort_case) : bool :=
  let '(os, ks, ids) := c in
  match ks, ids with
  | [k], i :: _ =>
      if validb k && forallb (fun x => candle_includes_price QcNum k (snd x)) os && Nat.ltb 1 (length os) then
        match find (fun x => Nat.eqb (fst x) i) os with
        | Some h =>
            match dist_of k (snd h) with
            | Some d => forallb (fun x => match dist_of k (snd x) with Some d' => qleb d d' | None => false end) os
            | None => false
            end
        | None => false
        end
      else true
  | _, _ => true
  end.

(* the gap normalisation on the implementation's output *)
Definition fix_case := (cndl * cndl * cndl)%type.   (* previous, candle, what the implementation returned *)
Definition fix_meets_spec (c : fix_case) : bool :=
  let '(prev, k, r) := c in
  if validb k then
    validb r && qeqb (c_open r) (c_close prev) && qeqb (c_close r) (c_close k) &&
    qeqb (c_high r) (qmax (c_high k) (c_close prev)) && qeqb (c_low r) (qmin (c_low k) (c_close prev)) &&
    qeqb (c_ts r) (c_ts k) && qeqb (c_vol r) (c_vol k)
  else true.

(* fills of one minute (LIMIT/STOP orders, in execution order) must be met in this order when walking the candle's path *)
Fixpoint alongb (ws : list Qc) (ps : list Qc) : bool :=
  match ps with
  | [] => true
  | p :: r => match cut ws p with Some ws' => alongb ws' r | None => false end
  end.
Definition minute_case := (cndl * list Qc)%type.
Definition fills_follow_path (c : minute_case) : bool := let '(k, ps) := c in alongb (path k) ps.
