(* Run/C12Run.v — entry points for harness/c12.py: the fast chunk matcher model against the real
   _simulate_price_change_effect_multiple_candles driven with scripted reactions (exact rationals) *)
From Coq Require Import ZArith QArith Qcanon List Bool Arith.
From JV Require Import Base.Num Gen.candle Model.Match Model.FastMatch Run.Harness Run.C02Run.
Import ListNotations.

Definition chunk_case := (list cndl * list (nat * Qc) * script * list (nat * nat) * list cndl * list nat)%type.
(* the chunk's 1m candles, resting orders, script; implementation: (id, minute index) filled in order, partial candles, ids still active *)
Definition chunk_agrees (c : chunk_case) : bool :=
  let '(ks, w, s, fl, parts, lft) := c in
  match fast_chunk (react_of s) 200 ks (mkorders w) with
  | FDone fills w' =>
      list_eqb (fun a b : nat * nat => Nat.eqb (fst a) (fst b) && Nat.eqb (snd a) (snd b)) (map (fun f => (oid (fst (fst f)), snd f)) fills) fl &&
      list_eqb ceqb (map (fun f => snd (fst f)) fills) parts && list_eqb Nat.eqb (map oid w') lft
  | _ => false
  end.
