(* Run/C06Run.v — entry points for harness/c06.py (exact rationals; the implementation's floats are compared with a relative
   tolerance because average entry prices are not dyadic) *)
From Coq Require Import ZArith QArith Qcanon List Bool Arith.
From JV Require Import Base.Num Model.Spot Model.Futures Model.Trades Run.Harness.
Import ListNotations.
Import QcI.
Local Open Scope Qc_scope.

Definition q (n d : Z) : Qc := Q2Qc (Qmake n (Z.to_pos d)).
Definition mkfill (sq price : Qc) (ro : bool) : fill := {| fl_sq := sq; fl_price := price; fl_ro := ro |}.
Definition tol : Qc := q 1 1000000000.
Definition close (a b : Qc) : bool := qleb (qabs (a - b)) (tol * (1 + qabs b)).
Definition rows_close (a b : list (Qc * Qc)) : bool := list_eqb (fun x y => close (fst x) (fst y) && close (snd x) (snd y)) a b.
Definition hook_code (h : hook) : nat := match h with HOpen => 0 | HClose => 1 | HInc => 2 | HRed => 3 end.

(* a closed trade as the implementation reports it: short?, buy rows, sell rows, qty, entry_price, exit_price, pnl (None = NaN) *)
Definition trade_obs := (bool * list (Qc * Qc) * list (Qc * Qc) * Qc * option Qc * option Qc * option Qc)%type.
Definition opt_close (defined : bool) (model : Qc) (impl : option Qc) : bool :=
  match impl with Some v => defined && close model v | None => negb defined end.
Definition trade_agrees (fee : Qc) (t : trade) (o : trade_obs) : bool :=
  let '(short, b, s, qty, en, ex, pnl) := o in
  Bool.eqb (t_short t) short && rows_close (t_buys t) b && rows_close (t_sells t) s && close (t_qty t) qty &&
  let has_en := negb (qeqb (qsum (t_entries t)) 0) in let has_ex := negb (qeqb (qsum (t_exits t)) 0) in
  opt_close has_en (t_entry_price t) en && opt_close has_ex (t_exit_price t) ex && opt_close (has_en && has_ex) (t_pnl fee t) pnl.

Definition fills_case := (Qc * Qc * list fill * (Qc * Qc * list (nat * Qc) * list trade_obs))%type.
(* fee, balance, fills; implementation: wallet, position qty, hooks fired (code, qty seen), closed trades *)
Definition model_agrees (c : fills_case) : bool :=
  let '(fee, bal, fs, impl) := c in
  let '(w, pq, hooks, trades) := impl in
  let s := trun fee bal fs in
  close (ts_wallet s) w && close (ts_qty s) pq &&
  list_eqb (fun a b : nat * Qc => Nat.eqb (fst a) (fst b) && close (snd a) (snd b)) (map (fun h => (hook_code (fst h), snd h)) (ts_hooks s)) hooks &&
  (Nat.eqb (length (ts_closed s)) (length trades) && forallb (fun p => trade_agrees fee (fst p) (snd p)) (combine (ts_closed s) trades)).
Definition case_regular (c : fills_case) : bool := let '(fee, bal, fs, _) := c in all_regular fee (tinit bal) fs.

(* ---------------------------------------------------------------- monitors: the theorems' vocabulary evaluated on a real session *)
From JV Require Import Proofs.TradesProofs.
Definition hook_of (n : nat) : hook := match n with 0%nat => HOpen | 1%nat => HClose | 2%nat => HInc | _ => HRed end.
(* fee, starting balance, the symbol's fills in order, hooks fired (code, size seen), closed trades, final wallet, flat at the end *)
Definition session_case := (Qc * Qc * list fill * list (nat * Qc) * list trade_obs * Qc * bool)%type.

Definition kind_code (k : kind) : nat := match k with KNoop => 1 | KOversize => 2 | KFlip => 3 | _ => 0 end%nat.
(* the first irregular fill: 0 none, 1 reduce-only order on the position's own side, 2 oversize reduce-only, 3 flip, 4 reduce-only order opening *)
Fixpoint first_irregular (fee : Qc) (s : tstate) (fs : list fill) : nat :=
  match fs with
  | [] => 0
  | f :: r => if regular (ts_qty s) f then first_irregular fee (tstep fee s f) r
              else match kind_of (ts_qty s) (fl_sq f) (fl_ro f) with KOpen => 4 | k => kind_code k end
  end%nat.

Definition mon_grammar (c : session_case) : bool :=
  let '(fee, bal, fs, hooks, trades, w, flat) := c in
  match fold_left gstep (map (fun h => hook_of (fst h)) hooks) (Some false) with Some _ => true | None => false end.
Definition mon_hooks (c : session_case) : bool :=
  let '(fee, bal, fs, hooks, trades, w, flat) := c in
  list_eqb (fun a b : nat * Qc => Nat.eqb (fst a) (fst b) && close (snd a) (snd b)) (map (fun h => (hook_code (fst h), snd h)) (hook_trace 0 fs)) hooks.
Definition mon_trades (c : session_case) : bool :=
  let '(fee, bal, fs, hooks, trades, w, flat) := c in
  let spec := map tr (fst (cycles 0 [] fs)) in
  Nat.eqb (length spec) (length trades) && forallb (fun p => trade_agrees fee (fst p) (snd p)) (combine spec trades).
Definition mon_wallet (c : session_case) : bool :=
  let '(fee, bal, fs, hooks, trades, w, flat) := c in
  if flat then close (bal + sum_pnl fee (map tr (fst (cycles 0 [] fs)))) w else true.
Definition mon_all (c : session_case) : list nat :=
  let '(fee, bal, fs, hooks, trades, w, flat) := c in
  [first_irregular fee (tinit bal) fs; if mon_grammar c then 0 else 1; if mon_hooks c then 0 else 1; if mon_trades c then 0 else 1; if mon_wallet c then 0 else 1]%nat.
