(* Run/C09Run.v — entry points for harness/c09.py (exact rationals) *)
From Coq Require Import ZArith QArith Qcanon List Bool String.
From JV Require Import Base.Num Gen.candle Gen.position Model.Spot Model.Futures Model.Liquidation Run.Harness.
Import ListNotations.
Local Open Scope Qc_scope.
Import QcI.

Definition q (n d : Z) : Qc := Q2Qc (Qmake n (Z.to_pos d)).
Definition tol : Qc := q 1 1000000000.
Definition close (a b : Qc) : bool := qleb (qabs (a - b)) (tol * (1 + qabs b)).

(* a case: mode, leverage, fee, position (qty, entry), wallet, candle (o c h l),
   observation: liquidated?, order price, position qty after, wallet after *)
Definition lcase := (string * Qc * Qc * (Qc * Qc) * Qc * (Qc * Qc * Qc * Qc) * (bool * Qc * Qc * Qc))%type.
Definition model_agrees (c : lcase) : bool :=
  let '(mode, l, f, (pq, pe), w, (o_, c_, h_, l_), (liq, oprice, qafter, wafter)) := c in
  let s := {| wallet := w; lev := l; ffee := f; nsym := 1;
              posn := fun _ => {| p_qty := pq; p_entry := pe; p_cur := c_ |}; buys := fun _ => []; sells := fun _ => []; forders := [] |} in
  let k := mkC (N := QcNum) 0 o_ c_ h_ l_ 0 in
  let '(s', b) := check_liquidation mode s 0 k 1 in
  Bool.eqb b liq &&
  (if b then match liquidation_order mode l (posn s 0) k 1 0 with Some o => close oprice (f_price o) | None => false end
             && close qafter (p_qty (posn s' 0)) && close wafter (wallet s')
   else true).

(* the decision and the order price at binary64, bit-exact, through the GENERATED kernels (exact touches included) *)
From Coq Require Import PrimFloat.
From JV Require Import Run.KernelRun.
Definition fcase := (string * float * (bool * bool) * float * (float * float * float * float) * (bool * float))%type.
(* mode, leverage, (is_long, is_short), entry, candle (o c h l), observed (liquidated?, order price) *)
Definition decision_same (c : fcase) : bool :=
  let '(mode, l, (lg, sh), e, (o_, c_, h_, l_), (liq, oprice)) := c in
  let ty := if lg then "long"%string else if sh then "short"%string else "close"%string in
  let k := mkC (N := FNum) 0%float o_ c_ h_ l_ 0%float in
  let dec := if negb (String.eqb mode "isolated") then false
             else match pos_liquidation_price FNum (String.eqb ty "close") mode ty e l with
                  | Val lp => candle_includes_price FNum k lp
                  | _ => false
                  end in
  Bool.eqb dec liq &&
  (if liq then match pos_bankruptcy_price FNum ty e l with Val bp => fsame bp oprice | _ => false end else true).

(* effect in exact arithmetic, on cases where the exact-arithmetic decision agrees with the observed one (an exact touch can differ by an ulp) *)
Definition robust (c : lcase) : bool :=
  let '(mode, l, f, (pq, pe), w, (o_, c_, h_, l_), (liq, oprice, qafter, wafter)) := c in
  let k := mkC (N := QcNum) 0 o_ c_ h_ l_ 0 in
  let p := {| p_qty := pq; p_entry := pe; p_cur := c_ |} in
  Bool.eqb (match liquidation_order mode l p k 1 0 with Some _ => true | None => false end) liq.
Definition effect_agrees (c : lcase) : bool := if robust c then model_agrees c else true.
