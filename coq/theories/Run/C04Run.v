(* Run/C04Run.v — entry points for harness/c04.py (exact rationals). *)
From Coq Require Import ZArith QArith Qcanon List Bool.
From JV Require Import Base.Num Model.Spot Spec.RefSpot Run.Harness.
Import ListNotations.
Local Open Scope Qc_scope.
Import QcI.

Definition q (n d : Z) : Qc := Q2Qc (Qmake n (Z.to_pos d)).
Definition mko (id : nat) (sd : side) (t : otype) (qty price : Qc) (ro : bool) : order :=
  {| o_id := id; o_side := sd; o_typ := t; o_qty := qty; o_price := price; o_ro := ro; o_status := Active |}.

(* observation after one operation: accepted?, quote, base, position qty, limit sum, stop sum *)
Definition obs := (bool * Qc * Qc * Qc * Qc * Qc)%type.
Definition obs_eqb (a b : obs) : bool :=
  let '(r1, a1, a2, a3, a4, a5) := a in let '(r2, b1, b2, b3, b4, b5) := b in
  Bool.eqb r1 r2 && qeqb a1 b1 && qeqb a2 b2 && qeqb a3 b3 && qeqb a4 b4 && qeqb a5 b5.

Definition observe (s : spot) (ok : bool) : obs := (ok, quote s, base s, pqty s, limit_sum s, stop_sum s).

Fixpoint mtrace (s : spot) (ops : list op) : list obs :=
  match ops with
  | [] => []
  | Submit o :: r => let '(s', res) := submit s o in
                     match res with Rejected => [observe s' false] | _ => observe s' true :: mtrace s' r end
  | Execute id :: r => let s' := execute s id in observe s' true :: mtrace s' r
  | Cancel id :: r => let s' := cancel s id in observe s' true :: mtrace s' r
  end.

(* the reference account's observations: accepted?, quote, base (the position must equal base; the sums must equal
   the resting totals derived from the order list) *)
Definition robserve (s : ref) (ok : bool) : obs :=
  (ok, r_quote s, r_base s, r_base s, resting Limit (r_orders s), resting Stop (r_orders s)).
Fixpoint rtrace (s : ref) (ops : list op) : list obs :=
  match ops with
  | [] => []
  | Submit o :: r => let '(s', res) := ref_submit s o in
                     match res with Rejected => [(false, 0, 0, 0, 0, 0)] | _ => robserve s' true :: rtrace s' r end
  | Execute id :: r => let s' := ref_execute s id in robserve s' true :: rtrace s' r
  | Cancel id :: r => let s' := ref_cancel s id in robserve s' true :: rtrace s' r
  end.
(* on a rejection only the decision is compared (the property says nothing about balances after the raise) *)
Definition robs_eqb (a b : obs) : bool :=
  let '(r1, a1, a2, a3, a4, a5) := a in let '(r2, b1, b2, b3, b4, b5) := b in
  if r2 then obs_eqb a b && qleb 0 a1 && qleb 0 a2 else negb r1.

Definition scase := (Qc * Qc * list op * list obs)%type.      (* balance, fee, ops, implementation's observations *)
Definition model_agrees (c : scase) : bool :=
  let '(b, f, ops, o) := c in list_eqb obs_eqb (mtrace (init b f) ops) o.
(* the property on the implementation's observations *)
Definition impl_meets_ref (c : scase) : bool :=
  let '(b, f, ops, o) := c in
  (fix go (l1 l2 : list obs) := match l1, l2 with
                                | [], [] => true
                                | x :: r1, y :: r2 => robs_eqb x y && go r1 r2
                                | _, _ => false
                                end) o (rtrace (ref_init b f) ops).

(* the same two comparisons up to 1e-10 (absolute, plus relative to the reference value): for histories whose float products are not exact
   (eight-decimal quantities, fee 0.001, arbitrary prices); the harness keeps such histories away from the rejection boundary *)
Definition tolq : Qc := q 1 10000000000.
Definition qclose (a b : Qc) : bool := qleb (qabs (a - b)) (tolq * (1 + qabs b)).
Definition obs_close (a b : obs) : bool :=
  let '(r1, a1, a2, a3, a4, a5) := a in let '(r2, b1, b2, b3, b4, b5) := b in
  Bool.eqb r1 r2 && qclose a1 b1 && qclose a2 b2 && qclose a3 b3 && qclose a4 b4 && qclose a5 b5.
Definition model_agrees_close (c : scase) : bool :=
  let '(b, f, ops, o) := c in list_eqb obs_close (mtrace (init b f) ops) o.
Definition robs_close (a b : obs) : bool :=
  let '(r1, a1, a2, a3, a4, a5) := a in let '(r2, b1, b2, b3, b4, b5) := b in
  if r2 then obs_close a b && qleb (- tolq) a1 && qleb (- tolq) a2 else negb r1.
Definition impl_meets_ref_close (c : scase) : bool :=
  let '(b, f, ops, o) := c in
  (fix go (l1 l2 : list obs) := match l1, l2 with
                                | [], [] => true
                                | x :: r1, y :: r2 => robs_close x y && go r1 r2
                                | _, _ => false
                                end) o (rtrace (ref_init b f) ops).
