(* Run/C02Run.v — entry points for harness/c02.py.
   (1) correspondence of the match loop model (exact rationals) with _simulate_price_change_effect driven with scripted reactions;
   (2) the C02 monitor: Coq's reading of the property evaluated, with the GENERATED candle_includes_price / split_candle at
       binary64 (bit-exact decisions), on the event stream of a real session. *)
From Coq Require Import ZArith QArith Qcanon List Bool Arith.
From Coq Require Import PrimFloat.
From JV Require Import Base.Num Gen.candle Model.Match Spec.PathSpec Run.Harness Run.KernelRun.
Import ListNotations.

(* ---------------------------------------------------------------- (1) match loop correspondence *)
Definition q (n d : Z) : Qc := Q2Qc (Qmake n (Z.to_pos d)).
Definition mkq (a b c d e f : Qc) : cndl := mkC (N := QcNum) a b c d e f.
Definition mkorders (l : list (nat * Qc)) : list rorder := map (fun x => {| oid := fst x; oprice := snd x |}) l.
Definition ceqb (a b : cndl) : bool :=
  QcI.qeqb (c_ts a) (c_ts b) && QcI.qeqb (c_open a) (c_open b) && QcI.qeqb (c_close a) (c_close b) &&
  QcI.qeqb (c_high a) (c_high b) && QcI.qeqb (c_low a) (c_low b) && QcI.qeqb (c_vol a) (c_vol b).

(* on the fill of order id: cancel these ids, then submit these orders *)
Definition script := list (nat * (list nat * list (nat * Qc))).
Fixpoint assoc {A} (id : nat) (l : list (nat * A)) : option A :=
  match l with [] => None | (i, x) :: r => if Nat.eqb i id then Some x else assoc id r end.
Definition react_of (s : script) (o : rorder) (_ : cndl) (w : list rorder) : list rorder :=
  match assoc (oid o) s with
  | Some (cancels, news) => filter (fun x => negb (existsb (Nat.eqb (oid x)) cancels)) w ++ mkorders news
  | None => w
  end.

Definition minute_case := (cndl * list (nat * Qc) * script * list nat * list cndl * list nat)%type.
(* candle, resting orders (id, price) in registry order, script, implementation: ids filled in order, partial candles published, ids still active *)
Definition minute_agrees (c : minute_case) : bool :=
  let '(k, w, s, ids, parts, lft) := c in
  match match_minute (react_of s) 200 k (mkorders w) with
  | Done fills rest w' =>
      list_eqb Nat.eqb (map (fun f => oid (fst f)) fills) ids && list_eqb ceqb (map snd fills) parts && list_eqb Nat.eqb (map oid w') lft
  | _ => false
  end.

(* ---------------------------------------------------------------- (2) the property monitor over a session's event stream *)
Local Open Scope nat_scope.
Inductive ev :=
| EMatch (k : candle FNum)          (* the matcher starts a minute of this symbol with this (gap-extended) candle *)
| EEnd                              (* the matcher is done with that minute *)
| ESub (id : nat) (p : float) (resting : bool)   (* an order is submitted: LIMIT/STOP (resting) or MARKET *)
| ECan (id : nat)
| EExe (id : nat).

Record mst := { act : list (nat * (float * bool)); mkt : list nat; cur : option (candle FNum) }.
Definition inc (k : candle FNum) (p : float) : bool := candle_includes_price FNum k p.
Definition drop {A} (id : nat) (l : list (nat * A)) : list (nat * A) := filter (fun x => negb (Nat.eqb (fst x) id)) l.

(* violation codes: 1 resting order filled outside matching; 2 filled at a price outside what is left of the minute;
   3 an order is still active at the end of a minute whose range, from its submission onward, contained its price;
   4 execution of an unknown order; 5 a MARKET order is still pending when a later candle is processed (or at the end) *)
Definition mstep (s : mst) (e : ev) : mst * nat :=
  match e with
  | EMatch k =>
      ({| act := map (fun x => (fst x, (fst (snd x), inc k (fst (snd x))))) (act s); mkt := mkt s; cur := Some k |},
       match mkt s with [] => 0 | _ => 5 end)
  | EEnd => ({| act := act s; mkt := mkt s; cur := None |}, if existsb (fun x => snd (snd x)) (act s) then 3 else 0)
  | ESub id p true =>
      ({| act := act s ++ [(id, (p, match cur s with Some r => inc r p | None => false end))]; mkt := mkt s; cur := cur s |}, 0)
  | ESub id p false => ({| act := act s; mkt := mkt s ++ [id]; cur := cur s |}, 0)
  | ECan id => ({| act := drop id (act s); mkt := filter (fun i => negb (Nat.eqb i id)) (mkt s); cur := cur s |}, 0)
  | EExe id =>
      if existsb (Nat.eqb id) (mkt s) then ({| act := act s; mkt := filter (fun i => negb (Nat.eqb i id)) (mkt s); cur := cur s |}, 0)
      else match assoc id (act s) with
           | None => (s, 4)
           | Some (p, _) =>
               match cur s with
               | None => ({| act := drop id (act s); mkt := mkt s; cur := None |}, 1)
               | Some r =>
                   if inc r p then
                     match split_candle FNum r p with
                     | Val (_, b) => ({| act := drop id (act s); mkt := mkt s; cur := Some b |}, 0)
                     | _ => ({| act := drop id (act s); mkt := mkt s; cur := Some r |}, 2)
                     end
                   else ({| act := drop id (act s); mkt := mkt s; cur := Some r |}, 2)
               end
           end
  end.

(* first violation: (index of the event, code); (0, 0) when none; the stream's end is checked for pending MARKET orders *)
Fixpoint mrun (closed : bool) (s : mst) (es : list ev) (i : nat) : nat * nat :=
  match es with
  | [] => match mkt s with [] => (0, 0) | _ => if closed then (i, 5) else (0, 0) end
  | e :: r => let '(s', c) := mstep s e in if Nat.eqb c 0 then mrun closed s' r (S i) else (i, c)
  end.
(* closed = the session ran to its end (an aborted session's stream is checked up to the abort) *)
Definition monitor (closed : bool) (es : list ev) : nat * nat := mrun closed {| act := []; mkt := []; cur := None |} es 0.

(* ---------------------------------------------------------------- (3) the pass over the live queue of MARKET orders *)
From JV Require Import Model.Lifecycle Model.Market.
Definition pass_case := (nat * list (nat * list lop) * list nat * list nat * nat)%type.
(* number of queued MARKET orders (ids 0..n-1), what the hooks do after the fill of an id, implementation: ids executed in order,
   ids active afterwards, length of to_execute afterwards *)
Definition has_status (w : world) (s : st) (id : nat) : bool :=
  match status_of (statuses w) id, s with
  | Some Active, Active | Some Executed, Executed | Some Canceled, Canceled => true
  | _, _ => false
  end.
Definition pass_agrees (c : pass_case) : bool :=
  let '(n, sc, executed, still, qlen) := c in
  let w0 := fold_left lstep (repeat (Submit true) n) linit in
  match pass (fun _ id => match assoc id sc with Some l => l | None => [] end) (fun _ _ => Keep) 200 0 w0 with
  | Some (w', queue) =>
      list_eqb Nat.eqb (filter (has_status w' Executed) queue) executed &&
      list_eqb Nat.eqb (filter (has_status w' Active) (seq 0 (next w'))) still &&
      Nat.eqb (length (to_exec w')) qlen
  | None => false
  end.
