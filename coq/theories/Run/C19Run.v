(* Run/C19Run.v — entry points for harness/c19.py: the decoding model at binary64 against helpers.dna_to_hp,
   and the property monitor on the implementation's decoded values. *)
From Coq Require Import ZArith List Bool PrimFloat.
From JV Require Import Base.Num Gen.helpers Gen.optimize Model.Hp Run.Harness Run.KernelRun.
Import ListNotations.

Definition mkd (t : hptype) (mn mx : float) : decl FNum := Build_decl FNum t mn mx mn.

Definition value_same (a b : value FNum) : bool :=
  match a, b with
  | VInt x, VInt y => Z.eqb x y
  | VFloat x, VFloat y => fsame x y
  | _, _ => false
  end.

(* correspondence: (declarations, gene codes, what helpers.dna_to_hp returned) *)
Definition dcase := (list (decl FNum) * list Z * Res (list (value FNum)))%type.
Definition model_agrees (c : dcase) : bool :=
  let '(ds, dna, r) := c in
  res_same (list_eqb value_same) (dna_to_hp ds dna) r.

(* monitor: one declaration, the values the implementation decoded for the whole alphabet, in alphabet order.
   result: 0 = all clauses hold; bit 1 = some value out of [min,max]; bit 2 = not monotone;
   bit 4 = first letter is not min; bit 8 = last letter is not max; bit 16 = wrong type / wrong count *)
Definition as_float (v : value FNum) : float := match v with VInt z => ofZ FNum z | VFloat x => x end.
Fixpoint monotone (l : list float) : bool :=
  match l with
  | x :: ((y :: _) as r) => PrimFloat.leb x y && monotone r
  | _ => true
  end.
Definition mcase := (hptype * float * float * list (value FNum))%type.
Definition monitor (c : mcase) : nat :=
  let '(t, mn, mx, vs) := c in
  let fs := map as_float vs in
  let typed := forallb (fun v => match t, v with HInt, VInt _ => true | HFloat, VFloat _ => true | _, _ => false end) vs
               && Nat.eqb (length vs) (length charset) in
  (if forallb (fun x => PrimFloat.leb mn x && PrimFloat.leb x mx) fs then 0 else 1) +
  (if monotone fs then 0 else 2) +
  (if PrimFloat.eqb (hd mn fs) mn then 0 else 4) +
  (if PrimFloat.eqb (last fs mx) mx then 0 else 8) +
  (if typed then 0 else 16).

(* precedence model: (explicit given?, number of declarations, length of dna()) -> 0 explicit, 1 dna, 2 defaults, 3 none *)
Definition source_code (e : bool) (nd ng : nat) : nat :=
  match effective_hp (N := FNum) (if e then Some [] else None) (repeat (mkd HInt 0 1) nd) (repeat 40%Z ng) with
  | FromExplicit _ => 0 | FromDna _ => 1 | FromDefaults => 2 | NoHp => 3
  end.
