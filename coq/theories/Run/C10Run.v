(* Run/C10Run.v — entry points for harness/c10.py *)
From Coq Require Import ZArith QArith Qcanon List Bool PrimFloat.
From JV Require Import Base.Num Gen.helpers Model.Spot Model.Routing Run.Harness Run.KernelRun.
Import ListNotations.

(* routing at binary64 against the real Strategy / Broker: expected (side, type, qty, price, reduce_only) or an error code *)
Inductive robs := RO (sd : side) (t : otype) (qty price : float) (ro : bool) | RNotAllowed | RInvalid.
Definition side_eqb (a b : side) : bool := match a, b with Buy, Buy | Sell, Sell => true | _, _ => false end.
Definition routed_same (a : routed FNum) (b : robs) : bool :=
  match a, b with
  | Route s t q p r, RO s' t' q' p' r' => side_eqb s s' && typ_eqb t t' && fsame q q' && fsame p p' && Bool.eqb r r'
  | NotAllowed, RNotAllowed => true
  | Invalid, RInvalid => true
  | _, _ => false
  end.
Definition entry_same (sd : side) (q p cur pcur : float) (o : robs) : bool := routed_same (entry_route FNum sd q p cur pcur) o.
Definition exit_same (long : bool) (q p cur : float) (o : robs) : bool := routed_same (exit_route FNum long q p cur) o.

(* exits bookkeeping (exact rationals) against the real Strategy: ops and, after each op, the resting rows *)
Local Open Scope Qc_scope.
Import QcI.
Definition q (n d : Z) : Qc := Q2Qc (Qmake n (Z.to_pos d)).
Fixpoint xtrace (s : exits) (ops : list xop) : list (list row) :=
  match ops with [] => [] | o :: r => let s' := xstep s o in map snd (resting s') :: xtrace s' r end.
Definition xcase := (list xop * list (list row))%type.
Definition exits_agree (c : xcase) : bool :=
  let '(ops, obs) := c in list_eqb rows_eqb (xtrace xinit ops) obs.
