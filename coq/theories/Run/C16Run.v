(* Run/C16Run.v — entry points for harness/c16.py: the metric definitions against services/metrics.trades *)
From Coq Require Import ZArith QArith Qcanon List Bool Arith.
From JV Require Import Base.Num Model.Indicators Model.Metrics Run.Harness.
Import ListNotations.
Import QcI.
Local Open Scope Qc_scope.

Definition q (n d : Z) : Qc := Q2Qc (Qmake n (Z.to_pos d)).
Definition mt (pnl fee : Qc) (long : bool) : mtrade := {| m_pnl := pnl; m_fee := fee; m_long := long |}.
Definition tol : Qc := q 1 1000000000.
Definition close (scale a b : Qc) : bool := qleb (qabs (a - b)) (tol * (scale + qabs b)).
Definition optclose (scale a : Qc) (b : option Qc) : bool := match b with Some v => close scale a v | None => true end.   (* None = the implementation reports NaN *)

(* starting balance, trades, equity series; implementation: total, winners, losers, win_rate, net_profit, net_profit_percentage, gross_profit,
   gross_loss, fee, longs, shorts, longs%, shorts%, average_win, average_loss, expectancy, largest_win, largest_loss, winning_streak, losing_streak,
   current_streak, max_drawdown (in percent) *)
Record impl := { i_total : nat; i_w : nat; i_l : nat; i_wr : Qc; i_np : Qc; i_npp : Qc; i_gp : Qc; i_gl : Qc; i_fee : Qc; i_longs : nat; i_shorts : nat;
                 i_lp : Qc; i_sp : Qc; i_aw : option Qc; i_al : option Qc; i_exp : Qc; i_lw : Qc; i_ll : Qc; i_ws : nat; i_ls : nat; i_cs : Z; i_dd : option Qc }.
Definition metrics_case := (Qc * list mtrade * list Qc * impl)%type.
Definition c100 : Qc := qofnat 100.
Definition metrics_agree (c : metrics_case) : list bool :=
  let '(start, l, eq, i) := c in
  let s := Qcplus (qabs start) (qsum (map (fun t => qabs (m_pnl t)) l)) in
  let '(cs, ws, ls) := streaks l in
  [ Nat.eqb (total l) (i_total i); Nat.eqb (length (wins l)) (i_w i); Nat.eqb (length (losses l)) (i_l i); close 1 (win_rate l) (i_wr i);
    close s (net_profit l) (i_np i); close c100 (net_profit_percentage start l) (i_npp i); close s (gross_profit l) (i_gp i); close s (gross_loss l) (i_gl i);
    close s (fee_sum l) (i_fee i); Nat.eqb (longs l) (i_longs i); Nat.eqb (shorts l) (i_shorts i); close c100 (longs_percentage l) (i_lp i);
    close c100 (shorts_percentage l) (i_sp i);
    match wins l with [] => true | _ => optclose s (average_win l) (i_aw i) end; match losses l with [] => true | _ => optclose s (average_loss l) (i_al i) end;
    close s (expectancy l) (i_exp i); close s (largest_win l) (i_lw i); close s (largest_loss l) (i_ll i);
    Nat.eqb ws (i_ws i); Nat.eqb ls (i_ls i); Z.eqb cs (i_cs i);
    match eq with _ :: _ :: _ => optclose c100 (max_drawdown eq * qofnat 100) (i_dd i) | _ => true end ].
