(* Run/C20Run.v — entry points for harness/c20.py. Candles are (timestamp, tag): prices are only copied, so
   each price field carries an integer tag. *)
From Coq Require Import ZArith List Bool.
From JV Require Import Model.Import Model.CandleStore Proofs.StoreProofs Run.Harness.
Import ListNotations.
Local Open Scope Z_scope.

Definition ic (ts o c h l v : Z) : icandle Z := {| its := ts; iopen := o; iclose := c; ihigh := h; ilow := l; ivol := v |}.
Definition ic_eqb (a b : icandle Z) : bool :=
  (its a =? its b) && (iopen a =? iopen b) && (iclose a =? iclose b) && (ihigh a =? ihigh b) && (ilow a =? ilow b) && (ivol a =? ivol b).

(* fill: batch, start, end, implementation result (None = it raised) *)
Definition fcase := (list (icandle Z) * Z * Z * option (list (icandle Z)))%type.
Definition fill_model_agrees (c : fcase) : bool :=
  let '(b, s, e, r) := c in
  match fill_absent 0 b s e, r with
  | Filled l, Some l' => list_eqb ic_eqb l l'
  | NoCandles, None => true
  | _, _ => false
  end.

(* store: rows are (ts, tag) *)
Definition row := (Z * Z)%type.
Definition row_eqb (a b : row) : bool := (fst a =? fst b) && (snd a =? snd b).
Inductive sop := Add (r : row) | AddMany (rs : list row).
Definition srun (ops : list sop) : option (list row) :=
  fold_left (fun st o => match st with
                         | None => None
                         | Some arr => match o with
                                       | Add r => Some (add_candle fst arr r)
                                       | AddMany rs => match add_multiple fst arr rs with StoreOk a => Some a | StoreErr => None end
                                       end
                         end) ops (Some []).
(* ops, final content reported by the implementation (None = an operation raised) *)
Definition scase := (list sop * option (list row))%type.
Definition store_model_agrees (c : scase) : bool :=
  let '(ops, r) := c in option_eqb (list_eqb row_eqb) (srun ops) r.

(* monitor on the implementation's store after single additions only: strictly increasing and equal to the
   specification add_spec folded over the additions *)
Fixpoint strictly_inc (l : list row) : bool :=
  match l with x :: ((y :: _) as r) => (fst x <? fst y) && strictly_inc r | _ => true end.
Definition adds_only (ops : list sop) : option (list row) :=
  fold_right (fun o acc => match o, acc with Add r, Some l => Some (r :: l) | _, _ => None end) (Some []) ops.
Definition store_meets_spec (c : scase) : bool :=
  let '(ops, r) := c in
  match adds_only ops, r with
  | Some rs, Some final => strictly_inc final && list_eqb row_eqb (fold_left (add_spec fst) rs []) final
  | Some rs, None => false        (* a single addition must never raise *)
  | None, _ => true
  end.
