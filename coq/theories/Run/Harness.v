(* Run/Harness.v — helpers for the correspondence harness: report the indices of failing cases. *)
From Coq Require Import List Bool Arith ZArith.
Import ListNotations.

Fixpoint bad_from (i : nat) (bs : list bool) : list nat :=
  match bs with
  | [] => []
  | b :: r => if b then bad_from (S i) r else i :: bad_from (S i) r
  end.
Definition bad_indices (bs : list bool) : list nat := bad_from 0 bs.

Fixpoint list_eqb {A} (eqb : A -> A -> bool) (l1 l2 : list A) : bool :=
  match l1, l2 with
  | [], [] => true
  | x :: r, y :: s => eqb x y && list_eqb eqb r s
  | _, _ => false
  end.

Definition option_eqb {A} (eqb : A -> A -> bool) (a b : option A) : bool :=
  match a, b with
  | None, None => true
  | Some x, Some y => eqb x y
  | _, _ => false
  end.
