(* Run/KernelRun.v — helpers to validate the generated kernels bit-for-bit against Python at binary64. *)
From Coq Require Import ZArith List Bool String.
From Coq Require Import PrimFloat FloatOps SpecFloat.
From JV Require Import Base.Num Run.Harness.
From JV Require Export Gen.candle Gen.backtest Gen.helpers Gen.utils Gen.position.
Import ListNotations.

Definition sf_same (a b : spec_float) : bool :=
  match a, b with
  | S754_zero s, S754_zero t => Bool.eqb s t
  | S754_infinity s, S754_infinity t => Bool.eqb s t
  | S754_nan, S754_nan => true
  | S754_finite s m e, S754_finite t n f => Bool.eqb s t && Pos.eqb m n && Z.eqb e f
  | _, _ => false
  end.
(* same bits (all NaNs identified) *)
Definition fsame (a b : float) : bool := sf_same (Prim2SF a) (Prim2SF b).

Definition csame (a b : candle FNum) : bool :=
  fsame (c_ts a) (c_ts b) && fsame (c_open a) (c_open b) && fsame (c_close a) (c_close b) &&
  fsame (c_high a) (c_high b) && fsame (c_low a) (c_low b) && fsame (c_vol a) (c_vol b).

Definition res_same {A} (same : A -> A -> bool) (a b : Res A) : bool :=
  match a, b with
  | Val x, Val y => same x y
  | Nan, Nan => true
  | Raise, Raise => true
  | _, _ => false
  end.
Definition pair_same (a b : candle FNum * candle FNum) : bool := csame (fst a) (fst b) && csame (snd a) (snd b).
Definition mk (a b c d e f : float) : candle FNum := mkC (N := FNum) a b c d e f.
