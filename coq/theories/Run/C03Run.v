(* Run/C03Run.v — entry points for harness/c03.py (exact rationals). *)
From Coq Require Import ZArith QArith Qcanon List Bool.
From JV Require Import Base.Num Model.Spot Model.Futures Spec.RefFutures Run.Harness.
Import ListNotations.
Local Open Scope Qc_scope.
Import QcI.

Definition q (n d : Z) : Qc := Q2Qc (Qmake n (Z.to_pos d)).
Definition mkf (id sym : nat) (sd : side) (t : otype) (qty price : Qc) (ro : bool) : forder :=
  {| f_id := id; f_sym := sym; f_side := sd; f_typ := t; f_qty := qty; f_price := price; f_ro := ro; f_status := Active |}.

(* observation after one operation: accepted?, wallet, available margin, per symbol (qty, entry if open, pnl) *)
Definition pobs := (Qc * Qc * Qc)%type.
Definition obs := (bool * Qc * Qc * list pobs)%type.
(* the implementation computes in binary64 (averaged entries are not dyadic): values are compared up to a relative 1e-9;
   accept/reject decisions are compared exactly, on cases whose decision margin is at least 1e-6 (robust) *)
Definition tol : Qc := q 1 1000000000.
Definition close (a b : Qc) : bool := qleb (qabs (a - b)) (tol * (1 + qabs b)).
Definition pobs_eqb (a b : pobs) : bool :=
  let '(a1, a2, a3) := a in let '(b1, b2, b3) := b in close a1 b1 && (qeqb b1 0 || close a2 b2) && close a3 b3.
Definition obs_eqb (a b : obs) : bool :=
  let '(r1, w1, m1, p1) := a in let '(r2, w2, m2, p2) := b in
  Bool.eqb r1 r2 && (negb r1 || (close w1 w2 && close m1 m2 && list_eqb pobs_eqb p1 p2)).

Definition observe (s : fut) (ok : bool) : obs :=
  (ok, wallet s, avail s, map (fun i => (p_qty (posn s i), p_entry (posn s i), pos_pnl (posn s i))) (seq 0 (nsym s))).
Definition robserve (s : rfut) (ok : bool) : obs :=
  (ok, rw s, ravail s, map (fun i => (p_qty (rpos s i), p_entry (rpos s i), upnl (rpos s i))) (seq 0 (rn s))).

Fixpoint mtrace (s : fut) (ops : list fop) : list obs :=
  match ops with
  | [] => []
  | o :: r => let '(s', res) := fstep s o in
              match res with Rejected => [observe s' false] | _ => observe s' true :: mtrace s' r end
  end.
Fixpoint rtrace (s : rfut) (ops : list fop) : list obs :=
  match ops with
  | [] => []
  | o :: r => let '(s', res) := rstep s o in
              match res with Rejected => [robserve s' false] | _ => robserve s' true :: rtrace s' r end
  end.

(* balance, leverage, fee, symbols, initial mark price, ops, implementation's observations *)
Definition fcase := (Qc * Qc * Qc * nat * Qc * list fop * list obs)%type.
Definition model_agrees (c : fcase) : bool :=
  let '(b, l, f, n, p0, ops, o) := c in list_eqb obs_eqb (mtrace (finit b l f n p0) ops) o.
Definition impl_meets_ref (c : fcase) : bool :=
  let '(b, l, f, n, p0, ops, o) := c in list_eqb obs_eqb o (rtrace (rinit b l f n p0) ops).

(* every accept/reject decision of the model is taken with a margin of at least 1e-6 *)
Fixpoint robust (s : fut) (ops : list fop) : bool :=
  match ops with
  | [] => true
  | o :: r =>
      let ok := match o with
                | FSubmit x => f_ro x || qltb (q 1 1000000) (qabs (avail s - qabs (signed x * f_price x) / lev s))
                | _ => true
                end in
      let '(s', res) := fstep s o in
      ok && match res with Rejected => true | _ => robust s' r end
  end.
Definition case_robust (c : fcase) : bool := let '(b, l, f, n, p0, ops, o) := c in robust (finit b l f n p0) ops.

(* computable version of Spec.RefFutures.fwf (legal histories) *)
Fixpoint legal (s : rfut) (ops : list fop) : bool :=
  match ops with
  | [] => true
  | FSubmit o :: r =>
      match ffind (rorders s) (f_id o) with None => true | Some _ => false end && qltb 0 (f_qty o) && qltb 0 (f_price o) && Nat.ltb (f_sym o) (rn s) &&
      match rsubmit s o with (s', Rejected) => true | (s', _) => legal s' r end
  | FExecute id :: r =>
      match ffind (rorders s) id with
      | Some o => if negb (f_final o) && f_ro o then negb (qeqb (p_qty (rpos s (f_sym o))) 0) else true
      | None => true
      end && legal (rexecute s id) r
  | FCancel id :: r => legal (rcancel s id) r
  | FPrice sym p :: r => qltb 0 p && legal (rprice s sym p) r
  end.
Definition case_legal (c : fcase) : bool := let '(b, l, f, n, p0, ops, o) := c in legal (rinit b l f n p0) ops.
Definition impl_meets_ref_legal (c : fcase) : bool := if case_legal c then impl_meets_ref c else true.
