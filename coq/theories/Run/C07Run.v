(* Run/C07Run.v — entry points for harness/c07.py (exact rationals) *)
From Coq Require Import ZArith QArith Qcanon List Bool Arith.
From JV Require Import Base.Num Model.CandleStore Model.CandleView Proofs.FeedProofs Run.Harness.
Import ListNotations.
Import QcI.

Definition q (n d : Z) : Qc := Q2Qc (Qmake n (Z.to_pos d)).
Definition mk (t : Z) (o c h l v : Qc) : kc := {| k_ts := t; k_o := o; k_c := c; k_h := h; k_l := l; k_v := v |}.
Definition kc_eqb (a b : kc) : bool :=
  Z.eqb (k_ts a) (k_ts b) && qeqb (k_o a) (k_o b) && qeqb (k_c a) (k_c b) && qeqb (k_h a) (k_h b) && qeqb (k_l a) (k_l b) && qeqb (k_v a) (k_v b).

(* an observation of the real store at a hook: the 1m candles and the stored candles' view through get_candles *)
(* property monitor: what the strategy read for timeframe n equals the aggregation of what it read for 1m *)
Definition view_case := (nat * list kc * list kc)%type.          (* n, get_candles('1m'), get_candles(tf) *)
Definition view_is_aggregation (c : view_case) : bool :=
  let '(n, short, got) := c in list_eqb (option_eqb kc_eqb) (map Some got) (aggs n short).

(* correspondence of the store model: the raw stores (1m list, tf list) after the simulator fed minutes 0..i with the given
   partial candles per minute, and what get_candles returns *)
Definition feed_case := (nat * list kc * list (list kc) * list kc * list kc * list kc)%type.
(* n, input candles (gap-fixed), partials per minute, real 1m store, real tf store, real get_candles(tf) *)
(* the fold about which Props/C07.v proves C07_normal_simulator_views_are_aggregations *)
Definition run_feed (n : nat) (cs : list kc) (parts : list (list kc)) : list kc * list kc := FeedProofs.feed_list n cs parts.
Definition feed_agrees (c : feed_case) : bool :=
  let '(n, cs, parts, s1, sn, got) := c in
  let '(short, long) := run_feed n cs parts in
  list_eqb kc_eqb short s1 && list_eqb kc_eqb long sn &&
  match get_candles n short long with Some r => list_eqb kc_eqb r got | None => false end.

(* the candle-generation helper services.candle._get_generated_candles(timeframe, 1m candles): the completed windows only, each the aggregation
   of its aligned window (a trailing part of a window is left out) *)
Definition helper_is_aggregation (c : view_case) : bool :=
  let '(n, short, got) := c in list_eqb (option_eqb kc_eqb) (map Some got) (firstn (length short / n) (aggs n short)).
