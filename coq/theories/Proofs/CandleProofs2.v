(* Proofs/CandleProofs2.v — the later half returned by the GENERATED split_candle walks exactly the
   rest of the candle's price path from the first touch of the split price (C08, clause ii). *)
From Coq Require Import ZArith QArith Qcanon Lqa List Bool.
From JV Require Import Base.Num Base.QcTac Gen.candle Spec.PathSpec.
Import ListNotations.
Local Open Scope Qc_scope.
Import QcI.

Ltac unf := unfold split_candle, is_bullish, is_bearish, candle_includes_price, valid in *;
            cbn [leb ltb eqb QcNum c_ts c_open c_close c_high c_low c_vol T] in *.

(* decide a comparison from the hypotheses when possible, otherwise split on it *)
Ltac dec1 :=
  match goal with
  | |- context [qleb ?a ?b] => first
     [ let H := fresh in assert (H : qleb a b = true) by (destruct (qleb_spec a b); [reflexivity | exfalso; qc]); rewrite H; clear H
     | let H := fresh in assert (H : qleb a b = false) by (destruct (qleb_spec a b); [exfalso; qc | reflexivity]); rewrite H; clear H
     | destruct (qleb_spec a b) ]
  | |- context [qltb ?a ?b] => first
     [ let H := fresh in assert (H : qltb a b = true) by (destruct (qltb_spec a b); [reflexivity | exfalso; qc]); rewrite H; clear H
     | let H := fresh in assert (H : qltb a b = false) by (destruct (qltb_spec a b); [exfalso; qc | reflexivity]); rewrite H; clear H
     | destruct (qltb_spec a b) ]
  | |- context [qeqb ?a ?b] => first
     [ let H := fresh in assert (H : qeqb a b = true) by (destruct (qeqb_spec a b); [reflexivity | exfalso; qc]); rewrite H; clear H
     | let H := fresh in assert (H : qeqb a b = false) by (destruct (qeqb_spec a b); [exfalso; try subst; qc | reflexivity]); rewrite H; clear H
     | destruct (qeqb_spec a b) ]
  end.

Ltac tri a b :=
  let H := fresh "T" in let H2 := fresh "E" in
  destruct (qltb_spec a b) as [H|H]; [|destruct (qeqb_spec a b) as [H2|H2]; [try subst|]].

Ltac between_dec := unfold between; repeat (dec1; cbn [andb orb]).

(* one leaf: all comparisons of the if-chain are decided by the hypotheses *)
Ltac leaf :=
  match goal with H : split_candle _ _ _ = _ |- _ => revert H end;
  unf; repeat (dec1; cbn [andb]); try (intros; discriminate);
  let H := fresh in intros H; injection H as <- <-;
  unfold path; cbn [c_ts c_open c_close c_high c_low c_vol]; repeat dec1;
  cbn [cut]; between_dec; cbn [cut]; between_dec; cbn [cut]; between_dec;
  try (eexists; split; [reflexivity|]; cbn [dedup]; repeat (dec1; cbn [dedup]); try subst; try reflexivity; try congruence;
       try (exfalso; qc; fail)).

Theorem split_is_path_cut (k a b : cndl) (p : Qc) : valid k -> c_low k <= p -> p <= c_high k ->
  split_candle QcNum k p = Val (a, b) ->
  exists ws', cut (path k) p = Some ws' /\ dedup ws' = dedup (path b).
Proof.
  destruct k as [t0 o0 c0 h0 l0 v0]. unfold valid. cbn [c_ts c_open c_close c_high c_low c_vol].
  intros (H1 & H2 & H3 & H4) H5 H6 H.
  destruct (qleb_spec o0 c0) as [Hb|Hr].
  - (* rising: o -> l -> h -> c *)
    tri p o0.
    + (* p < o *) tri l0 p; [leaf|leaf|exfalso; qc].
    + (* p = o *) leaf.
    + (* p > o *) tri p c0; [leaf|leaf|]. tri p h0; [leaf|leaf|exfalso; qc].
  - (* falling: o -> h -> l -> c *)
    tri o0 p.
    + (* p > o *) tri p h0; [leaf|leaf|exfalso; qc].
    + (* p = o *) leaf.
    + (* p < o *) tri c0 p; [leaf|leaf|]. tri l0 p; [leaf|leaf|exfalso; qc].
Qed.
