(* Proofs/MarketProofs.v — C02, MARKET orders: execute_pending_market_orders leaves no pending order active and empties the
   queue, whatever the position effects of the fills are; an order never becomes active again. *)
From Coq Require Import List Bool Arith Lia.
From JV Require Import Model.Lifecycle Proofs.LifecycleProofs.
Import ListNotations.

Lemma execute_active w id c id' : is_active (execute w id c) id' = true -> is_active w id' = true /\ id' <> id.
Proof.
  unfold execute. destruct (is_active w id) eqn:E.
  2:{ intros H. split; [exact H|]. intros ->. congruence. }
  assert (K : status_of (statuses w) id <> None) by (unfold is_active in E; destruct (status_of (statuses w) id); [discriminate|discriminate E]).
  assert (Base : forall id', match status_of (set_status (statuses w) id Executed) id' with Some Active => true | _ => false end = true -> is_active w id' = true /\ id' <> id).
  { intros i. destruct (Nat.eq_dec i id) as [->|N]; [rewrite status_set_same by exact K; discriminate|].
    rewrite status_set_other by exact N. intros H. split; [exact H|exact N]. }
  cbn [pos_open statuses storage active to_exec temp trades next].
  destruct (match c with Close => true | _ => false end && pos_open w).
  - unfold execute_cancel, reset_trade, cancel_all. unfold is_active at 1. cbn [statuses active].
    intros H. match type of H with context [fold_left cancel ?ids ?w0] => destruct (fold_cancel_spec ids w0) as (A & _) end.
    apply A in H. destruct H as [H _]. apply Base. exact H.
  - destruct (match c with Flip => true | _ => false end && pos_open w); unfold is_active at 1; cbn [statuses]; apply Base.
Qed.

Lemma exec_list_active ids : forall w fl id', is_active (exec_list w ids fl) id' = true -> is_active w id' = true /\ ~ In id' ids.
Proof.
  induction ids as [|i r IH]; intros w fl id' H; cbn [exec_list] in H; [split; [exact H|intros []]|].
  destruct (is_active w i) eqn:E.
  - apply IH in H. destruct H as [H N]. apply execute_active in H. destruct H as [H N2]. split; [exact H|]. intros [<-|X]; [congruence|exact (N X)].
  - apply IH in H. destruct H as [H N]. split; [exact H|]. intros [<-|X]; [congruence|exact (N X)].
Qed.

Theorem pending_market_orders_all_settled w fl :
  let w' := lstep w (ExecutePending fl) in
  to_exec w' = [] /\ (forall id, In id (to_exec w) -> is_active w' id = false) /\ (forall id, is_active w' id = true -> is_active w id = true).
Proof.
  cbn [lstep to_exec]. split; [reflexivity|]. split.
  - intros id Hin. unfold is_active at 1. cbn [statuses]. destruct (is_active (exec_list w (to_exec w) fl) id) eqn:E.
    + apply exec_list_active in E. destruct E as [_ N]. contradiction.
    + exact E.
  - intros id H. unfold is_active at 1 in H. cbn [statuses] in H. apply (exec_list_active (to_exec w) w fl id H).
Qed.

(* a submitted MARKET order is in the queue until the next execute_pending_market_orders *)
Theorem market_order_queued w : In (next w) (to_exec (submit w true)).
Proof. cbn [submit to_exec]. apply in_or_app. right. left. reflexivity. Qed.

(* ------------------------------------------------------------------ the pass over the LIVE queue (Model/Market.v) *)
From JV Require Import Model.Market.

Definition settled (w : world) (id : nat) : Prop := exists s, final_of w id s.

Lemma settled_not_active w id : settled w id -> is_active w id = false.
Proof. intros (s & H & F). unfold is_active. rewrite H. destruct s; [discriminate F|reflexivity|reflexivity]. Qed.

Lemma execute_to_exec w id c : to_exec (execute w id c) = to_exec w.
Proof.
  unfold execute. destruct (is_active w id); [|reflexivity]. cbn [pos_open statuses storage active to_exec temp trades next].
  destruct (match c with Close => true | _ => false end && pos_open w).
  - unfold execute_cancel, reset_trade, cancel_all. cbn [to_exec].
    match goal with |- to_exec (fold_left cancel ?ids ?w0) = _ => destruct (fold_cancel_spec ids w0) as (_ & _ & Cc & _) end. rewrite Cc. reflexivity.
  - destruct (match c with Flip => true | _ => false end && pos_open w); reflexivity.
Qed.

Lemma execute_settles w id c : status_of (statuses w) id <> None -> settled (execute w id c) id.
Proof.
  intros K. destruct (is_active w id) eqn:E.
  - unfold execute. rewrite E. cbn [pos_open statuses storage active to_exec temp trades next].
    assert (F0 : forall po tm tr, final_of {| statuses := set_status (statuses w) id Executed; storage := storage w; active := active w; to_exec := to_exec w;
                                              temp := tm; trades := tr; pos_open := po; next := next w |} id Executed).
    { intros. split; [cbn [statuses]; apply status_set_same; exact K|reflexivity]. }
    exists Executed. destruct (match c with Close => true | _ => false end && pos_open w); [apply execute_cancel_keeps_final; apply F0|].
    destruct (match c with Flip => true | _ => false end && pos_open w); apply F0.
  - assert (execute w id c = w) as -> by (unfold execute; rewrite E; reflexivity).
    unfold is_active in E. destruct (status_of (statuses w) id) as [[| |]|] eqn:S; [discriminate E| | |congruence].
    + exists Executed. split; [exact S|reflexivity].
    + exists Canceled. split; [exact S|reflexivity].
Qed.

Lemma simple_to_exec w o : simple_op o = true -> exists rest, to_exec (lstep w o) = to_exec w ++ rest.
Proof.
  destruct o as [m|i| |i c|fl| |]; cbn [simple_op lstep]; intros H; try discriminate.
  - destruct m; cbn [submit to_exec]; [eexists; reflexivity|exists []; rewrite app_nil_r; reflexivity].
  - exists []. rewrite app_nil_r. apply (cancel_lists w i).
  - exists []. rewrite app_nil_r. destruct (pos_open w); [reflexivity|]. unfold execute_cancel, reset_trade, cancel_all. cbn [to_exec].
    destruct (fold_cancel_spec (active w) w) as (_ & _ & Cc & _). exact Cc.
  - exists []. rewrite app_nil_r. reflexivity.
  - exists []. rewrite app_nil_r. unfold check_reset. destruct (negb (pos_open w) && _); reflexivity.
Qed.

Lemma simple_fold ops : forall w, Reg w -> forallb simple_op ops = true ->
  Reg (fold_left lstep ops w) /\ (exists rest, to_exec (fold_left lstep ops w) = to_exec w ++ rest) /\
  (forall id, settled w id -> settled (fold_left lstep ops w) id).
Proof.
  induction ops as [|o r IH]; intros w HR Hs; cbn [fold_left].
  - split; [exact HR|]. split; [exists []; rewrite app_nil_r; reflexivity|auto].
  - cbn [forallb] in Hs. apply andb_true_iff in Hs. destruct Hs as [Ho Hr].
    destruct (IH (lstep w o) (registry_invariant w o HR) Hr) as (A & (rest & B) & Cc).
    destruct (simple_to_exec w o Ho) as (rest0 & B0). split; [exact A|]. split.
    + exists (rest0 ++ rest). rewrite B, B0, app_assoc. reflexivity.
    + intros id (s & F). apply Cc. exists s. apply final_status_never_changes. exact F.
Qed.

Lemma forallb_filter {A} (f : A -> bool) l : forallb f (filter f l) = true.
Proof. induction l as [|x r IH]; cbn [filter forallb]; [reflexivity|]. destruct (f x) eqn:E; [cbn [forallb]; rewrite E, IH; reflexivity|exact IH]. Qed.

Lemma firstn_S_nth {A} (l r : list A) i x : nth_error l i = Some x -> firstn (S i) (l ++ r) = firstn i l ++ [x].
Proof.
  revert i. induction l as [|y l IH]; intros i H; [destruct i; discriminate H|].
  destruct i as [|i]; cbn [nth_error] in H; [injection H as ->; reflexivity|]. simpl. f_equal. apply (IH i H).
Qed.

Section PassProofs.
Variable hook : world -> nat -> list lop.
Variable eff_of : world -> nat -> eff.

Lemma pass_inv fuel : forall i w w' queue, Reg w -> (forall id, In id (firstn i (to_exec w)) -> settled w id) ->
  pass hook eff_of fuel i w = Some (w', queue) ->
  to_exec w' = [] /\ (exists rest, queue = to_exec w ++ rest) /\ (forall id, In id queue -> settled w' id).
Proof.
  induction fuel as [|f IH]; intros i w w' queue HR Hs H; cbn [pass] in H; [discriminate|].
  destruct (nth_error (to_exec w) i) as [id|] eqn:En.
  - assert (Hin : In id (to_exec w)) by (eapply nth_error_In; exact En).
    assert (K : status_of (statuses w) id <> None) by (apply HR; right; right; exact Hin).
    destruct (is_active w id) eqn:Eact.
    2:{ destruct (IH (S i) w w' queue HR) as (X & Y & Z); [|exact H|split; [exact X|split; [exact Y|exact Z]]].
        intros id' Hid'. rewrite <- (app_nil_r (to_exec w)) in Hid'. rewrite (firstn_S_nth _ _ _ _ En) in Hid'.
        apply in_app_or in Hid'. destruct Hid' as [Hid'|[<-|[]]]; [apply Hs; exact Hid'|].
        pose proof (execute_settles w id Keep K) as S. unfold execute in S. rewrite Eact in S. exact S. }
    set (w1 := execute w id (eff_of w id)) in *.
    assert (HR1 : Reg w1) by (apply execute_reg; exact HR).
    destruct (simple_fold (filter simple_op (hook w1 id)) w1 HR1 (forallb_filter _ _)) as (A & (rest & B) & Cc).
    set (w2 := fold_left lstep (filter simple_op (hook w1 id)) w1) in *.
    assert (B' : to_exec w2 = to_exec w ++ rest) by (rewrite B; unfold w1; rewrite execute_to_exec; reflexivity).
    destruct (IH (S i) w2 w' queue A) as (X & (rest' & Y) & Z); [|exact H|].
    + intros id' Hid'. rewrite B', (firstn_S_nth _ _ _ _ En) in Hid'. apply in_app_or in Hid'. destruct Hid' as [Hid'|[<-|[]]].
      * apply Cc. destruct (Hs id' Hid') as (s & F). exists s. apply execute_keeps_final. exact F.
      * apply Cc. apply execute_settles. exact K.
    + split; [exact X|]. split; [|exact Z]. exists (rest ++ rest'). rewrite Y, B', app_assoc. reflexivity.
  - injection H as <- <-. split; [reflexivity|]. split; [exists []; rewrite app_nil_r; reflexivity|].
    intros id Hin. apply nth_error_None in En. rewrite firstn_all2 in Hs by exact En. destruct (Hs id Hin) as (s & F). exists s. exact F.
Qed.

(* C02, MARKET orders: whatever the hooks submit or cancel while the queue is walked and whatever the position effects are, the
   pass ends with an empty queue, it walked every order that was queued before or during the pass, and none of them is active *)
Theorem pass_settles_every_queued_order fuel w w' queue : Reg w -> pass hook eff_of fuel 0 w = Some (w', queue) ->
  to_exec w' = [] /\ (exists rest, queue = to_exec w ++ rest) /\ (forall id, In id queue -> is_active w' id = false).
Proof.
  intros HR H. destruct (pass_inv fuel 0 w w' queue HR) as (A & B & Cc); [intros id []|exact H|].
  split; [exact A|]. split; [exact B|]. intros id Hin. apply settled_not_active. apply Cc. exact Hin.
Qed.
End PassProofs.
