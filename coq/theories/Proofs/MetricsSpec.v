(* Proofs/MetricsSpec.v — C16: the streak counters and the drawdown series of Model/Metrics.v meet their textbook specifications.
   - winning (losing) streak = the length of the longest block of consecutive winners (losers): no block is longer, one is as long;
   - drawdown at sample k = equity_k / max(equity_0..equity_k) - 1; the maximum drawdown of a positive series lies in (-1, 0]
     and is one of those values;
   - the largest winner / loser is the PnL of one of the trades and bounds the others. *)
From Coq Require Import ZArith QArith Qcanon Lqa List Bool Arith Lia.
From JV Require Import Base.Num Base.QcTac Model.Indicators Model.Metrics Proofs.IndicatorProofs Proofs.IndicatorBounds Proofs.MetricsProofs.
Import ListNotations.
Local Open Scope Qc_scope.
Import QcI.

(* ---------- blocks of consecutive trades satisfying a test ---------- *)
Section Runs.
Context {A : Type} (P : A -> bool).

Fixpoint lead (l : list A) : nat := match l with t :: r => if P t then S (lead r) else 0%nat | [] => 0%nat end.

(* n bounds every block of consecutive P-elements of p / some block has exactly n elements *)
Definition bounded (p : list A) (n : nat) : Prop := forall a seg b, p = a ++ seg ++ b -> forallb P seg = true -> (length seg <= n)%nat.
Definition attained (p : list A) (n : nat) : Prop := exists a seg b, p = a ++ seg ++ b /\ forallb P seg = true /\ length seg = n.

Lemma lead_app_all x y : forallb P x = true -> lead (x ++ y) = (length x + lead y)%nat.
Proof.
  induction x as [|t x IH]; cbn [forallb app lead length]; intros H; [reflexivity|].
  apply andb_true_iff in H. destruct H as [Ht Hx]. rewrite Ht, (IH Hx). reflexivity.
Qed.

Lemma lead_split r : exists x y, r = x ++ y /\ forallb P x = true /\ length x = lead r.
Proof.
  induction r as [|t r IH]; [exists [], []; repeat split|]. cbn [lead]. destruct (P t) eqn:Ht.
  - destruct IH as (x & y & E & F & L). exists (t :: x), y. cbn [app forallb length]. rewrite Ht, F, L, <- E. repeat split.
  - exists [], (t :: r). repeat split.
Qed.

Lemma forallb_rev x : forallb P x = true -> forallb P (rev x) = true.
Proof. rewrite !forallb_forall. intros H t Ht. apply H, in_rev, Ht. Qed.

Lemma suffix_le_lead a seg : forallb P seg = true -> (length seg <= lead (rev (a ++ seg)))%nat.
Proof. intros H. rewrite rev_app_distr, (lead_app_all _ _ (forallb_rev _ H)), rev_length. lia. Qed.

Lemma last_case (b : list A) : b = [] \/ exists b' x, b = b' ++ [x].
Proof. destruct (rev b) as [|x r] eqn:E; [left; apply (f_equal (@rev A)) in E; rewrite rev_involutive in E; exact E|].
  right. exists (rev r), x. apply (f_equal (@rev A)) in E. rewrite rev_involutive in E. exact E. Qed.

(* one more element: the longest block so far, or the block ending at the new element *)
Lemma run_step p t w :
  bounded p w -> attained p w ->
  bounded (p ++ [t]) (Nat.max w (lead (rev (p ++ [t])))) /\ attained (p ++ [t]) (Nat.max w (lead (rev (p ++ [t])))).
Proof.
  intros Hb Ha. set (c := lead (rev (p ++ [t]))). split.
  - intros a seg b E F. destruct (last_case b) as [->|(b' & x & ->)].
    + rewrite app_nil_r in E. pose proof (suffix_le_lead a seg F) as L. rewrite <- E in L. fold c in L. lia.
    + assert (E' : p ++ [t] = (a ++ seg ++ b') ++ [x]) by (rewrite E, <- !app_assoc; reflexivity).
      apply app_inj_tail in E'. destruct E' as [E' _]. specialize (Hb a seg b' E' F). lia.
  - destruct (Nat.max_spec w c) as [[Hlt ->]|[Hge ->]].
    + destruct (lead_split (rev (p ++ [t]))) as (x & y & E & F & L). fold c in L.
      exists (rev y), (rev x), []. repeat split.
      * rewrite app_nil_r, <- rev_app_distr, <- E, rev_involutive. reflexivity.
      * apply forallb_rev, F.
      * rewrite rev_length. exact L.
    + destruct Ha as (a & seg & b & E & F & L). exists a, seg, (b ++ [t]). repeat split; [|exact F|exact L].
      rewrite E, <- !app_assoc. reflexivity.
Qed.

Lemma bounded_nil : bounded [] 0.
Proof. intros a seg b E _. destruct a; [destruct seg; [cbn; lia|discriminate]|discriminate]. Qed.
Lemma attained_nil : attained [] 0.
Proof. exists [], [], []. repeat split. Qed.
End Runs.

(* ---------- the streak counters ---------- *)
Definition is_win (t : mtrade) : bool := qltb 0 (m_pnl t).
Definition is_loss (t : mtrade) : bool := qltb (m_pnl t) 0.

Lemma not_both t : is_win t = true -> is_loss t = true -> False.
Proof. unfold is_win, is_loss. destruct (trichotomy (m_pnl t)) as [(A & B & _)|[(A & B & _)|(A & B & _)]]; rewrite A, B; discriminate. Qed.

Lemma lead_excl r : lead is_win r = 0%nat \/ lead is_loss r = 0%nat.
Proof. destruct r as [|t r]; [left; reflexivity|]. cbn [lead]. destruct (is_win t) eqn:W; [|left; reflexivity].
  destruct (is_loss t) eqn:L; [destruct (not_both t W L)|right; reflexivity]. Qed.

(* what the state of the fold means after the trades p *)
Definition streak_inv (p : list mtrade) (st : Z * nat * nat) : Prop :=
  let '(cur, w, lo) := st in
  cur = (Z.of_nat (lead is_win (rev p)) - Z.of_nat (lead is_loss (rev p)))%Z /\
  (bounded is_win p w /\ attained is_win p w) /\ (bounded is_loss p lo /\ attained is_loss p lo).

Lemma streak_step_inv p st t : streak_inv p st -> streak_inv (p ++ [t]) (streak_step st t).
Proof.
  destruct st as [[cur w] lo]. intros (Hc & (Bw & Aw) & (Bl & Al)). unfold streak_inv, streak_step.
  pose proof (run_step is_win p t w Bw Aw) as Rw. pose proof (run_step is_loss p t lo Bl Al) as Rl.
  pose proof (lead_excl (rev p)) as Ex.
  rewrite rev_app_distr in *. cbn [rev app lead] in *.
  fold (is_win t). fold (is_loss t).
  set (W := lead is_win (rev p)) in *. set (L := lead is_loss (rev p)) in *.
  destruct (is_win t) eqn:Wt.
  - destruct (is_loss t) eqn:Lt; [destruct (not_both t Wt Lt)|].
    assert (E : (if (0 <? cur)%Z then cur + 1 else 1)%Z = Z.of_nat (S W)).
    { destruct (Z.ltb_spec 0 cur); lia. }
    rewrite E. replace (Z.to_nat (Z.of_nat (S W))) with (S W) by lia. replace (Z.to_nat (- Z.of_nat (S W))) with 0%nat by lia.
    rewrite Nat.max_0_r in *. repeat split; try apply Rw; try apply Rl; try lia.
  - destruct (is_loss t) eqn:Lt.
    + assert (E : (if (cur <? 0)%Z then cur - 1 else -1)%Z = (- Z.of_nat (S L))%Z).
      { destruct (Z.ltb_spec cur 0); lia. }
      rewrite E. replace (Z.to_nat (- - Z.of_nat (S L))) with (S L) by lia. replace (Z.to_nat (- Z.of_nat (S L))) with 0%nat by lia.
      rewrite Nat.max_0_r in *. repeat split; try apply Rw; try apply Rl; try lia.
    + cbn [Z.opp Z.to_nat]. rewrite !Nat.max_0_r in *. repeat split; try apply Rw; try apply Rl; try lia.
Qed.

Lemma streaks_inv_gen l : forall p st, streak_inv p st -> streak_inv (p ++ l) (fold_left streak_step l st).
Proof.
  induction l as [|t l IH]; intros p st H; cbn [fold_left]; [rewrite app_nil_r; exact H|].
  replace (p ++ t :: l) with ((p ++ [t]) ++ l) by (rewrite <- app_assoc; reflexivity). apply IH, streak_step_inv, H.
Qed.

(* winning streak = length of the longest block of consecutive winners, losing streak likewise; the signed current streak counts the
   winners (positive) or losers (negative) at the end of the list *)
Theorem streaks_spec l :
  let '(cur, w, lo) := streaks l in
  (bounded is_win l w /\ attained is_win l w) /\ (bounded is_loss l lo /\ attained is_loss l lo) /\
  cur = (Z.of_nat (lead is_win (rev l)) - Z.of_nat (lead is_loss (rev l)))%Z.
Proof.
  pose proof (streaks_inv_gen l [] (0%Z, 0%nat, 0%nat)) as H. cbn [app] in H. fold (streaks l) in H.
  destruct (streaks l) as [[cur w] lo]. destruct H as (Hc & Hw & Hl).
  - cbn. repeat split; try apply bounded_nil; apply attained_nil.
  - repeat split; try apply Hw; try apply Hl. exact Hc.
Qed.

(* ---------- largest winner / loser ---------- *)
Lemma qmaxl_in l : forall d, qmaxl d l = d \/ In (qmaxl d l) l.
Proof.
  unfold qmaxl. induction l as [|y l IH]; intros d; cbn [fold_left]; [left; reflexivity|].
  destruct (IH (if qltb d y then y else d)) as [E|E]; [|right; right; exact E].
  rewrite E. destruct (qltb d y); [right; left; reflexivity|left; reflexivity].
Qed.
Lemma qminl_in l : forall d, qminl d l = d \/ In (qminl d l) l.
Proof.
  unfold qminl. induction l as [|y l IH]; intros d; cbn [fold_left]; [left; reflexivity|].
  destruct (IH (if qltb y d then y else d)) as [E|E]; [|right; right; exact E].
  rewrite E. destruct (qltb y d); [right; left; reflexivity|left; reflexivity].
Qed.

Theorem largest_win_attained l : wins l <> [] -> exists t, In t l /\ 0 < m_pnl t /\ m_pnl t = largest_win l.
Proof.
  intros Hn. unfold largest_win. destruct (wins l) as [|t0 r] eqn:E; [congruence|].
  assert (Hin : forall t, In t (t0 :: r) -> In t l /\ 0 < m_pnl t).
  { intros t Ht. rewrite <- E in Ht. apply filter_In in Ht. destruct Ht as [A B]. split; [exact A|]. destruct (qltb_spec 0 (m_pnl t)); [assumption|discriminate]. }
  destruct (qmaxl_in (map m_pnl r) (m_pnl t0)) as [Q|Q].
  - exists t0. destruct (Hin t0 (or_introl eq_refl)) as [A B]. repeat split; [exact A|exact B|symmetry; exact Q].
  - apply in_map_iff in Q. destruct Q as (t & Q1 & Q2). exists t. destruct (Hin t (or_intror Q2)) as [A B]. repeat split; [exact A|exact B|exact Q1].
Qed.

Theorem largest_loss_spec l :
  (forall t, In t l -> m_pnl t < 0 -> largest_loss l <= m_pnl t) /\
  (losses l <> [] -> exists t, In t l /\ m_pnl t < 0 /\ m_pnl t = largest_loss l).
Proof.
  unfold largest_loss. split.
  - intros t Hin Hp. assert (Hw : In t (losses l)) by (apply filter_In; split; [exact Hin|destruct (qltb_spec (m_pnl t) 0); [reflexivity|contradiction]]).
    destruct (losses l) as [|t0 r]; [destruct Hw|]. destruct (qminl_le (map m_pnl r) (m_pnl t0)) as [A B].
    destruct Hw as [<-|Hr]; [exact A|apply B; apply in_map; exact Hr].
  - intros Hn. destruct (losses l) as [|t0 r] eqn:E; [congruence|].
    assert (Hin : forall t, In t (t0 :: r) -> In t l /\ m_pnl t < 0).
    { intros t Ht. rewrite <- E in Ht. apply filter_In in Ht. destruct Ht as [A B]. split; [exact A|]. destruct (qltb_spec (m_pnl t) 0); [assumption|discriminate]. }
    destruct (qminl_in (map m_pnl r) (m_pnl t0)) as [Q|Q].
    + exists t0. destruct (Hin t0 (or_introl eq_refl)) as [A B]. repeat split; [exact A|exact B|symmetry; exact Q].
    + apply in_map_iff in Q. destruct Q as (t & Q1 & Q2). exists t. destruct (Hin t (or_intror Q2)) as [A B]. repeat split; [exact A|exact B|exact Q1].
Qed.

(* ---------- drawdown series ---------- *)
Definition dd_step (peak : option Qc) (x : Qc) : option Qc * Qc :=
  let pk := match peak with Some p => if qltb p x then x else p | None => x end in (Some pk, x / pk - 1).

Lemma drawdowns_unfold eq : drawdowns eq = mealy dd_step None eq.
Proof. reflexivity. Qed.

Lemma dd_some xs : forall pk k, (k < length xs)%nat ->
  nth k (mealy dd_step (Some pk) xs) 0 = nth k xs 0 / qmaxl pk (firstn (S k) xs) - 1.
Proof.
  induction xs as [|x r IH]; intros pk k Hk; [cbn in Hk; lia|].
  cbn [mealy dd_step]. destruct k as [|k].
  - cbn [nth firstn]. unfold qmaxl. cbn [fold_left]. reflexivity.
  - cbn [nth length] in *. rewrite IH by lia. cbn [firstn]. unfold qmaxl. cbn [fold_left]. reflexivity.
Qed.

(* drawdown at sample k = equity_k / (largest equity among samples 0..k) - 1 *)
Theorem drawdown_nth eq k : (k < length eq)%nat ->
  nth k (drawdowns eq) 0 = nth k eq 0 / qmaxl (hd 0 eq) (firstn (S k) eq) - 1.
Proof.
  rewrite drawdowns_unfold. destruct eq as [|x r]; [cbn; lia|]. intros Hk. cbn [mealy dd_step hd].
  assert (Q : forall l, qmaxl x (x :: l) = qmaxl x l).
  { intros l. unfold qmaxl. cbn [fold_left]. destruct (qltb_spec x x) as [A|A]; [exfalso; revert A; unfold Qclt; lra|reflexivity]. }
  destruct k as [|k].
  - cbn [nth firstn]. rewrite Q. unfold qmaxl. cbn [fold_left]. reflexivity.
  - cbn [nth length] in *. rewrite dd_some by lia. cbn [firstn]. rewrite (Q (match r with [] => [] | a :: l => a :: firstn k l end)).
    reflexivity.
Qed.

Lemma drawdowns_above_minus_one eq : Forall (fun x => 0 < x) eq -> Forall (fun d => - (1) < d) (drawdowns eq).
Proof.
  intros H. unfold drawdowns.
  apply (mealy_forall _ (fun peak => match peak with Some p => 0 < p | None => True end) (fun x => 0 < x)); [|exact I|exact H].
  intros peak x Hp Hx. cbn [fst snd].
  set (pk := match peak with Some p => if qltb p x then x else p | None => x end).
  assert (K : 0 < pk /\ x <= pk).
  { unfold pk. destruct peak as [p|]; [destruct (qltb_spec p x) as [A|A]; split; try assumption; qc|split; [exact Hx|qc]]. }
  destruct K as [K1 K2]. split; [exact K1|].
  pose proof (inv_pos pk K1) as Ip. unfold Qcdiv. set (i := / pk) in *. clearbody i. clearbody pk. revert Hx Ip. qc_arith. intros. nra.
Qed.

Theorem max_drawdown_range eq : Forall (fun x => 0 < x) eq -> - (1) < max_drawdown eq /\ max_drawdown eq <= 0.
Proof.
  intros H. split; [|apply max_drawdown_never_positive, H].
  pose proof (drawdowns_above_minus_one eq H) as D. unfold max_drawdown. destruct (drawdowns eq) as [|d r]; [unfold Qclt; cbn; lra|].
  rewrite Forall_forall in D. destruct (qminl_in r d) as [E|E]; [rewrite E; apply D; left; reflexivity|apply D; right; exact E].
Qed.

(* the maximum drawdown is the drawdown of one of the samples *)
Theorem max_drawdown_attained eq : eq <> [] -> In (max_drawdown eq) (drawdowns eq).
Proof.
  intros Hn. unfold max_drawdown. destruct (drawdowns eq) as [|d r] eqn:E.
  - exfalso. apply Hn. apply (f_equal (@length Qc)) in E. rewrite drawdowns_unfold, mealy_length in E. destruct eq; [reflexivity|discriminate].
  - destruct (qminl_in r d) as [Q|Q]; [rewrite Q; left; reflexivity|right; exact Q].
Qed.
