(* Proofs/RestingProofs.v — C02: an order that rests at the start of a minute, whose price is inside the minute's range and
   which the strategy layer does not cancel, is filled in that minute; fills happen only inside the minute's range, at the
   order's own price. *)
From Coq Require Import ZArith QArith Qcanon Lqa List Bool Lia.
From JV Require Import Base.Num Base.QcTac Gen.candle Spec.PathSpec Model.Match Proofs.CandleProofs Proofs.MatchProofs Proofs.SortProofs.
Import ListNotations.
Local Open Scope Qc_scope.
Import QcI.

Lemma qeqb_refl x : qeqb x x = true.
Proof. destruct (qeqb_spec x x); [reflexivity|congruence]. Qed.
Ltac dec2 := first [rewrite qeqb_refl | CandleProofs.dec1].

(* the order that is touched first leaves every order that is touched later inside what remains of the minute *)
Lemma split_keeps_later (k : cndl) (po px : Qc) a b : valid k ->
  c_low k <= po -> po <= c_high k -> c_low k <= px -> px <= c_high k ->
  dist k po <= dist k px -> split k po = Val (a, b) -> c_low b <= px /\ px <= c_high b.
Proof.
  destruct k as [t0 o0 c0 h0 l0 v0]. unfold valid, dist. cbn [c_ts c_open c_close c_high c_low c_vol].
  intros (H1 & H2 & H3 & H4) H5 H6 H7 H8 Hd Hs. revert Hs.
  destruct (qleb_spec o0 c0) as [Hb|Hr].
  - tri po o0.
    + tri l0 po; [| |exfalso; qc]; unf; repeat (dec2; cbn [andb]); intros Hs; injection Hs as <- <-; cbn [c_low c_high];
        revert Hd; repeat dec1; intros Hd; qc_arith; split; lra.
    + unf; repeat (dec2; cbn [andb]); intros Hs; injection Hs as <- <-; cbn [c_low c_high]; split; assumption.
    + tri po c0; [| |tri po h0; [| |exfalso; qc]]; unf; repeat (dec2; cbn [andb]); intros Hs; injection Hs as <- <-; cbn [c_low c_high];
        revert Hd; repeat dec1; intros Hd; qc_arith; split; lra.
  - tri o0 po.
    + tri po h0; [| |exfalso; qc]; unf; repeat (dec2; cbn [andb]); intros Hs; injection Hs as <- <-; cbn [c_low c_high];
        revert Hd; repeat dec1; intros Hd; qc_arith; split; lra.
    + unf; repeat (dec2; cbn [andb]); intros Hs; injection Hs as <- <-; cbn [c_low c_high]; split; assumption.
    + tri c0 po; [| |tri l0 po; [| |exfalso; qc]]; unf; repeat (dec2; cbn [andb]); intros Hs; injection Hs as <- <-; cbn [c_low c_high];
        revert Hd; repeat dec1; intros Hd; qc_arith; split; lra.
Qed.

Lemma qmax_ge_r x y h : qmax x y = h -> y <= h.
Proof. unfold qmax. destruct (qleb_spec x y); intros <-; qc. Qed.
Lemma qmin_le_r x y l : qmin x y = l -> l <= y.
Proof. unfold qmin. destruct (qleb_spec x y); intros <-; qc. Qed.

(* every fill of the minute is at an order price inside the minute's (extended) range; unless that price is the open of what
   is left, the partial candle the strategy sees at the fill closes exactly at the order price *)
Theorem chain_in_range k fills rest : valid k -> chain k fills rest ->
  Forall (fun f => c_low k <= oprice (fst f) /\ oprice (fst f) <= c_high k) fills /\ c_low k <= c_low rest /\ c_high rest <= c_high k /\ valid rest.
Proof.
  intros Hv Hc. induction Hc as [k|k o a b fs rest Hi Hs Hc IH].
  - split; [constructor|]. split; [qc|]. split; [qc|exact Hv].
  - pose proof (includes_range k o Hi) as [Hl Hh].
    destruct (split_total_valid k (oprice o) Hv Hl Hh) as (a' & b' & Hs' & Hva & Hvb & _ & _ & Hmax & Hmin & _).
    rewrite Hs in Hs'. injection Hs' as <- <-.
    apply qmax_ge_r in Hmax. apply qmin_le_r in Hmin.
    destruct (IH Hvb) as (HF & H1 & H2 & H3). split; [|split; [qc|split; [qc|exact H3]]].
    constructor; [split; assumption|].
    eapply Forall_impl; [|exact HF]. intros f [Hf1 Hf2]. split; qc.
Qed.

Theorem chain_fill_price k fills rest : valid k -> chain k fills rest ->
  Forall (fun f : rorder * cndl => c_close (snd f) = oprice (fst f) \/ oprice (fst f) = c_open (snd f)) fills.
Proof.
  intros Hv Hc. induction Hc as [k|k o a b fs rest Hi Hs Hc IH]; [constructor|].
  pose proof (includes_range k o Hi) as [Hl Hh].
  destruct (split_total_valid k (oprice o) Hv Hl Hh) as (a' & b' & Hs' & Hva & Hvb & Hoa & _ & _ & _ & _ & _ & _ & _ & Hp).
  rewrite Hs in Hs'. injection Hs' as <- <-.
  constructor; [|apply IH; exact Hvb]. cbn [fst snd].
  destruct (qeqb_spec (oprice o) (c_open k)) as [E|E].
  - right. rewrite Hoa. exact E.
  - left. apply Hp. exact E.
Qed.

Definition lone (o : rorder) (w : list rorder) : Prop := forall x, In x w -> oid x = oid o -> x = o.

Section Resting.
Variable react : rorder -> cndl -> list rorder -> list rorder.
Variable o : rorder.
(* the strategy layer never cancels o and never creates another order with o's identity *)
Hypothesis keeps : forall o1 a w0, In o w0 -> lone o w0 -> In o (react o1 a w0) /\ lone o (react o1 a w0).

Lemma lone_remove o1 w : lone o w -> lone o (remove_order o1 w).
Proof. intros H x Hx. apply H. unfold remove_order in Hx. apply filter_In in Hx. apply Hx. Qed.

Lemma mloop_fills_resting fuel : forall k w acc fills rest w', valid k -> In o w -> lone o w -> includes k o = true ->
  mloop react fuel k w (candidates k w) acc = Done fills rest w' -> In o (map fst fills).
Proof.
  induction fuel as [|f IH]; intros k w acc fills rest w' Hv Hin Hl Hi H; cbn [mloop] in H; [discriminate|].
  assert (Hex : In o (executing k w)) by (apply filter_In; split; assumption).
  destruct (pick k w (candidates k w)) as [o1|] eqn:Ep.
  - destruct (split_candle QcNum k (oprice o1)) as [[a b]| |] eqn:Es; try discriminate.
    destruct (pick_head k w o1 Ep) as (r & Hc).
    assert (Ho1 : In o1 (executing k w)) by (apply candidates_in; rewrite Hc; left; reflexivity).
    pose proof Ho1 as Ho1'. apply filter_In in Ho1'. destruct Ho1' as [Ho1w Ho1i].
    destruct (includes_range k o1 Ho1i) as [Hl1 Hh1]. destruct (includes_range k o Hi) as [Hlo Hho].
    destruct (split_total_valid k (oprice o1) Hv Hl1 Hh1) as (a' & b' & Hs' & _ & Hvb & _).
    change (split k (oprice o1)) with (split_candle QcNum k (oprice o1)) in Hs'. rewrite Es in Hs'. injection Hs' as <- <-.
    destruct (Nat.eq_dec (oid o1) (oid o)) as [Eid|Nid].
    + assert (o1 = o) by (apply Hl; assumption). subst o1.
      apply mloop_chain in H. destruct H as (fs & -> & _). rewrite map_app. apply in_or_app. left.
      cbn [rev]. rewrite map_app. apply in_or_app. right. left. reflexivity.
    + assert (Hrem : In o (remove_order o1 w)).
      { unfold remove_order. apply filter_In. split; [exact Hin|]. apply negb_true_iff. apply Nat.eqb_neq. intros E. apply Nid. symmetry. exact E. }
      destruct (keeps o1 a _ Hrem (lone_remove o1 w Hl)) as [Hin' Hl'].
      assert (Hd : dist k (oprice o1) <= dist k (oprice o)) by (eapply candidates_head_minimal; eassumption).
      destruct (split_keeps_later k (oprice o1) (oprice o) a b Hv Hl1 Hh1 Hlo Hho Hd Es) as [Hb1 Hb2].
      eapply IH; [exact Hvb|exact Hin'|exact Hl'| |exact H].
      unfold includes, candle_includes_price. cbn [leb QcNum].
      destruct (qleb_spec (c_low b) (oprice o)); [|exfalso; qc]. destruct (qleb_spec (oprice o) (c_high b)); [reflexivity|exfalso; qc].
  - exfalso. apply candidates_in in Hex. unfold pick in Ep. pose proof (find_none _ _ Ep o Hex) as Hn. cbn beta in Hn.
    rewrite (is_active_self w o Hin), Hi in Hn. discriminate.
Qed.

(* C02: an order resting at the start of the minute whose price is inside the minute's range (extended to the previous
   close by the gap normalisation) and which is not cancelled during the minute IS filled in that minute *)
Theorem resting_order_filled fuel k w fills rest w' : valid k -> In o w -> lone o w -> includes k o = true ->
  match_minute react fuel k w = Done fills rest w' -> In o (map fst fills).
Proof. unfold match_minute. intros Hv Hin Hl Hi H. eapply mloop_fills_resting; eassumption. Qed.
End Resting.

(* an order whose price is outside the minute's range is not filled in that minute *)
Theorem outside_not_filled react fuel k w fills rest w' x : valid k ->
  match_minute react fuel k w = Done fills rest w' -> In x (map fst fills) -> c_low k <= oprice x /\ oprice x <= c_high k.
Proof.
  intros Hv H Hx. apply match_chain in H. destruct (chain_in_range k fills rest Hv H) as [HF _].
  apply in_map_iff in Hx. destruct Hx as (f & <- & Hf). rewrite Forall_forall in HF. apply (HF f Hf).
Qed.

Theorem executing_iff k w o : In o (executing k w) <-> In o w /\ c_low k <= oprice o /\ oprice o <= c_high k.
Proof.
  unfold executing. rewrite filter_In. split.
  - intros [H I]. split; [exact H|]. apply includes_range. exact I.
  - intros [H [A B]]. split; [exact H|]. unfold includes, candle_includes_price. cbn [leb QcNum].
    destruct (qleb_spec (c_low k) (oprice o)); [|exfalso; qc]. destruct (qleb_spec (oprice o) (c_high k)); [reflexivity|exfalso; qc].
Qed.
