(* Proofs/MetricsProofs.v — C16: the defining identities of the trade-list metrics, for every list of trades, and the sign of the
   maximum drawdown, for every positive equity series. *)
From Coq Require Import ZArith QArith Qcanon Lqa List Bool Arith Lia.
From JV Require Import Base.Num Base.QcTac Model.Indicators Model.Metrics Proofs.IndicatorBounds.
Import ListNotations.
Local Open Scope Qc_scope.
Import QcI.

Lemma qofnat_plus a b : qofnat (a + b) = qofnat a + qofnat b.
Proof. unfold qofnat. apply Qc_is_canon. rewrite this_plus, !this_Q2Qc. rewrite Nat2Z.inj_add, inject_Z_plus. reflexivity. Qed.
Lemma qofnat_0 : qofnat 0 = 0.
Proof. apply Qc_is_canon. reflexivity. Qed.
Lemma qofnat_S n : qofnat (S n) = 1 + qofnat n.
Proof. change (S n) with (1 + n)%nat. rewrite qofnat_plus. f_equal; try (apply Qc_is_canon; reflexivity). Qed.

(* every trade is a winner, a loser or break-even, exactly one of the three *)
Lemma trichotomy x : (qltb 0 x = true /\ qltb x 0 = false /\ qeqb x 0 = false) \/ (qltb 0 x = false /\ qltb x 0 = true /\ qeqb x 0 = false) \/
                     (qltb 0 x = false /\ qltb x 0 = false /\ qeqb x 0 = true).
Proof.
  destruct (qltb_spec 0 x) as [A|A]; destruct (qltb_spec x 0) as [B|B]; destruct (qeqb_spec x 0) as [E|E]; try subst; auto;
    exfalso; try (apply neq_Q in E); revert A B; try revert E; unfold Qclt; qc_arith; intros; lra.
Qed.

Theorem total_is_wins_losses_evens l : total l = (length (wins l) + length (losses l) + length (evens l))%nat.
Proof.
  unfold total, wins, losses, evens. induction l as [|t r IH]; [reflexivity|]. cbn [filter length].
  destruct (trichotomy (m_pnl t)) as [(A & B & E)|[(A & B & E)|(A & B & E)]]; rewrite A, B, E; cbn [length]; lia.
Qed.

Lemma sum_pnl_cons t l : sum_pnl (t :: l) = m_pnl t + sum_pnl l.
Proof. unfold sum_pnl. cbn [map]. apply qsum_cons. Qed.

Theorem net_profit_is_gross_profit_plus_gross_loss l : net_profit l = gross_profit l + gross_loss l /\ net_profit l = sum_pnl l.
Proof.
  split; [|reflexivity]. unfold net_profit, gross_profit, gross_loss, wins, losses. induction l as [|t r IH]; [unfold sum_pnl, Indicators.qsum; cbn; ring|].
  cbn [filter]. rewrite sum_pnl_cons.
  destruct (trichotomy (m_pnl t)) as [(A & B & E)|[(A & B & E)|(A & B & E)]]; rewrite A, B; rewrite ?sum_pnl_cons, IH; try ring.
  destruct (qeqb_spec (m_pnl t) 0) as [Z|]; [rewrite Z; ring|discriminate E].
Qed.

Theorem longs_and_shorts_partition l : (longs l + shorts l)%nat = total l.
Proof. unfold longs, shorts, total. induction l as [|t r IH]; [reflexivity|]. cbn [filter length]. destruct (m_long t); cbn [negb length]; lia. Qed.

Lemma nat_pos_nonzero n : (0 < n)%nat -> qofnat n <> 0.
Proof. intros H Z. pose proof (qofnat_pos n H) as P. rewrite Z in P. revert P. unfold Qclt. cbn. lra. Qed.

Theorem percentages_sum_to_100 l : (0 < total l)%nat ->
  longs_percentage l + shorts_percentage l = qofnat 100 /\
  shorts_percentage l = qofnat (shorts l) / qofnat (longs l + shorts l) * qofnat 100.
Proof.
  intros H. unfold shorts_percentage, longs_percentage. split; [ring|].
  rewrite (longs_and_shorts_partition l). pose proof (nat_pos_nonzero _ H) as N.
  assert (E : qofnat (total l) = qofnat (longs l) + qofnat (shorts l)) by (rewrite <- qofnat_plus, longs_and_shorts_partition; reflexivity).
  assert (N' : qofnat (longs l) + qofnat (shorts l) <> 0) by (rewrite <- E; exact N). rewrite E. field. exact N'.
Qed.

Theorem win_rate_spec l : 0 <= win_rate l /\ win_rate l <= 1 /\ win_rate l * qofnat (length (wins l) + length (losses l)) = qofnat (length (wins l)).
Proof.
  unfold win_rate. destruct (wins l) as [|t r] eqn:E.
  - cbn [length]. rewrite qofnat_0. repeat split; try ring; unfold Qcle; cbn; lra.
  - set (W := length (t :: r)). assert (HW : (0 < W)%nat) by (unfold W; cbn; lia). set (L := length (losses l)).
    assert (P : 0 < qofnat (W + L)) by (apply qofnat_pos; lia).
    destruct (div_unit (qofnat W) (qofnat (W + L))) as [A B]; [apply qofnat_nonneg|rewrite qofnat_plus; pose proof (qofnat_nonneg L); set (a := qofnat W) in *; set (b := qofnat L) in *; clearbody a b; qc_arith; lra|exact P|].
    split; [exact A|]. split; [exact B|]. field. apply nat_pos_nonzero. lia.
Qed.

Lemma gross_loss_nonpos l : gross_loss l <= 0.
Proof.
  unfold gross_loss, losses. induction l as [|t r IH]; [unfold sum_pnl, Indicators.qsum; cbn; unfold Qcle; cbn; lra|].
  cbn [filter]. destruct (qltb_spec (m_pnl t) 0) as [A|A]; [rewrite sum_pnl_cons; revert A IH; unfold Qclt; qc_arith; intros; lra|exact IH].
Qed.

Lemma wins_no_loss l : wins l = [] -> gross_profit l = 0.
Proof. unfold gross_profit. intros ->. unfold sum_pnl, Indicators.qsum. cbn. reflexivity. Qed.
Lemma losses_no_loss l : losses l = [] -> gross_loss l = 0.
Proof. unfold gross_loss. intros ->. unfold sum_pnl, Indicators.qsum. cbn. reflexivity. Qed.

(* expectancy is the net profit per decided (non break-even) trade *)
Theorem expectancy_is_net_profit_per_decided_trade l :
  expectancy l * qofnat (length (wins l) + length (losses l)) = net_profit l.
Proof.
  destruct (net_profit_is_gross_profit_plus_gross_loss l) as [NP _]. rewrite NP. unfold expectancy, win_rate, average_win, average_loss.
  pose proof (gross_loss_nonpos l) as GLn.
  destruct (wins l) as [|tw rw] eqn:EW; destruct (losses l) as [|tl rl] eqn:EL.
  - rewrite (wins_no_loss l EW), (losses_no_loss l EL). cbn [length Nat.add]. rewrite qofnat_0. ring.
  - rewrite (wins_no_loss l EW). set (L := length (tl :: rl)). assert (HL : (0 < L)%nat) by (unfold L; cbn; lia). cbn [length Nat.add].
    assert (N : qofnat L <> 0) by (apply nat_pos_nonzero; exact HL).
    assert (Ab : qabs (gross_loss l / qofnat L) = - (gross_loss l / qofnat L)).
    { unfold qabs. destruct (qltb_spec (gross_loss l / qofnat L) 0) as [A|A]; [reflexivity|].
      assert (Z : gross_loss l / qofnat L <= 0).
      { pose proof (inv_pos _ (qofnat_pos L HL)) as Ip. unfold Qcdiv. set (i := / qofnat L) in *. set (g := gross_loss l) in *. clearbody i g. qc_arith. nra. }
      apply Qc_is_canon. revert A Z. unfold Qclt, Qcle. set (d := gross_loss l / qofnat L). clearbody d. rewrite this_opp. change (this 0) with 0%Q. intros. lra. }
    rewrite Ab. change (0 + L)%nat with L. field. exact N.
  - rewrite (losses_no_loss l EL). set (W := length (tw :: rw)). assert (HW : (0 < W)%nat) by (unfold W; cbn; lia). cbn [length]. rewrite Nat.add_0_r.
    assert (N : qofnat W <> 0) by (apply nat_pos_nonzero; exact HW). field. exact N.
  - set (W := length (tw :: rw)). set (L := length (tl :: rl)). assert (HW : (0 < W)%nat) by (unfold W; cbn; lia). assert (HL : (0 < L)%nat) by (unfold L; cbn; lia).
    assert (NW : qofnat W <> 0) by (apply nat_pos_nonzero; exact HW). assert (NL : qofnat L <> 0) by (apply nat_pos_nonzero; exact HL).
    assert (NWL : qofnat W + qofnat L <> 0) by (rewrite <- qofnat_plus; apply nat_pos_nonzero; lia).
    assert (Ab : qabs (gross_loss l / qofnat L) = - (gross_loss l / qofnat L)).
    { unfold qabs. destruct (qltb_spec (gross_loss l / qofnat L) 0) as [A|A]; [reflexivity|].
      assert (Z : gross_loss l / qofnat L <= 0).
      { pose proof (inv_pos _ (qofnat_pos L HL)) as Ip. unfold Qcdiv. set (i := / qofnat L) in *. set (g := gross_loss l) in *. clearbody i g. qc_arith. nra. }
      apply Qc_is_canon. revert A Z. unfold Qclt, Qcle. set (d := gross_loss l / qofnat L). clearbody d. rewrite this_opp. change (this 0) with 0%Q. intros. lra. }
    rewrite Ab, qofnat_plus. field. repeat split; assumption.
Qed.

(* the largest winner bounds every winner *)
Theorem largest_win_bounds l t : In t l -> 0 < m_pnl t -> m_pnl t <= largest_win l.
Proof.
  intros Hin Hp. unfold largest_win. assert (Hw : In t (wins l)) by (apply filter_In; split; [exact Hin|destruct (qltb_spec 0 (m_pnl t)); [reflexivity|contradiction]]).
  destruct (wins l) as [|t0 r]; [destruct Hw|]. destruct (qmaxl_ge (map m_pnl r) (m_pnl t0)) as [A B].
  destruct Hw as [<-|Hr]; [exact A|apply B; apply in_map; exact Hr].
Qed.

(* maximum drawdown is never positive *)
Lemma drawdowns_nonpos eq : Forall (fun x => 0 < x) eq -> Forall (fun d => d <= 0) (drawdowns eq).
Proof.
  intros H. unfold drawdowns.
  apply (mealy_forall _ (fun peak => match peak with Some p => 0 < p | None => True end) (fun x => 0 < x)); [|exact I|exact H].
  intros peak x Hp Hx. cbn [fst snd].
  set (pk := match peak with Some p => if qltb p x then x else p | None => x end).
  assert (K : 0 < pk /\ x <= pk).
  { unfold pk. destruct peak as [p|]; [destruct (qltb_spec p x) as [A|A]; split; try assumption; qc|split; [exact Hx|qc]]. }
  destruct K as [K1 K2]. split; [exact K1|].
  destruct (div_unit x pk) as [_ D]; [revert Hx; unfold Qclt, Qcle; intros; lra|exact K2|exact K1|].
  set (r := x / pk) in *. clearbody r. revert D. qc_arith. intros. lra.
Qed.

Theorem max_drawdown_never_positive eq : Forall (fun x => 0 < x) eq -> max_drawdown eq <= 0.
Proof.
  intros H. pose proof (drawdowns_nonpos eq H) as D. unfold max_drawdown. destruct (drawdowns eq) as [|d r]; [qc|].
  apply Forall_cons_iff in D. destruct D as [D0 _]. destruct (qminl_le r d) as [A _]. qc.
Qed.
