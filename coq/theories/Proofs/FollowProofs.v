(* Proofs/FollowProofs.v — every run of the match loop, whatever the strategy layer does in reaction
   to fills, fills orders along the remaining price path (C08 clause iv). *)
From Coq Require Import ZArith QArith Qcanon Lqa List Bool.
From JV Require Import Base.Num Base.QcTac Gen.candle Gen.backtest Model.Match Spec.PathSpec
  Proofs.CandleProofs Proofs.CandleProofs2 Proofs.MatchProofs Proofs.SortProofs Proofs.KernelEq.
Import ListNotations.
Local Open Scope Qc_scope.
Import QcI.

Lemma chain_follows k fills rest : valid k -> chain k fills rest -> follows k fills /\ valid rest.
Proof.
  intros Hv Hc. induction Hc as [k|k o a b fs rest Hi Hs Hc IH]; [split; [constructor|assumption]|].
  destruct (includes_range k o Hi) as [Hlo Hhi].
  destruct (split_total_valid k (oprice o) Hv Hlo Hhi) as (a' & b' & Hs' & Va & Vb & _).
  rewrite Hs in Hs'. injection Hs' as E1 E2. subst a' b'.
  destruct (IH Vb) as [Hf Hr]. split; [|assumption].
  apply (follows_cons k o a b fs); try assumption. eapply split_is_path_cut; eassumption.
Qed.

Theorem match_follows_path react fuel k w fills rest w' : valid k ->
  match_minute react fuel k w = Done fills rest w' ->
  follows k fills /\ valid rest /\ executing rest w' = [].
Proof.
  intros Hv H. pose proof (match_chain react fuel k w fills rest w' H) as Hc.
  destruct (chain_follows k fills rest Hv Hc) as [Hf Hr]. split; [assumption|split; [assumption|]].
  eapply match_end; eassumption.
Qed.

(* on a valid candle and any set of resting orders the loop cannot fail in split_candle *)
Lemma mloop_no_split_failure react fuel : forall k w cands acc o k', valid k ->
  mloop react fuel k w cands acc <> SplitFailed o k'.
Proof.
  induction fuel as [|f IH]; intros k w cands acc o k' Hv; cbn [mloop]; [discriminate|].
  destruct (pick k w cands) as [x|] eqn:Ep; [|discriminate].
  unfold pick in Ep. apply find_some in Ep. destruct Ep as [_ Ep]. apply andb_true_iff in Ep. destruct Ep as [_ Hi].
  destruct (includes_range k x Hi) as [Hlo Hhi].
  destruct (split_total_valid k (oprice x) Hv Hlo Hhi) as (a & b & Hs & Va & Vb & _).
  rewrite Hs. apply IH. exact Vb.
Qed.

(* the gap normalisation keeps candles valid and only stretches them to the previous close *)
Theorem fix_jump_valid (prev c : cndl) : valid c ->
  let c' := fix_jump QcNum prev c in
  valid c' /\ c_open c' = c_close prev /\ c_close c' = c_close c /\ c_ts c' = c_ts c /\ c_vol c' = c_vol c /\
  c_high c' = qmax (c_high c) (c_close prev) /\ c_low c' = qmin (c_low c) (c_close prev).
Proof.
  rewrite gen_fix_jump_ref.
  destruct c as [t0 o0 c0 h0 l0 v0]. destruct prev as [t1 o1 c1 h1 l1 v1].
  unfold valid, fix_jump_ref, qmax, qmin. cbn [c_ts c_open c_close c_high c_low c_vol].
  intros (H1 & H2 & H3 & H4).
  destruct (qltb_spec c1 o0); [|destruct (qltb_spec o0 c1)]; cbn [c_ts c_open c_close c_high c_low c_vol];
  repeat CandleProofs.dec1; repeat split; try reflexivity; try (apply Qc_is_canon; qc); qc.
Qed.
