(* Proofs/MetricsOrder.v — C16, continued: the counting and summing metrics do not depend on the ORDER of the trade list
   ("any long/short mix and order"): for every permutation of the trades, total, winners, losers, net / gross profit and loss, fee,
   long and short counts, win rate, averages and expectancy are equal; and the average win (loss) lies between 0 and the largest
   win (loss). Exact rationals, every trade list. *)
From Coq Require Import ZArith QArith Qcanon Lqa List Bool Arith Lia Permutation.
From JV Require Import Base.Num Base.QcTac Model.Indicators Model.Metrics Proofs.IndicatorBounds Proofs.MetricsProofs Proofs.MetricsSpec.
Import ListNotations.
Local Open Scope Qc_scope.
Import QcI.

Lemma qsum_perm l l' : Permutation l l' -> Indicators.qsum l = Indicators.qsum l'.
Proof.
  induction 1 as [|x l l' _ IH|x y l|l l' l'' _ IH1 _ IH2]; rewrite ?qsum_cons; [reflexivity|rewrite IH; reflexivity|ring|congruence].
Qed.
Lemma filter_perm {A} (f : A -> bool) l l' : Permutation l l' -> Permutation (filter f l) (filter f l').
Proof.
  induction 1 as [|x l l' _ IH|x y l|l l' l'' _ IH1 _ IH2]; cbn [filter].
  - constructor.
  - destruct (f x); [constructor|]; exact IH.
  - destruct (f x), (f y); try apply Permutation_refl. apply perm_swap.
  - eapply Permutation_trans; eassumption.
Qed.
Lemma sum_pnl_perm l l' : Permutation l l' -> sum_pnl l = sum_pnl l'.
Proof. intros H. unfold sum_pnl. apply qsum_perm, Permutation_map, H. Qed.

Theorem metrics_do_not_depend_on_order l l' : Permutation l l' ->
  total l = total l' /\ length (wins l) = length (wins l') /\ length (losses l) = length (losses l') /\
  net_profit l = net_profit l' /\ gross_profit l = gross_profit l' /\ gross_loss l = gross_loss l' /\ fee_sum l = fee_sum l' /\
  longs l = longs l' /\ shorts l = shorts l' /\ win_rate l = win_rate l' /\ average_win l = average_win l' /\ average_loss l = average_loss l' /\
  expectancy l = expectancy l'.
Proof.
  intros H.
  assert (W : Permutation (wins l) (wins l')) by (apply filter_perm, H).
  assert (L : Permutation (losses l) (losses l')) by (apply filter_perm, H).
  assert (Wn := Permutation_length W). assert (Ln := Permutation_length L).
  assert (GP : gross_profit l = gross_profit l') by (apply sum_pnl_perm, W).
  assert (GL : gross_loss l = gross_loss l') by (apply sum_pnl_perm, L).
  assert (WR : win_rate l = win_rate l').
  { unfold win_rate. rewrite Wn, Ln. destruct (wins l) as [|a r], (wins l') as [|a' r']; try reflexivity; discriminate. }
  assert (AW : average_win l = average_win l') by (unfold average_win; rewrite GP, Wn; reflexivity).
  assert (AL : average_loss l = average_loss l') by (unfold average_loss; rewrite GL, Ln; reflexivity).
  repeat split; try assumption.
  - apply Permutation_length, H.
  - apply sum_pnl_perm, H.
  - unfold fee_sum. apply qsum_perm, Permutation_map, H.
  - unfold longs. apply Permutation_length, filter_perm, H.
  - unfold shorts. apply Permutation_length, filter_perm, H.
  - unfold expectancy. rewrite AW, AL, WR.
    destruct (wins l) as [|a r], (wins l') as [|a' r'], (losses l) as [|b s], (losses l') as [|b' s']; try reflexivity; discriminate.
Qed.

(* the mean of a non-empty list lies between any bounds of its elements *)
Lemma qsum_bounds lo hi l : Forall (fun x => lo <= x /\ x <= hi) l ->
  qofnat (length l) * lo <= Indicators.qsum l /\ Indicators.qsum l <= qofnat (length l) * hi.
Proof.
  induction 1 as [|x r [A B] _ [IH1 IH2]]; [unfold Indicators.qsum; cbn [fold_left length]; rewrite qofnat_0; split; qc_arith; lra|].
  rewrite qsum_cons. cbn [length]. rewrite qofnat_S. set (n := qofnat (length r)) in *. clearbody n.
  set (s := Indicators.qsum r) in *. clearbody s. split; revert A B IH1 IH2; qc_arith; intros; nra.
Qed.
Lemma mean_between lo hi l : l <> [] -> Forall (fun x => lo <= x /\ x <= hi) l ->
  lo <= Indicators.qsum l / qofnat (length l) /\ Indicators.qsum l / qofnat (length l) <= hi.
Proof.
  intros Hn H. destruct (qsum_bounds lo hi l H) as [A B].
  assert (P : 0 < qofnat (length l)) by (apply qofnat_pos; destruct l; [congruence|cbn; lia]).
  pose proof (inv_pos _ P) as I. assert (N : qofnat (length l) <> 0) by (intros Z; rewrite Z in P; revert P; unfold Qclt; cbn; lra).
  pose proof (mul_inv_r _ N) as M. unfold Qcdiv.
  set (n := qofnat (length l)) in *. clearbody n. set (i := / n) in *. clearbody i. set (s := Indicators.qsum l) in *. clearbody s.
  split; revert A B P I M; qc_arith; intros A B P I M; apply eq_Q in M; rewrite this_mult in M; change (this 1) with 1%Q in M.
  - assert (K : (0 <= (this s - this n * this lo) * this i)%Q) by (apply Qmult_le_0_compat; lra).
    assert (E : (this lo * (this n * this i) == this lo * 1)%Q) by (rewrite M; reflexivity). nra.
  - assert (K : (0 <= (this n * this hi - this s) * this i)%Q) by (apply Qmult_le_0_compat; lra).
    assert (E : (this hi * (this n * this i) == this hi * 1)%Q) by (rewrite M; reflexivity). nra.
Qed.

(* the average win lies between 0 and the largest win; the average loss between 0 and the size of the largest loss *)
Theorem average_win_between l : wins l <> [] -> 0 <= average_win l /\ average_win l <= largest_win l.
Proof.
  intros Hn. unfold average_win, gross_profit, sum_pnl. rewrite <- (map_length m_pnl (wins l)).
  apply mean_between; [destruct (wins l); [congruence|discriminate]|].
  apply Forall_forall. intros x Hx. apply in_map_iff in Hx. destruct Hx as (t & <- & Ht). unfold wins in Ht. apply filter_In in Ht.
  destruct Ht as [Hin Hp]. destruct (qltb_spec 0 (m_pnl t)) as [P|P]; [|discriminate]. split; [apply Qclt_le_weak, P|apply largest_win_bounds; assumption].
Qed.
Theorem average_loss_between l : losses l <> [] -> 0 <= average_loss l /\ average_loss l <= - largest_loss l.
Proof.
  intros Hn. unfold average_loss, gross_loss, sum_pnl. rewrite <- (map_length m_pnl (losses l)).
  assert (B : largest_loss l <= Indicators.qsum (map m_pnl (losses l)) / qofnat (length (map m_pnl (losses l))) /\
              Indicators.qsum (map m_pnl (losses l)) / qofnat (length (map m_pnl (losses l))) <= 0).
  { apply mean_between; [destruct (losses l); [congruence|discriminate]|].
    apply Forall_forall. intros x Hx. apply in_map_iff in Hx. destruct Hx as (t & <- & Ht). unfold losses in Ht. apply filter_In in Ht.
    destruct Ht as [Hin Hp]. destruct (qltb_spec (m_pnl t) 0) as [P|P]; [|discriminate].
    split; [apply (proj1 (largest_loss_spec l)); assumption|apply Qclt_le_weak, P]. }
  destruct B as [B1 B2]. set (m := Indicators.qsum (map m_pnl (losses l)) / qofnat (length (map m_pnl (losses l)))) in *. clearbody m.
  set (L := largest_loss l) in *. clearbody L. unfold qabs. destruct (qltb_spec m 0) as [N|N]; split; revert B1 B2 N; qc_arith; intros; lra.
Qed.
