(* Proofs/FuturesProofs.v — the futures accounting model refines the reference average-cost margin account for
   every legal history (C03): same accept/reject decisions, same wallet, positions and available margin. *)
From Coq Require Import ZArith QArith Qcanon Lqa List Bool Lia Permutation.
From JV Require Import Base.Num Base.QcTac Model.Spot Model.Futures Spec.RefFutures Proofs.FillProofs.
Import ListNotations.
Local Open Scope Qc_scope.
Import QcI.

Definition absF (s : fut) : rfut :=
  {| rw := wallet s; rlev := lev s; rfee := ffee s; rn := nsym s; rpos := posn s; rorders := forders s |}.

(* rows the margin tables should hold: the active non-reduce-only orders of one side of one symbol *)
Definition counted (sd : side) (sym : nat) (o : forder) : bool :=
  negb (f_final o) && negb (f_ro o) && side_eqb (f_side o) sd && Nat.eqb (f_sym o) sym.
Fixpoint rows (sd : side) (sym : nat) (os : list forder) : list (Qc * Qc) :=
  match os with [] => [] | o :: r => if counted sd sym o then row_of o :: rows sd sym r else rows sd sym r end.

Definition fgood (o : forder) : Prop := 0 < f_qty o /\ 0 < f_price o.

Definition Inv (s : fut) : Prop :=
  (forall i, Permutation (buys s i) (rows Buy i (forders s)) /\ Permutation (sells s i) (rows Sell i (forders s))) /\
  0 < lev s /\ 0 <= ffee s /\ Forall fgood (forders s) /\ (forall i, 0 <= p_cur (posn s i) /\ 0 <= p_entry (posn s i)).

(* ------------------------------------------------------------------ sums over rows *)
Lemma tsum_app l l' : tsum (l ++ l') = tsum l + tsum l'.
Proof. induction l as [|x l IH]; cbn [app tsum]; [ring|]. rewrite IH. ring. Qed.
Lemma tsum_perm l l' : Permutation l l' -> tsum l = tsum l'.
Proof.
  induction 1; cbn [tsum]; try reflexivity.
  - rewrite IHPermutation. reflexivity.
  - ring.
  - congruence.
Qed.

Lemma rows_resting_buy i os : tsum (rows Buy i os) = resting_notional Buy i os.
Proof.
  induction os as [|o r IH]; cbn [rows resting_notional]; [reflexivity|]. unfold counted.
  destruct (negb (f_final o) && negb (f_ro o) && side_eqb (f_side o) Buy && Nat.eqb (f_sym o) i) eqn:E; [|exact IH].
  cbn [tsum]. rewrite IH. unfold row_of, signed. cbn [fst snd].
  apply andb_true_iff in E. destruct E as [E _]. apply andb_true_iff in E. destruct E as [_ E]. destruct (f_side o); [reflexivity|discriminate].
Qed.
Lemma rows_resting_sell i os : tsum (rows Sell i os) = - resting_notional Sell i os.
Proof.
  induction os as [|o r IH]; cbn [rows resting_notional tsum]; [ring|]. unfold counted.
  destruct (negb (f_final o) && negb (f_ro o) && side_eqb (f_side o) Sell && Nat.eqb (f_sym o) i) eqn:E; [|exact IH].
  cbn [tsum]. rewrite IH. unfold row_of, signed. cbn [fst snd].
  apply andb_true_iff in E. destruct E as [E _]. apply andb_true_iff in E. destruct E as [_ E]. destruct (f_side o); [discriminate|ring].
Qed.
Lemma resting_nonneg sd i os : Forall fgood os -> 0 <= resting_notional sd i os.
Proof.
  induction 1 as [|o r Ho Hr IH]; cbn [resting_notional]; [unfold Qcle; apply Qle_refl|].
  destruct (negb (f_final o) && negb (f_ro o) && side_eqb (f_side o) sd && Nat.eqb (f_sym o) i); [|exact IH].
  destruct Ho as [A B]. set (x := f_qty o) in *. set (y := f_price o) in *. set (z := resting_notional sd i r) in *. clearbody x y z. qc_arith. nra.
Qed.

Lemma rows_app sd i os o : rows sd i (os ++ [o]) = rows sd i os ++ (if counted sd i o then [row_of o] else []).
Proof.
  induction os as [|x r IH]; cbn [app rows]; [destruct (counted sd i o); reflexivity|].
  rewrite IH. destruct (counted sd i x); reflexivity.
Qed.

Lemma ffind_in os id o : ffind os id = Some o -> In o os /\ f_id o = id.
Proof.
  induction os as [|x r IH]; cbn [ffind]; [discriminate|].
  destruct (Nat.eqb (f_id x) id) eqn:E.
  - intros H. injection H as <-. split; [left; reflexivity|apply Nat.eqb_eq; exact E].
  - intros H. destruct (IH H). split; [right; assumption|assumption].
Qed.

(* finalising an active order removes its row (if it has one) from the expected rows *)
Lemma rows_freplace sd i os id o st : ffind os id = Some o -> f_final o = false -> st <> Active ->
  if counted sd i o then Permutation (rows sd i os) (row_of o :: rows sd i (freplace os (fset_status o st)))
  else rows sd i (freplace os (fset_status o st)) = rows sd i os.
Proof.
  intros Hf Ha Hst. pose proof (proj2 (ffind_in _ _ _ Hf)) as Hid.
  assert (Hnc : counted sd i (fset_status o st) = false).
  { unfold counted, f_final. cbn [fset_status f_status]. destruct st; [congruence|reflexivity|reflexivity]. }
  induction os as [|x r IH]; cbn [ffind] in Hf; [discriminate|].
  cbn [freplace fset_status f_id]. rewrite Hid.
  destruct (Nat.eqb (f_id x) id) eqn:E.
  - injection Hf as ->. cbn [rows]. rewrite Hnc. destruct (counted sd i o); reflexivity.
  - specialize (IH Hf). cbn [rows]. destruct (counted sd i o) eqn:Eo.
    + destruct (counted sd i x); [|exact IH].
      eapply perm_trans; [apply perm_skip; exact IH|apply perm_swap].
    + rewrite IH. reflexivity.
Qed.

Lemma remove_first_perm x l : In x l -> Permutation l (x :: remove_first x l).
Proof.
  induction l as [|y r IH]; intros H; [destruct H|]. cbn [remove_first].
  destruct (qeqb_spec (fst y) (fst x)) as [E1|N1]; cbn [andb].
  - destruct (qeqb_spec (snd y) (snd x)) as [E2|N2].
    + assert (y = x) by (destruct x, y; cbn in *; subst; reflexivity). subst. reflexivity.
    + destruct H as [->|H]; [contradiction|]. eapply perm_trans; [apply perm_skip; apply IH; exact H|apply perm_swap].
  - destruct H as [->|H]; [contradiction|]. eapply perm_trans; [apply perm_skip; apply IH; exact H|apply perm_swap].
Qed.

Lemma drop_matches l ex x ex' : Permutation l ex -> Permutation ex (x :: ex') -> Permutation (remove_first x l) ex'.
Proof.
  intros H1 H2. assert (Hin : In x l) by (eapply Permutation_in; [apply Permutation_sym; eapply perm_trans; eassumption|left; reflexivity]).
  apply Permutation_cons_inv with (a := x). eapply perm_trans; [apply Permutation_sym; apply remove_first_perm; exact Hin|].
  eapply perm_trans; eassumption.
Qed.

(* ------------------------------------------------------------------ available margin *)
Lemma qabs_nonneg x : 0 <= x -> qabs x = x.
Proof. intros H. unfold qabs. destruct (qltb_spec x 0); [exfalso; qc_arith; lra|reflexivity]. Qed.
Lemma qabs_opp_nonneg x : 0 <= x -> qabs (- x) = x.
Proof.
  intros H. unfold qabs. destruct (qltb_spec (- x) 0); [ring|]. apply Qc_is_canon. qc_arith. lra.
Qed.

Lemma pnl_is_upnl p : 0 <= p_cur p -> 0 <= p_entry p -> pos_pnl p = upnl p.
Proof.
  destruct p as [q e c]. unfold pos_pnl, upnl. cbn [p_qty p_entry p_cur]. intros Hc He.
  destruct (qltb_spec q 0) as [Hq|Hq].
  - assert (A : qabs (c * q) = - (c * q)) by (unfold qabs; destruct (qltb_spec (c * q) 0); [reflexivity|apply Qc_is_canon; qc_arith; nra]).
    assert (B : qabs (e * q) = - (e * q)) by (unfold qabs; destruct (qltb_spec (e * q) 0); [reflexivity|apply Qc_is_canon; qc_arith; nra]).
    rewrite A, B. ring.
  - assert (A : qabs (c * q) = c * q) by (apply qabs_nonneg; qc_arith; nra).
    assert (B : qabs (e * q) = e * q) by (apply qabs_nonneg; qc_arith; nra).
    rewrite A, B. ring.
Qed.

Lemma inv_pos x : 0 < x -> 0 < / x.
Proof. intros H. unfold Qclt in *. rewrite this_inv. change (this 0) with 0%Q in *. apply Qinv_lt_0_compat. exact H. Qed.

Lemma max_div a b l : 0 < l -> nmax (N := QcNum) (a / l) (b / l) = qmaxr a b / l.
Proof.
  intros Hl. pose proof (inv_pos l Hl) as Hi. unfold nmax, qmaxr. cbn [ltb QcNum].
  assert (Ea : a / l = a * / l) by reflexivity. assert (Eb : b / l = b * / l) by reflexivity. rewrite Ea, Eb.
  set (i := / l) in *. clearbody i.
  destruct (qltb_spec (a * i) (b * i)) as [H|H], (qleb_spec a b) as [H2|H2].
  - symmetry. exact Eb.
  - exfalso. clear Ea Eb. qc_arith. nra.
  - assert (a = b) by (clear Ea Eb; apply Qc_is_canon; qc_arith; nra). subst. symmetry. exact Eb.
  - symmetry. exact Ea.
Qed.

Lemma spent_on_abs s i : Inv s -> spent_on s i = rspent_on (absF s) i.
Proof.
  intros (Ht & Hl & Hf & Hg & Hp). unfold spent_on, rspent_on, absF. cbn [rpos rlev rorders].
  destruct (Ht i) as [Tb Ts]. destruct (Hp i) as [Pc Pe].
  rewrite (tsum_perm _ _ Tb), (tsum_perm _ _ Ts), rows_resting_buy, rows_resting_sell.
  rewrite (qabs_nonneg _ (resting_nonneg Buy i _ Hg)), (qabs_opp_nonneg _ (resting_nonneg Sell i _ Hg)).
  rewrite (max_div _ _ _ Hl). f_equal.
  destruct (qeqb (p_qty (posn s i)) 0); [reflexivity|]. rewrite (pnl_is_upnl _ Pc Pe).
  assert (E : forall a b l, a * b / l = b * a / l) by (intros; unfold Qcdiv; ring). rewrite E. reflexivity.
Qed.

Lemma avail_abs s : Inv s -> avail s = ravail (absF s).
Proof.
  intros HI. unfold avail, ravail. cbn [absF rw rn]. f_equal.
  induction (nsym s) as [|n IH]; cbn [spent rspent]; [reflexivity|]. rewrite IH, (spent_on_abs s n HI). reflexivity.
Qed.

(* ------------------------------------------------------------------ steps *)
Lemma fgood_status o st : fgood o -> fgood (fset_status o st).
Proof. unfold fgood. cbn [fset_status f_qty f_price]. auto. Qed.
Lemma fgood_replace os o' : Forall fgood os -> fgood o' -> Forall fgood (freplace os o').
Proof.
  intros H Ho. induction os as [|x r IH]; cbn [freplace]; [constructor|].
  inversion H; subst. destruct (Nat.eqb (f_id x) (f_id o')); constructor; auto.
Qed.

Lemma counted_active_new sd i o : counted sd i (fset_status o Active) = negb (f_ro o) && side_eqb (f_side o) sd && Nat.eqb (f_sym o) i.
Proof. unfold counted, f_final. cbn [fset_status f_status f_ro f_side f_sym negb andb]. reflexivity. Qed.

Lemma submit_sim s o : Inv s -> fgood o ->
  snd (fsubmit s o) = snd (rsubmit (absF s) o) /\
  (snd (fsubmit s o) <> Rejected -> absF (fst (fsubmit s o)) = fst (rsubmit (absF s) o) /\ Inv (fst (fsubmit s o))).
Proof.
  intros HI Hg. pose proof HI as (Ht & Hl & Hf & Hgs & Hp). destruct Hg as [Hq Hpr].
  unfold fsubmit, rsubmit. rewrite (avail_abs s HI). cbn [absF rlev].
  assert (Hn : qabs (signed o * f_price o) = f_qty o * f_price o).
  { unfold signed. destruct (f_side o).
    - apply qabs_nonneg. set (x := f_qty o) in *. set (y := f_price o) in *. clearbody x y. qc_arith. nra.
    - assert (E : - f_qty o * f_price o = - (f_qty o * f_price o)) by ring. rewrite E. apply qabs_opp_nonneg.
      set (x := f_qty o) in *. set (y := f_price o) in *. clearbody x y. qc_arith. nra. }
  rewrite Hn.
  destruct (negb (f_ro o) && qltb (ravail (absF s)) (f_qty o * f_price o / lev s)) eqn:Er; cbn [fst snd].
  - split; [reflexivity|intros X; congruence].
  - assert (Hgs' : Forall fgood (forders s ++ [fset_status o Active])).
    { apply Forall_app. split; [exact Hgs|]. constructor; [|constructor]. apply fgood_status. split; assumption. }
    assert (Hrows : forall sd i, rows sd i (forders s ++ [fset_status o Active]) =
                                 rows sd i (forders s) ++ (if negb (f_ro o) && side_eqb (f_side o) sd && Nat.eqb (f_sym o) i then [row_of o] else [])).
    { intros sd i. rewrite rows_app, counted_active_new. reflexivity. }
    destruct (f_ro o) eqn:Ero.
    + cbn [fst snd]. split; [reflexivity|]. intros _. split; [reflexivity|].
      unfold Inv, with_tables. cbn [wallet lev ffee nsym posn buys sells forders]. repeat split; try assumption.
      * rewrite Hrows. cbn [negb andb]. rewrite app_nil_r. apply (Ht i).
      * rewrite Hrows. cbn [negb andb]. rewrite app_nil_r. apply (Ht i).
      * apply (Hp i). * apply (Hp i).
    + assert (Hb : forall i, Permutation (if f_side o then upd (buys s) (f_sym o) (buys s (f_sym o) ++ [row_of o]) i else buys s i)
                                        (rows Buy i (forders s ++ [fset_status o Active]))).
      { intros i. rewrite Hrows. cbn [negb andb]. destruct (f_side o); cbn [side_eqb andb]; unfold upd.
        - destruct (Nat.eqb i (f_sym o)) eqn:E.
          + apply Nat.eqb_eq in E. subst i. rewrite Nat.eqb_refl. apply Permutation_app_tail. apply (Ht (f_sym o)).
          + rewrite (Nat.eqb_sym (f_sym o) i), E. rewrite app_nil_r. apply (Ht i).
        - rewrite app_nil_r. apply (Ht i). }
      assert (Hsl : forall i, Permutation (if f_side o then sells s i else upd (sells s) (f_sym o) (sells s (f_sym o) ++ [row_of o]) i)
                                         (rows Sell i (forders s ++ [fset_status o Active]))).
      { intros i. rewrite Hrows. cbn [negb andb]. destruct (f_side o); cbn [side_eqb andb]; unfold upd.
        - rewrite app_nil_r. apply (Ht i).
        - destruct (Nat.eqb i (f_sym o)) eqn:E.
          + apply Nat.eqb_eq in E. subst i. rewrite Nat.eqb_refl. apply Permutation_app_tail. apply (Ht (f_sym o)).
          + rewrite (Nat.eqb_sym (f_sym o) i), E. rewrite app_nil_r. apply (Ht i). }
      destruct (f_side o); cbn [fst snd]; (split; [reflexivity|]); intros _; (split; [reflexivity|]);
        unfold Inv, with_tables; cbn [wallet lev ffee nsym posn buys sells forders];
        (split; [intros i; split; [apply (Hb i)|apply (Hsl i)]|]); repeat split; try assumption; apply (Hp i).
Qed.

(* the tables after an order became final *)
Lemma drop_row_inv s id o st : Inv s -> ffind (forders s) id = Some o -> f_final o = false -> st <> Active ->
  forall i, Permutation (fst (drop_row s o) i) (rows Buy i (freplace (forders s) (fset_status o st))) /\
            Permutation (snd (drop_row s o) i) (rows Sell i (freplace (forders s) (fset_status o st))).
Proof.
  intros (Ht & _) Hf Ha Hst i. destruct (Ht i) as [Tb Ts].
  pose proof (rows_freplace Buy i _ _ _ st Hf Ha Hst) as Rb. pose proof (rows_freplace Sell i _ _ _ st Hf Ha Hst) as Rs.
  unfold drop_row, counted in *. rewrite Ha in *. cbn [negb andb] in *.
  destruct (f_ro o) eqn:Ero; cbn [negb andb fst snd] in *.
  - rewrite Rb, Rs. split; assumption.
  - destruct (f_side o) eqn:Es; cbn [side_eqb andb fst snd] in *; unfold upd.
    + rewrite Rs. split; [|exact Ts]. destruct (Nat.eqb i (f_sym o)) eqn:E.
      * apply Nat.eqb_eq in E. subst i. rewrite Nat.eqb_refl in Rb. eapply drop_matches; eassumption.
      * rewrite (Nat.eqb_sym (f_sym o) i), E in Rb. rewrite Rb. exact Tb.
    + rewrite Rb. split; [exact Tb|]. destruct (Nat.eqb i (f_sym o)) eqn:E.
      * apply Nat.eqb_eq in E. subst i. rewrite Nat.eqb_refl in Rs. eapply drop_matches; eassumption.
      * rewrite (Nat.eqb_sym (f_sym o) i), E in Rs. rewrite Rs. exact Ts.
Qed.

Lemma fill_entry_nonneg p sq price ro : 0 <= p_entry p -> 0 < price -> sq <> 0 ->
  0 <= p_entry (fst (position_fill p sq price ro)) /\ p_cur (fst (position_fill p sq price ro)) = p_cur p.
Proof.
  destruct p as [q e c]. intros He Hp Hsq. unfold position_fill. cbn [p_qty p_entry p_cur] in *.
  assert (Hpp : 0 <= price) by (qc_arith; lra).
  destruct (qeqb q 0); [cbn; auto|]. destruct (qeqb (q + sq) 0); [cbn; auto|].
  destruct (qltb 0 (q * sq)).
  - destruct ro; cbn [fst p_entry p_cur]; [auto|]. split; [|reflexivity].
    assert (A : 0 <= qabs sq /\ 0 <= qabs q) by (unfold qabs; split; [destruct (qltb_spec sq 0)|destruct (qltb_spec q 0)]; qc_arith; lra).
    assert (B : 0 < qabs sq) by (unfold qabs; destruct (qltb_spec sq 0); [qc_arith; lra|apply neq_Q in Hsq; unfold Qclt, Qcle in *; change (this 0) with 0%Q in *; lra]).
    destruct A as [A1 A2]. assert (D : 0 < qabs sq + qabs q) by (set (x := qabs sq) in *; set (y := qabs q) in *; clearbody x y; qc_arith; lra).
    pose proof (inv_pos _ D) as Hi.
    assert (E : (qabs sq * price + qabs q * e) / (qabs sq + qabs q) = (qabs sq * price + qabs q * e) * / (qabs sq + qabs q)) by reflexivity.
    rewrite E. assert (N : 0 <= qabs sq * price + qabs q * e) by (set (x := qabs sq) in *; set (y := qabs q) in *; clearbody x y; qc_arith; nra).
    set (n := qabs sq * price + qabs q * e) in *. set (i := / (qabs sq + qabs q)) in *. clearbody n i. qc_arith. nra.
  - destruct (qltb (qabs q) (qabs sq)); destruct ro; cbn [fst p_entry p_cur]; auto.
Qed.

Lemma fexecute_sim s id : Inv s ->
  (forall o, ffind (forders s) id = Some o -> f_final o = false -> f_ro o = true -> p_qty (posn s (f_sym o)) <> 0) ->
  absF (fexecute s id) = rexecute (absF s) id /\ Inv (fexecute s id).
Proof.
  intros HI Hro. pose proof HI as (Ht & Hl & Hf & Hgs & Hp). unfold fexecute, rexecute. cbn [absF rorders rpos rw rfee rlev rn].
  destruct (ffind (forders s) id) as [o|] eqn:Ef; [|split; [reflexivity|exact HI]].
  destruct (f_final o) eqn:Efin; [split; [reflexivity|exact HI]|].
  assert (Hgo : fgood o) by (rewrite Forall_forall in Hgs; apply Hgs; apply (ffind_in _ _ _ Ef)). destruct Hgo as [Hq Hpr].
  assert (Hsq : signed o <> 0).
  { unfold signed. intros E. apply eq_Q in E. destruct (f_side o); rewrite ?this_opp in E; change (this 0) with 0%Q in E; unfold Qclt in Hq; change (this 0) with 0%Q in Hq; lra. }
  rewrite <- (fill_is_average_cost _ _ _ _ Hsq (Hro o eq_refl Efin)).
  assert (Hst : Executed <> Active) by discriminate.
  pose proof (drop_row_inv s id o Executed HI Ef Efin Hst) as Hrows.
  destruct (drop_row s o) as [b sl] eqn:Ed. cbn [fst snd] in Hrows.
  destruct (position_fill (posn s (f_sym o)) (signed o) (f_price o) (f_ro o)) as [p' pnl] eqn:Epf.
  assert (Hn : qabs (signed o * f_price o) = f_qty o * f_price o).
  { unfold signed. destruct (f_side o).
    - apply qabs_nonneg. set (x := f_qty o) in *. set (y := f_price o) in *. clearbody x y. qc_arith. nra.
    - assert (E : - f_qty o * f_price o = - (f_qty o * f_price o)) by ring. rewrite E. apply qabs_opp_nonneg.
      set (x := f_qty o) in *. set (y := f_price o) in *. clearbody x y. qc_arith. nra. }
  rewrite Hn. split; [reflexivity|].
  unfold Inv. cbn [wallet lev ffee nsym posn buys sells forders]. repeat split; try assumption.
  - apply (Hrows i). - apply (Hrows i).
  - apply fgood_replace; [exact Hgs|apply fgood_status; split; assumption].
  - unfold upd. destruct (Nat.eqb i (f_sym o)); [|apply (Hp i)].
    destruct (fill_entry_nonneg (posn s (f_sym o)) (signed o) (f_price o) (f_ro o) (proj2 (Hp _)) Hpr Hsq) as [_ C]. rewrite Epf in C. cbn [fst] in C. rewrite C. apply (Hp _).
  - unfold upd. destruct (Nat.eqb i (f_sym o)); [|apply (Hp i)].
    destruct (fill_entry_nonneg (posn s (f_sym o)) (signed o) (f_price o) (f_ro o) (proj2 (Hp _)) Hpr Hsq) as [E _]. rewrite Epf in E. exact E.
Qed.

Lemma fcancel_sim s id : Inv s -> absF (fcancel s id) = rcancel (absF s) id /\ Inv (fcancel s id).
Proof.
  intros HI. pose proof HI as (Ht & Hl & Hf & Hgs & Hp). unfold fcancel, rcancel. cbn [absF rorders].
  destruct (ffind (forders s) id) as [o|] eqn:Ef; [|split; [reflexivity|exact HI]].
  destruct (f_final o) eqn:Efin; [split; [reflexivity|exact HI]|].
  assert (Hgo : fgood o) by (rewrite Forall_forall in Hgs; apply Hgs; apply (ffind_in _ _ _ Ef)).
  assert (Hst : Canceled <> Active) by discriminate.
  pose proof (drop_row_inv s id o Canceled HI Ef Efin Hst) as Hrows.
  destruct (drop_row s o) as [b sl] eqn:Ed. cbn [fst snd] in Hrows.
  split; [reflexivity|]. unfold Inv, with_tables. cbn [wallet lev ffee nsym posn buys sells forders]. repeat split; try assumption.
  - apply (Hrows i). - apply (Hrows i).
  - apply fgood_replace; [exact Hgs|apply fgood_status; exact Hgo].
  - apply (Hp i). - apply (Hp i).
Qed.

Lemma fprice_sim s sym price : Inv s -> 0 < price -> absF (fprice s sym price) = rprice (absF s) sym price /\ Inv (fprice s sym price).
Proof.
  intros (Ht & Hl & Hf & Hgs & Hp) Hpr. split; [reflexivity|].
  unfold Inv, fprice. cbn [wallet lev ffee nsym posn buys sells forders]. repeat split; try assumption; try (apply (Ht i)).
  - unfold upd. destruct (Nat.eqb i sym); cbn [p_cur]; [qc_arith; lra|apply (Hp i)].
  - unfold upd. destruct (Nat.eqb i sym); cbn [p_entry]; apply (Hp _).
Qed.

(* ------------------------------------------------------------------ whole histories *)
Fixpoint fwf_orders (ops : list fop) : Prop :=
  match ops with [] => True | FSubmit o :: r => fgood o /\ fwf_orders r | _ :: r => fwf_orders r end.

Theorem futures_refines ops : forall s, Inv s -> fwf (absF s) ops -> fwf_orders ops ->
  snd (frun s ops) = snd (rrun (absF s) ops) /\
  (ok_end (snd (frun s ops)) = true -> absF (fst (frun s ops)) = fst (rrun (absF s) ops) /\ Inv (fst (frun s ops))).
Proof.
  induction ops as [|o ops IH]; intros s HI Hwf Hgo.
  - cbn. split; [reflexivity|]. intros _. split; [reflexivity|exact HI].
  - assert (Hstep : snd (fstep s o) = snd (rstep (absF s) o) /\
                    (snd (fstep s o) <> Rejected -> absF (fst (fstep s o)) = fst (rstep (absF s) o) /\ Inv (fst (fstep s o)) /\
                       fwf (absF (fst (fstep s o))) ops /\ fwf_orders ops)).
    { destruct o as [x|id|id|sym pr]; cbn [fstep rstep fst snd fwf fwf_orders] in *.
      - destruct Hgo as [Hg Hgo]. destruct Hwf as (_ & _ & _ & _ & Hwf). destruct (submit_sim s x HI Hg) as [R1 R2]. split; [exact R1|].
        intros Hne. destruct (R2 Hne) as [Ha HI']. split; [exact Ha|]. split; [exact HI'|]. split; [|exact Hgo]. rewrite Ha.
        destruct (rsubmit (absF s) x) as [r' res'] eqn:Er. cbn [fst snd] in *. rewrite <- R1 in Hwf.
        destruct (snd (fsubmit s x)); [exact Hwf|contradiction|exact Hwf].
      - destruct Hwf as [Hc Hwf]. destruct (fexecute_sim s id HI Hc) as [Ha HI']. split; [reflexivity|]. intros _. split; [exact Ha|]. split; [exact HI'|]. split; [rewrite Ha; exact Hwf|exact Hgo].
      - destruct (fcancel_sim s id HI) as [Ha HI']. split; [reflexivity|]. intros _. split; [exact Ha|]. split; [exact HI'|]. split; [rewrite Ha; exact Hwf|exact Hgo].
      - destruct Hwf as [Hp Hwf]. destruct (fprice_sim s sym pr HI Hp) as [Ha HI']. split; [reflexivity|]. intros _. split; [exact Ha|]. split; [exact HI'|]. split; [rewrite Ha; exact Hwf|exact Hgo]. }
    destruct Hstep as [R1 R2]. cbn [frun rrun].
    destruct (fstep s o) as [s' res] eqn:Es. destruct (rstep (absF s) o) as [r' res'] eqn:Er. cbn [fst snd] in *. subst res'.
    destruct res.
    + destruct (R2 ltac:(discriminate)) as (Ha & HI' & Hwf' & Hgo'). rewrite <- Ha.
      destruct (IH s' HI' Hwf' Hgo') as [Q1 Q2].
      destruct (frun s' ops) as [s2 rs]. destruct (rrun (absF s') ops) as [r2 rs']. cbn [fst snd] in *. subst rs'.
      split; [reflexivity|]. intros Hok. apply Q2. unfold ok_end in *. cbn [rev] in Hok. destruct (rev rs); [reflexivity|exact Hok].
    + cbn [fst snd]. split; [reflexivity|]. intros X. discriminate X.
    + destruct (R2 ltac:(discriminate)) as (Ha & HI' & Hwf' & Hgo'). rewrite <- Ha.
      destruct (IH s' HI' Hwf' Hgo') as [Q1 Q2].
      destruct (frun s' ops) as [s2 rs]. destruct (rrun (absF s') ops) as [r2 rs']. cbn [fst snd] in *. subst rs'.
      split; [reflexivity|]. intros Hok. apply Q2. unfold ok_end in *. cbn [rev] in Hok. destruct (rev rs); [reflexivity|exact Hok].
Qed.

Lemma finit_inv b l f n p0 : 0 < l -> 0 <= f -> 0 <= p0 -> Inv (finit b l f n p0) /\ absF (finit b l f n p0) = rinit b l f n p0.
Proof.
  intros. split; [|reflexivity]. unfold Inv, finit. cbn [wallet lev ffee nsym posn buys sells forders rows p_cur p_entry].
  repeat split; try assumption; try constructor. unfold Qcle; apply Qle_refl.
Qed.

(* the statement of C03 *)
Theorem futures_account_refines b l f n p0 ops : 0 < l -> 0 <= f -> 0 <= p0 -> fwf (rinit b l f n p0) ops -> fwf_orders ops ->
  let '(s, rs) := frun (finit b l f n p0) ops in let '(r, rs') := rrun (rinit b l f n p0) ops in
  rs = rs' /\
  (ok_end rs = true ->
     wallet s = rw r /\ avail s = ravail r /\
     (forall i, p_qty (posn s i) = p_qty (rpos r i) /\ p_entry (posn s i) = p_entry (rpos r i) /\ pos_pnl (posn s i) = upnl (rpos r i))).
Proof.
  intros Hl Hf Hp Hwf Hgo. destruct (finit_inv b l f n p0 Hl Hf Hp) as [HI Ha]. rewrite <- Ha in Hwf.
  destruct (futures_refines ops _ HI Hwf Hgo) as [R1 R2]. rewrite Ha in *.
  destruct (frun (finit b l f n p0) ops) as [s rs]. destruct (rrun (rinit b l f n p0) ops) as [r rs']. cbn [fst snd] in *.
  split; [exact R1|]. intros Hok. destruct (R2 Hok) as [Habs HI']. rewrite <- Habs. cbn [absF rw rpos].
  split; [reflexivity|]. split; [apply avail_abs; exact HI'|]. intros i. repeat split.
  destruct HI' as (_ & _ & _ & _ & Hpp). apply pnl_is_upnl; apply (Hpp i).
Qed.

(* submitting and then cancelling an order restores the available margin exactly *)
Lemma ffind_app_new os o' id : ffind os id = None -> f_id o' = id -> ffind (os ++ [o']) id = Some o'.
Proof.
  intros H E. induction os as [|x r IH]; cbn [app ffind] in *.
  - rewrite E, Nat.eqb_refl. reflexivity.
  - destruct (Nat.eqb (f_id x) id); [discriminate|]. apply IH. exact H.
Qed.
Lemma resting_replace_new sd i os o' o'' id : ffind os id = None -> f_id o' = id -> f_id o'' = id -> f_final o'' = true ->
  resting_notional sd i (freplace (os ++ [o']) o'') = resting_notional sd i os.
Proof.
  intros H E1 E2 Hf. induction os as [|x r IH]; cbn [app freplace ffind] in *.
  - rewrite E1, E2, Nat.eqb_refl. cbn [resting_notional]. rewrite Hf. reflexivity.
  - rewrite E2. destruct (Nat.eqb (f_id x) id) eqn:E; [discriminate|]. cbn [resting_notional]. rewrite (IH H). reflexivity.
Qed.

Lemma rspent_ext r r' n : rlev r = rlev r' -> (forall i, rpos r i = rpos r' i) ->
  (forall sd i, resting_notional sd i (rorders r) = resting_notional sd i (rorders r')) -> rspent r n = rspent r' n.
Proof.
  intros Hl Hp Hr. induction n as [|n IH]; cbn [rspent]; [reflexivity|]. rewrite IH. f_equal.
  unfold rspent_on. rewrite Hl, Hp, !Hr. reflexivity.
Qed.

Theorem submit_cancel_restores s o : Inv s -> fgood o -> ffind (forders s) (f_id o) = None ->
  snd (fsubmit s o) = Accepted -> avail (fcancel (fst (fsubmit s o)) (f_id o)) = avail s.
Proof.
  intros HI Hg Hfresh Hacc. destruct (submit_sim s o HI Hg) as [R1 R2]. rewrite Hacc in R2.
  destruct (R2 ltac:(discriminate)) as [Ha HI']. destruct (fcancel_sim _ (f_id o) HI') as [Hc HI''].
  rewrite (avail_abs _ HI''), (avail_abs _ HI), Hc, Ha. rewrite Hacc in R1.
  unfold rsubmit in *. destruct (negb (f_ro o) && qltb (ravail (absF s)) (f_qty o * f_price o / rlev (absF s))); [discriminate R1|].
  cbn [fst]. unfold rcancel. cbn [rorders absF].
  rewrite (ffind_app_new (forders s) (fset_status o Active) (f_id o) Hfresh eq_refl). cbn [f_final fset_status f_status].
  unfold ravail. cbn [rw rn]. f_equal. apply rspent_ext; cbn [rlev rpos rorders]; try reflexivity.
  intros sd i. apply (resting_replace_new sd i (forders s) (fset_status o Active) (fset_status (fset_status o Active) Canceled) (f_id o) Hfresh eq_refl eq_refl eq_refl).
Qed.

(* reduce-only fills never increase the size of a position and never flip its sign *)
Theorem reduce_only_never_increases p sq price : sq <> 0 -> p_qty p <> 0 ->
  let p' := fst (position_fill p sq price true) in
  qabs (p_qty p') <= qabs (p_qty p) /\ 0 <= p_qty p * p_qty p'.
Proof.
  destruct p as [q e c]. cbn [p_qty]. intros Hsq Hq. unfold position_fill. cbn [p_qty p_entry p_cur].
  destruct (qeqb_spec q 0) as [X|_]; [contradiction|].
  destruct (qeqb_spec (q + sq) 0) as [E0|N0]; cbn [fst p_qty].
  { split; [unfold qabs; destruct (qltb_spec 0 0), (qltb_spec q 0); qc_arith; lra|qc_arith; nra]. }
  destruct (qltb_spec 0 (q * sq)) as [Hs|Hs]; cbn [fst p_qty].
  { split; [unfold Qcle; apply Qle_refl|qc_arith; nra]. }
  destruct (qltb_spec (qabs q) (qabs sq)) as [Ho|Ho]; cbn [fst p_qty].
  { split; [unfold qabs; destruct (qltb_spec 0 0), (qltb_spec q 0); qc_arith; lra|qc_arith; nra]. }
  unfold qabs in *. destruct (qltb_spec q 0), (qltb_spec sq 0), (qltb_spec (q + sq) 0); split; qc_arith; try nra.
Qed.
