(* Proofs/MatchProofs.v — properties of the match loop (Model/Match.v) for ARBITRARY reactions of the
   strategy layer: every fill is at the order's own price inside the remaining part of the minute,
   successive remaining parts are obtained by split_candle, and when the loop ends no active order's
   price lies inside what remains of the minute. *)
From Coq Require Import ZArith QArith Qcanon Lqa List Bool Arith Lia.
From JV Require Import Base.Num Base.QcTac Gen.candle Model.Match.
Import ListNotations.
Local Open Scope Qc_scope.
Import QcI.

(* ------------------------------------------------------------------ insertion sorts keep the elements *)
Lemma ins_asc_in o x l : In x (ins_asc o l) <-> x = o \/ In x l.
Proof.
  induction l as [|y l IH]; cbn [ins_asc].
  - cbn. intuition.
  - destruct (qleb (oprice o) (oprice y)); cbn [In]; [intuition|]. rewrite IH. cbn [In]. intuition.
Qed.
Lemma ins_desc_in o x l : In x (ins_desc o l) <-> x = o \/ In x l.
Proof.
  induction l as [|y l IH]; cbn [ins_desc].
  - cbn. intuition.
  - destruct (qleb (oprice y) (oprice o)); cbn [In]; [intuition|]. rewrite IH. cbn [In]. intuition.
Qed.
Lemma sort_asc_in x l : In x (sort_asc l) <-> In x l.
Proof.
  unfold sort_asc. induction l as [|y l IH]; cbn [fold_right]; [reflexivity|].
  rewrite ins_asc_in, IH. cbn [In]. intuition.
Qed.
Lemma sort_desc_in x l : In x (sort_desc l) <-> In x l.
Proof.
  unfold sort_desc. induction l as [|y l IH]; cbn [fold_right]; [reflexivity|].
  rewrite ins_desc_in, IH. cbn [In]. intuition.
Qed.

(* sort_one lists exactly the included orders (an order on the open may be listed twice) *)
Lemma sort_one_in orders k x : In x (sort_one orders k) <-> In x (filter (includes k) orders).
Proof.
  unfold sort_one. set (inc := filter (includes k) orders).
  destruct inc as [|a [|b r]] eqn:E; [reflexivity|reflexivity|]. rewrite <- E. clear E a b r.
  set (op := c_open k).
  assert (Hpart : In x inc <-> In x (filter (fun o => qltb op (oprice o)) inc) \/ In x (filter (fun o => negb (qltb op (oprice o))) inc)).
  { rewrite !filter_In. destruct (qltb op (oprice x)); cbn; intuition. }
  assert (Hon : In x (filter (fun o => qeqb (oprice o) op) inc) -> In x inc) by (rewrite filter_In; intuition).
  rewrite in_app_iff. destruct (qltb (c_close k) op); rewrite in_app_iff, ?sort_asc_in, ?sort_desc_in.
  - split; [intros [H|[H|H]]; [auto|apply Hpart; auto|apply Hpart; auto]|intros H; apply Hpart in H; destruct H; auto].
  - split; [intros [H|[H|H]]; [auto|apply Hpart; auto|apply Hpart; auto]|intros H; apply Hpart in H; destruct H; auto].
Qed.

Lemma filter_all {A} (f : A -> bool) l : (forall x, In x l -> f x = true) -> filter f l = l.
Proof.
  induction l as [|x l IH]; intros H; cbn [filter]; [reflexivity|]. rewrite (H x (or_introl eq_refl)). f_equal. apply IH. intros y Hy. apply H. right. exact Hy.
Qed.
Lemma filter_none {A} (f : A -> bool) l : (forall x, In x l -> f x = false) -> filter f l = [].
Proof.
  induction l as [|x l IH]; intros H; cbn [filter]; [reflexivity|]. rewrite (H x (or_introl eq_refl)). apply IH. intros y Hy. apply H. right. exact Hy.
Qed.
Lemma listed_in acc o : In o acc -> listed acc o = true.
Proof. intros H. unfold listed. apply existsb_exists. exists o. split; [exact H|apply Nat.eqb_refl]. Qed.

(* one candle, every order inside it (what the step simulator passes): the result is the one-candle ordering *)
Lemma sort_exec_single orders k : (forall o, In o orders -> includes k o = true) -> sort_exec orders [k] = sort_one orders k.
Proof.
  intros Hin. unfold sort_exec. cbn [sort_exec_from app].
  assert (E0 : filter (fun o => negb (listed [] o)) orders = orders) by (apply filter_all; intros x _; reflexivity).
  rewrite E0.
  assert (Es : (if Nat.eqb (length (sort_one orders k)) (length orders) then sort_one orders k else sort_one orders k) = sort_one orders k)
    by (destruct (Nat.eqb _ _); reflexivity).
  rewrite Es. rewrite filter_none; [apply app_nil_r|].
  intros x Hx. apply negb_false_iff. apply listed_in. apply sort_one_in. apply filter_In. split; [exact Hx|apply Hin; exact Hx].
Qed.

Lemma executing_included k w o : In o (executing k w) -> includes k o = true.
Proof. unfold executing. intros H. apply filter_In in H. apply H. Qed.

Lemma candidates_in k w x : In x (candidates k w) <-> In x (executing k w).
Proof.
  unfold candidates. destruct (Nat.ltb 1 (length (executing k w))); [|reflexivity].
  rewrite (sort_exec_single _ k (executing_included k w)).
  rewrite sort_one_in. unfold executing. rewrite !filter_In. intuition.
Qed.

Lemma is_active_self w o : In o w -> is_active w o = true.
Proof.
  intros H. unfold is_active. apply existsb_exists. exists o. split; [assumption|apply Nat.eqb_refl].
Qed.

(* ------------------------------------------------------------------ the chain of remaining candles *)
Inductive chain : cndl -> list (rorder * cndl) -> cndl -> Prop :=
| chain_nil k : chain k [] k
| chain_cons k o a b fs rest :
    includes k o = true -> split_candle QcNum k (oprice o) = Val (a, b) ->
    chain b fs rest -> chain k ((o, a) :: fs) rest.

Section Any.
Variable react : rorder -> cndl -> list rorder -> list rorder.

Lemma mloop_chain fuel : forall k w cands acc fills rest w',
  mloop react fuel k w cands acc = Done fills rest w' ->
  exists fs, fills = rev acc ++ fs /\ chain k fs rest.
Proof.
  induction fuel as [|f IH]; intros k w cands acc fills rest w' H; cbn [mloop] in H; [discriminate|].
  destruct (pick k w cands) as [o|] eqn:Ep.
  - destruct (split_candle QcNum k (oprice o)) as [[a b]| |] eqn:Es; try discriminate.
    apply IH in H. destruct H as (fs & Hf & Hc). exists ((o, a) :: fs). split.
    + rewrite Hf. cbn [rev]. rewrite <- app_assoc. reflexivity.
    + unfold pick in Ep. apply find_some in Ep. destruct Ep as [_ Ep]. apply andb_true_iff in Ep.
      econstructor; [apply Ep|exact Es|exact Hc].
  - injection H as <- <- <-. exists []. split; [rewrite app_nil_r; reflexivity|constructor].
Qed.

Lemma mloop_end fuel : forall k w cands acc fills rest w',
  (forall x, In x (executing k w) -> In x cands) ->
  mloop react fuel k w cands acc = Done fills rest w' -> executing rest w' = [].
Proof.
  induction fuel as [|f IH]; intros k w cands acc fills rest w' Hc H; cbn [mloop] in H; [discriminate|].
  destruct (pick k w cands) as [o|] eqn:Ep.
  - destruct (split_candle QcNum k (oprice o)) as [[a b]| |] eqn:Es; try discriminate.
    eapply IH; [|exact H]. intros x Hx. apply candidates_in. exact Hx.
  - injection H as <- <- <-. destruct (executing k w) as [|x r] eqn:E; [reflexivity|exfalso].
    assert (Hx : In x (executing k w)) by (rewrite E; left; reflexivity).
    rewrite <- E in Hc.
    unfold pick in Ep. pose proof (find_none _ _ Ep x (Hc x Hx)) as Hn. cbn beta in Hn.
    unfold executing in Hx. apply filter_In in Hx. destruct Hx as [Hw Hi].
    rewrite (is_active_self w x Hw), Hi in Hn. discriminate.
Qed.

Theorem match_chain fuel k w fills rest w' :
  match_minute react fuel k w = Done fills rest w' -> chain k fills rest.
Proof.
  unfold match_minute. intros H. apply mloop_chain in H. destruct H as (fs & -> & Hc). exact Hc.
Qed.

Theorem match_end fuel k w fills rest w' :
  match_minute react fuel k w = Done fills rest w' -> executing rest w' = [].
Proof.
  unfold match_minute. apply mloop_end. intros x Hx. apply candidates_in. exact Hx.
Qed.
End Any.
