(* Proofs/ViewProofs.v — C07: what get_candles returns for a higher timeframe is the aggregation of the 1m candles of every
   started window, whenever the stored higher-timeframe candles are the aggregations of the complete windows, possibly
   followed by one (stale) partial candle of the current window. *)
From Coq Require Import ZArith QArith Qcanon List Bool Lia Arith Sorted.
From JV Require Import Base.Num Model.CandleStore Model.CandleView Proofs.StoreProofs.
Import ListNotations.
Local Open Scope nat_scope.

Section V.
Variable n : nat.
Hypothesis npos : (0 < n)%nat.

Definition dflt : kc := {| k_ts := 0%Z; k_o := 0%Qc; k_c := 0%Qc; k_h := 0%Qc; k_l := 0%Qc; k_v := 0%Qc |}.
Definition aggd (xs : list kc) : kc := match agg xs with Some g => g | None => dflt end.

Lemma agg_some xs : xs <> [] -> agg xs = Some (aggd xs).
Proof. unfold aggd. destruct xs; [congruence|reflexivity]. Qed.
Lemma aggd_ts xs : xs <> [] -> k_ts (aggd xs) = k_ts (hd dflt xs).
Proof. unfold aggd. destruct xs; [congruence|reflexivity]. Qed.

(* the stored candles of the complete windows *)
Definition complete (short : list kc) : list kc := map (fun k => aggd (win n k short)) (seq 0 (length short / n)).

Definition VInv (short long : list kc) : Prop :=
  exists stale, long = complete short ++ stale /\
    (stale = [] \/ (length short mod n <> 0 /\ exists x, stale = [x] /\ k_ts x = k_ts (nth (length short - length short mod n) short dflt))).

Lemma win_nonempty k l : (k * n < length l)%nat -> win n k l <> [].
Proof.
  intros H. unfold win. intros E. apply (f_equal (@length kc)) in E. rewrite firstn_length, skipn_length in E. cbn in E. lia.
Qed.
Lemma win_hd k l : (k * n < length l)%nat -> hd dflt (win n k l) = nth (k * n) l dflt.
Proof.
  intros H. unfold win. destruct n as [|m]; [lia|].
  rewrite <- (firstn_skipn (k * S m) l) at 2. rewrite app_nth2 by (rewrite firstn_length; lia).
  rewrite firstn_length. replace (k * S m - Nat.min (k * S m) (length l))%nat with 0%nat by lia.
  destruct (skipn (k * S m) l) eqn:E; [apply (f_equal (@length kc)) in E; rewrite skipn_length in E; cbn in E; lia|reflexivity].
Qed.

Lemma inc_nth_lt (l : list kc) i j : inc k_ts l -> (i < j)%nat -> (j < length l)%nat -> (k_ts (nth i l dflt) < k_ts (nth j l dflt))%Z.
Proof.
  revert i j. induction l as [|x l IH]; intros i j Hi Hij Hj; [cbn in Hj; lia|].
  apply StronglySorted_inv in Hi. destruct Hi as [Hs Hf]. rewrite Forall_forall in Hf.
  destruct j as [|j]; [lia|]. destruct i as [|i]; cbn [nth].
  - apply Hf. apply nth_In. cbn in Hj. lia.
  - apply IH; [exact Hs|lia|cbn in Hj; lia].
Qed.

Lemma nwin_eq short : nwin n short = (length short / n + (if Nat.eqb (length short mod n) 0 then 0 else 1))%nat.
Proof. reflexivity. Qed.

Theorem get_candles_is_aggregation short long : VInv short long -> inc k_ts short ->
  exists r, get_candles n short long = Some r /\ map Some r = aggs n short.
Proof.
  intros (stale & Hl & Hst) Hinc. unfold get_candles, aggs. rewrite nwin_eq.
  set (W := (length short / n)%nat). set (dif := (length short mod n)%nat).
  assert (Hdm : length short = (n * W + dif)%nat) by (subst W dif; apply Nat.div_mod; lia).
  assert (Hdif : (dif < n)%nat) by (subst dif; apply Nat.mod_upper_bound; lia).
  assert (Hcomp : map Some (complete short) = map (fun k => agg (win n k short)) (seq 0 W)).
  { unfold complete. fold W. rewrite map_map. apply map_ext_in. intros k Hk. apply in_seq in Hk. symmetry. apply agg_some. apply win_nonempty. nia. }
  destruct (Nat.eqb dif 0) eqn:Ed.
  - apply Nat.eqb_eq in Ed. assert (stale = []) by (destruct Hst as [E|[X _]]; [exact E|fold dif in X; lia]). subst stale. rewrite app_nil_r in Hl.
    rewrite Nat.add_0_r. destruct (Nat.eqb (length long) 0) eqn:El; cbn [andb].
    + exists []. split; [reflexivity|]. apply Nat.eqb_eq in El. rewrite Hl in El. unfold complete in El. rewrite map_length, seq_length in El. fold W in El. rewrite El. reflexivity.
    + exists long. split; [reflexivity|]. rewrite Hl. exact Hcomp.
  - apply Nat.eqb_neq in Ed. cbn [andb].
    set (start := (length short - dif)%nat). assert (Hstart : start = (W * n)%nat) by (subst start; lia).
    assert (Htail : skipn start short <> []).
    { intros E. apply (f_equal (@length kc)) in E. rewrite skipn_length in E. cbn in E. lia. }
    rewrite (agg_some _ Htail).
    assert (Hwin : win n W short = skipn start short).
    { unfold win. rewrite <- Hstart. apply firstn_all2. rewrite skipn_length. lia. }
    assert (Hns : nth_error short start = Some (nth start short dflt)) by (apply nth_error_nth'; lia).
    rewrite Hns.
    assert (Hgoal : forall cl, map Some cl = map (fun k => agg (win n k short)) (seq 0 W) ->
                               map Some (cl ++ [aggd (skipn start short)]) = map (fun k => agg (win n k short)) (seq 0 (W + 1))).
    { intros cl Hcl. rewrite map_app, Hcl. rewrite seq_app, map_app. cbn [seq map Nat.add]. rewrite Hwin. rewrite (agg_some _ Htail). reflexivity. }
    destruct Hst as [->|(_ & x & -> & Hx)].
    + rewrite app_nil_r in Hl. subst long.
      assert (Hflag : match rev (complete short) with x :: _ => (k_ts x =? k_ts (nth start short dflt))%Z | [] => false end = false).
      { destruct (rev (complete short)) as [|x r] eqn:Er; [reflexivity|]. apply Z.eqb_neq.
        assert (Hc : complete short = rev r ++ [x]) by (rewrite <- (rev_involutive (complete short)), Er; reflexivity).
        assert (HW : (0 < W)%nat).
        { destruct (Nat.eq_dec W 0) as [E0|]; [|lia]. exfalso. unfold complete in Hc. change (length short / n) with W in Hc. rewrite E0 in Hc. cbn in Hc. destruct (rev r); discriminate Hc. }
        assert (Hx : x = aggd (win n (W - 1) short)).
        { unfold complete in Hc. change (length short / n) with W in Hc. replace W with (W - 1 + 1)%nat in Hc at 1 by lia. rewrite seq_app, map_app in Hc. cbn [seq map Nat.add] in Hc.
          apply app_inj_tail in Hc. symmetry. apply Hc. }
        rewrite Hx, aggd_ts by (apply win_nonempty; nia). rewrite win_hd by nia. rewrite Hstart.
        apply Z.lt_neq. apply inc_nth_lt; [exact Hinc|nia|lia]. }
      rewrite Hflag. rewrite firstn_all. eexists. split; [reflexivity|]. apply Hgoal. exact Hcomp.
    + subst long. rewrite rev_app_distr. cbn [rev app]. fold dif in Hx. fold start in Hx. rewrite Hx, Z.eqb_refl.
      rewrite app_length. cbn [length]. replace (length (complete short) + 1 - 1)%nat with (length (complete short)) by lia.
      rewrite firstn_app, firstn_all, Nat.sub_diag, firstn_O, app_nil_r. eexists. split; [reflexivity|]. apply Hgoal. exact Hcomp.
Qed.

End V.
