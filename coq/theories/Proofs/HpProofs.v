(* Proofs/HpProofs.v — range, monotonicity, end points, typing and locality of DNA decoding (exact rationals). *)
From Coq Require Import ZArith QArith Qcanon Qround Lqa Lia List Bool.
From JV Require Import Base.Num Base.QcTac Gen.helpers Gen.optimize Model.Hp.
Import ListNotations.
Local Open Scope Qc_scope.
Import QcI.

Definition lin (mn mx : Qc) (g : Z) : Qc := ((qofZ g - qofZ 40) * (mx - mn)) / (qofZ 119 - qofZ 40) + mn.

Lemma this_qofZ z : (this (qofZ z) == inject_Z z)%Q.
Proof. unfold qofZ, Q2Qc; cbn [this]. apply Qred_correct. Qed.

Lemma qofZ_le a b : (a <= b)%Z -> qofZ a <= qofZ b.
Proof. intros H. unfold Qcle. rewrite !this_qofZ. rewrite <- Zle_Qle. exact H. Qed.
Lemma qofZ_lt a b : (a < b)%Z -> qofZ a < qofZ b.
Proof. intros H. unfold Qclt. rewrite !this_qofZ. rewrite <- Zlt_Qlt. exact H. Qed.

Lemma convert_in_range mn mx g : (40 <= g <= 119)%Z ->
  convert_number QcNum (qofZ 119) (qofZ 40) mx mn (qofZ g) = Val (lin mn mx g).
Proof.
  intros [H1 H2]. unfold convert_number. cbn [leb ltb eqb QcNum add sub mul div ofZ T].
  destruct (qltb_spec (qofZ 119) (qofZ g)) as [A|A]; [exfalso; apply qofZ_le in H2; qc|].
  destruct (qltb_spec (qofZ g) (qofZ 40)) as [B|B]; [exfalso; apply qofZ_le in H1; qc|].
  cbn [orb]. reflexivity.
Qed.

Lemma span : qofZ 119 - qofZ 40 = qofZ 79. Proof. apply Qc_is_canon. reflexivity. Qed.

(* lin as an affine function of t = (g-40)/79 in [0,1] *)
Lemma lin_eq mn mx g : lin mn mx g = mn + (mx - mn) * ((qofZ g - qofZ 40) / qofZ 79).
Proof. unfold lin. rewrite span. field. intros E. apply (f_equal this) in E. discriminate E. Qed.

Lemma frac_range g : (40 <= g <= 119)%Z -> 0 <= (qofZ g - qofZ 40) / qofZ 79 /\ (qofZ g - qofZ 40) / qofZ 79 <= 1.
Proof.
  intros [H1 H2]. apply qofZ_le in H1. apply qofZ_le in H2.
  assert (P79 : (0 < this (qofZ 79))%Q) by reflexivity.
  split; unfold Qcle in *; rewrite this_div, this_minus in *.
  - change (this 0) with 0%Q. apply Qle_shift_div_l; [exact P79|]. lra.
  - change (this 1) with 1%Q. apply Qle_shift_div_r; [exact P79|].
    assert (E : (this (qofZ 119) - this (qofZ 40) == this (qofZ 79))%Q) by reflexivity. lra.
Qed.

Theorem lin_range mn mx g : mn <= mx -> (40 <= g <= 119)%Z -> mn <= lin mn mx g /\ lin mn mx g <= mx.
Proof.
  intros Hm Hg. rewrite lin_eq. destruct (frac_range g Hg) as [T0 T1]. set (t := (qofZ g - qofZ 40) / qofZ 79) in *.
  split; qc_arith; nra.
Qed.

Theorem lin_mono mn mx g g' : mn <= mx -> (g <= g')%Z -> lin mn mx g <= lin mn mx g'.
Proof.
  intros Hm Hg. rewrite !lin_eq. apply qofZ_le in Hg.
  assert (P79 : (0 < this (qofZ 79))%Q) by reflexivity.
  assert (Ht : (qofZ g - qofZ 40) / qofZ 79 <= (qofZ g' - qofZ 40) / qofZ 79).
  { unfold Qcle in *. rewrite !this_div, !this_minus. unfold Qdiv. apply Qmult_le_compat_r; [lra|].
    apply Qlt_le_weak, Qinv_lt_0_compat. exact P79. }
  set (t := (qofZ g - qofZ 40) / qofZ 79) in *. set (t' := (qofZ g' - qofZ 40) / qofZ 79) in *.
  qc_arith. nra.
Qed.

Theorem lin_first mn mx : lin mn mx 40 = mn.
Proof. unfold lin. field. intros E. apply (f_equal this) in E. discriminate E. Qed.
Theorem lin_last mn mx : lin mn mx 119 = mx.
Proof. unfold lin. field. intros E. apply (f_equal this) in E. discriminate E. Qed.

(* ------------------------------------------------------------------ rounding to an integer *)
Lemma qround_cases x : qround x = Qfloor (this x) \/ qround x = (Qfloor (this x) + 1)%Z.
Proof. unfold qround. destruct (qltb _ _); [left; reflexivity|]. destruct (qltb _ _); [right; reflexivity|]. destruct (Z.even _); auto. Qed.

Lemma floor_spec x : (inject_Z (Qfloor (this x)) <= this x)%Q /\ (this x < inject_Z (Qfloor (this x) + 1))%Q.
Proof. split; [apply Qfloor_le|apply Qlt_floor]. Qed.

Lemma qround_up_half x : qround x = (Qfloor (this x) + 1)%Z -> (inject_Z (Qfloor (this x)) + (1#2) <= this x)%Q.
Proof.
  unfold qround. set (f := Qfloor (this x)). intros H.
  destruct (qltb_spec (x - qofZ f) (Q2Qc (1 # 2))) as [A|A]; [lia|].
  unfold Qclt in A. rewrite this_minus, this_qofZ in A. change (this (Q2Qc (1#2))) with (1#2)%Q in A. lra.
Qed.
Lemma qround_down_half x : qround x = Qfloor (this x) -> (this x <= inject_Z (Qfloor (this x)) + (1#2))%Q.
Proof.
  unfold qround. set (f := Qfloor (this x)). intros H.
  destruct (qltb_spec (x - qofZ f) (Q2Qc (1 # 2))) as [A|A].
  - unfold Qclt in A. rewrite this_minus, this_qofZ in A. change (this (Q2Qc (1#2))) with (1#2)%Q in A. lra.
  - destruct (qltb_spec (Q2Qc (1 # 2)) (x - qofZ f)) as [B|B]; [lia|].
    unfold Qclt in B. rewrite this_minus, this_qofZ in B. change (this (Q2Qc (1#2))) with (1#2)%Q in B. lra.
Qed.

Theorem qround_range (a b : Z) x : qofZ a <= x -> x <= qofZ b -> (a <= qround x <= b)%Z.
Proof.
  intros Ha Hb. unfold Qcle in *. rewrite this_qofZ in *.
  destruct (floor_spec x) as [F1 F2]. rewrite inject_Z_plus in F2.
  assert (Af : (a <= Qfloor (this x))%Z).
  { apply Z.lt_succ_r. rewrite Zlt_Qlt. unfold Z.succ. rewrite inject_Z_plus. change (inject_Z 1) with 1%Q in *. lra. }
  destruct (qround_cases x) as [E|E]; rewrite E.
  - split; [exact Af|]. rewrite Zle_Qle. lra.
  - pose proof (qround_up_half x E) as Hh. split; [lia|].
    assert (Qfloor (this x) < b)%Z by (rewrite Zlt_Qlt; lra). lia.
Qed.

Theorem qround_mono x y : x <= y -> (qround x <= qround y)%Z.
Proof.
  intros H. unfold Qcle in H.
  destruct (floor_spec x) as [X1 X2]. destruct (floor_spec y) as [Y1 Y2]. rewrite inject_Z_plus in X2, Y2.
  change (inject_Z 1) with 1%Q in *.
  assert (Ff : (Qfloor (this x) <= Qfloor (this y))%Z) by (apply Qfloor_resp_le; exact H).
  destruct (Z.eq_dec (Qfloor (this x)) (Qfloor (this y))) as [E|NE].
  - destruct (qround_cases x) as [Ex|Ex], (qround_cases y) as [Ey|Ey]; rewrite ?Ex, ?Ey; try lia.
    (* x rounds up, y rounds down, same floor: both are exactly on the half *)
    exfalso. pose proof (qround_up_half x Ex) as Hx. pose proof (qround_down_half y Ey) as Hy. rewrite E in *.
    assert (Hxe : (this x == inject_Z (Qfloor (this y)) + (1#2))%Q) by lra.
    assert (Hye : (this y == inject_Z (Qfloor (this y)) + (1#2))%Q) by lra.
    assert (Exy : x = y) by (apply Qc_is_canon; lra). subst y. lia.
  - destruct (qround_cases x) as [Ex|Ex], (qround_cases y) as [Ey|Ey]; rewrite ?Ex, ?Ey; lia.
Qed.

Theorem qround_int z : qround (qofZ z) = z.
Proof.
  assert (F : Qfloor (this (qofZ z)) = z).
  { rewrite (Qfloor_comp _ _ (this_qofZ z)). apply Qfloor_Z. }
  unfold qround. rewrite F.
  assert (D : qofZ z - qofZ z = 0) by ring. rewrite D.
  destruct (qltb_spec 0 (Q2Qc (1#2))) as [A|A]; [reflexivity|]. exfalso. apply A. reflexivity.
Qed.

(* ------------------------------------------------------------------ decode *)
Theorem decode_float (h : decl QcNum) g : d_type h = HFloat -> (40 <= g <= 119)%Z ->
  decode h g = Val (@VFloat QcNum (lin (d_min h) (d_max h) g)).
Proof. intros Ht Hg. unfold decode. rewrite Ht. cbn [ofZ QcNum]. rewrite convert_in_range by assumption. reflexivity. Qed.

Theorem decode_int (h : decl QcNum) g : d_type h = HInt -> (40 <= g <= 119)%Z ->
  decode h g = Val (@VInt QcNum (qround (lin (d_min h) (d_max h) g))).
Proof. intros Ht Hg. unfold decode. rewrite Ht. cbn [ofZ QcNum]. rewrite convert_in_range by assumption. reflexivity. Qed.

(* the decoded list: position k depends only on declaration k and gene k *)
Theorem dna_to_hp_nth (decls : list (decl QcNum)) dna vs : dna_to_hp decls dna = Val vs ->
  length vs = Nat.min (length decls) (length dna) /\
  forall k h g, nth_error decls k = Some h -> nth_error dna k = Some g ->
    exists v, nth_error vs k = Some v /\ decode h g = Val v.
Proof.
  revert dna vs. induction decls as [|h0 hs IH]; intros dna vs H.
  - cbn in H. injection H as <-. split; [reflexivity|]. intros k h g Hk. destruct k; discriminate.
  - destruct dna as [|g0 gs]; cbn [dna_to_hp] in H.
    + injection H as <-. split; [reflexivity|]. intros k h g _ Hk. destruct k; discriminate.
    + destruct (decode h0 g0) as [v0| |] eqn:E0; cbn [bindR] in H; try discriminate.
      destruct (dna_to_hp hs gs) as [vs0| |] eqn:E1; cbn [bindR] in H; try discriminate.
      injection H as <-. destruct (IH gs vs0 E1) as [Hl Hn]. split; [cbn; rewrite Hl; reflexivity|].
      intros k h g Hk Hg. destruct k as [|k]; cbn [nth_error] in *.
      * injection Hk as <-. injection Hg as <-. exists v0. split; [reflexivity|exact E0].
      * apply (Hn k h g Hk Hg).
Qed.

Theorem charset_is_40_119 : charset = map Z.of_nat (seq 40 80).
Proof. vm_compute. reflexivity. Qed.

Lemma charset_range g : In g charset -> (40 <= g <= 119)%Z.
Proof.
  rewrite charset_is_40_119. intros H. apply in_map_iff in H. destruct H as (n & <- & Hn). apply in_seq in Hn. lia.
Qed.
Lemma charset_ends : hd 0%Z charset = 40%Z /\ last charset 0%Z = 119%Z.
Proof. vm_compute. split; reflexivity. Qed.

Theorem float_decoding (h : decl QcNum) : d_type h = HFloat -> d_min h <= d_max h ->
  (forall g, In g charset -> exists x, decode h g = Val (VFloat x) /\ d_min h <= x /\ x <= d_max h) /\
  (forall g g' x x', In g charset -> In g' charset -> (g <= g')%Z ->
     decode h g = Val (VFloat x) -> decode h g' = Val (VFloat x') -> x <= x') /\
  decode h (hd 0%Z charset) = Val (VFloat (d_min h)) /\ decode h (last charset 0%Z) = Val (VFloat (d_max h)).
Proof.
  intros Ht Hm. destruct charset_ends as [-> ->]. repeat split.
  - intros g Hg. apply charset_range in Hg. exists (lin (d_min h) (d_max h) g). split; [apply decode_float; assumption|].
    apply lin_range; assumption.
  - intros g g' x x' Hg Hg' Hle E E'. apply charset_range in Hg. apply charset_range in Hg'.
    rewrite decode_float in E, E' by assumption. injection E as <-. injection E' as <-. apply lin_mono; assumption.
  - rewrite decode_float by (assumption || lia). rewrite lin_first. reflexivity.
  - rewrite decode_float by (assumption || lia). rewrite lin_last. reflexivity.
Qed.

Theorem int_decoding (h : decl QcNum) (a b : Z) : d_type h = HInt -> d_min h = qofZ a -> d_max h = qofZ b -> (a <= b)%Z ->
  (forall g, In g charset -> exists z, decode h g = Val (VInt z) /\ (a <= z <= b)%Z) /\
  (forall g g' z z', In g charset -> In g' charset -> (g <= g')%Z ->
     decode h g = Val (VInt z) -> decode h g' = Val (VInt z') -> (z <= z')%Z) /\
  decode h (hd 0%Z charset) = Val (VInt a) /\ decode h (last charset 0%Z) = Val (VInt b).
Proof.
  intros Ht Ha Hb Hab. assert (Hm : d_min h <= d_max h) by (rewrite Ha, Hb; apply qofZ_le; assumption).
  destruct charset_ends as [-> ->]. repeat split.
  - intros g Hg. apply charset_range in Hg. exists (qround (lin (d_min h) (d_max h) g)). split; [apply decode_int; assumption|].
    destruct (lin_range (d_min h) (d_max h) g Hm Hg) as [L U]. rewrite Ha in L at 1. rewrite Hb in U at 2.
    apply qround_range; assumption.
  - intros g g' z z' Hg Hg' Hle E E'. apply charset_range in Hg. apply charset_range in Hg'.
    rewrite decode_int in E, E' by assumption. injection E as <-. injection E' as <-. apply qround_mono, lin_mono; assumption.
  - rewrite decode_int by (assumption || lia). rewrite lin_first, Ha, qround_int. reflexivity.
  - rewrite decode_int by (assumption || lia). rewrite lin_last, Hb, qround_int. reflexivity.
Qed.

(* precedence: explicit > dna() > defaults *)
Theorem hp_precedence (explicit : option (list (value QcNum))) decls dna :
  (forall h, explicit = Some h -> effective_hp explicit decls dna = FromExplicit h) /\
  (explicit = None -> dna <> [] -> effective_hp explicit decls dna = FromDna (dna_to_hp decls dna)) /\
  (explicit = None -> dna = [] -> decls <> [] -> effective_hp explicit decls dna = FromDefaults) /\
  (explicit = None -> dna = [] -> decls = [] -> effective_hp explicit decls dna = NoHp).
Proof.
  repeat split.
  - intros h ->. reflexivity.
  - intros -> Hd. unfold effective_hp. destruct dna; [congruence|reflexivity].
  - intros -> -> Hd. unfold effective_hp. cbn. destruct decls; [congruence|reflexivity].
  - intros -> -> ->. reflexivity.
Qed.
