(* Proofs/RoutingProofs.v — smart order routing and declarative exits (C10). *)
From Coq Require Import ZArith QArith Qcanon Lqa List Bool Lia.
From JV Require Import Base.Num Base.QcTac Gen.helpers Model.Spot Model.Routing.
Import ListNotations.
Local Open Scope Qc_scope.
Import QcI.

Notation nearq := (near QcNum).

(* the market band: within 0.015 percent of the current price *)
Lemma near_spec p cur : nearq p cur = true <-> qabs (1 - p / cur) <= threshold QcNum.
Proof.
  unfold near, is_price_near. cbn [leb nabs sub div ofZ QcNum T].
  change (qofZ 1) with 1. destruct (qleb_spec (qabs (1 - p / cur)) (threshold QcNum)); split; intros; try assumption; try reflexivity; try discriminate; contradiction.
Qed.

(* entries: exactly the asked quantity and price; MARKET iff near; better price -> LIMIT, worse price -> STOP *)
Theorem entry_routing sd qty p cur pcur sd' t q' p' ro :
  entry_route QcNum sd qty p cur pcur = Route sd' t q' p' ro ->
  sd' = sd /\ q' = qabs qty /\ ro = false /\
  (t = Market <-> nearq p cur = true) /\
  (t = Market -> p' = pcur) /\ (t <> Market -> p' = p) /\
  (t = Limit <-> nearq p cur = false /\ (match sd with Buy => p < cur | Sell => cur < p end)) /\
  (t = Stop <-> nearq p cur = false /\ (match sd with Buy => cur < p | Sell => p < cur end)).
Proof.
  unfold entry_route. cbn [ltb nabs QcNum T]. destruct sd; destruct (nearq p cur) eqn:En.
  - intros H. injection H as <- <- <- <- <-. repeat split; try reflexivity; try discriminate; try congruence; intros [? ?]; discriminate.
  - destruct (qltb_spec cur p) as [A|A].
    + destruct (qltb_spec p pcur); [discriminate|]. intros H. injection H as <- <- <- <- <-.
      repeat split; try reflexivity; try discriminate; try congruence; try assumption.
      intros [_ X]. exfalso. qc.
    + destruct (qltb_spec p cur) as [B|B]; [|discriminate]. intros H. injection H as <- <- <- <- <-.
      repeat split; try reflexivity; try discriminate; try congruence; try assumption.
      intros [_ X]. exfalso. qc.
  - intros H. injection H as <- <- <- <- <-. repeat split; try reflexivity; try discriminate; try congruence; intros [? ?]; discriminate.
  - destruct (qltb_spec p cur) as [A|A].
    + destruct (qltb_spec pcur p); [discriminate|]. intros H. injection H as <- <- <- <- <-.
      repeat split; try reflexivity; try discriminate; try congruence; try assumption.
      intros [_ X]. exfalso. qc.
    + destruct (qltb_spec cur p) as [B|B]; [|discriminate]. intros H. injection H as <- <- <- <- <-.
      repeat split; try reflexivity; try discriminate; try congruence; try assumption.
      intros [_ X]. exfalso. qc.
Qed.

(* exits: reduce-only, on the closing side, exactly the asked quantity and price;
   MARKET iff near; profit side -> LIMIT, loss side -> STOP *)
Theorem exit_routing (long : bool) qty p cur sd t q' p' ro :
  exit_route QcNum long qty p cur = Route sd t q' p' ro ->
  sd = (if long then Sell else Buy) /\ q' = qabs qty /\ p' = p /\ ro = true /\
  (t = Market <-> nearq p cur = true) /\
  (t = Limit <-> nearq p cur = false /\ (if long then cur < p else p < cur)) /\
  (t = Stop <-> nearq p cur = false /\ (if long then p < cur else cur < p)).
Proof.
  unfold exit_route. cbn [ltb nabs QcNum T]. destruct (nearq p cur) eqn:En.
  - intros H. injection H as <- <- <- <- <-. repeat split; try reflexivity; try discriminate; intros [? ?]; discriminate.
  - destruct long.
    + destruct (qltb_spec cur p) as [A|A].
      * intros H. injection H as <- <- <- <- <-. repeat split; try reflexivity; try discriminate; try assumption. intros [_ X]. exfalso. qc.
      * destruct (qltb_spec p cur) as [B|B]; [|discriminate]. intros H. injection H as <- <- <- <- <-.
        repeat split; try reflexivity; try discriminate; try assumption. intros [_ X]. exfalso. qc.
    + destruct (qltb_spec p cur) as [A|A].
      * intros H. injection H as <- <- <- <- <-. repeat split; try reflexivity; try discriminate; try assumption. intros [_ X]. exfalso. qc.
      * destruct (qltb_spec cur p) as [B|B]; [|discriminate]. intros H. injection H as <- <- <- <- <-.
        repeat split; try reflexivity; try discriminate; try assumption. intros [_ X]. exfalso. qc.
Qed.

(* a price exactly equal to the current price is always a market order (0 <= threshold) *)
Lemma near_refl cur : cur <> 0 -> nearq cur cur = true.
Proof.
  intros H. apply near_spec. assert (E : 1 - cur / cur = 0) by (field; exact H). rewrite E.
  unfold qabs. destruct (qltb_spec 0 0); [exfalso; qc|]. vm_compute. discriminate.
Qed.

(* ------------------------------------------------------------------ declarative exits *)
Inductive subseq {A} : list A -> list A -> Prop :=
| ss_nil l : subseq [] l
| ss_take x a b : subseq a b -> subseq (x :: a) (x :: b)
| ss_skip x a b : subseq a b -> subseq a (x :: b).

Lemma subseq_refl {A} (l : list A) : subseq l l.
Proof. induction l; constructor; assumption. Qed.
Lemma subseq_filter {A} (f : A -> bool) a b : subseq a b -> subseq (filter f a) b.
Proof.
  induction 1 as [l|x a b H IH|x a b H IH]; cbn [filter].
  - constructor.
  - destruct (f x); [apply ss_take; exact IH|apply ss_skip; exact IH].
  - apply ss_skip. exact IH.
Qed.
Lemma subseq_map {A B} (g : A -> B) a b : subseq a b -> subseq (map g a) (map g b).
Proof. induction 1; cbn [map]; constructor; assumption. Qed.

Lemma fresh_snd n rs : map snd (fresh_orders n rs) = rs.
Proof.
  unfold fresh_orders. revert n. induction rs as [|r rs IH]; intros n; cbn [length seq combine map]; [reflexivity|].
  cbn [snd]. f_equal. apply IH.
Qed.
Lemma fresh_fst n rs : map fst (fresh_orders n rs) = seq n (length rs).
Proof.
  unfold fresh_orders. revert n. induction rs as [|r rs IH]; intros n; cbn [length seq combine map]; [reflexivity|].
  cbn [fst]. f_equal. apply IH.
Qed.

(* every resting exit order stems from a distinct row of the snapshot the orders were built from (an injection with
   equal quantity and price); nothing rests while the position is closed *)
Definition XInv (s : exits) : Prop :=
  (is_open s = false -> resting s = []) /\
  (match snap s with
   | Some sn => exists base, subseq (resting s) (fresh_orders base sn)
   | None => resting s = []
   end).

Lemma detect_inv s : XInv s -> XInv (detect s).
Proof.
  intros HI. unfold detect. destruct (negb (is_open s)); [exact HI|].
  destruct (decl s) as [d|]; [|exact HI].
  destruct (decl_eqb (Some d) (snap s)); [exact HI|].
  split; cbn [is_open resting snap next_id]; [discriminate|]. exists (next_id s). apply subseq_refl.
Qed.

Lemma xstep_inv s o : XInv s -> XInv (xstep s o).
Proof.
  intros HI. assert (Hdrop : forall id, XInv (drop s id)).
  { intros id. destruct HI as [I1 I2]. split; cbn [is_open resting snap drop next_id].
    + intros H. rewrite (I1 H). reflexivity.
    + destruct (snap s) as [sn|]; [|rewrite I2; reflexivity]. destruct I2 as (base & Hs). exists base. apply subseq_filter. exact Hs. }
  destruct o as [d| |id|k|d|d|]; cbn [xstep].
  - destruct HI as [I1 I2]. split; cbn [is_open resting snap set_decl]; assumption.
  - apply detect_inv. exact HI.
  - apply Hdrop.
  - destruct (nth_error (resting s) k); [apply Hdrop|exact HI].
  - destruct (is_open s); [|exact HI]. split; cbn [close_pos is_open resting snap]; reflexivity.
  - destruct (is_open s) eqn:Eo; [exact HI|]. unfold open_pos. apply detect_inv.
    split; cbn [is_open resting snap next_id]; [discriminate|].
    destruct (snap s) as [sn|] eqn:Es; destruct (decl s); try reflexivity.
    + exists (next_id s). apply subseq_refl.
    + exists 0%nat. constructor.
  - destruct (is_open s) eqn:Eo; [exact HI|]. destruct HI as [I1 I2]. unfold prepare. split; cbn [is_open resting snap next_id]; [exact I1|].
    rewrite (I1 Eo). destruct (decl s); [exists 0%nat; apply ss_nil|]. destruct (snap s); [exists 0%nat; apply ss_nil|reflexivity].
Qed.

Theorem exits_invariant ops : XInv (fold_left xstep ops xinit).
Proof.
  assert (G : forall s, XInv s -> XInv (fold_left xstep ops s)).
  { induction ops as [|o ops IH]; intros s H; cbn [fold_left]; [exact H|]. apply IH. apply xstep_inv. exact H. }
  apply G. split; reflexivity.
Qed.

Lemma row_eqb_refl r : row_eqb r r = true.
Proof. unfold row_eqb. destruct (qeqb_spec (fst r) (fst r)), (qeqb_spec (snd r) (snd r)); try reflexivity; contradiction. Qed.
Lemma rows_eqb_refl d : rows_eqb d d = true.
Proof. induction d as [|r d IH]; cbn [rows_eqb]; [reflexivity|]. rewrite row_eqb_refl, IH. reflexivity. Qed.

(* after the engine has looked at the declarations (the end of every strategy step, of every position event), the
   snapshot the resting orders come from IS the latest declaration *)
Theorem detect_latest s d : is_open (detect s) = true -> decl (detect s) = Some d ->
  exists d', snap (detect s) = Some d' /\ rows_eqb d d' = true.
Proof.
  unfold detect. destruct (is_open s) eqn:Eo; cbn [negb]; [|intros H; congruence].
  destruct (decl s) as [x|] eqn:Ed; [|intros _ H; congruence].
  destruct (decl_eqb (Some x) (snap s)) eqn:Ee.
  - intros _ H. rewrite Ed in H. injection H as <-. cbn [decl_eqb] in Ee. destruct (snap s) as [sn|]; [|discriminate]. exists sn. split; [reflexivity|exact Ee].
  - cbn [decl snap]. intros _ H. injection H as <-. exists x. split; [reflexivity|apply rows_eqb_refl].
Qed.

(* hence: resting exit orders inject into the rows of the latest declaration, with equal quantity and price *)
Theorem exits_match_latest_declaration ops d :
  let s := detect (fold_left xstep ops xinit) in
  is_open s = true -> decl s = Some d ->
  exists d' base, rows_eqb d d' = true /\ subseq (resting s) (fresh_orders base d') /\ subseq (map snd (resting s)) d'.
Proof.
  intros s Ho Hd. destruct (detect_latest _ d Ho Hd) as (d' & Hs & He).
  pose proof (detect_inv _ (exits_invariant ops)) as [_ I2]. change (detect (fold_left xstep ops xinit)) with s in I2.
  change (detect (fold_left xstep ops xinit)) with s in Hs. rewrite Hs in I2. destruct I2 as (base & Hsub).
  exists d', base. split; [exact He|]. split; [exact Hsub|]. rewrite <- (fresh_snd base d'). apply subseq_map. exact Hsub.
Qed.

Theorem closed_position_has_no_exit_orders ops :
  let s := fold_left xstep ops xinit in is_open s = false -> resting s = [].
Proof. intros s H. apply (proj1 (exits_invariant ops)). exact H. Qed.
