(* Proofs/SortProofs.v — the candidate list of the step simulator starts with the order the price
   path reaches first (C08: orders resting at the start of the minute fill in path order). *)
From Coq Require Import ZArith QArith Qcanon Lqa List Bool Arith Lia Sorted.
From JV Require Import Base.Num Base.QcTac Gen.candle Model.Match Spec.PathSpec Proofs.MatchProofs.
Import ListNotations.
Local Open Scope Qc_scope.
Import QcI.

Definition ge_price (a b : rorder) : Prop := oprice b <= oprice a.
Definition le_price (a b : rorder) : Prop := oprice a <= oprice b.

Lemma ins_desc_sorted o l : StronglySorted ge_price l -> StronglySorted ge_price (ins_desc o l).
Proof.
  induction l as [|y l IH]; intros H; cbn [ins_desc].
  - repeat constructor.
  - apply StronglySorted_inv in H. destruct H as [Hs Hf]. destruct (qleb_spec (oprice y) (oprice o)) as [Hle|Hgt].
    + constructor; [constructor; assumption|]. constructor; [exact Hle|].
      rewrite Forall_forall in *. intros x Hx. unfold ge_price in *. specialize (Hf x Hx). qc.
    + constructor; [apply IH; assumption|]. rewrite Forall_forall in *. intros x Hx.
      apply ins_desc_in in Hx. destruct Hx as [->|Hx]; [unfold ge_price; qc|apply Hf; assumption].
Qed.
Lemma ins_asc_sorted o l : StronglySorted le_price l -> StronglySorted le_price (ins_asc o l).
Proof.
  induction l as [|y l IH]; intros H; cbn [ins_asc].
  - repeat constructor.
  - apply StronglySorted_inv in H. destruct H as [Hs Hf]. destruct (qleb_spec (oprice o) (oprice y)) as [Hle|Hgt].
    + constructor; [constructor; assumption|]. constructor; [exact Hle|].
      rewrite Forall_forall in *. intros x Hx. unfold le_price in *. specialize (Hf x Hx). qc.
    + constructor; [apply IH; assumption|]. rewrite Forall_forall in *. intros x Hx.
      apply ins_asc_in in Hx. destruct Hx as [->|Hx]; [unfold le_price; qc|apply Hf; assumption].
Qed.
Lemma sort_desc_sorted l : StronglySorted ge_price (sort_desc l).
Proof. unfold sort_desc. induction l; cbn [fold_right]; [constructor|apply ins_desc_sorted; assumption]. Qed.
Lemma sort_asc_sorted l : StronglySorted le_price (sort_asc l).
Proof. unfold sort_asc. induction l; cbn [fold_right]; [constructor|apply ins_asc_sorted; assumption]. Qed.

Lemma sort_desc_head l o r : sort_desc l = o :: r -> forall x, In x l -> oprice x <= oprice o.
Proof.
  intros E x Hx. pose proof (sort_desc_sorted l) as S. rewrite E in S. apply StronglySorted_inv in S. destruct S as [_ F].
  apply sort_desc_in in Hx. rewrite E in Hx. destruct Hx as [<-|Hx]; [qc|]. rewrite Forall_forall in F. apply (F x Hx).
Qed.
Lemma sort_asc_head l o r : sort_asc l = o :: r -> forall x, In x l -> oprice o <= oprice x.
Proof.
  intros E x Hx. pose proof (sort_asc_sorted l) as S. rewrite E in S. apply StronglySorted_inv in S. destruct S as [_ F].
  apply sort_asc_in in Hx. rewrite E in Hx. destruct Hx as [<-|Hx]; [qc|]. rewrite Forall_forall in F. apply (F x Hx).
Qed.

(* ------------------------------------------------------------------ distance to the first touch *)
Definition dist (k : cndl) (p : Qc) : Qc :=
  if qleb (c_open k) (c_close k)
  then (if qleb p (c_open k) then c_open k - p else (c_open k - c_low k) + (p - c_low k))
  else (if qleb (c_open k) p then p - c_open k else (c_high k - c_open k) + (c_high k - p)).

Ltac dec1 :=
  match goal with
  | |- context [qleb ?a ?b] => first
     [ let H := fresh in assert (H : qleb a b = true) by (destruct (qleb_spec a b); [reflexivity | exfalso; qc]); rewrite H; clear H
     | let H := fresh in assert (H : qleb a b = false) by (destruct (qleb_spec a b); [exfalso; qc | reflexivity]); rewrite H; clear H
     | destruct (qleb_spec a b) ]
  | |- context [qltb ?a ?b] => first
     [ let H := fresh in assert (H : qltb a b = true) by (destruct (qltb_spec a b); [reflexivity | exfalso; qc]); rewrite H; clear H
     | let H := fresh in assert (H : qltb a b = false) by (destruct (qltb_spec a b); [exfalso; qc | reflexivity]); rewrite H; clear H
     | destruct (qltb_spec a b) ]
  end.

Lemma qabs_nonneg_eq x : 0 <= x -> qabs x = x.
Proof. intros H. unfold qabs. destruct (qltb_spec x 0); [exfalso; qc|reflexivity]. Qed.
Lemma qabs_neg_eq x : x <= 0 -> qabs x = - x.
Proof.
  intros H. unfold qabs. destruct (qltb_spec x 0); [reflexivity|].
  assert (x = 0) by (apply Qc_is_canon; qc). subst x. reflexivity.
Qed.

Lemma between_in x p y : (x <= p /\ p <= y) \/ (y <= p /\ p <= x) -> between x p y = true.
Proof.
  intros H. unfold between. destruct (qleb_spec x p), (qleb_spec p y), (qleb_spec y p), (qleb_spec p x); cbn; try reflexivity;
  exfalso; destruct H as [[? ?]|[? ?]]; qc.
Qed.
Lemma between_out x p y : (x < p /\ y < p) \/ (p < x /\ p < y) -> between x p y = false.
Proof.
  intros H. unfold between. destruct (qleb_spec x p), (qleb_spec p y), (qleb_spec y p), (qleb_spec p x); cbn; try reflexivity;
  exfalso; destruct H as [[? ?]|[? ?]]; qc.
Qed.

(* `dist` is the distance travelled on the path until p is first touched *)
Lemma touch_dist_path k p : valid k -> c_low k <= p -> p <= c_high k ->
  touch_dist (path k) p = Some (dist k p).
Proof.
  destruct k as [t0 o0 c0 h0 l0 v0]. unfold valid, path, dist. cbn [c_open c_close c_high c_low].
  intros (H1 & H2 & H3 & H4) H5 H6.
  destruct (qleb_spec o0 c0) as [Hb|Hr]; cbn [touch_dist].
  - destruct (qleb_spec p o0) as [Hp|Hp].
    + rewrite between_in by (right; split; assumption). f_equal.
      rewrite qabs_neg_eq by (qc_arith; lra). ring.
    + rewrite between_out by (left; split; qc). rewrite between_in by (left; split; assumption). f_equal.
      rewrite (qabs_neg_eq (l0 - o0)) by (qc_arith; lra). rewrite (qabs_nonneg_eq (p - l0)) by (qc_arith; lra). ring.
  - destruct (qleb_spec o0 p) as [Hp|Hp].
    + rewrite between_in by (left; split; assumption). f_equal.
      rewrite qabs_nonneg_eq by (qc_arith; lra). ring.
    + rewrite between_out by (right; split; qc). rewrite between_in by (right; split; assumption). f_equal.
      rewrite (qabs_nonneg_eq (h0 - o0)) by (qc_arith; lra). rewrite (qabs_neg_eq (p - h0)) by (qc_arith; lra). ring.
Qed.

(* ------------------------------------------------------------------ the head of the candidate list *)
Lemma filter_idem {A} (f : A -> bool) l : filter f (filter f l) = filter f l.
Proof.
  induction l as [|x l IH]; cbn [filter]; [reflexivity|]. destruct (f x) eqn:E; cbn [filter]; [rewrite E, IH; reflexivity|exact IH].
Qed.

Lemma includes_range k x : includes k x = true -> c_low k <= oprice x /\ oprice x <= c_high k.
Proof.
  unfold includes, candle_includes_price. cbn [leb QcNum]. intros H. apply andb_true_iff in H. destruct H as [A B].
  destruct (qleb_spec (c_low k) (oprice x)), (qleb_spec (oprice x) (c_high k)); try discriminate. split; assumption.
Qed.

Lemma sorted_nil_desc l : sort_desc l = [] -> l = [].
Proof. intros E. destruct l as [|x l]; [reflexivity|]. assert (In x (sort_desc (x :: l))) by (apply sort_desc_in; left; reflexivity). rewrite E in H. destruct H. Qed.
Lemma sorted_nil_asc l : sort_asc l = [] -> l = [].
Proof. intros E. destruct l as [|x l]; [reflexivity|]. assert (In x (sort_asc (x :: l))) by (apply sort_asc_in; left; reflexivity). rewrite E in H. destruct H. Qed.

Ltac dist_solve :=
  unfold dist; cbn [c_open c_close c_high c_low]; repeat dec1; qc_arith; try lra.

Theorem candidates_head_minimal k w o r : valid k -> candidates k w = o :: r ->
  forall x, In x (executing k w) -> dist k (oprice o) <= dist k (oprice x).
Proof.
  intros Hv Hc x Hx. unfold candidates in Hc.
  assert (Hinc : forall y, In y (executing k w) -> c_low k <= oprice y /\ oprice y <= c_high k).
  { intros y Hy. unfold executing in Hy. apply filter_In in Hy. apply includes_range. apply Hy. }
  destruct (Nat.ltb 1 (length (executing k w))) eqn:El.
  2:{ apply Nat.ltb_ge in El. rewrite Hc in *. destruct r; [|cbn in El; lia]. destruct Hx as [<-|[]]. unfold Qcle. apply Qle_refl. }
  rewrite (sort_exec_single _ k (executing_included k w)) in Hc.
  assert (Hc' : sort_one (executing k w) k = o :: r) by exact Hc. clear Hc.
  assert (Hfi : filter (includes k) (executing k w) = executing k w) by apply filter_idem.
  unfold sort_one in Hc'. cbv zeta in Hc'. rewrite !Hfi in Hc'. clear Hfi.
  destruct (executing k w) as [|e1 [|e2 ex]] eqn:Eex; [discriminate El|discriminate El|]. rewrite <- Eex in *. clear El e1 e2 ex Eex.
  set (ex := executing k w) in *.
  destruct k as [t0 o0 c0 h0 l0 v0]. unfold valid in Hv. cbn [c_open c_close c_high c_low] in *.
  destruct Hv as (V1 & V2 & V3 & V4).
  assert (Ho : In o ex).
  { assert (In o (o :: r)) by (left; reflexivity). rewrite <- Hc' in H. apply in_app_iff in H. destruct H as [H|H].
    - apply filter_In in H. apply H.
    - destruct (qltb c0 o0); apply in_app_iff in H; destruct H as [H|H];
        first [apply (proj1 (sort_asc_in _ _)) in H | apply (proj1 (sort_desc_in _ _)) in H]; apply (proj1 (filter_In _ _ _)) in H; apply H. }
  destruct (Hinc o Ho) as [Lo Hio]. destruct (Hinc x Hx) as [Lx Hix].
  destruct (filter (fun o1 => qeqb (oprice o1) o0) ex) as [|oo on] eqn:Eon.
  - cbn [app] in Hc'.
    assert (Hxo : oprice x <> o0).
    { intros E. assert (In x (filter (fun o1 => qeqb (oprice o1) o0) ex)).
      { apply filter_In. split; [assumption|]. destruct (qeqb_spec (oprice x) o0); [reflexivity|contradiction]. }
      rewrite Eon in H. destruct H. }
    assert (Hoo : oprice o <> o0).
    { intros E. assert (In o (filter (fun o1 => qeqb (oprice o1) o0) ex)).
      { apply filter_In. split; [assumption|]. destruct (qeqb_spec (oprice o) o0); [reflexivity|contradiction]. }
      rewrite Eon in H. destruct H. }
    destruct (qltb_spec c0 o0) as [Hred|Hnr].
    + (* falling: above ascending first *)
      destruct (sort_asc (filter (fun o1 => qltb o0 (oprice o1)) ex)) as [|a1 ar] eqn:Ea.
      * apply sorted_nil_asc in Ea. cbn [app] in Hc'.
        assert (Hxb : In x (filter (fun o1 => negb (qltb o0 (oprice o1))) ex)).
        { apply filter_In. split; [assumption|]. destruct (qltb o0 (oprice x)) eqn:E; [|reflexivity].
          assert (In x (filter (fun o1 => qltb o0 (oprice o1)) ex)) by (apply filter_In; split; assumption). rewrite Ea in H. destruct H. }
        pose proof (sort_desc_head _ _ _ Hc' x Hxb) as Hle.
        assert (Hob : negb (qltb o0 (oprice o)) = true).
        { assert (In o (sort_desc (filter (fun o1 => negb (qltb o0 (oprice o1))) ex))) by (rewrite Hc'; left; reflexivity).
          apply (proj1 (sort_desc_in _ _)) in H. apply (proj1 (filter_In _ _ _)) in H. apply H. }
        apply filter_In in Hxb. destruct Hxb as [_ Hxb].
        destruct (qltb_spec o0 (oprice o)); [discriminate|]. destruct (qltb_spec o0 (oprice x)); [discriminate|]. dist_solve.
      * cbn [app] in Hc'. injection Hc' as -> _.
        assert (Hoa : qltb o0 (oprice o) = true).
        { assert (In o (sort_asc (filter (fun o1 => qltb o0 (oprice o1)) ex))) by (rewrite Ea; left; reflexivity).
          apply (proj1 (sort_asc_in _ _)) in H. apply (proj1 (filter_In _ _ _)) in H. apply H. }
        destruct (qltb_spec o0 (oprice o)); [|discriminate].
        destruct (qltb_spec o0 (oprice x)) as [Hxa|Hxb].
        -- assert (In x (filter (fun o1 => qltb o0 (oprice o1)) ex)).
           { apply filter_In. split; [assumption|]. destruct (qltb_spec o0 (oprice x)); [reflexivity|contradiction]. }
           pose proof (sort_asc_head _ _ _ Ea x H) as Hle. dist_solve.
        -- dist_solve.
    + (* rising: below descending first *)
      destruct (sort_desc (filter (fun o1 => negb (qltb o0 (oprice o1))) ex)) as [|a1 ar] eqn:Ea.
      * apply sorted_nil_desc in Ea. cbn [app] in Hc'.
        assert (Hxb : In x (filter (fun o1 => qltb o0 (oprice o1)) ex)).
        { apply filter_In. split; [assumption|]. destruct (qltb o0 (oprice x)) eqn:E; [reflexivity|].
          assert (In x (filter (fun o1 => negb (qltb o0 (oprice o1))) ex)) by (apply filter_In; split; [assumption|rewrite E; reflexivity]).
          rewrite Ea in H. destruct H. }
        pose proof (sort_asc_head _ _ _ Hc' x Hxb) as Hle.
        assert (Hob : qltb o0 (oprice o) = true).
        { assert (In o (sort_asc (filter (fun o1 => qltb o0 (oprice o1)) ex))) by (rewrite Hc'; left; reflexivity).
          apply (proj1 (sort_asc_in _ _)) in H. apply (proj1 (filter_In _ _ _)) in H. apply H. }
        apply filter_In in Hxb. destruct Hxb as [_ Hxb].
        destruct (qltb_spec o0 (oprice o)); [|discriminate]. destruct (qltb_spec o0 (oprice x)); [|discriminate]. dist_solve.
      * cbn [app] in Hc'. injection Hc' as -> _.
        assert (Hoa : negb (qltb o0 (oprice o)) = true).
        { assert (In o (sort_desc (filter (fun o1 => negb (qltb o0 (oprice o1))) ex))) by (rewrite Ea; left; reflexivity).
          apply (proj1 (sort_desc_in _ _)) in H. apply (proj1 (filter_In _ _ _)) in H. apply H. }
        destruct (qltb_spec o0 (oprice o)); [discriminate|].
        destruct (qltb_spec o0 (oprice x)) as [Hxa|Hxb].
        -- dist_solve.
        -- assert (In x (filter (fun o1 => negb (qltb o0 (oprice o1))) ex)).
           { apply filter_In. split; [assumption|]. destruct (qltb_spec o0 (oprice x)); [contradiction|reflexivity]. }
           pose proof (sort_desc_head _ _ _ Ea x H) as Hle. dist_solve.
  - (* an order sits on the open: it is listed first and is touched at distance 0 *)
    cbn [app] in Hc'. injection Hc' as -> _.
    assert (Hoo : qeqb (oprice o) o0 = true).
    { assert (In o (filter (fun o1 => qeqb (oprice o1) o0) ex)) by (rewrite Eon; left; reflexivity). apply filter_In in H. apply H. }
    destruct (qeqb_spec (oprice o) o0) as [Heq|]; [|discriminate]. rewrite Heq. dist_solve.
Qed.

(* every candidate is active and inside the candle, so the scan picks the head of the list *)
Lemma pick_head k w o : pick k w (candidates k w) = Some o -> exists r, candidates k w = o :: r.
Proof.
  intros H. unfold pick in H. destruct (candidates k w) as [|c r] eqn:E; [discriminate|].
  cbn [find] in H.
  assert (Hc : In c (executing k w)) by (apply candidates_in; rewrite E; left; reflexivity).
  unfold executing in Hc. apply filter_In in Hc. destruct Hc as [Hw Hi].
  rewrite (is_active_self w c Hw), Hi in H. cbn in H. injection H as ->. exists r. reflexivity.
Qed.

Theorem first_fill_first_touch k w o : valid k -> pick k w (candidates k w) = Some o ->
  forall x, In x (executing k w) ->
  exists d1 d2, touch_dist (path k) (oprice o) = Some d1 /\ touch_dist (path k) (oprice x) = Some d2 /\ d1 <= d2.
Proof.
  intros Hv Hp x Hx. destruct (pick_head k w o Hp) as (r & Hc).
  assert (Ho : In o (executing k w)) by (apply candidates_in; rewrite Hc; left; reflexivity).
  assert (Hr : forall y, In y (executing k w) -> c_low k <= oprice y /\ oprice y <= c_high k).
  { intros y Hy. unfold executing in Hy. apply filter_In in Hy. apply includes_range. apply Hy. }
  exists (dist k (oprice o)), (dist k (oprice x)). repeat split.
  - apply touch_dist_path; [assumption|apply (Hr o Ho)|apply (Hr o Ho)].
  - apply touch_dist_path; [assumption|apply (Hr x Hx)|apply (Hr x Hx)].
  - eapply candidates_head_minimal; eassumption.
Qed.

(* ------------------------------------------------------------------ fills follow the path *)
Inductive follows : cndl -> list (rorder * cndl) -> Prop :=
| follows_nil k : follows k []
| follows_cons (k : cndl) (o : rorder) (a b : cndl) fs :
    c_low k <= oprice o -> oprice o <= c_high k ->          (* filled at its own price, inside what is left *)
    valid a -> valid b ->
    (exists ws', cut (path k) (oprice o) = Some ws' /\ dedup ws' = dedup (path b)) ->   (* b walks the rest of the path *)
    follows b fs -> follows k ((o, a) :: fs).
