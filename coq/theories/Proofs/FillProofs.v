(* Proofs/FillProofs.v — the position update of Position._on_executed_order (model) is the average-cost fill of
   the reference account: closing part realises PnL against the entry, opening part moves the entry. *)
From Coq Require Import ZArith QArith Qcanon Lqa List Bool.
From JV Require Import Base.Num Base.QcTac Model.Spot Model.Futures Spec.RefFutures.
Local Open Scope Qc_scope.
Import QcI.

Ltac dec1 :=
  match goal with
  | |- context [qleb ?a ?b] => first
     [ let H := fresh in assert (H : qleb a b = true) by (destruct (qleb_spec a b); [reflexivity | exfalso; qc_arith; nra]); rewrite H; clear H
     | let H := fresh in assert (H : qleb a b = false) by (destruct (qleb_spec a b); [exfalso; qc_arith; nra | reflexivity]); rewrite H; clear H ]
  | |- context [qltb ?a ?b] => first
     [ let H := fresh in assert (H : qltb a b = true) by (destruct (qltb_spec a b); [reflexivity | exfalso; qc_arith; nra]); rewrite H; clear H
     | let H := fresh in assert (H : qltb a b = false) by (destruct (qltb_spec a b); [exfalso; qc_arith; nra | reflexivity]); rewrite H; clear H ]
  | |- context [qeqb ?a ?b] => first
     [ let H := fresh in assert (H : qeqb a b = true) by (destruct (qeqb_spec a b); [reflexivity | exfalso; qc_arith; nra]); rewrite H; clear H
     | let H := fresh in assert (H : qeqb a b = false) by (destruct (qeqb_spec a b); [exfalso; qc_arith; nra | reflexivity]); rewrite H; clear H ]
  end.

Lemma pos_eq a e c a' e' : a = a' -> e = e' -> {| p_qty := a; p_entry := e; p_cur := c |} = {| p_qty := a'; p_entry := e'; p_cur := c |}.
Proof. intros -> ->. reflexivity. Qed.

Ltac tri3 x :=
  let H := fresh "S" in
  destruct (qltb_spec x 0) as [H|H]; [|destruct (qltb_spec 0 x) as [H'|H']; [|assert (x = 0) by (apply Qc_is_canon; qc_arith; lra)]].

Theorem fill_is_average_cost p sq price ro : sq <> 0 -> (ro = true -> p_qty p <> 0) ->
  position_fill p sq price ro = ref_fill p sq price ro.
Proof.
  destruct p as [q e c]. intros Hsq Hro. unfold position_fill, ref_fill, realized, sgn, qminr. cbn [p_qty p_entry p_cur].
  assert (Hs : sq < 0 \/ 0 < sq).
  { destruct (qltb_spec sq 0); [left; assumption|right]. apply neq_Q in Hsq. unfold Qclt, Qcle in *. change (this 0) with 0%Q in *. lra. }
  assert (Hq : q < 0 \/ q = 0 \/ 0 < q).
  { destruct (qltb_spec q 0); [left; assumption|right]. destruct (qeqb_spec q 0); [left; assumption|right].
    apply neq_Q in n0. unfold Qclt, Qcle in *. change (this 0) with 0%Q in *. lra. }
  destruct Hq as [Hq|[Hq|Hq]].
  - (* short *)
    destruct Hs as [Hs|Hs].
    + (* sell more: increase (or ignored when reduce-only) *)
      destruct ro; unfold qabs; repeat dec1; f_equal; try (apply pos_eq); try ring.
      field. intros E. apply eq_Q in E. rewrite this_plus, !this_opp in E. change (this 0) with 0%Q in E. unfold Qclt in *. change (this 0) with 0%Q in *. lra.
    + (* buy back: reduce / close / oversize *)
      destruct (qeqb_spec (q + sq) 0) as [E0|N0].
      * assert (Esq : sq = - q) by (apply Qc_is_canon; apply eq_Q in E0; rewrite this_plus in E0; rewrite this_opp; change (this 0) with 0%Q in E0; lra).
        subst sq. destruct ro; unfold qabs; repeat dec1; f_equal; try (apply pos_eq); try ring.
      * assert (Hne : (this q + this sq < 0 \/ 0 < this q + this sq)%Q).
        { apply neq_Q in N0. rewrite this_plus in N0. change (this 0) with 0%Q in N0. lra. }
        destruct Hne as [Hlt|Hgt].
        -- (* reduce *) destruct ro; unfold qabs; repeat dec1; f_equal; try (apply pos_eq); try ring.
        -- (* oversize *) destruct ro; unfold qabs; repeat dec1; f_equal; try (apply pos_eq); try ring.
  - (* flat: opens *)
    subst q. assert (ro = false) by (destruct ro; [exfalso; apply Hro; reflexivity|reflexivity]). subst ro.
    destruct Hs as [Hs|Hs]; unfold qabs; repeat dec1; f_equal; try (apply pos_eq); try ring.
  - (* long *)
    destruct Hs as [Hs|Hs].
    + destruct (qeqb_spec (q + sq) 0) as [E0|N0].
      * assert (Esq : sq = - q) by (apply Qc_is_canon; apply eq_Q in E0; rewrite this_plus in E0; rewrite this_opp; change (this 0) with 0%Q in E0; lra).
        subst sq. destruct ro; unfold qabs; repeat dec1; f_equal; try (apply pos_eq); try ring.
      * assert (Hne : (this q + this sq < 0 \/ 0 < this q + this sq)%Q).
        { apply neq_Q in N0. rewrite this_plus in N0. change (this 0) with 0%Q in N0. lra. }
        destruct Hne as [Hlt|Hgt].
        -- destruct ro; unfold qabs; repeat dec1; f_equal; try (apply pos_eq); try ring.
        -- destruct ro; unfold qabs; repeat dec1; f_equal; try (apply pos_eq); try ring.
    + destruct ro; unfold qabs; repeat dec1; f_equal; try (apply pos_eq); try ring.
      field. intros E. apply eq_Q in E. rewrite this_plus in E. change (this 0) with 0%Q in E. unfold Qclt in *. change (this 0) with 0%Q in *. lra.
Qed.
