(* Proofs/SpotProofs.v — the spot accounting model refines the reference cash account for every well-formed
   history (C04): same accept/reject decisions, same balances, never negative, position = base balance. *)
From Coq Require Import ZArith QArith Qcanon Lqa List Bool Lia.
From JV Require Import Base.Num Base.QcTac Model.Spot Spec.RefSpot.
Import ListNotations.
Local Open Scope Qc_scope.
Import QcI.

Definition absS (s : spot) : ref := {| r_quote := quote s; r_base := base s; r_fee := fee s; r_orders := orders s |}.

Definition good_order (o : order) : Prop := 0 < o_qty o /\ 0 < o_price o /\ (is_sell o = false -> o_ro o = false).
Definition Inv (s : spot) : Prop :=
  limit_sum s = resting Limit (orders s) /\ stop_sum s = resting Stop (orders s) /\
  0 <= quote s /\ 0 <= base s /\ pqty s = base s /\ 0 <= fee s /\ fee s < 1 /\ Forall good_order (orders s).

Lemma find_order_in os id o : find_order os id = Some o -> In o os.
Proof.
  induction os as [|x r IH]; cbn [find_order]; [discriminate|].
  destruct (Nat.eqb (o_id x) id); [intros H; injection H as <-; left; reflexivity|intros H; right; apply IH; exact H].
Qed.
Lemma good_set_status o st : good_order o -> good_order (set_status o st).
Proof. unfold good_order, is_sell. cbn [set_status o_qty o_price o_side o_ro]. auto. Qed.
Lemma good_replace os o' : Forall good_order os -> good_order o' -> Forall good_order (replace_order os o').
Proof.
  intros H Ho. induction os as [|x r IH]; cbn [replace_order]; [constructor|].
  inversion H; subst. destruct (Nat.eqb (o_id x) (o_id o')); constructor; auto.
Qed.

(* ------------------------------------------------------------------ bookkeeping over the order list *)
Lemma resting_app k os o : resting k (os ++ [o]) =
  resting k os + (if is_sell o && typ_eqb (o_typ o) k && negb (is_final o) then o_qty o else 0).
Proof.
  induction os as [|x r IH]; cbn [app resting].
  - destruct (is_sell o && typ_eqb (o_typ o) k && negb (is_final o)); ring.
  - rewrite IH. destruct (is_sell x && typ_eqb (o_typ x) k && negb (is_final x)); ring.
Qed.

Lemma find_order_id os id o : find_order os id = Some o -> o_id o = id.
Proof.
  induction os as [|x r IH]; cbn [find_order]; [discriminate|].
  destruct (Nat.eqb (o_id x) id) eqn:E; [intros H; injection H as <-; apply Nat.eqb_eq; exact E|exact IH].
Qed.

(* making an active order final removes exactly its quantity from the resting total of its kind *)
Lemma resting_replace k os id o st : find_order os id = Some o -> is_final o = false -> st <> Active ->
  resting k (replace_order os (set_status o st)) =
  resting k os - (if is_sell o && typ_eqb (o_typ o) k then o_qty o else 0).
Proof.
  intros Hf Ha Hst. pose proof (find_order_id _ _ _ Hf) as Hid.
  induction os as [|x r IH]; cbn [find_order] in Hf; [discriminate|].
  cbn [replace_order set_status o_id]. rewrite Hid.
  destruct (Nat.eqb (o_id x) id) eqn:E.
  - injection Hf as ->. cbn [resting]. unfold is_sell, is_final in *. cbn [o_side o_typ o_status o_qty set_status].
    rewrite Ha. cbn [negb]. rewrite andb_true_r.
    assert (Hfin : match st with Active => false | _ => true end = true) by (destruct st; [congruence|reflexivity|reflexivity]).
    rewrite Hfin. cbn [negb]. rewrite andb_false_r.
    destruct (match o_side o with Sell => true | Buy => false end && typ_eqb (o_typ o) k); ring.
  - cbn [resting]. rewrite (IH Hf). destruct (is_sell x && typ_eqb (o_typ x) k && negb (is_final x)); ring.
Qed.

Lemma find_replace_other os o' id : o_id o' <> id -> find_order (replace_order os o') id = find_order os id.
Proof.
  intros Hne. induction os as [|x r IH]; cbn [replace_order find_order]; [reflexivity|].
  destruct (Nat.eqb (o_id x) (o_id o')) eqn:E; cbn [find_order].
  - apply Nat.eqb_eq in E. destruct (Nat.eqb (o_id o') id) eqn:E1; [apply Nat.eqb_eq in E1; contradiction|].
    destruct (Nat.eqb (o_id x) id) eqn:E2; [apply Nat.eqb_eq in E2; congruence|reflexivity].
  - rewrite IH. reflexivity.
Qed.

Lemma typ_eqb_refl t : typ_eqb t t = true. Proof. destruct t; reflexivity. Qed.

(* ------------------------------------------------------------------ one step *)
Lemma submit_sim s o : Inv s -> good_order o ->
  snd (submit s o) = snd (ref_submit (absS s) o) /\
  (snd (submit s o) <> Rejected -> absS (fst (submit s o)) = fst (ref_submit (absS s) o) /\ Inv (fst (submit s o))).
Proof.
  intros (I1 & I2 & I3 & I4 & I5 & I6 & I7 & I8) Hgood. destruct Hgood as (Hq & Hp & Hro).
  assert (Hg' : Forall good_order (orders s ++ [set_status o Active])).
  { apply Forall_app. split; [exact I8|]. constructor; [|constructor]. apply good_set_status. repeat split; assumption. }
  unfold submit, ref_submit, absS. cbn [r_quote r_base r_fee r_orders].
  destruct (o_side o) eqn:Es.
  - (* buy *)
    assert (Hsell : is_sell o = false) by (unfold is_sell; rewrite Es; reflexivity). rewrite Hsell. cbn [andb].
    assert (Hd : qltb (quote s - o_qty o * o_price o) 0 = qltb (quote s) (o_qty o * o_price o)).
    { destruct (qltb_spec (quote s - o_qty o * o_price o) 0), (qltb_spec (quote s) (o_qty o * o_price o)); try reflexivity;
        exfalso; set (x := o_qty o * o_price o) in *; clearbody x; qc_arith; lra. }
    rewrite Hd. destruct (qltb_spec (quote s) (o_qty o * o_price o)) as [Hr|Ha]; cbn [fst snd].
    + split; [reflexivity|intros X; congruence].
    + split; [reflexivity|]. intros _. unfold with_orders. cbn [quote base stop_sum limit_sum pqty fee orders]. split; [reflexivity|].
      unfold Inv. cbn [quote base stop_sum limit_sum pqty fee orders]. rewrite !resting_app.
      unfold is_sell at 1 2. cbn [set_status o_side]. rewrite Es. cbn [andb].
      repeat split; try assumption; try (rewrite I1; ring); try (rewrite I2; ring).
      set (x := o_qty o * o_price o) in *. clearbody x. qc_arith. lra.
  - (* sell *)
    assert (Hsell : is_sell o = true) by (unfold is_sell; rewrite Es; reflexivity). rewrite Hsell. cbn [andb].
    assert (Hneed : (match o_typ o with
                     | Market => o_qty o + limit_sum s
                     | Limit => if typ_eqb (o_typ o) Limit then limit_sum s + o_qty o else limit_sum s
                     | Stop => if typ_eqb (o_typ o) Stop then stop_sum s + o_qty o else stop_sum s
                     end) = o_qty o + match o_typ o with Market => resting Limit (orders s) | Limit => resting Limit (orders s) | Stop => resting Stop (orders s) end).
    { destruct (o_typ o); cbn [typ_eqb]; rewrite ?I1, ?I2; ring. }
    rewrite Hneed.
    destruct (qltb_spec (base s) (o_qty o + match o_typ o with Market => resting Limit (orders s) | Limit => resting Limit (orders s) | Stop => resting Stop (orders s) end)) as [Hr|Ha];
      cbn [fst snd].
    + split; [reflexivity|intros X; congruence].
    + split; [reflexivity|]. intros _. unfold with_orders. cbn [quote base stop_sum limit_sum pqty fee orders]. split; [reflexivity|].
      unfold Inv. cbn [quote base stop_sum limit_sum pqty fee orders]. rewrite !resting_app.
      unfold is_sell at 1 2. unfold is_final. cbn [set_status o_side o_typ o_status o_qty]. rewrite Es. cbn [andb negb]. rewrite !andb_true_r.
      repeat split; try assumption.
      * destruct (typ_eqb (o_typ o) Limit); rewrite I1; ring.
      * destruct (typ_eqb (o_typ o) Stop); rewrite I2; ring.
Qed.

Lemma execute_sim s id : Inv s ->
  (forall o, find_order (orders s) id = Some o -> is_final o = false -> is_sell o = true -> o_qty o <= base s) ->
  absS (execute s id) = ref_execute (absS s) id /\ Inv (execute s id).
Proof.
  intros (I1 & I2 & I3 & I4 & I5 & I6 & I7 & I8) Hcov. unfold execute, ref_execute, absS. cbn [r_quote r_base r_fee r_orders].
  destruct (find_order (orders s) id) as [o|] eqn:Ef; [|split; [reflexivity|repeat split; assumption]].
  destruct (is_final o) eqn:Efin; [split; [reflexivity|repeat split; assumption]|].
  assert (Hgo : good_order o) by (rewrite Forall_forall in I8; apply I8; eapply find_order_in; exact Ef).
  destruct Hgo as (Hq & Hpr & Hc2). pose proof (Hcov o eq_refl Efin) as Hc1.
  assert (Hg' : Forall good_order (replace_order (orders s) (set_status o Executed))).
  { apply good_replace; [exact I8|]. apply good_set_status. repeat split; assumption. }
  assert (Hst : Executed <> Active) by discriminate.
  destruct (o_side o) eqn:Es.
  - (* buy *)
    assert (Hsell : is_sell o = false) by (unfold is_sell; rewrite Es; reflexivity). rewrite Hsell. cbn [andb].
    cbn [quote base stop_sum limit_sum pqty fee orders]. split; [reflexivity|].
    unfold Inv. cbn [quote base stop_sum limit_sum pqty fee orders].
    rewrite !(resting_replace _ _ _ _ _ Ef Efin Hst). rewrite Hsell. cbn [andb].
    assert (Hf : 0 <= o_qty o * (1 - fee s)) by (set (q := o_qty o) in *; set (f := fee s) in *; clearbody q f; qc_arith; nra).
    repeat split; try assumption; try (rewrite I1; ring); try (rewrite I2; ring).
    + set (x := o_qty o * (1 - fee s)) in *. clearbody x. qc_arith. lra.
    + unfold position_after. rewrite Hsell, I5. specialize (Hc2 Hsell). rewrite Hc2.
      destruct (qeqb_spec (base s) 0) as [E0|N0]; [rewrite E0; ring|].
      assert (Hbpos : 0 < base s) by (apply neq_Q in N0; unfold Qclt, Qcle in *; change (this 0) with 0%Q in *; lra).
      destruct (qeqb_spec (base s + o_qty o) 0) as [E1|_]; [exfalso; set (bq := base s) in *; set (q := o_qty o) in *; clearbody bq q; qc_arith; lra|].
      destruct (qltb_spec 0 (base s * o_qty o)) as [_|N2]; [|exfalso; apply N2; set (bq := base s) in *; set (q := o_qty o) in *; clearbody bq q; qc_arith; nra].
      destruct (qltb_spec 0 (base s)); [reflexivity|contradiction].
  - (* sell, still covered *)
    assert (Hsell : is_sell o = true) by (unfold is_sell; rewrite Es; reflexivity). rewrite Hsell. cbn [andb].
    specialize (Hc1 Hsell).
    destruct (qltb_spec (base s) (o_qty o)) as [X|_]; [exfalso; qc_arith; lra|].
    cbn [quote base stop_sum limit_sum pqty fee orders]. split; [reflexivity|].
    unfold Inv. cbn [quote base stop_sum limit_sum pqty fee orders].
    rewrite !(resting_replace _ _ _ _ _ Ef Efin Hst). rewrite Hsell. cbn [andb].
    repeat split; try assumption.
    + destruct (typ_eqb (o_typ o) Limit); rewrite I1; ring.
    + destruct (typ_eqb (o_typ o) Stop); rewrite I2; ring.
    + assert (0 <= o_qty o * o_price o) by (set (q := o_qty o) in *; set (pp := o_price o) in *; clearbody q pp; qc_arith; nra).
      set (x := o_qty o * o_price o) in *. set (f := fee s) in *. set (qq := quote s) in *. clearbody x f qq. qc_arith. nra.
    + set (bq := base s) in *. set (q := o_qty o) in *. clearbody bq q. qc_arith. lra.
    + unfold position_after. rewrite Hsell, I5.
      assert (Hbpos : 0 < base s) by (set (bq := base s) in *; set (q := o_qty o) in *; clearbody bq q; qc_arith; lra).
      destruct (qeqb_spec (base s) 0) as [E0|_]; [exfalso; rewrite E0 in Hbpos; discriminate Hbpos|].
      destruct (qeqb_spec (base s + - o_qty o) 0) as [E1|N1].
      * apply Qc_is_canon. apply eq_Q in E1. rewrite this_plus, this_opp in E1. rewrite this_minus. change (this 0) with 0%Q in *. lra.
      * destruct (qltb_spec 0 (base s * - o_qty o)) as [X|_];
          [exfalso; set (bq := base s) in *; set (q := o_qty o) in *; clearbody bq q; qc_arith; nra|].
        assert (Hab : qltb (qabs (base s)) (qabs (- o_qty o)) = false).
        { destruct (qltb_spec (qabs (base s)) (qabs (- o_qty o))) as [X|_]; [|reflexivity]. exfalso.
          unfold qabs in X. destruct (qltb_spec (base s) 0); [qc_arith; lra|]. destruct (qltb_spec (- o_qty o) 0); qc_arith; lra. }
        rewrite Hab. destruct (qltb_spec 0 (base s)); [reflexivity|contradiction].
Qed.

Lemma cancel_sim s id : Inv s -> absS (cancel s id) = ref_cancel (absS s) id /\ Inv (cancel s id).
Proof.
  intros (I1 & I2 & I3 & I4 & I5 & I6 & I7 & I8). unfold cancel, ref_cancel, absS. cbn [r_quote r_base r_fee r_orders].
  destruct (find_order (orders s) id) as [o|] eqn:Ef; [|split; [reflexivity|repeat split; assumption]].
  destruct (is_final o) eqn:Efin; [split; [reflexivity|repeat split; assumption]|].
  assert (Hgo : good_order o) by (rewrite Forall_forall in I8; apply I8; eapply find_order_in; exact Ef).
  destruct Hgo as (Hq & Hpr & Hc2).
  assert (Hg' : Forall good_order (replace_order (orders s) (set_status o Canceled))).
  { apply good_replace; [exact I8|]. apply good_set_status. repeat split; assumption. }
  assert (Hst : Canceled <> Active) by discriminate.
  destruct (o_side o) eqn:Es.
  - assert (Hsell : is_sell o = false) by (unfold is_sell; rewrite Es; reflexivity). rewrite Hsell. cbn [andb].
    cbn [quote base stop_sum limit_sum pqty fee orders]. split; [reflexivity|].
    unfold Inv. cbn [quote base stop_sum limit_sum pqty fee orders].
    rewrite !(resting_replace _ _ _ _ _ Ef Efin Hst). rewrite Hsell. cbn [andb].
    repeat split; try assumption; try (rewrite I1; ring); try (rewrite I2; ring).
    assert (0 <= o_qty o * o_price o) by (set (q := o_qty o) in *; set (pp := o_price o) in *; clearbody q pp; qc_arith; nra).
    set (x := o_qty o * o_price o) in *. set (qq := quote s) in *. clearbody x qq. qc_arith. lra.
  - assert (Hsell : is_sell o = true) by (unfold is_sell; rewrite Es; reflexivity). rewrite Hsell. cbn [andb].
    cbn [quote base stop_sum limit_sum pqty fee orders]. split; [reflexivity|].
    unfold Inv. cbn [quote base stop_sum limit_sum pqty fee orders].
    rewrite !(resting_replace _ _ _ _ _ Ef Efin Hst). rewrite Hsell. cbn [andb].
    repeat split; try assumption.
    + destruct (typ_eqb (o_typ o) Limit); rewrite I1; ring.
    + destruct (typ_eqb (o_typ o) Stop); rewrite I2; ring.
Qed.

(* ------------------------------------------------------------------ whole histories *)
(* well-formedness additionally asks that new orders are well formed (buys are never reduce-only) *)
Fixpoint wf_orders (ops : list op) : Prop :=
  match ops with
  | [] => True
  | Submit o :: r => good_order o /\ wf_orders r
  | _ :: r => wf_orders r
  end.


Theorem spot_refines ops : forall s, Inv s -> wf (absS s) ops -> wf_orders ops ->
  snd (run s ops) = snd (ref_run (absS s) ops) /\
  (ok_end (snd (run s ops)) = true -> absS (fst (run s ops)) = fst (ref_run (absS s) ops) /\ Inv (fst (run s ops))).
Proof.
  induction ops as [|o ops IH]; intros s HI Hwf Hgo.
  - cbn. split; [reflexivity|]. intros _. split; [reflexivity|exact HI].
  - destruct o as [o|id|id]; cbn [run ref_run wf wf_orders] in *.
    + destruct Hgo as [Hg Hgo]. destruct Hwf as (_ & _ & _ & Hwf).
      destruct (submit_sim s o HI Hg) as [Hres Hst].
      destruct (submit s o) as [s' res] eqn:Es. destruct (ref_submit (absS s) o) as [r' res'] eqn:Er. cbn [fst snd] in *. subst res'.
      destruct res.
      * destruct (Hst ltac:(discriminate)) as [Ha HI']. rewrite <- Ha in *.
        destruct (IH s' HI' Hwf Hgo) as [R1 R2].
        destruct (run s' ops) as [s2 rs]. destruct (ref_run (absS s') ops) as [r2 rs']. cbn [fst snd] in *. subst rs'.
        split; [reflexivity|]. intros Hok. apply R2. unfold ok_end in *. cbn [rev] in Hok.
        destruct (rev rs) as [|x xs]; [reflexivity|]. cbn [app] in Hok. exact Hok.
      * cbn [fst snd]. split; [reflexivity|]. intros X. discriminate X.
      * destruct (Hst ltac:(discriminate)) as [Ha HI']. rewrite <- Ha in *.
        destruct (IH s' HI' Hwf Hgo) as [R1 R2].
        destruct (run s' ops) as [s2 rs]. destruct (ref_run (absS s') ops) as [r2 rs']. cbn [fst snd] in *. subst rs'.
        split; [reflexivity|]. intros Hok. apply R2. unfold ok_end in *. cbn [rev] in Hok.
        destruct (rev rs) as [|x xs]; [reflexivity|]. cbn [app] in Hok. exact Hok.
    + destruct Hwf as [Hcov Hwf].
      destruct (execute_sim s id HI) as [Ha HI'].
      { intros o Hf Hfin Hs. apply (Hcov o Hf Hfin Hs). }
      rewrite <- Ha in *. destruct (IH _ HI' Hwf Hgo) as [R1 R2].
      destruct (run (execute s id) ops) as [s2 rs]. destruct (ref_run (absS (execute s id)) ops) as [r2 rs']. cbn [fst snd] in *. subst rs'.
      split; [reflexivity|]. intros Hok. apply R2. unfold ok_end in *. cbn [rev] in Hok.
      destruct (rev rs) as [|x xs]; [reflexivity|]. cbn [app] in Hok. exact Hok.
    + destruct (cancel_sim s id HI) as [Ha HI']. rewrite <- Ha in *. destruct (IH _ HI' Hwf Hgo) as [R1 R2].
      destruct (run (cancel s id) ops) as [s2 rs]. destruct (ref_run (absS (cancel s id)) ops) as [r2 rs']. cbn [fst snd] in *. subst rs'.
      split; [reflexivity|]. intros Hok. apply R2. unfold ok_end in *. cbn [rev] in Hok.
      destruct (rev rs) as [|x xs]; [reflexivity|]. cbn [app] in Hok. exact Hok.
Qed.

Lemma init_inv b f : 0 <= b -> 0 <= f -> f < 1 -> Inv (init b f) /\ absS (init b f) = ref_init b f.
Proof.
  intros. split; [|reflexivity]. unfold Inv, init. cbn [quote base stop_sum limit_sum pqty fee orders resting].
  repeat split; try assumption; try reflexivity; try (unfold Qcle; apply Qle_refl). constructor.
Qed.

Theorem spot_account_refines b f ops : 0 <= b -> 0 <= f -> f < 1 -> wf (ref_init b f) ops -> wf_orders ops ->
  let '(s, rs) := run (init b f) ops in let '(r, rs') := ref_run (ref_init b f) ops in
  rs = rs' /\
  (ok_end rs = true ->
     quote s = r_quote r /\ base s = r_base r /\ 0 <= quote s /\ 0 <= base s /\ pqty s = base s /\
     limit_sum s = resting Limit (r_orders r) /\ stop_sum s = resting Stop (r_orders r)).
Proof.
  intros Hb Hf0 Hf1 Hwf Hgo. destruct (init_inv b f Hb Hf0 Hf1) as [HI Ha]. rewrite <- Ha in Hwf.
  destruct (spot_refines ops (init b f) HI Hwf Hgo) as [R1 R2]. rewrite Ha in *.
  destruct (run (init b f) ops) as [s rs]. destruct (ref_run (ref_init b f) ops) as [r rs']. cbn [fst snd] in *.
  split; [exact R1|]. intros Hok. destruct (R2 Hok) as [Habs (I1 & I2 & I3 & I4 & I5 & _)]. rewrite <- Habs. cbn [r_quote r_base r_orders absS].
  repeat split; assumption.
Qed.

(* ------------------------------------------------------------------ what happens outside well-formed histories:
   a stop sell that is executed after the base has been sold through another order opens a SHORT in spot *)
Definition q1 (n : Z) : Qc := Q2Qc (inject_Z n).
Example uncovered_sell_opens_short :
  let b := {| o_id := 1; o_side := Buy; o_typ := Market; o_qty := q1 10; o_price := q1 100; o_ro := false; o_status := Active |} in
  let l := {| o_id := 2; o_side := Sell; o_typ := Limit; o_qty := q1 10; o_price := q1 110; o_ro := true; o_status := Active |} in
  let st := {| o_id := 3; o_side := Sell; o_typ := Stop; o_qty := q1 10; o_price := q1 90; o_ro := false; o_status := Active |} in
  let '(s, rs) := run (init (q1 10000) 0) [Submit b; Execute 1; Submit l; Submit st; Execute 2; Execute 3] in
  rs = [Accepted; Done; Accepted; Accepted; Done; Done] /\ base s = 0 /\ qltb (pqty s) 0 = true.
Proof. vm_compute. repeat split; reflexivity. Qed.
