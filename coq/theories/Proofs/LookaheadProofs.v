(* Proofs/LookaheadProofs.v — C01: the state of either simulator after the steps that end before t is a function of the input rows
   before t only, for every F (every strategy, exchange type, route set, ...). *)
From Coq Require Import ZArith List Bool Lia ZifyBool.
From JV Require Import Gen.simidx Model.Engine.
Import ListNotations.
Local Open Scope Z_scope.
Ltac Zify.zify_post_hook ::= Z.to_euclidean_division_equations.

(* ------------------------------------------------------------------ the generated accesses stay inside the prefix *)
Definition inside (bound : Z) (a : bool * Z * Z) : Prop := let '(g, lo, hi) := a in g = true -> 0 <= lo /\ hi <= bound.

Lemma mod0_ge a c : 0 < c -> 0 < a -> a mod c = 0 -> c <= a.
Proof. intros Hc Ha H. apply Z.mod_divide in H; [|lia]. apply Z.divide_pos_le; assumption. Qed.

(* decides the bound of one generated access from its generated guard *)
Ltac access_bound :=
  unfold inside; intros Hg;
  repeat match goal with
  | H : andb _ _ = true |- _ => apply andb_true_iff in H; destruct H
  | H : (?a mod ?c =? 0) = true |- _ => apply Z.eqb_eq in H; try (pose proof (mod0_ge a c ltac:(lia) ltac:(lia) H))
  end; lia.

Lemma step_accesses_inside i count : 0 <= i -> 0 < count -> Forall (inside (i + 1)) (step_accesses i count).
Proof.
  intros Hi Hc. unfold step_accesses, step_first, step_once, step_per_tf. cbn [app]. repeat (apply Forall_cons || apply Forall_nil); access_bound.
Qed.

Lemma prep_inside : Forall (inside 1) prep_first.
Proof. unfold prep_first. repeat (apply Forall_cons || apply Forall_nil); access_bound. Qed.

Lemma fast_accesses_inside i step count : 0 <= i -> 0 < step -> 0 < count -> Forall (inside (i + step)) (fast_accesses i step count).
Proof.
  intros Hi Hs Hc. unfold fast_accesses, fast_once, fast_per_tf. cbn [app]. repeat (apply Forall_cons || apply Forall_nil); access_bound.
Qed.

(* ------------------------------------------------------------------ rows inside the prefix are the same rows *)
Section Rows.
Context {Row : Type}.

Lemma firstn_skipn_prefix (cs : list Row) a k m : (a + k <= m)%nat -> firstn k (skipn a cs) = firstn k (skipn a (firstn m cs)).
Proof.
  intros H. rewrite skipn_firstn_comm, firstn_firstn. f_equal. lia.
Qed.

Lemma read_prefix (cs cs' : list Row) m a : firstn m cs = firstn m cs' -> inside (Z.of_nat m) a -> read cs a = read cs' a.
Proof.
  intros Hp. destruct a as [[g lo] hi]. unfold inside, read. destruct g; [|reflexivity]. intros H. destruct (H eq_refl) as [Hlo Hhi].
  f_equal. unfold py_rows. destruct (0 <=? lo) eqn:E; [|lia].
  destruct (Z_le_gt_dec (hi - lo) 0) as [Hn|Hn]; [replace (Z.to_nat (hi - lo)) with 0%nat by lia; reflexivity|].
  rewrite (firstn_skipn_prefix cs _ _ m) by lia. rewrite (firstn_skipn_prefix cs' _ _ m) by lia. rewrite Hp. reflexivity.
Qed.

Lemma flat_map_ext_in' {A B} (f g : A -> list B) l : (forall a, In a l -> f a = g a) -> flat_map f l = flat_map g l.
Proof. induction l as [|x r IH]; intros H; cbn [flat_map]; [reflexivity|]. rewrite (H x) by (left; reflexivity). rewrite IH; [reflexivity|]. intros a Ha. apply H. right. exact Ha. Qed.
Lemma map_ext_Forall {A B} (f g : A -> B) (P : A -> Prop) l : Forall P l -> (forall a, P a -> f a = g a) -> map f l = map g l.
Proof. intros HF H. induction HF as [|a r Ha Hr IH]; cbn [map]; [reflexivity|]. rewrite (H a Ha), IH. reflexivity. Qed.

Lemma firstn_le_prefix (cs cs' : list Row) m m' : (m' <= m)%nat -> firstn m cs = firstn m cs' -> firstn m' cs = firstn m' cs'.
Proof.
  intros H Hp. rewrite <- (Nat.min_l m' m) by exact H. rewrite <- !firstn_firstn. rewrite Hp. reflexivity.
Qed.
End Rows.

Section NoLookahead.
Context {Row St : Type}.
Variable counts : list Z.
Hypothesis counts_pos : Forall (fun c => 0 < c) counts.
Variable F : nat -> list (list (option (list Row))) -> St -> St.
Variable P : list (option (list Row)) -> St.

Definition same_prefix (m : nat) (css css' : list (list Row)) : Prop := Forall2 (fun cs cs' => firstn m cs = firstn m cs') css css'.

Lemma same_prefix_le m m' css css' : (m' <= m)%nat -> same_prefix m css css' -> same_prefix m' css css'.
Proof. intros H Hp. induction Hp as [|cs cs' r r' Hx Hr IH]; constructor; [eapply firstn_le_prefix; eassumption|exact IH]. Qed.

Lemma reads_step_prefix css css' i : same_prefix (S i) css css' -> reads_step counts css i = reads_step counts css' i.
Proof.
  intros Hp. unfold reads_step. induction Hp as [|cs cs' r r' Hx Hr IH]; cbn [map]; [reflexivity|]. f_equal; [|exact IH].
  clear IH Hr. apply flat_map_ext_in'. intros c Hin. assert (Hc : 0 < c) by (rewrite Forall_forall in counts_pos; apply counts_pos; exact Hin).
  apply (map_ext_Forall _ _ _ _ (step_accesses_inside (Z.of_nat i) c ltac:(lia) Hc)). intros a Ha.
  apply (read_prefix cs cs' (S i)); [exact Hx|]. replace (Z.of_nat (S i)) with (Z.of_nat i + 1) by lia. exact Ha.
Qed.

Lemma reads_prep_prefix css css' m : (1 <= m)%nat -> same_prefix m css css' -> reads_prep css = reads_prep css'.
Proof.
  intros Hm Hp. unfold reads_prep. destruct Hp as [|cs cs' r r' Hx Hr]; [reflexivity|].
  apply (map_ext_Forall _ _ _ _ prep_inside). intros a Ha. apply (read_prefix cs cs' 1); [eapply firstn_le_prefix; eassumption|exact Ha].
Qed.

Lemma fold_step_prefix css css' m : forall s0, same_prefix m css css' ->
  fold_left (fun s i => F i (reads_step counts css i) s) (seq 0 m) s0 = fold_left (fun s i => F i (reads_step counts css' i) s) (seq 0 m) s0.
Proof.
  induction m as [|m IH]; intros s0 Hp; [reflexivity|].
  rewrite seq_S, !fold_left_app. cbn [fold_left Nat.add]. rewrite (IH s0) by (eapply same_prefix_le; [|exact Hp]; lia).
  rewrite (reads_step_prefix css css' m Hp). reflexivity.
Qed.

(* the normal simulator: the state after the minutes 0..m-1 depends only on the first m rows of every input array *)
Theorem step_simulator_no_lookahead css css' m : (1 <= m)%nat -> same_prefix m css css' -> run_step counts F P css m = run_step counts F P css' m.
Proof.
  intros Hm Hp. unfold run_step. rewrite (reads_prep_prefix css css' m Hm Hp). apply fold_step_prefix. exact Hp.
Qed.

Variable step : Z.
Hypothesis step_pos : 0 < step.

Lemma reads_fast_prefix css css' j : same_prefix (Z.to_nat ((Z.of_nat j + 1) * step)) css css' -> reads_fast counts step css j = reads_fast counts step css' j.
Proof.
  intros Hp. unfold reads_fast. induction Hp as [|cs cs' r r' Hx Hr IH]; cbn [map]; [reflexivity|]. f_equal; [|exact IH].
  clear IH Hr. apply flat_map_ext_in'. intros c Hin. assert (Hc : 0 < c) by (rewrite Forall_forall in counts_pos; apply counts_pos; exact Hin).
  apply (map_ext_Forall _ _ _ _ (fast_accesses_inside (Z.of_nat j * step) step c ltac:(lia) step_pos Hc)). intros a Ha.
  apply (read_prefix cs cs' _ a Hx). rewrite Z2Nat.id by lia. replace ((Z.of_nat j + 1) * step) with (Z.of_nat j * step + step) by lia. exact Ha.
Qed.

Lemma fold_fast_prefix css css' k : forall s0, same_prefix (Z.to_nat (Z.of_nat k * step)) css css' ->
  fold_left (fun s j => F j (reads_fast counts step css j) s) (seq 0 k) s0 = fold_left (fun s j => F j (reads_fast counts step css' j) s) (seq 0 k) s0.
Proof.
  induction k as [|k IH]; intros s0 Hp; [reflexivity|].
  rewrite seq_S, !fold_left_app. cbn [fold_left Nat.add]. rewrite (IH s0) by (eapply same_prefix_le; [|exact Hp]; nia).
  rewrite (reads_fast_prefix css css' k); [reflexivity|]. eapply same_prefix_le; [|exact Hp]. apply Z2Nat.inj_le; nia.
Qed.

(* the fast simulator: the state after the chunks 0..k-1 depends only on the first k*step rows (t on a chunk boundary) *)
Theorem fast_simulator_no_lookahead css css' k : (1 <= k)%nat -> same_prefix (Z.to_nat (Z.of_nat k * step)) css css' ->
  run_fast counts F P step css k = run_fast counts F P step css' k.
Proof.
  intros Hk Hp. unfold run_fast. rewrite (reads_prep_prefix css css' (Z.to_nat (Z.of_nat k * step))); [apply fold_fast_prefix; exact Hp|nia|exact Hp].
Qed.
End NoLookahead.
