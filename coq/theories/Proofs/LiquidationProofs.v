(* Proofs/LiquidationProofs.v — C09: price ordering, exactly-when, and the effect of a forced close. *)
From Coq Require Import ZArith QArith Qcanon Lqa List Bool String.
From JV Require Import Base.Num Base.QcTac Gen.candle Gen.position Model.Spot Model.Futures Model.Liquidation Proofs.FuturesProofs.
Import ListNotations.
Local Open Scope Qc_scope.
Import QcI.

Definition c004 : Qc := lit QcNum 1152921504606847%Z (-58)%Z.     (* the double 0.004 *)

Lemma c004_bounds : 0 < c004 /\ c004 * qofZ 125 < 1 /\ Q2Qc (1 # 251) < c004.
Proof. vm_compute. repeat split; reflexivity. Qed.

Lemma liq_long e l : pos_liquidation_price QcNum false "isolated" "long" e l = Val (e * (1 - 1 / l + c004)).
Proof. reflexivity. Qed.
Lemma liq_short e l : pos_liquidation_price QcNum false "isolated" "short" e l = Val (e * (1 + 1 / l - c004)).
Proof. reflexivity. Qed.
Lemma bank_long e l : pos_bankruptcy_price QcNum "long" e l = Val (e * (1 - 1 / l)).
Proof. reflexivity. Qed.
Lemma bank_short e l : pos_bankruptcy_price QcNum "short" e l = Val (e * (1 + 1 / l)).
Proof. reflexivity. Qed.

Lemma inv_bounds l : 1 <= l -> l <= qofZ 125 -> c004 < 1 / l /\ 1 / l <= 1.
Proof.
  intros H1 H2. destruct c004_bounds as (C0 & C1 & _).
  assert (Hl : 0 < l) by (qc_arith; lra). pose proof (inv_pos l Hl) as Hi.
  assert (E : 1 / l = / l) by (unfold Qcdiv; ring). rewrite E.
  assert (El : l * / l = 1) by (field; intros X; rewrite X in Hl; discriminate Hl).
  set (i := / l) in *. clearbody i. set (c := c004) in *. clearbody c. set (k := qofZ 125) in *.
  assert (Hk : 0 < k) by reflexivity. clearbody k. split; qc_arith; nra.
Qed.

(* for every leverage from 1 to 125 and every positive entry: the liquidation price lies strictly between the
   bankruptcy price and the entry price, on the losing side *)
Theorem liquidation_price_ordering e l : 0 < e -> 1 <= l -> l <= qofZ 125 ->
  e * (1 - 1 / l) < e * (1 - 1 / l + c004) /\ e * (1 - 1 / l + c004) < e /\
  e < e * (1 + 1 / l - c004) /\ e * (1 + 1 / l - c004) < e * (1 + 1 / l).
Proof.
  intros He H1 H2. destruct (inv_bounds l H1 H2) as [A B]. destruct c004_bounds as (C0 & _).
  set (i := 1 / l) in *. clearbody i. set (c := c004) in *. clearbody c. repeat split; qc_arith; nra.
Qed.

(* cross-margin and spot sessions never force-close *)
Theorem no_liquidation_outside_isolated mode leverage p k id sym : mode <> "isolated"%string ->
  liquidation_order mode leverage p k id sym = None.
Proof.
  intros H. unfold liquidation_order. destruct (String.eqb_spec mode "isolated"); [contradiction|reflexivity].
Qed.

(* exactly when: isolated, position open, the candle's range contains the liquidation price; then the order is a reduce-only
   market order for the whole position on the closing side at the bankruptcy price *)
Theorem liquidation_exactly_when leverage p k id sym :
  liquidation_order "isolated" leverage p k id sym =
  if qltb 0 (p_qty p) then
    (if candle_includes_price QcNum k (p_entry p * (1 - 1 / leverage + c004))
     then Some {| f_id := id; f_sym := sym; f_side := Sell; f_typ := Market; f_qty := qabs (p_qty p);
                  f_price := p_entry p * (1 - 1 / leverage); f_ro := true; f_status := Active |} else None)
  else if qltb (p_qty p) 0 then
    (if candle_includes_price QcNum k (p_entry p * (1 + 1 / leverage - c004))
     then Some {| f_id := id; f_sym := sym; f_side := Buy; f_typ := Market; f_qty := qabs (p_qty p);
                  f_price := p_entry p * (1 + 1 / leverage); f_ro := true; f_status := Active |} else None)
  else None.
Proof.
  unfold liquidation_order, pos_type. cbn [String.eqb negb].
  destruct (qltb 0 (p_qty p)) eqn:E1; [reflexivity|]. destruct (qltb (p_qty p) 0) eqn:E2; reflexivity.
Qed.

(* executing a reduce-only order that exactly offsets the position *)
Lemma forced_close s o : ffind (forders s) (f_id o) = None -> f_ro o = true ->
  signed o = - p_qty (posn s (f_sym o)) -> p_qty (posn s (f_sym o)) <> 0 -> 0 <= f_price o -> 0 < f_qty o ->
  let p := posn s (f_sym o) in
  let s' := fexecute (fst (fsubmit s o)) (f_id o) in
  p_qty (posn s' (f_sym o)) = 0 /\
  wallet s' = wallet s - f_qty o * f_price o * ffee s + realized (p_qty p) (p_entry p) (f_price o) (qltb (p_qty p) 0) /\
  (forall j, j <> f_sym o -> posn s' j = posn s j) /\ (forall j, buys s' j = buys s j /\ sells s' j = sells s j).
Proof.
  intros Hfresh Hro Hsq Hq Hp Hqty p s'. subst s'. unfold fsubmit. rewrite Hro. cbn [negb andb fst].
  unfold fexecute. cbn [forders with_tables].
  rewrite (ffind_app_new (forders s) (fset_status o Active) (f_id o) Hfresh eq_refl).
  cbn [f_final fset_status f_status]. unfold drop_row. cbn [fset_status f_ro]. rewrite Hro.
  cbn [f_sym fset_status f_price wallet lev ffee nsym posn buys sells with_tables]. fold p.
  assert (Hs' : signed (fset_status o Active) = signed o) by reflexivity. rewrite Hs', Hsq. fold p.
  unfold position_fill. destruct (qeqb_spec (p_qty p) 0) as [X|_]; [contradiction|].
  destruct (qeqb_spec (p_qty p + - p_qty p) 0) as [_|X]; [|exfalso; apply X; ring].
  cbn [fst snd wallet posn buys sells]. unfold upd at 1. rewrite Nat.eqb_refl. cbn [p_qty].
  split; [reflexivity|]. split.
  - f_equal. f_equal. assert (Hsq' : signed o = - p_qty p) by exact Hsq. rewrite <- Hsq'.
    assert (E : qabs (signed o * f_price o) = f_qty o * f_price o).
    { unfold signed. destruct (f_side o).
      - apply qabs_nonneg. set (x := f_qty o) in *. set (y := f_price o) in *. clearbody x y. qc_arith. nra.
      - assert (E' : - f_qty o * f_price o = - (f_qty o * f_price o)) by ring. rewrite E'. apply qabs_opp_nonneg.
        set (x := f_qty o) in *. set (y := f_price o) in *. clearbody x y. qc_arith. nra. }
    rewrite E. reflexivity.
  - split; [intros j Hj; unfold upd; destruct (Nat.eqb_spec j (f_sym o)); [contradiction|reflexivity]|intros j; split; reflexivity].
Qed.

(* the forced close: the whole position is closed at the bankruptcy price, so the wallet loses exactly the initial
   margin (entry value / leverage) plus the fee of that fill; other symbols and the margin tables are untouched *)
Theorem liquidation_effect s sym k id o : ffind (forders s) id = None -> 1 <= lev s -> 0 <= p_entry (posn s sym) ->
  let p := posn s sym in
  liquidation_order "isolated" (lev s) p k id sym = Some o ->
  let s' := fst (check_liquidation "isolated" s sym k id) in
  snd (check_liquidation "isolated" s sym k id) = true /\
  p_qty (posn s' sym) = 0 /\
  wallet s' = wallet s - qabs (p_qty p) * p_entry p / lev s - qabs (p_qty p) * f_price o * ffee s /\
  (forall j, j <> sym -> posn s' j = posn s j) /\ (forall j, buys s' j = buys s j /\ sells s' j = sells s j).
Proof.
  intros Hfresh Hl He p Ho. fold p in He. unfold check_liquidation. fold p. rewrite Ho. cbn [fst snd]. split; [reflexivity|].
  rewrite liquidation_exactly_when in Ho.
  assert (Hl0 : 0 < lev s) by (qc_arith; lra). pose proof (inv_pos _ Hl0) as Hi.
  assert (E1 : 1 / lev s = / lev s) by (unfold Qcdiv; ring).
  assert (Eli : lev s * / lev s = 1) by (field; intros X; rewrite X in Hl0; discriminate Hl0).
  assert (Hi1 : / lev s <= 1) by (set (l := lev s) in *; set (i := / l) in *; clearbody i l; qc_arith; nra).
  destruct (qltb_spec 0 (p_qty p)) as [Hpos|Hnp].
  - destruct (candle_includes_price QcNum k _); [|discriminate]. injection Ho as <-.
    assert (Eq : qabs (p_qty p) = p_qty p) by (apply qabs_nonneg; qc_arith; lra).
    set (o := {| f_id := id; f_sym := sym; f_side := Sell; f_typ := Market; f_qty := qabs (p_qty p); f_price := p_entry p * (1 - 1 / lev s); f_ro := true; f_status := Active |}).
    assert (Hbp : 0 <= f_price o).
    { subst o. cbn [f_price]. rewrite E1. set (i := / lev s) in *. set (e := p_entry p) in *. clearbody i e. qc_arith. nra. }
    destruct (forced_close s o Hfresh eq_refl) as (A & B & Cc & D); try assumption.
    + subst o. unfold signed. cbn [f_side f_qty f_sym]. fold p. rewrite Eq. reflexivity.
    + subst o. cbn [f_sym]. fold p. intros X. rewrite X in Hpos. discriminate Hpos.
    + subst o. cbn [f_qty]. rewrite Eq. exact Hpos.
    + change (f_id o) with id in *. change (f_sym o) with sym in *. fold p in B. split; [exact A|]. split; [|split; assumption].
      rewrite B. subst o. cbn [f_qty f_price]. unfold realized. destruct (qltb_spec (p_qty p) 0) as [X|_]; [exfalso; qc_arith; lra|].
      rewrite Eq. field. intros X. rewrite X in Hl0. discriminate Hl0.
  - destruct (qltb_spec (p_qty p) 0) as [Hneg|Hz]; [|discriminate].
    destruct (candle_includes_price QcNum k _); [|discriminate]. injection Ho as <-.
    assert (Eq : qabs (p_qty p) = - p_qty p) by (unfold qabs; destruct (qltb_spec (p_qty p) 0); [reflexivity|contradiction]).
    set (o := {| f_id := id; f_sym := sym; f_side := Buy; f_typ := Market; f_qty := qabs (p_qty p); f_price := p_entry p * (1 + 1 / lev s); f_ro := true; f_status := Active |}).
    assert (Hbp : 0 <= f_price o).
    { subst o. cbn [f_price]. rewrite E1. set (i := / lev s) in *. set (e := p_entry p) in *. clearbody i e. qc_arith. nra. }
    destruct (forced_close s o Hfresh eq_refl) as (A & B & Cc & D); try assumption.
    + subst o. cbn [f_sym]. fold p. intros X. rewrite X in Hneg. discriminate Hneg.
    + subst o. cbn [f_qty]. rewrite Eq. qc_arith. lra.
    + change (f_id o) with id in *. change (f_sym o) with sym in *. fold p in B. split; [exact A|]. split; [|split; assumption].
      rewrite B. subst o. cbn [f_qty f_price]. unfold realized. destruct (qltb_spec (p_qty p) 0) as [_|X]; [|contradiction].
      rewrite Eq. field. intros X. rewrite X in Hl0. discriminate Hl0.
Qed.
