(* Proofs/FastProofs.v — C12: the fast matcher walks the same gap-normalised minute candles as the normal simulator; in a chunk
   with a single candidate both fill it in the same minute. *)
From Coq Require Import ZArith QArith Qcanon Lqa List Bool Lia.
From JV Require Import Base.Num Base.QcTac Gen.candle Gen.backtest Spec.PathSpec Model.Match Model.FastMatch
  Proofs.CandleProofs Proofs.MatchProofs Proofs.SortProofs Proofs.FollowProofs Proofs.RestingProofs Proofs.KernelEq.
Import ListNotations.
Local Open Scope Qc_scope.
Import QcI.

Lemma qmx_qmax a b : qmx a b = qmax a b.
Proof. unfold qmx, qmax. destruct (qltb_spec a b); destruct (qleb_spec a b); try reflexivity; try solve [exfalso; qc]; apply Qc_is_canon; qc. Qed.
Lemma qmn_qmin a b : qmn a b = qmin a b.
Proof. unfold qmn, qmin. destruct (qltb_spec b a); destruct (qleb_spec a b); try reflexivity; try solve [exfalso; qc]; apply Qc_is_canon; qc. Qed.

(* (1) the gap normalisation reads only the close of the previous candle, and keeps the close of the candle it normalises:
   normalising along a chain of already normalised candles (the fast simulator's path candles) or along the raw candles (the
   normal simulator's in-place normalisation) gives the same candles *)
Lemma fix_jump_close_only (p p' k : cndl) : c_close p = c_close p' -> fix_jump QcNum p k = fix_jump QcNum p' k.
Proof. intros E. rewrite !gen_fix_jump_ref. unfold fix_jump_ref. rewrite E. reflexivity. Qed.
Lemma fix_jump_keeps_close (p k : cndl) : c_close (fix_jump QcNum p k) = c_close k.
Proof. rewrite gen_fix_jump_ref. unfold fix_jump_ref. destruct (qltb (c_close p) (c_open k)); [reflexivity|]. destruct (qltb (c_open k) (c_close p)); reflexivity. Qed.

Fixpoint step_candles (prev : option cndl) (ks : list cndl) : list cndl :=
  match ks with [] => [] | k :: r => (match prev with Some p => fix_jump QcNum p k | None => k end) :: step_candles (Some k) r end.

Theorem path_candles_are_the_normal_simulators ks : forall prevN prev,
  match prevN, prev with Some q, Some p => c_close q = c_close p | None, None => True | _, _ => False end ->
  norm_chain prevN ks = step_candles prev ks.
Proof.
  induction ks as [|k r IH]; intros prevN prev H; cbn [norm_chain step_candles]; [reflexivity|].
  destruct prevN as [q|], prev as [p|]; try contradiction.
  - rewrite (fix_jump_close_only q p k H). f_equal. apply IH. apply fix_jump_keeps_close.
  - f_equal. apply IH. reflexivity.
Qed.

(* ------------------------------------------------------------------ the chunk's candle is the hull of its minutes *)
Definition inside (real k : cndl) : Prop := c_low real <= c_low k /\ c_high k <= c_high real.

Lemma fold_qmx_spec (l : list cndl) : forall m, m <= fold_left (fun m (x : cndl) => qmx m (c_high x)) l m /\
  forall x, In x l -> c_high x <= fold_left (fun m (x : cndl) => qmx m (c_high x)) l m.
Proof.
  induction l as [|y l IH]; intros m; cbn [fold_left]; [split; [qc|intros x []]|].
  destruct (IH (qmx m (c_high y))) as [A B]. assert (M : m <= qmx m (c_high y) /\ c_high y <= qmx m (c_high y)) by (unfold qmx; destruct (qltb_spec m (c_high y)); split; qc).
  destruct M as [M1 M2]. split; [qc|]. intros x [<-|Hx]; [qc|apply B; exact Hx].
Qed.
Lemma fold_qmn_spec (l : list cndl) : forall m, fold_left (fun m (x : cndl) => qmn m (c_low x)) l m <= m /\
  forall x, In x l -> fold_left (fun m (x : cndl) => qmn m (c_low x)) l m <= c_low x.
Proof.
  induction l as [|y l IH]; intros m; cbn [fold_left]; [split; [qc|intros x []]|].
  destruct (IH (qmn m (c_low y))) as [A B]. assert (M : qmn m (c_low y) <= m /\ qmn m (c_low y) <= c_low y) by (unfold qmn; destruct (qltb_spec (c_low y) m); split; qc).
  destruct M as [M1 M2]. split; [qc|]. intros x [<-|Hx]; [qc|apply B; exact Hx].
Qed.

Lemma hull ks real : chunk_candle ks = Some real -> Forall (inside real) ks.
Proof.
  destruct ks as [|k r]; [discriminate|]. cbn [chunk_candle]. intros E. injection E as <-. apply Forall_forall. intros x Hx.
  unfold inside. cbn [c_low c_high]. destruct (fold_qmx_spec r (c_high k)) as [A B]. destruct (fold_qmn_spec r (c_low k)) as [A' B'].
  destruct Hx as [<-|Hx]; [split; assumption|split; [apply B'|apply B]; exact Hx].
Qed.

Lemma inside_includes real k x : inside real k -> includes k x = true -> includes real x = true.
Proof.
  intros [A B] H. destruct (includes_range k x H) as [L U].
  assert (I : In x (executing real [x])) by (apply (proj2 (executing_iff real [x] x)); split; [left; reflexivity|split; qc]).
  unfold executing in I. apply filter_In in I. apply I.
Qed.

Lemma fix_inside real prev k : valid prev -> valid k -> inside real prev -> inside real k -> inside real (fix_jump QcNum prev k).
Proof.
  intros (V1 & V2 & V3 & V4) Vk [A B] [Cc D]. destruct (fix_jump_valid prev k Vk) as (_ & _ & _ & _ & _ & Hh & Hl). cbv zeta in *.
  unfold inside. rewrite Hh, Hl. unfold qmax, qmin. destruct (qleb_spec (c_high k) (c_close prev)); destruct (qleb_spec (c_low k) (c_close prev)); split; qc.
Qed.

Lemma filter_comm {A} (f g : A -> bool) l : filter f (filter g l) = filter g (filter f l).
Proof. induction l as [|x l IH]; cbn [filter]; [reflexivity|]. destruct (f x) eqn:F; destruct (g x) eqn:G; cbn [filter]; rewrite ?F, ?G, IH; reflexivity. Qed.

(* ------------------------------------------------------------------ one candidate per chunk *)
Section OneCandidate.
Variable react : rorder -> cndl -> list rorder -> list rorder.
Variable real : cndl.
Definition hullset (w : list rorder) : list rorder := filter (includes real) w.
(* the strategy layer's reaction to a fill does not read the partial candle, and puts no new order inside the chunk's range *)
Hypothesis react_indep : forall o a a' w, react o a w = react o a' w.
Hypothesis react_outside : forall o a w, hullset w = [] -> hullset (react o a w) = [].

Lemma filter_sub (k : cndl) w : inside real k -> filter (includes k) w = filter (includes k) (hullset w).
Proof.
  intros I. unfold hullset. induction w as [|x w IH]; cbn [filter]; [reflexivity|].
  destruct (includes k x) eqn:E.
  - rewrite (inside_includes real k x I E). cbn [filter]. rewrite E, IH. reflexivity.
  - destruct (includes real x); cbn [filter]; [rewrite E|]; exact IH.
Qed.
Lemma hullset_remove o w : hullset w = [o] -> hullset (remove_order o w) = [].
Proof.
  intros H. unfold hullset, remove_order in *. rewrite filter_comm. rewrite H. cbn [filter]. rewrite Nat.eqb_refl. reflexivity.
Qed.
Lemma hull_member o w : hullset w = [o] -> In o w /\ includes real o = true.
Proof. intros H. assert (I : In o (hullset w)) by (rewrite H; left; reflexivity). unfold hullset in I. apply filter_In in I. exact I. Qed.

(* what the normal matcher does in one minute whose candle lies inside the chunk's range *)
Lemma step_minute_none fuel s w : inside real s -> hullset w = [] -> match_minute react (S fuel) s w = Done [] s w.
Proof.
  intros I H. unfold match_minute, candidates, executing. rewrite (filter_sub s w I), H. cbn [filter length Nat.ltb Nat.leb mloop pick find rev]. reflexivity.
Qed.

Lemma step_minute_one fuel s w o : valid s -> inside real s -> hullset w = [o] ->
  if includes s o
  then exists a b, split_candle QcNum s (oprice o) = Val (a, b) /\
                   match_minute react (S (S fuel)) s w = Done [(o, a)] b (react o a (remove_order o w))
  else match_minute react (S (S fuel)) s w = Done [] s w.
Proof.
  intros V I H. destruct (hull_member o w H) as [Hin Hr].
  destruct (includes s o) eqn:E.
  - destruct (includes_range s o E) as [L U]. destruct (split_total_valid s (oprice o) V L U) as (a & b & Hs & _ & Vb & _ & _ & Hmax & Hmin & _).
    exists a, b. split; [exact Hs|].
    unfold match_minute, candidates, executing. rewrite (filter_sub s w I), H. cbn [filter]. rewrite E. cbn [length Nat.ltb Nat.leb].
    cbn [mloop pick find]. rewrite (is_active_self w o Hin), E. cbn [andb].
    change (split s (oprice o)) with (split_candle QcNum s (oprice o)) in Hs. rewrite Hs.
    assert (Ib : inside real b).
    { destruct I as [I1 I2]. apply qmax_ge_r in Hmax. apply qmin_le_r in Hmin. split; qc. }
    assert (Hw : hullset (react o a (remove_order o w)) = []) by (apply react_outside; apply hullset_remove; exact H).
    unfold candidates, executing. rewrite (filter_sub b _ Ib), Hw. cbn [filter length Nat.ltb Nat.leb mloop pick find rev app]. reflexivity.
  - unfold match_minute, candidates, executing. rewrite (filter_sub s w I), H. cbn [filter]. rewrite E. cbn [length Nat.ltb Nat.leb mloop pick find rev]. reflexivity.
Qed.

(* what the fast matcher does in one minute *)
Lemma fast_minute_none fuel rest i f w fills : hullset w = [] -> floop react (S fuel) real rest i f w [] fills = inl (Some (fills, w, [])).
Proof. intros H. cbn [floop pick find]. reflexivity. Qed.

Lemma fast_minute_one fuel rest i f w o fills : valid f -> inside real f -> hullset w = [o] ->
  if includes f o
  then exists a b, split_candle QcNum f (oprice o) = Val (a, b) /\
                   floop react (S (S fuel)) real rest i f w [o] fills = inl (Some (fills ++ [(o, a, i)], react o a (remove_order o w), []))
  else floop react (S (S fuel)) real rest i f w [o] fills = inl (Some (fills, w, [o])).
Proof.
  intros V I H. destruct (hull_member o w H) as [Hin Hr].
  destruct (includes f o) eqn:E.
  - destruct (includes_range f o E) as [L U]. destruct (split_total_valid f (oprice o) V L U) as (a & b & Hs & _).
    exists a, b. split; [exact Hs|].
    cbn [floop pick find]. rewrite (is_active_self w o Hin), E. cbn [andb].
    change (split f (oprice o)) with (split_candle QcNum f (oprice o)) in Hs. rewrite Hs.
    assert (Hw : hullset (react o a (remove_order o w)) = []) by (apply react_outside; apply hullset_remove; exact H).
    unfold refresh, executing. fold (hullset (react o a (remove_order o w))). rewrite Hw. cbn [length Nat.ltb Nat.leb pick find]. reflexivity.
  - cbn [floop pick find]. rewrite (is_active_self w o Hin), E. cbn [andb]. reflexivity.
Qed.

(* the normal simulator over the same minutes: gap normalisation, then the per-minute matcher *)
Fixpoint step_chunk (fuel : nat) (prev : option cndl) (i : nat) (ks : list cndl) (w : list rorder) (fills : list (rorder * cndl * nat))
  : option (list (rorder * cndl * nat) * list rorder) :=
  match ks with
  | [] => Some (fills, w)
  | k :: r =>
      let s := match prev with Some p => fix_jump QcNum p k | None => k end in
      match match_minute react fuel s w with
      | Done fs _ w' => step_chunk fuel (Some k) (S i) r w' (fills ++ map (fun f => (fst f, snd f, i)) fs)
      | _ => None
      end
  end.

Definition ids (fl : list (rorder * cndl * nat)) : list (nat * nat) := map (fun f => (oid (fst (fst f)), snd f)) fl.
Lemma ids_app a b : ids (a ++ b) = ids a ++ ids b.
Proof. unfold ids. apply map_app. Qed.

Definition good (k : cndl) : Prop := valid k /\ inside real k.
Definition good_prev (prev : option cndl) : Prop := match prev with Some p => good p | None => True end.
Definition same_close (prevN prev : option cndl) : Prop :=
  match prevN, prev with Some q, Some p => c_close q = c_close p | None, None => True | _, _ => False end.

Lemma chunks_agree fuel : forall ks prevN prev i w cands fl sl fl' wf sl' ws,
  Forall good ks -> good_prev prev -> same_close prevN prev -> (length (hullset w) <= 1)%nat -> cands = hullset w -> ids fl = ids sl ->
  fchunk react (S (S fuel)) real i (norm_chain prevN ks) w cands fl = FDone fl' wf ->
  step_chunk (S (S fuel)) prev i ks w sl = Some (sl', ws) ->
  ids fl' = ids sl' /\ wf = ws.
Proof.
  induction ks as [|k r IH]; intros prevN prev i w cands fl sl fl' wf sl' ws Hg Hp Hsc Hl Hc Hi HF HS.
  - cbn [norm_chain fchunk step_chunk] in *. injection HF as <- <-. injection HS as <- <-. split; [exact Hi|reflexivity].
  - apply Forall_cons_iff in Hg. destruct Hg as [[Vk Ik] Hg].
    set (s := match prev with Some p => fix_jump QcNum p k | None => k end).
    assert (Ef : match prevN with Some q => fix_jump QcNum q k | None => k end = s).
    { unfold s. destruct prevN as [q|], prev as [p|]; try contradiction; [apply fix_jump_close_only; exact Hsc|reflexivity]. }
    assert (Vs : valid s) by (unfold s; destruct prev as [p|]; [apply (fix_jump_valid p k Vk)|exact Vk]).
    assert (Is : inside real s) by (unfold s; destruct prev as [p|]; [destruct Hp as [Vp Ip]; apply fix_inside; assumption|exact Ik]).
    assert (Hsc' : same_close (Some s) (Some k)) by (unfold same_close, s; destruct prev; [apply fix_jump_keeps_close|reflexivity]).
    cbn [norm_chain fchunk step_chunk] in HF, HS. rewrite Ef in HF. fold s in HS.
    destruct (hullset w) as [|o [|o2 rest]] eqn:Hh; [| |cbn in Hl; lia].
    + subst cands. rewrite (fast_minute_none (S fuel) _ i s w fl Hh) in HF. rewrite (step_minute_none (S fuel) s w Is Hh) in HS.
      cbn [map] in HS. rewrite app_nil_r in HS.
      assert (L0 : (length (hullset w) <= 1)%nat) by (rewrite Hh; cbn; lia).
      exact (IH (Some s) (Some k) (S i) w [] fl sl fl' wf sl' ws Hg (conj Vk Ik) Hsc' L0 (eq_sym Hh) Hi HF HS).
    + subst cands. pose proof (fast_minute_one fuel (norm_chain (Some s) r) i s w o fl Vs Is Hh) as Ff. pose proof (step_minute_one fuel s w o Vs Is Hh) as Fs.
      destruct (includes s o).
      * destruct Ff as (a & b & _ & Ff). destruct Fs as (a' & b' & _ & Fs). rewrite Ff in HF. rewrite Fs in HS. cbn [map fst snd] in HS.
        rewrite (react_indep o a' a) in HS.
        assert (Hw : hullset (react o a (remove_order o w)) = []) by (apply react_outside; apply hullset_remove; exact Hh).
        assert (L0 : (length (hullset (react o a (remove_order o w))) <= 1)%nat) by (rewrite Hw; cbn; lia).
        assert (Hi' : ids (fl ++ [(o, a, i)]) = ids (sl ++ [(o, a', i)])) by (rewrite !ids_app, Hi; reflexivity).
        exact (IH (Some s) (Some k) (S i) _ [] _ _ fl' wf sl' ws Hg (conj Vk Ik) Hsc' L0 (eq_sym Hw) Hi' HF HS).
      * rewrite Ff in HF. rewrite Fs in HS. cbn [map] in HS. rewrite app_nil_r in HS.
        assert (L0 : (length (hullset w) <= 1)%nat) by (rewrite Hh; cbn; lia).
        exact (IH (Some s) (Some k) (S i) w [o] fl sl fl' wf sl' ws Hg (conj Vk Ik) Hsc' L0 (eq_sym Hh) Hi HF HS).
Qed.

Lemma fchunk_nothing fuel : forall nks i w fl, hullset w = [] -> fchunk react (S fuel) real i nks w [] fl = FDone fl w.
Proof.
  induction nks as [|k r IH]; intros i w fl H; cbn [fchunk]; [reflexivity|].
  rewrite (fast_minute_none fuel r i _ w fl H). apply IH. exact H.
Qed.
End OneCandidate.

(* C12: a chunk of valid minutes in which at most one resting order lies inside the chunk's range, with a strategy layer whose
   reaction to a fill does not read the partial candle and places nothing inside the chunk's range: the fast matcher and the
   normal matcher (gap normalisation + per-minute loop) fill the same order in the same minute and leave the same orders *)
Theorem single_candidate_chunk react fuel ks real w fl wf sl ws :
  (forall o a a' w0, react o a w0 = react o a' w0) ->
  (forall o a w0, hullset real w0 = [] -> hullset real (react o a w0) = []) ->
  Forall valid ks -> chunk_candle ks = Some real -> (length (hullset real w) <= 1)%nat ->
  fast_chunk react (S (S fuel)) ks w = FDone fl wf ->
  step_chunk react (S (S fuel)) None 0 ks w [] = Some (sl, ws) ->
  ids fl = ids sl /\ wf = ws.
Proof.
  intros Hind Hout Hv Hreal Hl HF HS.
  assert (Hg : Forall (good real) ks).
  { pose proof (hull ks real Hreal) as Hh. rewrite Forall_forall in *. intros k Hk. split; [apply Hv|apply Hh]; exact Hk. }
  unfold fast_chunk in HF. rewrite Hreal in HF. change (executing real w) with (hullset real w) in HF.
  destruct (hullset real w) as [|o [|o2 rest]] eqn:Hh; [| |cbn in Hl; lia].
  - rewrite <- (fchunk_nothing react real (S fuel) (norm_chain None ks) 0 w [] Hh) in HF.
    apply (chunks_agree react real Hind Hout fuel ks None None 0 w [] [] [] fl wf sl ws Hg I I); [rewrite Hh; cbn; lia|symmetry; exact Hh|reflexivity|exact HF|exact HS].
  - cbn [length Nat.ltb Nat.leb] in HF.
    apply (chunks_agree react real Hind Hout fuel ks None None 0 w [o] [] [] fl wf sl ws Hg I I); [rewrite Hh; cbn; lia|symmetry; exact Hh|reflexivity|exact HF|exact HS].
Qed.

(* ------------------------------------------------------------------ the higher-timeframe windows (generated read lists) *)
From JV Require Import Gen.simidx.
Local Open Scope Z_scope.

(* when the fast simulator generates a higher-timeframe candle at the end of the chunk starting at row i, it reads exactly the rows
   the normal simulator reads for it at the chunk's last minute *)
Theorem fast_windows_are_step_windows i step count : fast_per_tf i step count = step_per_tf (i + step - 1) count.
Proof. unfold fast_per_tf, step_per_tf. repeat (f_equal; try ring). Qed.

(* and the normal simulator completes no window strictly inside a chunk, when the step divides the timeframe and chunks start on
   multiples of the step *)
Theorem no_window_inside_chunk i step count m : 0 < step -> 0 < count -> (step | count) -> (step | i) -> i <= m -> m < i + step - 1 ->
  Forall (fun a : bool * Z * Z => fst (fst a) = false) (step_per_tf m count).
Proof.
  intros Hs Hc Hd Hi L U. unfold step_per_tf. repeat (apply Forall_cons || apply Forall_nil). cbn [fst].
  apply Z.eqb_neq. intros H. apply Z.mod_divide in H; [|lia].
  assert (D : (step | (m + 1) - i)) by (apply Z.divide_sub_r; [apply (Z.divide_trans _ count); [exact Hd|exact H]|exact Hi]).
  apply Z.divide_pos_le in D; lia.
Qed.

(* strategies run at the same moments: the chunk's end in the fast simulator is the chunk's last minute in the normal one, and the
   normal simulator runs no route of `count` minutes strictly inside a chunk *)
Theorem fast_executes_with_step i step count : fast_executes i step count = step_executes (i + step - 1) count.
Proof. unfold fast_executes, step_executes. repeat (f_equal; try ring). Qed.
Theorem no_execution_inside_chunk i step count m : 0 < step -> 0 < count -> (step | count) -> (step | i) -> i <= m -> m < i + step - 1 ->
  step_executes m count = false.
Proof.
  intros Hs Hc Hd Hi L U. unfold step_executes. apply Z.eqb_neq. intros H. apply Z.mod_divide in H; [|lia].
  assert (D : (step | (m + 1) - i)) by (apply Z.divide_sub_r; [apply (Z.divide_trans _ count); [exact Hd|exact H]|exact Hi]).
  apply Z.divide_pos_le in D; lia.
Qed.

(* the chunk length divides the timeframe of every route, trading or data *)
Lemma fold_gcd_divides l : forall a, (fold_left Z.gcd l a | a) /\ forall x, In x l -> (fold_left Z.gcd l a | x).
Proof.
  induction l as [|y l IH]; intros a; cbn [fold_left]; [split; [apply Z.divide_refl|intros x []]|].
  destruct (IH (Z.gcd a y)) as [A B]. split; [eapply Z.divide_trans; [exact A|apply Z.gcd_divide_l]|].
  intros x [<-|Hx]; [eapply Z.divide_trans; [exact A|apply Z.gcd_divide_r]|apply B; exact Hx].
Qed.
Theorem candle_step_divides tfs x : In x tfs -> (candle_step tfs | x).
Proof. intros H. unfold candle_step. apply (proj2 (fold_gcd_divides tfs 0) x H). Qed.
