(* Proofs/TimeframeProofs.v — the GENERATED timeframe tables agree, max_timeframe picks a longest one,
   anchor_timeframe is strictly longer. *)
From Coq Require Import ZArith String List Bool Lia.
From JV Require Import Gen.timeframes.
Import ListNotations.
Local Open Scope Z_scope.

Definition lookup {V} (t : list (string * V)) (k : string) : option V :=
  match find (fun kv => String.eqb (fst kv) k) t with Some kv => Some (snd kv) | None => None end.
Definition minutes (t : string) : Z := match lookup tf_minutes_utils t with Some m => m | None => 0 end.

Definition mem (l : list string) (t : string) : bool := existsb (String.eqb t) l.
(* helpers.max_timeframe: the chain `if X in timeframes_list: return X` in the generated order, then the default *)
Definition max_timeframe (l : list string) : string :=
  match find (mem l) max_tf_order with Some t => t | None => max_tf_default end.

Lemma mem_In l t : mem l t = true <-> In t l.
Proof.
  unfold mem. rewrite existsb_exists. split.
  - intros (x & Hx & E). apply String.eqb_eq in E. subst. exact Hx.
  - intros H. exists t. split; [exact H|apply String.eqb_refl].
Qed.

Theorem tables_agree : forall t, In t all_timeframes ->
  lookup tf_minutes_utils t = lookup tf_minutes_bt t /\ 0 < minutes t.
Proof.
  assert (H : forallb (fun t => match lookup tf_minutes_utils t, lookup tf_minutes_bt t with
                                | Some a, Some b => (a =? b) && (0 <? a) | _, _ => false end) all_timeframes = true)
    by (vm_compute; reflexivity).
  rewrite forallb_forall in H. intros t Ht. specialize (H t Ht). unfold minutes.
  destruct (lookup tf_minutes_utils t), (lookup tf_minutes_bt t); try discriminate.
  apply andb_true_iff in H. destruct H as [A B]. apply Z.eqb_eq in A. apply Z.ltb_lt in B. subst. split; [reflexivity|exact B].
Qed.

(* generic: scanning a list sorted by strictly decreasing key returns the best member *)
Fixpoint desc (l : list string) : bool :=
  match l with
  | x :: ((y :: _) as r) => (minutes y <? minutes x) && desc r
  | _ => true
  end.
Lemma desc_tail_lt x r : desc (x :: r) = true -> forall y, In y r -> minutes y < minutes x.
Proof.
  revert x. induction r as [|z r IH]; intros x H y Hy; [destruct Hy|].
  cbn [desc] in H. apply andb_true_iff in H. destruct H as [A B]. apply Z.ltb_lt in A.
  destruct Hy as [<-|Hy]; [exact A|]. specialize (IH z B y Hy). lia.
Qed.
Lemma find_best ord l t : desc ord = true -> find (mem l) ord = Some t ->
  In t l /\ forall x, In x l -> In x ord -> minutes x <= minutes t.
Proof.
  induction ord as [|o ord IH]; intros Hd Hf; [discriminate|]. cbn [find] in Hf.
  destruct (mem l o) eqn:E.
  - injection Hf as <-. split; [apply mem_In; exact E|]. intros x Hx [<-|Hin]; [lia|].
    pose proof (desc_tail_lt o ord Hd x Hin). lia.
  - assert (Hd' : desc ord = true) by (destruct ord; [reflexivity|cbn [desc] in Hd; apply andb_true_iff in Hd; apply Hd]).
    destruct (IH Hd' Hf) as [A B]. split; [exact A|]. intros x Hx [<-|Hin]; [|apply B; assumption].
    exfalso. apply mem_In in Hx. rewrite Hx in E. discriminate.
Qed.

Theorem max_timeframe_maximal l : (forall x, In x l -> In x all_timeframes) -> l <> [] ->
  In (max_timeframe l) l /\ forall x, In x l -> minutes x <= minutes (max_timeframe l).
Proof.
  intros Hall Hne.
  assert (Hd : desc max_tf_order = true) by (vm_compute; reflexivity).
  assert (Hcover : forall x, In x all_timeframes -> In x max_tf_order \/ x = max_tf_default).
  { assert (H : forallb (fun x => mem max_tf_order x || String.eqb x max_tf_default) all_timeframes = true) by (vm_compute; reflexivity).
    rewrite forallb_forall in H. intros x Hx. specialize (H x Hx). apply orb_true_iff in H. destruct H as [H|H];
      [left; apply mem_In; exact H|right; apply String.eqb_eq; exact H]. }
  assert (Hmin : forall x, In x all_timeframes -> minutes max_tf_default <= minutes x).
  { assert (H : forallb (fun x => minutes max_tf_default <=? minutes x) all_timeframes = true) by (vm_compute; reflexivity).
    rewrite forallb_forall in H. intros x Hx. apply Z.leb_le. apply H. exact Hx. }
  unfold max_timeframe. destruct (find (mem l) max_tf_order) as [t|] eqn:Ef.
  - destruct (find_best _ _ _ Hd Ef) as [A B]. split; [exact A|]. intros x Hx.
    destruct (Hcover x (Hall x Hx)) as [Hin| ->]; [apply B; assumption|]. apply Hmin. apply Hall. exact A.
  - assert (Hdef : forall x, In x l -> x = max_tf_default).
    { intros x Hx. destruct (Hcover x (Hall x Hx)) as [Hin|E]; [|exact E]. exfalso.
      pose proof (find_none _ _ Ef x Hin) as Hn. apply mem_In in Hx. rewrite Hx in Hn. discriminate. }
    destruct l as [|a l]; [congruence|]. split.
    + rewrite <- (Hdef a (or_introl eq_refl)). left. reflexivity.
    + intros x Hx. rewrite (Hdef x Hx). lia.
Qed.

Theorem anchor_strictly_larger : forall k v, In (k, v) anchor_table -> minutes k < minutes v.
Proof.
  assert (H : forallb (fun kv => minutes (fst kv) <? minutes (snd kv)) anchor_table = true) by (vm_compute; reflexivity).
  rewrite forallb_forall in H. intros k v Hin. apply Z.ltb_lt. apply (H (k, v) Hin).
Qed.
