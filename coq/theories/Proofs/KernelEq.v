(* Proofs/KernelEq.v — the regenerated gap normalisation (Gen/backtest.v: fix_jump, from _get_fixed_jumped_candle) equals a fixed
   reference definition, proved by a case analysis that does not depend on how the source arranges its tests (locals, early returns,
   mirrored branches re-generate a differently shaped term with the same value).  Every other proof about fix_jump goes through this
   equation, so a behaviour-preserving rewrite of the function keeps them, and a behaviour-changing one breaks exactly this lemma. *)
From Coq Require Import ZArith QArith Qcanon Lqa List Bool.
From JV Require Import Base.Num Base.QcTac Gen.backtest.
Local Open Scope Qc_scope.
Import QcI.

Notation cndl := (candle QcNum).

(* stretch the candle to the previous close: it opens there, and its low (after a gap up) or high (after a gap down) reaches it *)
Definition fix_jump_ref (p c : cndl) : cndl :=
  if qltb (c_close p) (c_open c) then mkC (c_ts c) (c_close p) (c_close c) (c_high c) (if qltb (c_low c) (c_close p) then c_low c else c_close p) (c_vol c)
  else if qltb (c_open c) (c_close p) then mkC (c_ts c) (c_close p) (c_close c) (if qltb (c_close p) (c_high c) then c_high c else c_close p) (c_low c) (c_vol c)
  else c.

(* split on every comparison that occurs, whatever the arrangement, then decide each leaf *)
Ltac kernel_cases :=
  repeat (match goal with
          | |- context [qltb ?a ?b] => destruct (qltb_spec a b)
          | |- context [qleb ?a ?b] => destruct (qleb_spec a b)
          | |- context [qeqb ?a ?b] => destruct (qeqb_spec a b)
          end; cbn [negb andb orb]).
Ltac kernel_leaf :=
  cbn [c_ts c_open c_close c_high c_low c_vol];
  solve [ reflexivity
        | exfalso; qc
        | f_equal; solve [reflexivity | apply Qc_is_canon; qc] ].

Theorem gen_fix_jump_ref : forall p c : cndl, fix_jump QcNum p c = fix_jump_ref p c.
Proof.
  intros [t1 o1 c1 h1 l1 v1] [t0 o0 c0 h0 l0 v0].
  unfold fix_jump, fix_jump_ref, nmin, nmax. cbv zeta. cbn [leb ltb eqb QcNum T c_ts c_open c_close c_high c_low c_vol].
  kernel_cases; kernel_leaf.
Qed.
