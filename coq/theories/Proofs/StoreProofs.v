(* Proofs/StoreProofs.v — the candle store keeps strictly increasing timestamps; a new timestamp appends,
   a stored timestamp replaces exactly that row, an unknown older timestamp changes nothing. *)
From Coq Require Import ZArith List Bool Lia Sorted.
From JV Require Import Model.CandleStore.
Import ListNotations.
Local Open Scope Z_scope.

Section P.
Context {R : Type}.
Variable ts : R -> Z.
Notation add_candle := (add_candle ts).

(* strictly increasing timestamps *)
Definition inc (arr : list R) : Prop := StronglySorted (fun a b => ts a < ts b) arr.

(* what the property demands of one addition *)
Definition add_spec (arr : list R) (c : R) : list R :=
  if ts c =? 0 then arr
  else if existsb (fun r => ts r =? ts c) arr then map (fun r => if ts r =? ts c then c else r) arr
  else if forallb (fun r => ts r <? ts c) arr then arr ++ [c]
  else arr.

Lemma inc_app_inv a b : inc (a ++ b) -> inc a /\ inc b /\ forall x y, In x a -> In y b -> ts x < ts y.
Proof.
  induction a as [|x a IH]; intros H; cbn [app] in *.
  - repeat split; [constructor|exact H|intros ? ? []].
  - apply StronglySorted_inv in H. destruct H as [Hs Hf]. destruct (IH Hs) as (Ia & Ib & Hab).
    rewrite Forall_forall in Hf. repeat split.
    + constructor; [exact Ia|]. apply Forall_forall. intros y Hy. apply Hf. apply in_or_app. left. exact Hy.
    + exact Ib.
    + intros u v [<-|Hu] Hv; [apply Hf; apply in_or_app; right; exact Hv|apply Hab; assumption].
Qed.
Lemma inc_app a b : inc a -> inc b -> (forall x y, In x a -> In y b -> ts x < ts y) -> inc (a ++ b).
Proof.
  induction a as [|x a IH]; intros Ia Ib H; cbn [app]; [exact Ib|].
  apply StronglySorted_inv in Ia. destruct Ia as [Is If]. rewrite Forall_forall in If.
  constructor.
  - apply IH; [exact Is|exact Ib|]. intros u v Hu Hv. apply H; [right; exact Hu|exact Hv].
  - apply Forall_forall. intros y Hy. apply in_app_or in Hy. destruct Hy as [Hy|Hy]; [apply If; exact Hy|apply H; [left; reflexivity|exact Hy]].
Qed.

(* replacing, in a sorted store, the row that has c's timestamp *)
Lemma replace_rev_spec rv c : (forall x, In x rv -> True) ->
  match replace_from_end_rev ts rv c with
  | Some rv' => existsb (fun r => ts r =? ts c) rv = true /\
                (NoDup (map ts rv) -> rv' = map (fun r => if ts r =? ts c then c else r) rv)
  | None => existsb (fun r => ts r =? ts c) rv = false
  end.
Proof.
  intros _. induction rv as [|x r IH]; cbn [replace_from_end_rev existsb]; [reflexivity|].
  destruct (ts x =? ts c) eqn:E.
  - split; [reflexivity|]. intros Hnd. cbn [map]. rewrite E. f_equal.
    cbn [map] in Hnd. apply NoDup_cons_iff in Hnd. destruct Hnd as [Hni _]. apply Z.eqb_eq in E.
    rewrite <- (map_id r) at 1. apply map_ext_in. intros y Hy. destruct (ts y =? ts c) eqn:Ey; [|reflexivity].
    exfalso. apply Hni. apply Z.eqb_eq in Ey. rewrite E, <- Ey. apply in_map. exact Hy.
  - destruct (replace_from_end_rev ts r c) as [r'|]; cbn [orb].
    + destruct IH as [He Hm]. split; [exact He|]. intros Hnd. cbn [map]. rewrite E. f_equal. apply Hm.
      cbn [map] in Hnd. apply NoDup_cons_iff in Hnd. apply Hnd.
    + exact IH.
Qed.

Lemma inc_nodup arr : inc arr -> NoDup (map ts arr).
Proof.
  induction arr as [|x a IH]; intros H; cbn [map]; [constructor|].
  apply StronglySorted_inv in H. destruct H as [Hs Hf]. rewrite Forall_forall in Hf. constructor; [|apply IH; exact Hs].
  intros Hin. apply in_map_iff in Hin. destruct Hin as (y & Ey & Hy). specialize (Hf y Hy). lia.
Qed.

Lemma existsb_rev {X} (f : X -> bool) l : existsb f (rev l) = existsb f l.
Proof.
  destruct (existsb f l) eqn:E.
  - apply existsb_exists in E. destruct E as (x & Hx & Fx). apply existsb_exists. exists x. split; [apply in_rev in Hx; exact Hx|exact Fx].
  - destruct (existsb f (rev l)) eqn:E2; [|reflexivity]. apply existsb_exists in E2. destruct E2 as (x & Hx & Fx).
    apply in_rev in Hx. assert (existsb f l = true) by (apply existsb_exists; exists x; split; assumption). congruence.
Qed.

Theorem add_candle_spec arr c : inc arr -> add_candle arr c = add_spec arr c.
Proof.
  intros Hi. unfold CandleStore.add_candle, add_spec. destruct (ts c =? 0); [reflexivity|].
  destruct (rev arr) as [|lastc before] eqn:Er.
  - assert (arr = []) by (apply (f_equal (@rev R)) in Er; rewrite rev_involutive in Er; exact Er). subst. reflexivity.
  - assert (Ea : arr = rev before ++ [lastc]) by (apply (f_equal (@rev R)) in Er; rewrite rev_involutive in Er; exact Er).
    rewrite Ea in Hi. destruct (inc_app_inv _ _ Hi) as (Ib & _ & Hbl).
    assert (Hlt : forall x, In x (rev before) -> ts x < ts lastc) by (intros x Hx; apply Hbl; [exact Hx|left; reflexivity]).
    destruct (ts lastc <? ts c) eqn:E1.
    + apply Z.ltb_lt in E1.
      assert (Hex : existsb (fun r => ts r =? ts c) arr = false).
      { destruct (existsb _ arr) eqn:E; [|reflexivity]. apply existsb_exists in E. destruct E as (x & Hx & Fx). apply Z.eqb_eq in Fx.
        rewrite Ea in Hx. apply in_app_or in Hx. destruct Hx as [Hx|[<-|[]]]; [specialize (Hlt x Hx)|]; lia. }
      rewrite Hex.
      assert (Hall : forallb (fun r => ts r <? ts c) arr = true).
      { apply forallb_forall. intros x Hx. apply Z.ltb_lt. rewrite Ea in Hx. apply in_app_or in Hx.
        destruct Hx as [Hx|[<-|[]]]; [specialize (Hlt x Hx)|]; lia. }
      rewrite Hall. reflexivity.
    + apply Z.ltb_ge in E1. destruct (ts c =? ts lastc) eqn:E2.
      * apply Z.eqb_eq in E2.
        assert (Hex : existsb (fun r => ts r =? ts c) arr = true).
        { apply existsb_exists. exists lastc. split; [rewrite Ea; apply in_or_app; right; left; reflexivity|apply Z.eqb_eq; lia]. }
        rewrite Hex. rewrite Ea. rewrite map_app. cbn [rev map]. rewrite E2, Z.eqb_refl. f_equal.
        rewrite <- (map_id (rev before)) at 1. apply map_ext_in. intros y Hy. specialize (Hlt y Hy).
        destruct (ts y =? ts lastc) eqn:Ey; [apply Z.eqb_eq in Ey; lia|reflexivity].
      * apply Z.eqb_neq in E2. unfold replace_older. rewrite Er.
        pose proof (replace_rev_spec (lastc :: before) c (fun _ _ => I)) as Hr.
        destruct (replace_from_end_rev ts (lastc :: before) c) as [rv'|].
        -- destruct Hr as [He Hm]. rewrite <- Er in He. rewrite existsb_rev in He. rewrite He.
           rewrite Hm.
           ++ rewrite <- Er. rewrite <- map_rev. rewrite rev_involutive. reflexivity.
           ++ rewrite <- Er. rewrite map_rev. apply NoDup_rev. apply inc_nodup. rewrite Ea. exact Hi.
        -- rewrite <- Er in Hr. rewrite existsb_rev in Hr. rewrite Hr.
           assert (Hall : forallb (fun r => ts r <? ts c) arr = false).
           { destruct (forallb _ arr) eqn:E; [|reflexivity]. rewrite forallb_forall in E.
             assert (In lastc arr) by (rewrite Ea; apply in_or_app; right; left; reflexivity).
             specialize (E lastc H). apply Z.ltb_lt in E. lia. }
           rewrite Hall. reflexivity.
Qed.

(* the specification keeps the store strictly increasing *)
Theorem add_spec_inc arr c : inc arr -> inc (add_spec arr c).
Proof.
  intros Hi. unfold add_spec. destruct (ts c =? 0); [exact Hi|].
  destruct (existsb (fun r => ts r =? ts c) arr) eqn:Ex.
  - (* same timestamps: the map does not change any timestamp *)
    assert (Hts : map ts (map (fun r => if ts r =? ts c then c else r) arr) = map ts arr).
    { rewrite map_map. apply map_ext. intros r. destruct (ts r =? ts c) eqn:E; [apply Z.eqb_eq in E; lia|reflexivity]. }
    clear Ex. revert Hts. generalize (map (fun r => if ts r =? ts c then c else r) arr) as arr'.
    induction arr as [|x a IH]; intros arr' Hts; destruct arr' as [|y b]; try discriminate; [constructor|].
    cbn [map] in Hts. injection Hts as Hy Hb. apply StronglySorted_inv in Hi. destruct Hi as [Hs Hf].
    constructor; [apply IH; assumption|]. rewrite Forall_forall in *. intros z Hz.
    assert (In (ts z) (map ts a)) by (rewrite <- Hb; apply in_map; exact Hz).
    apply in_map_iff in H. destruct H as (w & Ew & Hw). specialize (Hf w Hw). lia.
  - destruct (forallb (fun r => ts r <? ts c) arr) eqn:Ea; [|exact Hi].
    rewrite forallb_forall in Ea. apply inc_app; [exact Hi|repeat constructor|].
    intros x y Hx [<-|[]]. apply Z.ltb_lt. apply Ea. exact Hx.
Qed.

Theorem add_candle_inc arr c : inc arr -> inc (add_candle arr c).
Proof. intros H. rewrite add_candle_spec by exact H. apply add_spec_inc. exact H. Qed.

(* any sequence of additions, starting from the empty store *)
Theorem store_always_increasing cs : inc (fold_left add_candle cs []).
Proof.
  assert (G : forall arr, inc arr -> inc (fold_left add_candle cs arr)).
  { induction cs as [|c cs IH]; intros arr H; cbn [fold_left]; [exact H|]. apply IH. apply add_candle_inc. exact H. }
  apply G. constructor.
Qed.
End P.

(* ------------------------------------------------------------------ bulk insertion of 1m candles *)
Section Multi.
Context {R : Type}.
Variable ts : R -> Z.
Notation add_multiple := (add_multiple ts).

(* a fresh batch (empty store, or the batch starts after the last stored candle) is appended as it is *)
Theorem add_multiple_append arr batch b0 r :
  batch = b0 :: r -> (arr = [] \/ exists l, arr = l ++ [last arr b0] /\ ts (last arr b0) < ts b0) ->
  add_multiple arr batch = StoreOk (arr ++ batch).
Proof.
  intros -> H. unfold CandleStore.add_multiple.
  destruct (rev (b0 :: r)) as [|bl br] eqn:Eb.
  { apply (f_equal (@length R)) in Eb. rewrite rev_length in Eb. discriminate Eb. }
  destruct H as [->|(l & Ea & Hlt)]; [reflexivity|].
  rewrite Ea at 1. rewrite rev_app_distr. cbn [rev app].
  apply Z.ltb_lt in Hlt. rewrite Hlt. reflexivity.
Qed.

(* the simulator's use: the same minutes again -> the stored tail is overwritten by the batch *)
Theorem add_multiple_full_overlap (keep old batch : list R) b0 bl o0 ol :
  length old = length batch -> batch <> [] ->
  hd b0 batch = b0 -> last batch bl = bl -> hd o0 old = o0 -> last old ol = ol ->
  ts o0 = ts b0 -> ts ol = ts bl -> ts b0 <= ts bl ->
  add_multiple (keep ++ old) batch = StoreOk (keep ++ batch).
Proof.
  intros Hlen Hne Hb0 Hbl Ho0 Hol E0 El Hle. unfold CandleStore.add_multiple.
  destruct batch as [|x bt] eqn:Ebt; [congruence|]. cbn [hd] in Hb0. subst x. rewrite <- Ebt in *.
  assert (Hrb : exists br, rev batch = bl :: br).
  { destruct (exists_last Hne) as (br & y & Ey). rewrite Ey in Hbl |- *. rewrite last_last in Hbl. subst y.
    exists (rev br). rewrite rev_app_distr. reflexivity. }
  destruct Hrb as (br & Hrb). rewrite Hrb.
  assert (Hno : old <> []) by (intros ->; rewrite Ebt in Hlen; discriminate Hlen).
  assert (Hro : exists orr, rev (keep ++ old) = ol :: orr).
  { destruct (exists_last Hno) as (ob & y & Ey). rewrite Ey in Hol |- *. rewrite last_last in Hol. subst y.
    exists (rev ob ++ rev keep). rewrite !rev_app_distr. reflexivity. }
  destruct Hro as (orr & Hro). rewrite Hro.
  assert (Hnl : ts ol <? ts b0 = false) by (apply Z.ltb_ge; lia). rewrite Hnl.
  rewrite app_length. rewrite Hlen.
  replace (length keep + length batch - Nat.min (length batch) (length keep + length batch))%nat with (length keep) by lia.
  rewrite app_nth2 by lia. rewrite Nat.sub_diag.
  assert (Hp : nth 0 old ol = o0) by (destruct old; [congruence|exact Ho0]). rewrite Hp.
  assert (C1 : ts o0 <=? ts b0 = true) by (apply Z.leb_le; lia).
  assert (C2 : ts ol <=? ts bl = true) by (apply Z.leb_le; lia). rewrite C1, C2. cbn [andb].
  replace (ts bl - ts ol) with 0 by lia. cbn [Z.quot]. rewrite Z.sub_0_r, Nat2Z.id.
  assert (Hm : (length batch =? 0)%nat = false) by (apply Nat.eqb_neq; rewrite Ebt; discriminate). rewrite Hm.
  assert (Hm2 : (length keep + length batch <? length batch)%nat = false) by (apply Nat.ltb_ge; lia). rewrite Hm2. cbn [orb].
  replace (length keep + length batch - length batch)%nat with (length keep) by lia.
  rewrite firstn_app, firstn_all, Nat.sub_diag, firstn_O, app_nil_r. rewrite firstn_skipn. reflexivity.
Qed.
End Multi.
