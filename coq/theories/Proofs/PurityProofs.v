(* Proofs/PurityProofs.v — C11: a session's result does not depend on the cells its prologue overwrites (frame property of
   arbitrary bodies), and clearing the memo is what makes get_config read the session's own configuration. *)
From Coq Require Import List Bool Arith Lia.
From JV Require Import Model.Purity.
Import ListNotations.

Section P.
Variable V R : Type.
Notation prog := (prog V R).
Notation state := (state V).

Lemma cell_eqb_eq a b : cell_eqb a b = true <-> a = b.
Proof. destruct a, b; cbn; try (split; [discriminate|discriminate]); rewrite Nat.eqb_eq; split; congruence. Qed.
Lemma in_written c w : existsb (cell_eqb c) w = true <-> In c w.
Proof. rewrite existsb_exists. split; [intros (x & Hx & E); apply cell_eqb_eq in E; subst; exact Hx|intros H; exists c; split; [exact H|apply cell_eqb_eq; reflexivity]]. Qed.

(* two runs of the same program from states that agree on what was already written and on what the first run reads before
   writing behave identically *)
Lemma frame (p : prog) : forall (s1 s2 : state) w,
  (forall c, In c w -> s1 c = s2 c) ->
  (forall c, In c (snd (fst (exec p s1 w))) -> s1 c = s2 c) ->
  fst (fst (fst (exec p s1 w))) = fst (fst (fst (exec p s2 w))) /\
  snd (fst (exec p s1 w)) = snd (fst (exec p s2 w)) /\ snd (exec p s1 w) = snd (exec p s2 w) /\
  (forall c, In c (snd (exec p s1 w)) -> snd (fst (fst (exec p s1 w))) c = snd (fst (fst (exec p s2 w))) c).
Proof.
  induction p as [r|c k IH|c v k IH]; intros s1 s2 w Hw Hr.
  - cbn in *. repeat split; auto.
  - cbn [exec] in Hr |- *.
    destruct (exec (k (s1 c)) s1 w) as [[[r1 t1] rb1] w1] eqn:E1. cbn [fst snd] in Hr.
    assert (Ec : s1 c = s2 c).
    { destruct (existsb (cell_eqb c) w) eqn:E; [apply Hw; apply in_written; exact E|apply Hr; left; reflexivity]. }
    rewrite <- Ec.
    pose proof (IH (s1 c) s1 s2 w Hw) as IH'. rewrite E1 in IH'. cbn [fst snd] in IH'.
    destruct (exec (k (s1 c)) s2 w) as [[[r2 t2] rb2] w2] eqn:E2. cbn [fst snd] in *.
    destruct IH' as (A & B & Cw & D).
    { intros c0 H0. apply Hr. destruct (existsb (cell_eqb c) w); [exact H0|right; exact H0]. }
    subst. repeat split; auto.
  - cbn [exec] in *. apply IH.
    + intros c0 [<-|H0]; unfold upd; [rewrite (proj2 (cell_eqb_eq c c) eq_refl); reflexivity|].
      destruct (cell_eqb c0 c); [reflexivity|apply Hw; exact H0].
    + intros c0 H0. unfold upd. destruct (cell_eqb c0 c); [reflexivity|apply Hr; exact H0].
Qed.

Lemma exec_seq_writes ws : forall (k : prog) (s : state) w,
  exec (seq_writes ws k) s w = exec k (fold_left (fun st cv => upd st (fst cv) (snd cv)) ws s) (rev (map fst ws) ++ w).
Proof.
  induction ws as [|[c v] r IH]; intros k s w; cbn [seq_writes fold_left map rev app]; [reflexivity|].
  cbn [exec]. rewrite IH. cbn [fst snd]. rewrite <- app_assoc. reflexivity.
Qed.

Lemma fold_upd_agree ws : forall (s1 s2 : state) c,
  (In c (map fst ws) \/ s1 c = s2 c) ->
  fold_left (fun st cv => upd st (fst cv) (snd cv)) ws s1 c = fold_left (fun st cv => upd st (fst cv) (snd cv)) ws s2 c.
Proof.
  induction ws as [|[c0 v] r IH]; intros s1 s2 c H; cbn [fold_left map fst snd] in *; [destruct H as [[]|H]; exact H|].
  apply IH. destruct H as [[<-|H]|H].
  - right. unfold upd. rewrite (proj2 (cell_eqb_eq c0 c0) eq_refl). reflexivity.
  - left. exact H.
  - right. unfold upd. destruct (cell_eqb c c0); [reflexivity|exact H].
Qed.

Definition prologue_cells (keys : list nat) (conf fresh : list (nat * option V)) : list cell :=
  map Memo keys ++ map (fun kv => Cfg (fst kv)) conf ++ map (fun kv => Aux (fst kv)) fresh.

(* C11: whatever ran before (any state of the process that differs only in cells the prologue overwrites: the memo of the keys,
   the configuration entries of the session, the store), the session returns the same result and reads the same cells *)
Theorem session_pure keys conf fresh (body : prog) (s1 s2 : state) :
  (forall c, In c (prologue_cells keys conf fresh) \/ s1 c = s2 c) ->
  result (session keys conf fresh body) s1 = result (session keys conf fresh body) s2 /\
  read_before_write (session keys conf fresh body) s1 = read_before_write (session keys conf fresh body) s2.
Proof.
  intros H. unfold result, read_before_write, session. rewrite !exec_seq_writes.
  set (A := map (fun k => (Memo k, @None V)) keys). set (B := map (fun kv : nat * option V => (Cfg (fst kv), snd kv)) conf).
  set (Cc := map (fun kv : nat * option V => (Aux (fst kv), snd kv)) fresh).
  set (F := fun ws (s : state) => fold_left (fun st (cv : cell * option V) => upd st (fst cv) (snd cv)) ws s).
  assert (All : forall c, F Cc (F B (F A s1)) c = F Cc (F B (F A s2)) c).
  { intros c. unfold F. apply fold_upd_agree. destruct (H c) as [I|E].
    - unfold prologue_cells in I. apply in_app_or in I. destruct I as [I|I]; [|apply in_app_or in I; destruct I as [I|I]].
      + right. apply fold_upd_agree. right. apply fold_upd_agree. left. unfold A. rewrite map_map. cbn [fst]. exact I.
      + right. apply fold_upd_agree. left. unfold B. rewrite map_map. cbn [fst]. exact I.
      + left. unfold Cc. rewrite map_map. cbn [fst]. exact I.
    - right. apply fold_upd_agree. right. apply fold_upd_agree. right. exact E. }
  fold (F A s1) (F A s2). fold (F B (F A s1)) (F B (F A s2)). fold (F Cc (F B (F A s1))) (F Cc (F B (F A s2))).
  match goal with |- context [exec body _ ?w] => destruct (frame body (F Cc (F B (F A s1))) (F Cc (F B (F A s2))) w) as (R1 & R2 & _) end.
  - intros c _. apply All.
  - intros c _. apply All.
  - split; [exact R1|exact R2].
Qed.

(* what goes wrong without the clear (the defect repaired by e56f46ed, and what a partial clear re-introduces): a memo entry left
   by an earlier session wins over the session's own configuration *)
Theorem stale_memo_without_clear (old new : V) (ret : option V -> R) :
  let body := get_config 0 (fun v => Ret (ret v)) in
  let dirty : state := fun c => match c with Memo 0 => Some old | _ => None end in
  result (session [] [(0, Some new)] [] body) dirty = ret (Some old) /\
  result (session [0] [(0, Some new)] [] body) dirty = ret (Some new).
Proof. cbv zeta. split; reflexivity. Qed.

End P.
