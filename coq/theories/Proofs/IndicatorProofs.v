(* Proofs/IndicatorProofs.v — C13/C14: every Mealy machine is causal and length-preserving, causality is closed under composition
   and pointwise combination, hence every modelled indicator is causal; the sequential / single-value shape of an indicator. *)
From Coq Require Import ZArith QArith Qcanon List Bool Arith Lia.
From JV Require Import Base.Num Model.CandleView Model.Indicators.
Import ListNotations.

Definition causal {A B} (F : list A -> list B) : Prop := forall xs k, F (firstn k xs) = firstn k (F xs).
Definition length_preserving {A B} (F : list A -> list B) : Prop := forall xs, length (F xs) = length xs.

Section Generic.
Context {X Y S : Type}.
Variable step : S -> X -> S * Y.

Lemma mealy_length : forall xs s, length (mealy step s xs) = length xs.
Proof. induction xs as [|x r IH]; intros s; cbn [mealy]; [reflexivity|]. destruct (step s x) as [s' y]. cbn [length]. rewrite IH. reflexivity. Qed.

Lemma mealy_firstn : forall xs s k, mealy step s (firstn k xs) = firstn k (mealy step s xs).
Proof.
  induction xs as [|x r IH]; intros s k; [destruct k; reflexivity|]. destruct k as [|k]; [reflexivity|].
  cbn [firstn mealy]. destruct (step s x) as [s' y]. cbn [firstn]. rewrite IH. reflexivity.
Qed.
End Generic.

Theorem mealy_causal {X Y S} (step : S -> X -> S * Y) s : causal (mealy step s).
Proof. intros xs k. apply mealy_firstn. Qed.
Theorem mealy_length_preserving {X Y S} (step : S -> X -> S * Y) s : length_preserving (mealy step s).
Proof. intros xs. apply mealy_length. Qed.

Lemma causal_compose {A B C} (F : list A -> list B) (G : list B -> list C) : causal F -> causal G -> causal (fun xs => G (F xs)).
Proof. intros HF HG xs k. rewrite HF, HG. reflexivity. Qed.
Lemma lp_compose {A B C} (F : list A -> list B) (G : list B -> list C) : length_preserving F -> length_preserving G -> length_preserving (fun xs => G (F xs)).
Proof. intros HF HG xs. rewrite HG, HF. reflexivity. Qed.
Lemma causal_map {A B} (f : A -> B) : causal (map f).
Proof. intros xs k. symmetry. apply firstn_map. Qed.
Lemma lp_map {A B} (f : A -> B) : length_preserving (map f).
Proof. intros xs. apply map_length. Qed.
Lemma combine_firstn' {A B} (l : list A) : forall (m : list B) k, combine (firstn k l) (firstn k m) = firstn k (combine l m).
Proof. induction l as [|a l IH]; intros m k; [destruct k; reflexivity|]. destruct k as [|k]; [reflexivity|]. destruct m as [|b m]; [reflexivity|]. cbn [firstn combine]. rewrite IH. reflexivity. Qed.
Lemma causal_map2 {A B C D} (f : B -> C -> D) (F : list A -> list B) (G : list A -> list C) : causal F -> causal G -> causal (fun xs => map2 f (F xs) (G xs)).
Proof. intros HF HG xs k. unfold map2. rewrite HF, HG, combine_firstn', <- firstn_map. reflexivity. Qed.
Lemma lp_map2 {A B C D} (f : B -> C -> D) (F : list A -> list B) (G : list A -> list C) : length_preserving F -> length_preserving G -> length_preserving (fun xs => map2 f (F xs) (G xs)).
Proof. intros HF HG xs. unfold map2. rewrite map_length, combine_length, HF, HG. lia. Qed.

Lemma causal_combine {A B C} (F : list A -> list B) (G : list A -> list C) : causal F -> causal G -> causal (fun xs => combine (F xs) (G xs)).
Proof. intros HF HG xs k. rewrite HF, HG, combine_firstn'. reflexivity. Qed.
Lemma lp_combine {A B C} (F : list A -> list B) (G : list A -> list C) : length_preserving F -> length_preserving G -> length_preserving (fun xs => combine (F xs) (G xs)).
Proof. intros HF HG xs. rewrite combine_length, HF, HG. lia. Qed.
Lemma causal_id {A} : causal (fun xs : list A => xs).
Proof. intros xs k. reflexivity. Qed.
Lemma lp_id {A} : length_preserving (fun xs : list A => xs).
Proof. intros xs. reflexivity. Qed.

(* ------------------------------------------------------------------ every modelled indicator *)
Ltac ind_causal := repeat first [ apply mealy_causal | apply causal_id | apply causal_map | apply causal_combine | apply causal_map2 | apply (causal_compose _ _) ].
Ltac ind_lp := repeat first [ apply mealy_length_preserving | apply lp_id | apply lp_map | apply lp_combine | apply lp_map2 | apply (lp_compose _ _) ].

Theorem core_indicators_causal (p f s g : nat) :
  causal (sma p) /\ causal (ema p) /\ causal (wma p) /\ causal (trima p) /\ causal (roc p) /\ causal (mom p) /\ causal (var p) /\
  causal (wilders p) /\ causal (ema0 p) /\ causal (dema p) /\ causal (tema p) /\
  causal (macd_line f s) /\ causal (macd_signal f s g) /\ causal (macd_hist f s g) /\
  causal (rsi p) /\ causal (atr p) /\ causal obv /\ causal true_range /\
  causal (donchian_upper p) /\ causal (donchian_middle p) /\ causal (donchian_lower p) /\ causal (willr p) /\ causal (stoch_k p) /\
  causal typprice /\ causal medprice.
Proof.
  repeat split; unfold sma, ema, wma, trima, roc, mom, var, wilders, ema0, dema, tema, macd_hist, macd_signal, macd_line, rsi, atr, obv, true_range,
    donchian_upper, donchian_middle, donchian_lower, willr, stoch_k, typprice, medprice, windowed, seeded, from_first; ind_causal.
Qed.

Theorem core_indicators_one_entry_per_candle (p f s g : nat) :
  length_preserving (sma p) /\ length_preserving (ema p) /\ length_preserving (wma p) /\ length_preserving (trima p) /\ length_preserving (roc p) /\
  length_preserving (mom p) /\ length_preserving (var p) /\ length_preserving (wilders p) /\ length_preserving (ema0 p) /\ length_preserving (dema p) /\
  length_preserving (tema p) /\ length_preserving (macd_line f s) /\ length_preserving (macd_signal f s g) /\ length_preserving (macd_hist f s g) /\
  length_preserving (rsi p) /\ length_preserving (atr p) /\ length_preserving obv /\
  length_preserving (donchian_upper p) /\ length_preserving (donchian_middle p) /\ length_preserving (donchian_lower p) /\ length_preserving (willr p) /\
  length_preserving (stoch_k p) /\ length_preserving typprice /\ length_preserving medprice.
Proof.
  repeat split; unfold sma, ema, wma, trima, roc, mom, var, wilders, ema0, dema, tema, macd_hist, macd_signal, macd_line, rsi, atr, obv, true_range,
    donchian_upper, donchian_middle, donchian_lower, willr, stoch_k, typprice, medprice, windowed, seeded, from_first; ind_lp.
Qed.

(* the money flow index and the Keltner channel (EMA of the close +- multiplier * ATR), added after the first 25 *)
Theorem mfi_keltner_causal (p : nat) (m : Qc) :
  causal (mfi p) /\ causal (keltner_upper p m) /\ causal (keltner_middle p) /\ causal (keltner_lower p m).
Proof.
  repeat split; unfold mfi; [ind_causal| | |].
  - apply (causal_map2 _ (fun ks => ema p (map k_c ks)) (atr p)); unfold ema, atr, seeded, true_range; ind_causal.
  - unfold keltner_middle, ema, seeded. ind_causal.
  - apply (causal_map2 _ (fun ks => ema p (map k_c ks)) (atr p)); unfold ema, atr, seeded, true_range; ind_causal.
Qed.
Theorem mfi_keltner_one_entry_per_candle (p : nat) (m : Qc) :
  length_preserving (mfi p) /\ length_preserving (keltner_upper p m) /\ length_preserving (keltner_middle p) /\ length_preserving (keltner_lower p m).
Proof.
  repeat split; unfold mfi; [ind_lp| | |].
  - apply (lp_map2 _ (fun ks => ema p (map k_c ks)) (atr p)); unfold ema, atr, seeded, true_range; ind_lp.
  - unfold keltner_middle, ema, seeded. ind_lp.
  - apply (lp_map2 _ (fun ks => ema p (map k_c ks)) (atr p)); unfold ema, atr, seeded, true_range; ind_lp.
Qed.

(* ------------------------------------------------------------------ C14: the shape `slice; res = F(...); res if sequential else res[-1]` *)
Section Shape.
Context {A Y : Type}.
Variable warmup : nat.
Variable F : list A -> list Y.          (* ANY computation of the series *)

Definition last_opt (l : list Y) : option Y := match rev l with y :: _ => Some y | [] => None end.

(* the sequential result is F on the whole input: one entry per candle as soon as F is length-preserving *)
Theorem sequential_is_whole_series cs : indicator warmup F true cs = Sequential (F cs).
Proof. reflexivity. Qed.
Theorem sequential_one_entry_per_candle cs : length_preserving F ->
  match indicator warmup F true cs with Sequential ys => length ys = length cs | Single _ => False end.
Proof. intros H. cbn. apply H. Qed.

(* on an input that fits in the warm-up window the single value is the last entry of the sequential result *)
Theorem single_is_last_of_sequential cs : (length cs <= warmup)%nat ->
  indicator warmup F false cs = Single (last_opt (F cs)).
Proof.
  intros H. unfold indicator, slice_candles. cbn [negb andb]. destruct (Nat.ltb_spec warmup (length cs)); [lia|reflexivity].
Qed.

(* on a longer input the single value is the last entry of the sequential result on the trailing warm-up window *)
Theorem single_on_long_input_is_sequential_on_trailing_window cs : (warmup < length cs)%nat ->
  indicator warmup F false cs = Single (last_opt (F (lastn warmup cs))) /\
  indicator warmup F true (lastn warmup cs) = Sequential (F (lastn warmup cs)).
Proof.
  intros H. unfold indicator, slice_candles. cbn [negb andb]. destruct (Nat.ltb_spec warmup (length cs)); [split; reflexivity|lia].
Qed.
End Shape.
