(* Proofs/FeedProofs.v — C07: the normal simulator's feeding of the candle stores (Model/CandleView.step_minute: the 1m candle, the
   partial candles published at the fills of the minute, the real candle again, completion of the window) keeps the store
   invariant VInv, for every aligned series and any partial candles; hence what a strategy reads is the aggregation at every
   minute. *)
From Coq Require Import ZArith QArith Qcanon List Bool Lia Arith Sorted.
From JV Require Import Base.Num Model.CandleStore Model.CandleView Proofs.StoreProofs Proofs.ViewProofs.
Import ListNotations.
Local Open Scope nat_scope.

(* ------------------------------------------------------------------ add_candle in the two situations the feed creates *)
Lemma addc_empty c : k_ts c <> 0%Z -> addc [] c = [c].
Proof. intros H. unfold addc, add_candle. destruct (Z.eqb_spec (k_ts c) 0); [contradiction|reflexivity]. Qed.
Lemma addc_append a l c : k_ts c <> 0%Z -> (k_ts l < k_ts c)%Z -> addc (a ++ [l]) c = a ++ [l; c].
Proof.
  intros H L. unfold addc, add_candle. destruct (Z.eqb_spec (k_ts c) 0); [contradiction|]. rewrite rev_app_distr. cbn [rev app].
  destruct (Z.ltb_spec (k_ts l) (k_ts c)); [|lia]. rewrite <- app_assoc. reflexivity.
Qed.
Lemma addc_replace a l c : k_ts c <> 0%Z -> k_ts c = k_ts l -> addc (a ++ [l]) c = a ++ [c].
Proof.
  intros H E. unfold addc, add_candle. destruct (Z.eqb_spec (k_ts c) 0); [contradiction|]. rewrite rev_app_distr. cbn [rev app].
  destruct (Z.ltb_spec (k_ts l) (k_ts c)); [lia|]. destruct (Z.eqb_spec (k_ts c) (k_ts l)); [|contradiction]. cbn [rev]. rewrite rev_involutive. reflexivity.
Qed.

Lemma fold_left_ext_in {A B} (f g : A -> B -> A) (l : list B) : forall a, (forall x a', In x l -> f a' x = g a' x) -> fold_left f l a = fold_left g l a.
Proof. induction l as [|x r IH]; intros a H; [reflexivity|]. cbn [fold_left]. rewrite (H x a) by (left; reflexivity). apply IH. intros y a' Hy. apply H. right. exact Hy. Qed.

Lemma firstn_S_nth' {A} (d : A) (l : list A) : forall m, m < length l -> firstn (S m) l = firstn m l ++ [nth m l d].
Proof.
  induction l as [|x l IH]; intros m H; [cbn in H; lia|]. destruct m as [|m]; [reflexivity|].
  cbn [firstn nth app]. f_equal. apply IH. cbn in H. lia.
Qed.

(* ------------------------------------------------------------------ aligned series *)
Section Feed.
Variable n : nat.
Hypothesis npos : 0 < n.
Variable t0 : Z.
Hypothesis t0pos : (0 < t0)%Z.
Hypothesis t0aligned : (Z.of_nat n * 60000 | t0)%Z.
Variable cs : list kc.
Hypothesis aligned : forall i, i < length cs -> k_ts (nth i cs dflt) = (t0 + Z.of_nat i * 60000)%Z.

Definition tsi (i : nat) : Z := (t0 + Z.of_nat i * 60000)%Z.
Lemma tsi_nonzero i : tsi i <> 0%Z. Proof. unfold tsi. lia. Qed.

(* the number of 1m candles of the running window that _update_all_routes_a_partial_candle asks for *)
Lemma needed_is m : Z.to_nat (Z.quot (Z.rem (tsi m) (Z.of_nat n * 60000)) 60000 + 1) = m mod n + 1.
Proof.
  destruct t0aligned as [q Hq]. unfold tsi.
  assert (Hn : (0 < Z.of_nat n)%Z) by lia.
  rewrite Z.rem_mod_nonneg by nia. 
  assert (E : ((t0 + Z.of_nat m * 60000) mod (Z.of_nat n * 60000) = Z.of_nat (m mod n) * 60000)%Z).
  { symmetry. apply (Z.mod_unique_pos _ _ (q + Z.of_nat (m / n))).
    - split; [lia|]. assert (m mod n < n) by (apply Nat.mod_upper_bound; lia). nia.
    - rewrite Hq. pose proof (Nat.div_mod m n ltac:(lia)) as D. apply (f_equal Z.of_nat) in D. rewrite Nat2Z.inj_add, Nat2Z.inj_mul in D. nia. }
  rewrite E. rewrite Z.quot_div_nonneg by lia. rewrite Z.div_mul by lia. lia.
Qed.


Lemma nth_firstn_lt {A} (d : A) (l : list A) : forall m i, i < m -> nth i (firstn m l) d = nth i l d.
Proof.
  induction l as [|x l IH]; intros m i H; [destruct m, i; reflexivity|]. destruct m as [|m]; [lia|]. destruct i as [|i]; [reflexivity|].
  cbn [firstn nth]. apply IH. lia.
Qed.

Lemma win_firstn k m (l : list kc) : (k + 1) * n <= m -> win n k (firstn m l) = win n k l.
Proof.
  intros H. unfold win. rewrite skipn_firstn_comm, firstn_firstn. f_equal. lia.
Qed.

Lemma len_firstn m : m <= length cs -> length (firstn m cs) = m.
Proof. intros H. rewrite firstn_length. lia. Qed.

Lemma complete_same m : S m <= length cs -> (S m) mod n <> 0 -> complete n (firstn (S m) cs) = complete n (firstn m cs).
Proof.
  intros Hm Hmod. unfold complete. rewrite !len_firstn by lia.
  assert (E : S m / n = m / n).
  { pose proof (Nat.div_mod (S m) n ltac:(lia)) as D1. pose proof (Nat.div_mod m n ltac:(lia)) as D2.
    pose proof (Nat.mod_upper_bound (S m) n ltac:(lia)). pose proof (Nat.mod_upper_bound m n ltac:(lia)). nia. }
  rewrite E. apply map_ext_in. intros k Hk. apply in_seq in Hk. f_equal.
  assert (B : (k + 1) * n <= m) by (pose proof (Nat.div_mod m n ltac:(lia)); nia).
  rewrite !win_firstn by lia. reflexivity.
Qed.

Lemma complete_grows m : S m <= length cs -> (S m) mod n = 0 ->
  complete n (firstn (S m) cs) = complete n (firstn m cs) ++ [aggd (win n (m / n) cs)] /\ S m = (m / n + 1) * n.
Proof.
  intros Hm Hmod. unfold complete. rewrite !len_firstn by lia.
  pose proof (Nat.div_mod (S m) n ltac:(lia)) as D1. pose proof (Nat.div_mod m n ltac:(lia)) as D2.
  pose proof (Nat.mod_upper_bound m n ltac:(lia)) as U2.
  assert (E : S m / n = m / n + 1) by nia.
  assert (F : S m = (m / n + 1) * n) by nia.
  split; [|exact F]. rewrite E, seq_app, map_app. cbn [seq map Nat.add]. f_equal.
  - apply map_ext_in. intros k Hk. apply in_seq in Hk. f_equal. rewrite !win_firstn by nia. reflexivity.
  - f_equal. f_equal. apply win_firstn. lia.
Qed.

Lemma agg_win_ts k : k * n < length cs -> k_ts (aggd (win n k cs)) = tsi (k * n).
Proof.
  intros H. rewrite aggd_ts by (apply win_nonempty; assumption). rewrite win_hd by assumption. apply aligned. exact H.
Qed.

(* the last stored complete candle is older than the running window *)
Lemma complete_last m : m <= length cs -> complete n (firstn m cs) = [] \/
  exists C l, complete n (firstn m cs) = C ++ [l] /\ (k_ts l < tsi (m - m mod n))%Z.
Proof.
  intros Hm. unfold complete. rewrite len_firstn by exact Hm. destruct (m / n) as [|W] eqn:EW; [left; reflexivity|right].
  rewrite seq_S, map_app. cbn [map Nat.add]. eexists. eexists. split; [reflexivity|].
  pose proof (Nat.div_mod m n ltac:(lia)) as D. pose proof (Nat.mod_upper_bound m n ltac:(lia)) as U.
  rewrite win_firstn by nia. rewrite agg_win_ts by nia. unfold tsi. nia.
Qed.

(* the stored higher-timeframe candles while minute m is being processed: the complete windows of the first m minutes, possibly
   followed by one candle of the running window *)
Definition P (m : nat) (long : list kc) : Prop :=
  exists stale, long = complete n (firstn m cs) ++ stale /\ (stale = [] \/ exists x, stale = [x] /\ k_ts x = tsi (m - m mod n)).

Lemma addc_window m long g : m <= length cs -> P m long -> k_ts g = tsi (m - m mod n) -> addc long g = complete n (firstn m cs) ++ [g].
Proof.
  intros Hm (stale & -> & Hst) Hg. assert (Ng : k_ts g <> 0%Z) by (rewrite Hg; apply tsi_nonzero).
  destruct Hst as [->|(x & -> & Hx)].
  - rewrite app_nil_r. destruct (complete_last m Hm) as [E|(C & l & E & L)].
    + rewrite E. apply addc_empty. exact Ng.
    + rewrite E. rewrite addc_append by (try exact Ng; lia). rewrite <- app_assoc. reflexivity.
  - apply addc_replace; [exact Ng|lia].
Qed.

Lemma hd_skipn_nth (l : list kc) i : i < length l -> hd dflt (skipn i l) = nth i l dflt.
Proof.
  revert i. induction l as [|x l IH]; intros i H; [cbn in H; lia|]. destruct i as [|i]; [reflexivity|]. cbn [skipn nth]. apply IH. cbn in H. lia.
Qed.

Lemma publish_step m y p long : m < length cs -> k_ts y = tsi m -> k_ts p = tsi m -> P m long ->
  exists g, publish_partial n p (firstn m cs ++ [y]) long = (firstn m cs ++ [p], complete n (firstn m cs) ++ [g]) /\ k_ts g = tsi (m - m mod n).
Proof.
  intros Hm Hy Hp HP. unfold publish_partial.
  assert (Np : k_ts p <> 0%Z) by (rewrite Hp; apply tsi_nonzero).
  rewrite (addc_replace (firstn m cs) y p Np) by lia. rewrite Hp, needed_is.
  rewrite app_length, len_firstn by lia. cbn [length].
  pose proof (Nat.mod_upper_bound m n ltac:(lia)) as U. assert (Hle : m mod n <= m) by (apply Nat.mod_le; lia).
  replace (m + 1 - (m mod n + 1)) with (m - m mod n) by lia.
  set (tail := skipn (m - m mod n) (firstn m cs ++ [p])).
  assert (Ht : tail <> []).
  { unfold tail. intros E. apply (f_equal (@length kc)) in E. rewrite skipn_length, app_length, len_firstn in E by lia. cbn in E. lia. }
  rewrite (agg_some tail Ht). exists (aggd tail).
  assert (Hg : k_ts (aggd tail) = tsi (m - m mod n)).
  { rewrite aggd_ts by exact Ht. unfold tail. rewrite hd_skipn_nth by (rewrite app_length, len_firstn by lia; cbn; lia).
    destruct (Nat.eq_dec (m mod n) 0) as [Z|Z].
    - rewrite Z, Nat.sub_0_r. rewrite app_nth2 by (rewrite len_firstn by lia; lia). rewrite len_firstn by lia. rewrite Nat.sub_diag. cbn [nth]. exact Hp.
    - rewrite app_nth1 by (rewrite len_firstn by lia; lia). rewrite nth_firstn_lt by lia. apply aligned. lia. }
  split; [|exact Hg]. f_equal. apply addc_window; [lia|exact HP|exact Hg].
Qed.

Lemma P_of_published m g : k_ts g = tsi (m - m mod n) -> P m (complete n (firstn m cs) ++ [g]).
Proof. intros H. exists [g]. split; [reflexivity|right; exists g; split; [reflexivity|exact H]]. Qed.

Lemma publish_fold m parts : m < length cs -> (forall p, In p parts -> k_ts p = tsi m) ->
  forall y long, k_ts y = tsi m -> P m long ->
  exists y' long', fold_left (fun s p => publish_partial n p (fst s) (snd s)) parts (firstn m cs ++ [y], long) = (firstn m cs ++ [y'], long') /\
                   k_ts y' = tsi m /\ P m long'.
Proof.
  intros Hm. induction parts as [|p r IH]; intros Hp y long Hy HP; cbn [fold_left].
  - exists y, long. repeat split; assumption.
  - destruct (publish_step m y p long Hm Hy (Hp p (or_introl eq_refl)) HP) as (g & E & Hg). cbn [fst snd]. rewrite E.
    apply IH; [intros q Hq; apply Hp; right; exact Hq|apply Hp; left; reflexivity|apply P_of_published; exact Hg].
Qed.

Lemma VInv_to_P m long : m <= length cs -> VInv n (firstn m cs) long -> P m long.
Proof.
  intros Hm (stale & E & Hst). exists stale. split; [exact E|]. destruct Hst as [->|(Hmod & x & -> & Hx)]; [left; reflexivity|right].
  exists x. split; [reflexivity|]. rewrite len_firstn in * by exact Hm. rewrite Hx.
  pose proof (Nat.mod_upper_bound m n ltac:(lia)) as U. assert (Hle : m mod n <= m) by (apply Nat.mod_le; lia).
  rewrite nth_firstn_lt by lia. apply aligned. lia.
Qed.

(* one minute of the normal simulator keeps the invariant *)
Theorem step_minute_keeps_invariant m parts long : m < length cs -> (forall p, In p parts -> k_ts p = tsi m) ->
  VInv n (firstn m cs) long ->
  exists long', step_minute n cs m parts (firstn m cs, long) = (firstn (S m) cs, long') /\ VInv n (firstn (S m) cs) long'.
Proof.
  intros Hm Hparts HV. unfold step_minute.
  assert (Hc : nth_error cs m = Some (nth m cs dflt)) by (apply nth_error_nth'; exact Hm). rewrite Hc.
  set (c := nth m cs dflt). assert (Tc : k_ts c = tsi m) by (apply aligned; exact Hm). assert (Nc : k_ts c <> 0%Z) by (rewrite Tc; apply tsi_nonzero).
  (* the 1m candle arrives *)
  assert (S1 : addc (firstn m cs) c = firstn m cs ++ [c]).
  { destruct m as [|m']; [cbn [firstn]; apply addc_empty; exact Nc|].
    rewrite (firstn_S_nth' dflt cs m') by lia. rewrite addc_append; [rewrite <- app_assoc; reflexivity|exact Nc|].
    rewrite Tc, aligned by lia. unfold tsi. lia. }
  rewrite S1.
  destruct (publish_fold m parts Hm Hparts c long Tc (VInv_to_P m long ltac:(lia) HV)) as (y' & long2 & E & Hy' & HP2).
  rewrite E. 
  assert (S3 : addc (firstn m cs ++ [y']) c = firstn (S m) cs).
  { rewrite addc_replace by (try exact Nc; lia). symmetry. apply firstn_S_nth'. exact Hm. }
  rewrite S3. eexists. split; [reflexivity|].
  unfold complete_tf. pose proof (Nat.mod_upper_bound m n ltac:(lia)) as U. assert (Hle : m mod n <= m) by (apply Nat.mod_le; lia).
  pose proof (Nat.div_mod m n ltac:(lia)) as Dm.
  destruct (Nat.eqb_spec ((m + 1) mod n) 0) as [Z|Z]; rewrite Nat.add_1_r in Z.
  - destruct (complete_grows m ltac:(lia) Z) as [Cg F].
    assert (Ew : firstn n (skipn (m + 1 - n) cs) = win n (m / n) cs) by (unfold win; f_equal; f_equal; nia).
    rewrite Ew. assert (Hw : win n (m / n) cs <> []) by (apply win_nonempty; nia). rewrite (agg_some _ Hw).
    assert (Tg : k_ts (aggd (win n (m / n) cs)) = tsi (m - m mod n)) by (rewrite agg_win_ts by nia; f_equal; nia).
    rewrite (addc_window m long2 _ ltac:(lia) HP2 Tg). rewrite <- Cg. exists []. split; [rewrite app_nil_r; reflexivity|left; reflexivity].
  - destruct HP2 as (stale & -> & Hst). rewrite <- (complete_same m ltac:(lia) Z). exists stale. split; [reflexivity|].
    destruct Hst as [->|(x & -> & Hx)]; [left; reflexivity|right]. rewrite len_firstn by lia. split; [exact Z|]. exists x. split; [reflexivity|].
    pose proof (Nat.div_mod (S m) n ltac:(lia)) as Ds. pose proof (Nat.mod_upper_bound (S m) n ltac:(lia)) as Us.
    assert (Ei : S m - S m mod n = m - m mod n).
    { assert (S m / n = m / n) by nia. nia. }
    rewrite Ei, Hx. rewrite nth_firstn_lt by lia. symmetry. apply aligned. lia.
Qed.

(* the whole feed, minute by minute, from empty stores: parts i = the partial candles published at the fills of minute i *)
Definition feed (parts : nat -> list kc) (m : nat) : list kc * list kc :=
  fold_left (fun st i => step_minute n cs i (parts i) st) (seq 0 m) ([], []).

Theorem feed_keeps_invariant parts m : m <= length cs -> (forall i p, In p (parts i) -> k_ts p = tsi i) ->
  exists long, feed parts m = (firstn m cs, long) /\ VInv n (firstn m cs) long.
Proof.
  intros Hm Hp. induction m as [|m IH].
  - exists []. split; [reflexivity|]. exists []. split; [|left; reflexivity]. unfold complete. cbn [firstn length]. rewrite Nat.div_0_l by lia. reflexivity.
  - destruct (IH ltac:(lia)) as (long & E & HV). unfold feed in *. rewrite seq_S, fold_left_app. cbn [fold_left Nat.add]. rewrite E.
    destruct (step_minute_keeps_invariant m (parts m) long ltac:(lia) (Hp m) HV) as (long' & E' & HV'). exists long'. split; assumption.
Qed.

Lemma aligned_inc_gen (l : list kc) : forall a, (forall i, i < length l -> k_ts (nth i l dflt) = (a + Z.of_nat i * 60000)%Z) -> inc k_ts l.
Proof.
  induction l as [|x l IH]; intros a H; [constructor|]. constructor.
  - apply (IH (a + 60000)%Z). intros i Hi. specialize (H (S i) ltac:(cbn; lia)). cbn [nth] in H. rewrite H. lia.
  - apply Forall_forall. intros y Hy. destruct (In_nth l y dflt Hy) as (j & Hj & <-).
    pose proof (H 0 ltac:(cbn; lia)) as H0. pose proof (H (S j) ltac:(cbn; lia)) as H1. cbn [nth] in H0, H1. lia.
Qed.

(* C07 for the normal simulator: after any number of minutes and whatever was filled when, a strategy that reads the timeframe gets
   exactly one candle per started window, each the aggregation of the stored 1m candles of its window *)
Theorem feed_view_is_aggregation parts m : m <= length cs -> (forall i p, In p (parts i) -> k_ts p = tsi i) ->
  exists long r, feed parts m = (firstn m cs, long) /\ get_candles n (firstn m cs) long = Some r /\ map Some r = aggs n (firstn m cs).
Proof.
  intros Hm Hp. destruct (feed_keeps_invariant parts m Hm Hp) as (long & E & HV).
  assert (Hinc : inc k_ts (firstn m cs)).
  { apply (aligned_inc_gen _ t0). intros i Hi. rewrite len_firstn in Hi by exact Hm. rewrite nth_firstn_lt by exact Hi. apply aligned. lia. }
  destruct (get_candles_is_aggregation n npos _ _ HV Hinc) as (r & Hr & Ha). exists long, r. repeat split; assumption.
Qed.

(* the list form used by the correspondence harness (Run/C07Run.run_feed) is the same fold *)
Definition feed_list (parts : list (list kc)) : list kc * list kc :=
  fold_left (fun st ip => step_minute n cs (fst ip) (snd ip) st) (combine (seq 0 (length parts)) parts) ([], []).

Lemma fold_combine_seq (parts : list (list kc)) : forall a st,
  fold_left (fun st ip => step_minute n cs (fst ip) (snd ip) st) (combine (seq a (length parts)) parts) st =
  fold_left (fun st i => step_minute n cs i (nth (i - a) parts []) st) (seq a (length parts)) st.
Proof.
  induction parts as [|p r IH]; intros a st; [reflexivity|]. cbn [length seq combine fold_left fst snd].
  rewrite Nat.sub_diag. cbn [nth]. rewrite IH. apply fold_left_ext_in. intros i s Hi. apply in_seq in Hi.
  replace (i - a) with (S (i - S a)) by lia. reflexivity.
Qed.

Lemma feed_list_is_feed parts : feed_list parts = feed (fun i => nth i parts []) (length parts).
Proof.
  unfold feed_list, feed. rewrite fold_combine_seq. apply fold_left_ext_in. intros i s Hi. rewrite Nat.sub_0_r. reflexivity.
Qed.
End Feed.
