(* Proofs/TradesProofs.v — C06: for every regular fill sequence the hooks form well-formed cycles and report the size the fills
   imply, the closed trades are the cycles of the fill sequence, and the wallet moves by exactly the net PnL of the closed
   trades; oversize reduce-only exits and flips break the wallet identity (witnesses). *)
From Coq Require Import ZArith QArith Qcanon Lqa List Bool Lia.
From JV Require Import Base.Num Base.QcTac Model.Spot Model.Futures Model.Trades.
Import ListNotations.
Local Open Scope Qc_scope.
Import QcI.

(* ------------------------------------------------------------------ the four regular cases *)
Lemma qabs_pos x : x <> 0 -> 0 < qabs x.
Proof. intros H. unfold qabs. destruct (qltb_spec x 0); [qc_arith; lra|]. apply neq_Q in H. unfold Qclt, Qcle in *. change (this 0) with 0%Q in *. lra. Qed.
Lemma qabs_mul_pos a p : 0 < p -> qabs (a * p) = qabs a * p.
Proof.
  intros Hp. unfold qabs. destruct (qltb_spec a 0) as [A|A]; destruct (qltb_spec (a * p) 0) as [B|B]; try ring; exfalso.
  - apply B. clear B. qc_arith. nra.
  - apply A. clear A. qc_arith. nra.
Qed.

Inductive rcase (q : Qc) (f : fill) : Prop :=
| ROpen : q = 0 -> fl_sq f <> 0 -> fl_ro f = false -> rcase q f
| RClose : q <> 0 -> q + fl_sq f = 0 -> rcase q f
| RInc : q <> 0 -> q + fl_sq f <> 0 -> 0 < q * fl_sq f -> fl_ro f = false -> rcase q f
| RRed : q <> 0 -> q + fl_sq f <> 0 -> ~ 0 < q * fl_sq f -> ~ qabs q < qabs (fl_sq f) -> rcase q f.

Lemma regular_cases q f : regular q f = true -> fl_sq f <> 0 /\ 0 < fl_price f /\ rcase q f.
Proof.
  unfold regular, kind_of. intros H. apply andb_true_iff in H. destruct H as [H K]. apply andb_true_iff in H. destruct H as [H1 H2].
  destruct (qeqb_spec (fl_sq f) 0) as [|N]; [discriminate H1|]. destruct (qltb_spec 0 (fl_price f)) as [P|]; [|discriminate H2].
  split; [exact N|]. split; [exact P|].
  destruct (qeqb_spec q 0) as [E|E]; [apply ROpen; [exact E|exact N|destruct (fl_ro f); [discriminate K|reflexivity]]|].
  destruct (qeqb_spec (q + fl_sq f) 0) as [E2|E2]; [apply RClose; assumption|].
  destruct (qltb_spec 0 (q * fl_sq f)) as [E3|E3].
  - destruct (fl_ro f) eqn:R; [discriminate K|]. apply RInc; assumption.
  - destruct (qltb_spec (qabs q) (qabs (fl_sq f))) as [E4|E4]; [destruct (fl_ro f); discriminate K|]. apply RRed; assumption.
Qed.

Ltac decide_tests :=
  repeat match goal with
  | |- context [qeqb ?a ?b] => destruct (qeqb_spec a b); [try (exfalso; congruence)|try (exfalso; congruence)]
  | |- context [qltb ?a ?b] => destruct (qltb_spec a b); [try (exfalso; tauto)|try (exfalso; tauto)]
  end.

Definition growing (q sq : Qc) : bool := qeqb q 0 || qltb 0 (q * sq).

(* what one regular fill does, free of long/short case distinctions *)
Lemma tstep_regular fee s f : regular (ts_qty s) f = true ->
  let s' := tstep fee s f in let q := ts_qty s in let e := ts_entry s in let sq := fl_sq f in let p := fl_price f in
  ts_qty s' = q + sq /\
  ts_qty s' * ts_entry s' = (if qeqb q 0 then 0 else q * e) + (if growing q sq then sq * p else sq * e) /\
  ts_wallet s' = ts_wallet s - qabs (sq * p) * fee + (if growing q sq then 0 else - sq * (p - e)) /\
  ts_hooks s' = ts_hooks s ++ [(classify q (q + sq), q + sq)] /\
  (if qeqb (q + sq) 0 then ts_cur s' = empty_trade /\ ts_closed s' = ts_closed s ++ [record_fill (ts_cur s) f]
   else ts_closed s' = ts_closed s /\
        ts_cur s' = if qeqb q 0 then open_trade (record_fill (ts_cur s) f) (qltb sq 0) else record_fill (ts_cur s) f).
Proof.
  intros R. destruct (regular_cases _ _ R) as (Hsq & Hp & Hc). cbv zeta.
  destruct s as [q e pv w cur closed hooks]. destruct f as [sq p ro]. cbn [ts_qty ts_entry ts_prev ts_wallet ts_cur ts_closed ts_hooks fl_sq fl_price fl_ro] in *.
  unfold tstep, position_fill, kind_of, growing. cbn [ts_qty ts_entry ts_prev ts_wallet ts_cur ts_closed ts_hooks fl_sq fl_price fl_ro p_qty p_entry p_cur].
  destruct Hc as [E N R0|N E|N N2 G R0|N N2 G G2]; cbn [fl_sq fl_ro] in *.
  - (* open *) subst q ro. assert (X : 0 + sq <> 0) by (rewrite Qcplus_0_l; exact Hsq).
    decide_tests; cbn [ts_qty ts_entry ts_wallet ts_hooks ts_cur ts_closed p_qty p_entry orb].
    all: repeat split; try reflexivity; try ring; try (rewrite ?Qcplus_0_l; reflexivity).
  - (* close *) assert (Es : sq = - q) by (rewrite <- (Qcplus_0_l (- q)), <- E; ring). subst sq.
    unfold realized, qabs.
    decide_tests; cbn [ts_qty ts_entry ts_wallet ts_hooks ts_cur ts_closed p_qty p_entry orb].
    all: try (exfalso; clear R; qc_arith; nra).
    all: rewrite ?E; repeat split; try reflexivity; try ring.
  - (* increase *) subst ro. unfold realized, qabs.
    decide_tests; cbn [ts_qty ts_entry ts_wallet ts_hooks ts_cur ts_closed p_qty p_entry orb].
    all: try (exfalso; clear R; qc_arith; nra).
    all: repeat split; try reflexivity; try ring.
    + field. intro H. apply N2. replace (q + sq) with (- (- sq + - q)) by ring. rewrite H. ring.
    + field. intro H. apply N2. rewrite Qcplus_comm. exact H.
  - (* reduce *) unfold realized, qabs in *.
    revert G2. decide_tests; intros G2; cbn [ts_qty ts_entry ts_wallet ts_hooks ts_cur ts_closed p_qty p_entry orb].
    all: try (exfalso; clear R; qc_arith; nra).
    all: repeat split; try reflexivity; try ring.
Qed.

(* ------------------------------------------------------------------ sums over the rows of a trade *)
Lemma qsum_app l r : qsum (l ++ [r]) = qsum l + fst r.
Proof. induction l as [|x l IH]; cbn [app qsum]; [ring|rewrite IH; ring]. Qed.
Lemma notional_app l r : notional (l ++ [r]) = notional l + fst r * snd r.
Proof. induction l as [|x l IH]; cbn [app notional]; [ring|rewrite IH; ring]. Qed.

Definition QB t := qsum (t_buys t).   Definition QS t := qsum (t_sells t).
Definition NB t := notional (t_buys t).   Definition NS t := notional (t_sells t).

Lemma record_sums t f : 0 < fl_price f ->
  let t' := record_fill t f in
  QB t' - QS t' = QB t - QS t + fl_sq f /\ NB t' - NS t' = NB t - NS t + fl_sq f * fl_price f /\
  NB t' + NS t' = NB t + NS t + qabs (fl_sq f * fl_price f) /\ t_opened t' = t_opened t /\ t_short t' = t_short t.
Proof.
  intros Hp. cbv zeta. rewrite (qabs_mul_pos _ _ Hp). unfold record_fill, QB, QS, NB, NS, qabs.
  destruct (qltb_spec (fl_sq f) 0); cbn [t_buys t_sells t_opened t_short]; rewrite ?qsum_app, ?notional_app; cbn [fst snd];
    repeat split; ring.
Qed.
Lemma open_sums t b : QB (open_trade t b) = QB t /\ QS (open_trade t b) = QS t /\ NB (open_trade t b) = NB t /\ NS (open_trade t b) = NS t.
Proof. repeat split; reflexivity. Qed.

Lemma sum_pnl_app fee l t : sum_pnl fee (l ++ [t]) = sum_pnl fee l + t_pnl fee t.
Proof. induction l as [|x l IH]; cbn [app sum_pnl]; [ring|rewrite IH; ring]. Qed.

(* the net PnL of a trade whose two sides have the same total quantity, free of long/short distinctions *)
Lemma t_pnl_balanced fee t : QB t = QS t -> QB t <> 0 -> t_pnl fee t = (NS t - NB t) - fee * (NB t + NS t).
Proof.
  intros E N. unfold t_pnl, t_qty, t_entry_price, t_exit_price, t_entries, t_exits. fold (QB t) (QS t) (NB t) (NS t).
  destruct (t_short t); fold (QB t) (QS t) (NB t) (NS t); rewrite <- ?E; field; exact N.
Qed.

(* ------------------------------------------------------------------ the accounting invariant *)
Definition rows_pos (t : trade) : Prop := forall r, In r (t_buys t ++ t_sells t) -> 0 < fst r.

Definition Inv (fee bal : Qc) (s : tstate) : Prop :=
  ts_qty s = QB (ts_cur s) - QS (ts_cur s) /\
  ts_wallet s - bal - sum_pnl fee (ts_closed s) =
    (NS (ts_cur s) - NB (ts_cur s)) + ts_qty s * ts_entry s - fee * (NB (ts_cur s) + NS (ts_cur s)) /\
  rows_pos (ts_cur s).

Lemma qsum_nonneg l : (forall r, In r l -> 0 < fst r) -> 0 <= qsum l.
Proof.
  induction l as [|x l IH]; intros H; cbn [qsum]; [unfold Qcle; cbn; lra|].
  assert (A : 0 < fst x) by (apply H; left; reflexivity). assert (B : 0 <= qsum l) by (apply IH; intros r Hr; apply H; right; exact Hr).
  set (a := fst x) in *. set (b := qsum l) in *. clearbody a b. qc_arith. lra.
Qed.

Lemma record_rows_pos t f : fl_sq f <> 0 -> rows_pos t -> rows_pos (record_fill t f).
Proof.
  intros N H r Hr. unfold record_fill in Hr. destruct (qltb (fl_sq f) 0); cbn [t_buys t_sells] in Hr.
  - rewrite app_assoc in Hr. apply in_app_or in Hr. destruct Hr as [Hr|[<-|[]]]; [apply H; exact Hr|cbn [fst]; apply qabs_pos; exact N].
  - apply in_app_or in Hr. destruct Hr as [Hr|Hr]; [apply in_app_or in Hr; destruct Hr as [Hr|[<-|[]]]; [apply H; apply in_or_app; left; exact Hr|cbn [fst]; apply qabs_pos; exact N]|apply H; apply in_or_app; right; exact Hr].
Qed.

(* a recorded fill makes the side it is on strictly positive *)
Lemma record_side_pos t f : fl_sq f <> 0 -> rows_pos t -> 0 < QB (record_fill t f) + QS (record_fill t f).
Proof.
  intros N H. pose proof (qabs_pos _ N) as P.
  assert (A : 0 <= QB t) by (apply qsum_nonneg; intros r Hr; apply H; apply in_or_app; left; exact Hr).
  assert (B : 0 <= QS t) by (apply qsum_nonneg; intros r Hr; apply H; apply in_or_app; right; exact Hr).
  unfold record_fill, QB, QS in *. destruct (qltb (fl_sq f) 0); cbn [t_buys t_sells]; rewrite qsum_app; cbn [fst];
    set (a := qsum (t_buys t)) in *; set (b := qsum (t_sells t)) in *; set (c := qabs (fl_sq f)) in *; clearbody a b c; qc_arith; lra.
Qed.

Lemma growing_false_at_close q sq : sq <> 0 -> q + sq = 0 -> growing q sq = false.
Proof.
  intros N E. assert (Es : sq = - q) by (rewrite <- (Qcplus_0_l (- q)), <- E; ring). subst sq. unfold growing.
  destruct (qeqb_spec q 0) as [->|Nq]; [exfalso; apply N; ring|]. destruct (qltb_spec 0 (q * - q)) as [L|L]; [exfalso|reflexivity].
  revert L. qc_arith. intros L. nra.
Qed.

Lemma sub_zero_eq (a b : Qc) : a - b = 0 -> a = b.
Proof. intros H. replace a with ((a - b) + b) by ring. rewrite H. ring. Qed.

Lemma inv_step fee bal s f : Inv fee bal s -> regular (ts_qty s) f = true -> Inv fee bal (tstep fee s f).
Proof.
  intros (I1 & I2 & I3) R. destruct (regular_cases _ _ R) as (Hsq & Hp & _).
  destruct (tstep_regular fee s f R) as (A & B & W & _ & T). cbv zeta in *.
  destruct (record_sums (ts_cur s) f Hp) as (S1 & S2 & S3 & _). cbv zeta in *.
  assert (Ce : (if qeqb (ts_qty s) 0 then 0 else ts_qty s * ts_entry s) = ts_qty s * ts_entry s) by (destruct (qeqb_spec (ts_qty s) 0) as [->|]; [ring|reflexivity]).
  rewrite Ce in B. clear Ce.
  destruct (qeqb_spec (ts_qty s + fl_sq f) 0) as [E|E].
  - destruct T as [Tc Tcl]. rewrite (growing_false_at_close _ _ Hsq E) in B, W.
    assert (Bal : QB (record_fill (ts_cur s) f) = QS (record_fill (ts_cur s) f)).
    { apply sub_zero_eq. rewrite S1, <- I1, E. reflexivity. }
    assert (Nz : QB (record_fill (ts_cur s) f) <> 0).
    { pose proof (record_side_pos (ts_cur s) f Hsq I3) as P. rewrite <- Bal in P. intros Z. rewrite Z in P. revert P. unfold Qclt. cbn. lra. }
    unfold Inv. rewrite Tc, Tcl, A, E, sum_pnl_app, (t_pnl_balanced fee _ Bal Nz), W.
    split; [reflexivity|]. split; [|intros r []].
    (* the algebra: everything cancels because (q + sq) * e = 0 *)
    assert (K : (ts_qty s + fl_sq f) * ts_entry s = 0) by (rewrite E; ring).
    set (X := NB (record_fill (ts_cur s) f)) in *. set (Y := NS (record_fill (ts_cur s) f)) in *.
    change (NS empty_trade) with 0. change (NB empty_trade) with 0.
    transitivity ((ts_wallet s - bal - sum_pnl fee (ts_closed s)) - qabs (fl_sq f * fl_price f) * fee - fl_sq f * (fl_price f - ts_entry s) + (X - Y) + fee * (X + Y)); [ring|].
    rewrite S2, S3, I2.
    transitivity ((ts_qty s + fl_sq f) * ts_entry s); [ring|rewrite K; ring].
  - destruct T as [Tcl Tc]. unfold Inv. rewrite Tcl, A.
    assert (Sums : QB (ts_cur (tstep fee s f)) - QS (ts_cur (tstep fee s f)) = QB (ts_cur s) - QS (ts_cur s) + fl_sq f /\
                   NB (ts_cur (tstep fee s f)) - NS (ts_cur (tstep fee s f)) = NB (ts_cur s) - NS (ts_cur s) + fl_sq f * fl_price f /\
                   NB (ts_cur (tstep fee s f)) + NS (ts_cur (tstep fee s f)) = NB (ts_cur s) + NS (ts_cur s) + qabs (fl_sq f * fl_price f) /\
                   rows_pos (ts_cur (tstep fee s f))).
    { rewrite Tc. destruct (qeqb (ts_qty s) 0).
      - destruct (open_sums (record_fill (ts_cur s) f) (qltb (fl_sq f) 0)) as (O1 & O2 & O3 & O4). rewrite O1, O2, O3, O4.
        repeat split; try assumption. intros r Hr. apply (record_rows_pos _ _ Hsq I3 r). exact Hr.
      - repeat split; try assumption. apply record_rows_pos; assumption. }
    destruct Sums as (T1 & T2 & T3 & T4). split; [rewrite T1, I1; reflexivity|]. split; [|exact T4].
    replace (NS (ts_cur (tstep fee s f)) - NB (ts_cur (tstep fee s f))) with (- (NB (ts_cur (tstep fee s f)) - NS (ts_cur (tstep fee s f)))) by ring.
    rewrite T2, T3. rewrite <- A, B, W.
    destruct (growing (ts_qty s) (fl_sq f)).
    + transitivity ((ts_wallet s - bal - sum_pnl fee (ts_closed s)) - qabs (fl_sq f * fl_price f) * fee); [ring|]. rewrite I2. ring.
    + transitivity ((ts_wallet s - bal - sum_pnl fee (ts_closed s)) - qabs (fl_sq f * fl_price f) * fee - fl_sq f * (fl_price f - ts_entry s)); [ring|]. rewrite I2. ring.
Qed.

(* ------------------------------------------------------------------ over whole runs *)
Lemma run_inv fee bal fs : forall s, Inv fee bal s -> all_regular fee s fs = true -> Inv fee bal (fold_left (tstep fee) fs s).
Proof.
  induction fs as [|f r IH]; intros s I R; cbn [fold_left]; [exact I|]. cbn [all_regular] in R. apply andb_true_iff in R. destruct R as [R1 R2].
  apply IH; [apply inv_step; assumption|exact R2].
Qed.

Lemma init_inv fee bal : Inv fee bal (tinit bal).
Proof. unfold Inv, tinit, QB, QS, NB, NS, empty_trade. cbn. repeat split; try ring. intros r []. Qed.

Definition flat_empty (s : tstate) : Prop := ts_qty s = 0 -> ts_cur s = empty_trade.
Lemma flat_step fee s f : regular (ts_qty s) f = true -> flat_empty (tstep fee s f).
Proof.
  intros R. destruct (tstep_regular fee s f R) as (A & _ & _ & _ & T). cbv zeta in *. intros Z. rewrite A in Z.
  destruct (qeqb_spec (ts_qty s + fl_sq f) 0) as [E|E]; [apply T|contradiction].
Qed.
Lemma run_flat fee fs : forall s, flat_empty s -> all_regular fee s fs = true -> flat_empty (fold_left (tstep fee) fs s).
Proof.
  induction fs as [|f r IH]; intros s I R; cbn [fold_left]; [exact I|]. cbn [all_regular] in R. apply andb_true_iff in R. destruct R as [R1 R2].
  apply IH; [apply flat_step; exact R1|exact R2].
Qed.

(* the part of the wallet movement that belongs to the cycle still open *)
Definition open_part (fee : Qc) (s : tstate) : Qc :=
  (NS (ts_cur s) - NB (ts_cur s)) + ts_qty s * ts_entry s - fee * (NB (ts_cur s) + NS (ts_cur s)).

Theorem wallet_identity fee bal fs : all_regular fee (tinit bal) fs = true ->
  let s := trun fee bal fs in ts_wallet s = bal + sum_pnl fee (ts_closed s) + open_part fee s.
Proof.
  intros R. cbv zeta. destruct (run_inv fee bal fs _ (init_inv fee bal) R) as (_ & I2 & _). unfold trun, open_part.
  set (s := fold_left (tstep fee) fs (tinit bal)) in *. rewrite <- I2. ring.
Qed.

Theorem wallet_identity_flat fee bal fs : all_regular fee (tinit bal) fs = true ->
  let s := trun fee bal fs in ts_qty s = 0 -> ts_wallet s = bal + sum_pnl fee (ts_closed s).
Proof.
  intros R. cbv zeta. intros Z. rewrite (wallet_identity fee bal fs R). cbv zeta.
  assert (F : flat_empty (trun fee bal fs)) by (apply run_flat; [intros _; reflexivity|exact R]).
  unfold open_part. rewrite (F Z), Z. unfold NS, NB, empty_trade. cbn [t_buys t_sells notional]. ring.
Qed.

(* ------------------------------------------------------------------ hooks *)
Fixpoint hook_trace (q : Qc) (fs : list fill) : list (hook * Qc) :=
  match fs with [] => [] | f :: r => (classify q (q + fl_sq f), q + fl_sq f) :: hook_trace (q + fl_sq f) r end.

Lemma run_hooks fee fs : forall s, all_regular fee s fs = true ->
  ts_hooks (fold_left (tstep fee) fs s) = ts_hooks s ++ hook_trace (ts_qty s) fs /\
  ts_qty (fold_left (tstep fee) fs s) = fold_left (fun a f => a + fl_sq f) fs (ts_qty s).
Proof.
  induction fs as [|f r IH]; intros s R; cbn [fold_left hook_trace]; [rewrite app_nil_r; split; reflexivity|].
  cbn [all_regular] in R. apply andb_true_iff in R. destruct R as [R1 R2].
  destruct (tstep_regular fee s f R1) as (A & _ & _ & H & _). cbv zeta in *.
  destruct (IH _ R2) as [I1 I2]. rewrite I1, I2, H, A, <- app_assoc. split; reflexivity.
Qed.

(* every fill fires exactly one hook: the one matching the sizes before and after, carrying the size the fills imply *)
Theorem hooks_are_the_trace fee bal fs : all_regular fee (tinit bal) fs = true -> ts_hooks (trun fee bal fs) = hook_trace 0 fs.
Proof. intros R. unfold trun. rewrite (proj1 (run_hooks fee fs _ R)). reflexivity. Qed.

(* the grammar: open, then increases and reductions, then close *)
Definition gstep (st : option bool) (h : hook) : option bool :=
  match st, h with
  | Some false, HOpen => Some true
  | Some true, HInc | Some true, HRed => Some true
  | Some true, HClose => Some false
  | _, _ => None
  end.

Lemma trace_grammar fee fs : forall s, all_regular fee s fs = true ->
  fold_left gstep (map fst (hook_trace (ts_qty s) fs)) (Some (negb (qeqb (ts_qty s) 0))) =
  Some (negb (qeqb (ts_qty (fold_left (tstep fee) fs s)) 0)).
Proof.
  induction fs as [|f r IH]; intros s R; cbn [fold_left hook_trace map fst]; [reflexivity|].
  cbn [all_regular] in R. apply andb_true_iff in R. destruct R as [R1 R2].
  destruct (tstep_regular fee s f R1) as (A & _). cbv zeta in *. destruct (regular_cases _ _ R1) as (Hsq & _ & Hc).
  rewrite <- (IH _ R2), A. f_equal. unfold classify.
  destruct Hc as [E N R0|N E|N N2 G R0|N N2 G G2].
  - rewrite E, Qcplus_0_l. destruct (qeqb_spec 0 0) as [_|X]; [|congruence]. destruct (qeqb_spec (fl_sq f) 0); [contradiction|reflexivity].
  - rewrite E. destruct (qeqb_spec (ts_qty s) 0); [contradiction|]. destruct (qeqb_spec 0 0) as [_|X]; [reflexivity|congruence].
  - destruct (qeqb_spec (ts_qty s) 0); [contradiction|]. destruct (qeqb_spec (ts_qty s + fl_sq f) 0); [contradiction|]. cbn [negb andb].
    destruct (qltb _ _); reflexivity.
  - destruct (qeqb_spec (ts_qty s) 0); [contradiction|]. destruct (qeqb_spec (ts_qty s + fl_sq f) 0); [contradiction|]. cbn [negb andb].
    destruct (qltb _ _); reflexivity.
Qed.

Theorem hooks_form_cycles fee bal fs : all_regular fee (tinit bal) fs = true ->
  fold_left gstep (map fst (ts_hooks (trun fee bal fs))) (Some false) = Some (negb (qeqb (ts_qty (trun fee bal fs)) 0)).
Proof.
  intros R. rewrite (hooks_are_the_trace fee bal fs R). apply (trace_grammar fee fs (tinit bal) R).
Qed.

(* ------------------------------------------------------------------ the closed trades are the cycles of the fill sequence *)
(* a cycle = a maximal run of fills from a flat position back to a flat position *)
Fixpoint cycles (q : Qc) (cur : list fill) (fs : list fill) : list (list fill) * list fill :=
  match fs with
  | [] => ([], cur)
  | f :: r => if qeqb (q + fl_sq f) 0 then let '(d, c) := cycles 0 [] r in ((cur ++ [f]) :: d, c)
              else cycles (q + fl_sq f) (cur ++ [f]) r
  end.
(* the trade record of a cycle: typed by its first fill, every fill in order on its side *)
Definition tr (c : list fill) : trade :=
  match c with [] => empty_trade | f :: r => fold_left record_fill r (open_trade (record_fill empty_trade f) (qltb (fl_sq f) 0)) end.

Lemma tr_snoc c f : c <> [] -> tr (c ++ [f]) = record_fill (tr c) f.
Proof. destruct c as [|x c]; [congruence|]. intros _. cbn [app tr]. rewrite fold_left_app. reflexivity. Qed.

Lemma run_cycles fee fs : forall s c, all_regular fee s fs = true -> ts_cur s = tr c -> (ts_qty s = 0 <-> c = []) ->
  let s' := fold_left (tstep fee) fs s in
  ts_closed s' = ts_closed s ++ map tr (fst (cycles (ts_qty s) c fs)) /\ ts_cur s' = tr (snd (cycles (ts_qty s) c fs)).
Proof.
  induction fs as [|f r IH]; intros s c R Hc Hz; cbv zeta; cbn [fold_left cycles]; [cbn [fst snd map]; rewrite app_nil_r; split; [reflexivity|exact Hc]|].
  cbn [all_regular] in R. apply andb_true_iff in R. destruct R as [R1 R2].
  destruct (tstep_regular fee s f R1) as (A & _ & _ & _ & T). cbv zeta in *. destruct (regular_cases _ _ R1) as (Hsq & _ & _).
  destruct (qeqb_spec (ts_qty s + fl_sq f) 0) as [E|E].
  - destruct T as [Tc Tcl].
    assert (Nq : ts_qty s <> 0) by (intros Z; rewrite Z, Qcplus_0_l in E; contradiction).
    assert (Nc : c <> []) by (intros Z; apply Nq; apply Hz; exact Z).
    specialize (IH (tstep fee s f) [] R2). rewrite A, E in IH. destruct IH as [I1 I2]; [rewrite Tc; reflexivity|split; auto|].
    destruct (cycles 0 [] r) as [d c'] eqn:Ec. cbn [fst snd] in *. rewrite I1, I2, Tcl, <- app_assoc. cbn [map app].
    rewrite (tr_snoc c f Nc), Hc. split; reflexivity.
  - destruct T as [Tcl Tc].
    specialize (IH (tstep fee s f) (c ++ [f]) R2). rewrite A in IH. destruct IH as [I1 I2].
    + rewrite Tc. destruct (qeqb_spec (ts_qty s) 0) as [Z|Z].
      * assert (c = []) by (apply Hz; exact Z). subst c. rewrite Hc. reflexivity.
      * rewrite tr_snoc by (intros X; apply Z; apply Hz; exact X). rewrite Hc. reflexivity.
    + split; [intros X; contradiction|intros X; destruct c; discriminate X].
    + rewrite I1, I2, Tcl. split; reflexivity.
Qed.

Theorem trades_are_the_cycles fee bal fs : all_regular fee (tinit bal) fs = true ->
  ts_closed (trun fee bal fs) = map tr (fst (cycles 0 [] fs)) /\ ts_cur (trun fee bal fs) = tr (snd (cycles 0 [] fs)).
Proof.
  intros R. destruct (run_cycles fee fs (tinit bal) [] R eq_refl) as [A B]; [split; reflexivity|]. cbv zeta in *. split; [exact A|exact B].
Qed.

(* ------------------------------------------------------------------ the irregular fills break the record (witnesses) *)
Definition zq (n : Z) : Qc := Q2Qc (inject_Z n).
(* entry 2 @ 100, take-profit 1 @ 101, reduce-only stop of the ORIGINAL size 2 @ 98, fee 1/1000: the position is closed by an
   order twice its size; fee and trade log use the order quantity *)
Definition oversize_witness : list fill :=
  [ {| fl_sq := zq 2; fl_price := zq 100; fl_ro := false |}; {| fl_sq := - zq 1; fl_price := zq 101; fl_ro := true |};
    {| fl_sq := - zq 2; fl_price := zq 98; fl_ro := true |} ].
Theorem oversize_reduce_only_refuted :
  let s := trun (Q2Qc (1 # 1000)) (zq 10000) oversize_witness in
  ts_qty s = 0 /\ ts_wallet s <> zq 10000 + sum_pnl (Q2Qc (1 # 1000)) (ts_closed s).
Proof. vm_compute. split; [reflexivity|discriminate]. Qed.

(* long 1 @ 100, then a sell of 3 @ 90 that is not reduce-only: the position flips to -2; close hook never fires, the fill is
   booked entirely in the first trade and the second trade has no entry rows *)
Definition flip_witness : list fill :=
  [ {| fl_sq := zq 1; fl_price := zq 100; fl_ro := false |}; {| fl_sq := - zq 3; fl_price := zq 90; fl_ro := false |};
    {| fl_sq := zq 2; fl_price := zq 80; fl_ro := true |} ].
Theorem flip_refuted :
  let s := trun 0 (zq 10000) flip_witness in
  ts_qty s = 0 /\ map fst (ts_hooks s) = [HOpen; HOpen; HClose] /\ ts_wallet s <> zq 10000 + sum_pnl 0 (ts_closed s).
Proof. vm_compute. repeat split; discriminate. Qed.

(* ------------------------------------------------------------------ several symbols share one wallet *)
Definition with_wallet (w : Qc) (s : tstate) : tstate :=
  {| ts_qty := ts_qty s; ts_entry := ts_entry s; ts_prev := ts_prev s; ts_wallet := w; ts_cur := ts_cur s; ts_closed := ts_closed s; ts_hooks := ts_hooks s |}.

(* what a symbol has contributed to the wallet so far: net PnL of its closed trades + the open cycle's realised part and fees *)
Definition contribution (fee : Qc) (s : tstate) : Qc := sum_pnl fee (ts_closed s) + open_part fee s.

(* the per-symbol part of the invariant (everything except the wallet equation) *)
Definition Shape (s : tstate) : Prop := ts_qty s = QB (ts_cur s) - QS (ts_cur s) /\ rows_pos (ts_cur s).

Lemma shape_inv fee w s : Shape s -> Inv fee (w - contribution fee s) (with_wallet w s).
Proof.
  intros [A B]. unfold Inv, with_wallet, contribution, open_part. cbn [ts_qty ts_entry ts_wallet ts_cur ts_closed]. split; [exact A|]. split; [ring|exact B].
Qed.

Lemma inv_shape fee bal s : Inv fee bal s -> Shape s /\ ts_wallet s = bal + contribution fee s.
Proof.
  intros (A & B & C). split; [split; assumption|]. unfold contribution, open_part. rewrite <- B. ring.
Qed.

(* a fill of one symbol moves the shared wallet by exactly the change of that symbol's contribution *)
Theorem fill_moves_wallet_by_contribution fee w s f : Shape s -> regular (ts_qty s) f = true ->
  let s' := tstep fee (with_wallet w s) f in
  Shape s' /\ ts_wallet s' - w = contribution fee s' - contribution fee s.
Proof.
  intros Hs R. cbv zeta. pose proof (shape_inv fee w s Hs) as I.
  assert (R' : regular (ts_qty (with_wallet w s)) f = true) by exact R.
  pose proof (inv_step fee _ _ f I R') as I'. destruct (inv_shape _ _ _ I') as [Sh E]. split; [exact Sh|]. rewrite E. ring.
Qed.

(* the session: symbols 0..k-1, each with its own position/trade state, one wallet *)
Record msession := { m_wallet : Qc; m_syms : list tstate }.
Fixpoint upd_nth (l : list tstate) (i : nat) (v : tstate) : list tstate :=
  match l, i with [], _ => [] | _ :: r, O => v :: r | x :: r, S j => x :: upd_nth r j v end.
Definition mstep (fee : Qc) (m : msession) (sf : nat * fill) : msession :=
  match nth_error (m_syms m) (fst sf) with
  | None => m
  | Some s => let s' := tstep fee (with_wallet (m_wallet m) s) (snd sf) in {| m_wallet := ts_wallet s'; m_syms := upd_nth (m_syms m) (fst sf) s' |}
  end.
Fixpoint total_contribution (fee : Qc) (l : list tstate) : Qc := match l with [] => 0 | s :: r => contribution fee s + total_contribution fee r end.
Definition mregular (m : msession) (sf : nat * fill) : bool :=
  match nth_error (m_syms m) (fst sf) with None => true | Some s => regular (ts_qty s) (snd sf) end.
Fixpoint all_mregular (fee : Qc) (m : msession) (l : list (nat * fill)) : bool :=
  match l with [] => true | sf :: r => mregular m sf && all_mregular fee (mstep fee m sf) r end.

Lemma total_upd fee l : forall i s s', nth_error l i = Some s ->
  total_contribution fee (upd_nth l i s') = total_contribution fee l + contribution fee s' - contribution fee s.
Proof.
  induction l as [|x r IH]; intros i s s' H; [destruct i; discriminate H|]. destruct i as [|i]; cbn [nth_error] in H.
  - injection H as ->. cbn [upd_nth total_contribution]. ring.
  - cbn [upd_nth total_contribution]. rewrite (IH i s s' H). ring.
Qed.
Lemma shapes_upd l : forall i s', Forall Shape l -> Shape s' -> Forall Shape (upd_nth l i s').
Proof.
  induction l as [|x r IH]; intros i s' H Hs; [constructor|]. apply Forall_cons_iff in H. destruct H as [Hx Hr].
  destruct i as [|i]; cbn [upd_nth]; constructor; auto.
Qed.

Definition MInv (fee bal : Qc) (m : msession) : Prop := Forall Shape (m_syms m) /\ m_wallet m = bal + total_contribution fee (m_syms m).

Theorem multi_symbol_wallet_identity fee bal l : forall m, MInv fee bal m -> all_mregular fee m l = true -> MInv fee bal (fold_left (mstep fee) l m).
Proof.
  induction l as [|sf r IH]; intros m I R; cbn [fold_left]; [exact I|]. cbn [all_mregular] in R. apply andb_true_iff in R. destruct R as [R1 R2].
  apply IH; [|exact R2]. destruct I as [Sh W]. unfold mstep, mregular in *. destruct (nth_error (m_syms m) (fst sf)) as [s|] eqn:E; [|split; assumption].
  assert (Hs : Shape s) by (rewrite Forall_forall in Sh; apply Sh; eapply nth_error_In; exact E).
  destruct (fill_moves_wallet_by_contribution fee (m_wallet m) s (snd sf) Hs R1) as [Sh' D]. cbv zeta in *.
  split; cbn [m_syms m_wallet]; [apply shapes_upd; assumption|]. rewrite (total_upd fee _ _ s _ E).
  set (s' := tstep fee (with_wallet (m_wallet m) s) (snd sf)) in *.
  transitivity (m_wallet m + (ts_wallet s' - m_wallet m)); [ring|]. rewrite D, W. ring.
Qed.

Lemma tinit_contribution fee bal : contribution fee (tinit bal) = 0.
Proof. unfold contribution, open_part, tinit, NS, NB, empty_trade. cbn [ts_closed ts_cur ts_qty ts_entry t_buys t_sells notional sum_pnl]. ring. Qed.
Lemma tinit_shape bal : Shape (tinit bal).
Proof. unfold Shape, tinit, QB, QS, empty_trade. cbn. split; [apply Qc_is_canon; reflexivity|intros r []]. Qed.

Theorem multi_symbol_session fee bal k l :
  let m0 := {| m_wallet := bal; m_syms := repeat (tinit bal) k |} in
  all_mregular fee m0 l = true ->
  let m := fold_left (mstep fee) l m0 in m_wallet m = bal + total_contribution fee (m_syms m).
Proof.
  cbv zeta. intros R. apply (multi_symbol_wallet_identity fee bal l _); [|exact R]. split; cbn [m_syms m_wallet].
  - apply Forall_forall. intros s Hs. apply repeat_spec in Hs. subst s. apply tinit_shape.
  - assert (E : forall j, total_contribution fee (repeat (tinit bal) j) = 0).
    { induction j as [|j IHj]; cbn [repeat total_contribution]; [reflexivity|rewrite tinit_contribution, IHj; ring]. }
    rewrite E. ring.
Qed.
