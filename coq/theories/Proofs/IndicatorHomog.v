(* Proofs/IndicatorHomog.v — C15, continued: every modelled price-homogeneous average scales linearly with price (generic lemmas for
   trailing-window and first-seeded recursive indicators, then WMA, TRIMA, momentum, the first-seeded EMA, Wilder's smoothing, DEMA,
   TEMA and the three MACD series), the money flow index stays in [0, 100], and the Keltner bands are ordered. Exact rationals. *)
From Coq Require Import ZArith QArith Qcanon Lqa List Bool Arith Lia.
From JV Require Import Base.Num Base.QcTac Model.CandleView Model.Indicators Proofs.IndicatorBounds.
Import ListNotations.
Local Open Scope Qc_scope.
Import QcI.

(* ------------------------------------------------------------------ trailing windows *)
Lemma windowed_homogeneous (w : nat) (f : list Qc -> Qc) c :
  (forall l, length l = w -> f (map (Qcmult c) l) = c * f l) ->
  forall xs, windowed w f (map (Qcmult c) xs) = map (scale_opt c) (windowed w f xs).
Proof.
  intros H xs. unfold windowed. apply (mealy_sim _ (Qcmult c) (scale_opt c) (fun b1 b2 => b2 = map (Qcmult c) b1)); [|reflexivity].
  intros b1 b2 x ->. cbn [fst snd]. rewrite map_last_app, lastn_map. split; [reflexivity|]. rewrite map_length.
  destruct (Nat.ltb_spec (length (lastn w (b1 ++ [x]))) w) as [L|L]; [reflexivity|]. cbn [scale_opt]. f_equal. apply H.
  rewrite lastn_length in *. lia.
Qed.

Definition wstep (acc : Qc * nat) (x : Qc) : Qc * nat := (fst acc + qofnat (snd acc) * x, S (snd acc)).
Lemma wsum_gen c l : forall a n,
  fold_left wstep (map (Qcmult c) l) (c * a, n) = (c * fst (fold_left wstep l (a, n)), snd (fold_left wstep l (a, n))).
Proof.
  induction l as [|x r IH]; intros a n; cbn [map fold_left]; [reflexivity|].
  change (wstep (c * a, n) (c * x)) with (c * a + qofnat n * (c * x), S n). change (wstep (a, n) x) with (a + qofnat n * x, S n).
  replace (c * a + qofnat n * (c * x)) with (c * (a + qofnat n * x)) by ring. apply IH.
Qed.
Lemma wsum_scale c l : wsum (map (Qcmult c) l) = c * wsum l.
Proof.
  unfold wsum. change (fun acc x => (fst acc + qofnat (snd acc) * x, S (snd acc))) with wstep.
  pose proof (wsum_gen c l 0 1%nat) as G. replace (c * 0) with (0 : Qc) in G by ring. rewrite G. reflexivity.
Qed.
Theorem wma_homogeneous c p xs : wma p (map (Qcmult c) xs) = map (scale_opt c) (wma p xs).
Proof. unfold wma. apply windowed_homogeneous. intros l _. rewrite wsum_scale. unfold Qcdiv. ring. Qed.

Lemma dot_scale c : forall ws l, dot ws (map (Qcmult c) l) = c * dot ws l.
Proof.
  induction ws as [|w ws IH]; intros [|x l]; unfold dot in *; cbn [combine map]; try (unfold Indicators.qsum; cbn [fold_left]; ring).
  rewrite !qsum_cons. cbn [fst snd]. rewrite (IH l). ring.
Qed.
Theorem trima_homogeneous c p xs : trima p (map (Qcmult c) xs) = map (scale_opt c) (trima p xs).
Proof. unfold trima. apply windowed_homogeneous. intros l _. rewrite dot_scale. unfold Qcdiv. ring. Qed.

Lemma last_scale c l : last (map (Qcmult c) l) 0 = c * last l 0.
Proof. induction l as [|x [|y r] IH]; [cbn; ring|reflexivity|]. cbn [map last] in *. exact IH. Qed.
Lemma hd_scale c l : hd 0 (map (Qcmult c) l) = c * hd 0 l.
Proof. destruct l; cbn; [ring|reflexivity]. Qed.
Theorem mom_homogeneous c p xs : mom p (map (Qcmult c) xs) = map (scale_opt c) (mom p xs).
Proof. unfold mom. apply windowed_homogeneous. intros l _. rewrite last_scale, hd_scale. ring. Qed.

(* ------------------------------------------------------------------ recursive smoothers seeded with the first value *)
Lemma from_first_homogeneous (step : Qc -> Qc -> Qc) c :
  (forall a x, step (c * a) (c * x) = c * step a x) ->
  forall xs, from_first step (map (Qcmult c) xs) = map (Qcmult c) (from_first step xs).
Proof.
  intros H xs. unfold from_first.
  apply (mealy_sim _ (Qcmult c) (Qcmult c) (fun s1 s2 => s2 = option_map (Qcmult c) s1)); [|reflexivity].
  intros [a|] s2 x ->; cbn [option_map fst snd]; [rewrite H|]; split; reflexivity.
Qed.
Theorem ema0_homogeneous c p xs : ema0 p (map (Qcmult c) xs) = map (Qcmult c) (ema0 p xs).
Proof. unfold ema0. apply from_first_homogeneous. intros a x. ring. Qed.
Theorem wilders_homogeneous c p xs : wilders p (map (Qcmult c) xs) = map (Qcmult c) (wilders p xs).
Proof. unfold wilders. apply from_first_homogeneous. intros a x. unfold Qcdiv. ring. Qed.

Lemma map2_sim {A B C} (f : A -> B -> C) (ga : A -> A) (gb : B -> B) (gc : C -> C) :
  (forall a b, f (ga a) (gb b) = gc (f a b)) -> forall l m, map2 f (map ga l) (map gb m) = map gc (map2 f l m).
Proof.
  intros H. unfold map2. induction l as [|a l IH]; intros [|b m]; cbn [map combine]; try reflexivity.
  cbn [fst snd]. rewrite H. f_equal. apply IH.
Qed.
Theorem dema_homogeneous c p xs : dema p (map (Qcmult c) xs) = map (Qcmult c) (dema p xs).
Proof. unfold dema. cbv zeta. rewrite !ema0_homogeneous. apply map2_sim. intros a b. ring. Qed.
Theorem tema_homogeneous c p xs : tema p (map (Qcmult c) xs) = map (Qcmult c) (tema p xs).
Proof.
  unfold tema. cbv zeta. rewrite !ema0_homogeneous.
  rewrite (map2_sim (fun a b => (qofnat 3 * a, qofnat 3 * b)) (Qcmult c) (Qcmult c) (fun ab => (c * fst ab, c * snd ab))).
  - apply map2_sim. intros [a b] d. cbn [fst snd]. ring.
  - intros a b. cbn [fst snd]. f_equal; ring.
Qed.
Theorem macd_line_homogeneous c f s xs : macd_line f s (map (Qcmult c) xs) = map (Qcmult c) (macd_line f s xs).
Proof. unfold macd_line. rewrite !ema0_homogeneous. apply map2_sim. intros a b. ring. Qed.
Theorem macd_signal_homogeneous c f s g xs : macd_signal f s g (map (Qcmult c) xs) = map (Qcmult c) (macd_signal f s g xs).
Proof. unfold macd_signal. rewrite macd_line_homogeneous. apply ema0_homogeneous. Qed.
Theorem macd_hist_homogeneous c f s g xs : macd_hist f s g (map (Qcmult c) xs) = map (Qcmult c) (macd_hist f s g xs).
Proof. unfold macd_hist. rewrite macd_line_homogeneous, macd_signal_homogeneous. apply map2_sim. intros a b. ring. Qed.

(* ------------------------------------------------------------------ money flow index in [0, 100] *)
Definition nonneg_kc (k : kc) : Prop := 0 <= k_l k /\ 0 <= k_c k /\ 0 <= k_h k /\ 0 <= k_v k.
Lemma flow_nonneg k : nonneg_kc k -> 0 <= (k_h k + k_l k + k_c k) / qofnat 3 * k_v k.
Proof.
  intros (Hl & Hc & Hh & Hv).
  assert (T : 0 <= (k_h k + k_l k + k_c k) / qofnat 3).
  { apply div_nonneg; [revert Hl Hc Hh; qc_arith; intros; lra|apply qofnat_pos; lia]. }
  set (t := (k_h k + k_l k + k_c k) / qofnat 3) in *. clearbody t. set (v := k_v k) in *. clearbody v.
  revert T Hv. qc_arith. intros. nra.
Qed.
Theorem mfi_in_range p ks : Forall nonneg_kc ks -> Forall (in_range 0 (qofnat 100)) (mfi p ks).
Proof.
  intros Hk. unfold mfi.
  apply (mealy_forall _ (fun st : option Qc * list (Qc * Qc) => Forall (fun fl => 0 <= fst fl /\ 0 <= snd fl) (snd st)) nonneg_kc); [|constructor|exact Hk].
  intros [ptp buf] k Hb Hx. cbn [fst snd] in *. pose proof (flow_nonneg k Hx) as F.
  set (tp := (k_h k + k_l k + k_c k) / qofnat 3) in *. set (rmf := tp * k_v k) in *.
  set (fl := match ptp with Some ptp0 => (if qltb ptp0 tp then rmf else 0, if qltb tp ptp0 then rmf else 0) | None => (0, 0) end).
  assert (Hfl : 0 <= fst fl /\ 0 <= snd fl).
  { unfold fl. destruct ptp as [q|]; cbn [fst snd]; [|split; qc]. destruct (qltb q tp), (qltb tp q); split; solve [exact F|qc]. }
  assert (Hb' : Forall (fun fl => 0 <= fst fl /\ 0 <= snd fl) (lastn p (buf ++ [fl]))).
  { apply Forall_forall. intros y Hy. apply lastn_incl in Hy. apply in_app_or in Hy. rewrite Forall_forall in Hb.
    destruct Hy as [Hy|[<-|[]]]; [apply Hb; exact Hy|exact Hfl]. }
  split; [exact Hb'|]. destruct (Nat.ltb (length (lastn p (buf ++ [fl]))) p); [exact I|]. cbn [in_range].
  apply rsi_value_range; apply qsum_nonneg; apply Forall_forall; intros y Hy; apply in_map_iff in Hy; destruct Hy as (z & <- & Hz);
    rewrite Forall_forall in Hb'; apply (Hb' z Hz).
Qed.

(* ------------------------------------------------------------------ Keltner bands are ordered for a non-negative multiplier *)
Definition ordered3 (lo mid hi : option Qc) : Prop :=
  match lo, mid, hi with Some a, Some b, Some d => a <= b /\ b <= d | None, _, None => True | _, _, _ => False end.
Fixpoint Forall3 {A} (P : A -> A -> A -> Prop) (l m n : list A) : Prop :=
  match l, m, n with
  | [], [], [] => True
  | a :: l', b :: m', d :: n' => P a b d /\ Forall3 P l' m' n'
  | _, _, _ => False
  end.
Definition same_def (a b : option Qc) : Prop := a = None <-> b = None.
Lemma seeded_same_def p s1 s2 : forall xs ys, length xs = length ys -> Forall2 same_def (seeded p s1 xs) (seeded p s2 ys).
Proof.
  unfold seeded.
  set (st1 := fun (st : list Qc * option Qc) x => match snd st with Some prev => let v := s1 prev x in ((fst st, Some v), Some v)
     | None => let buf := fst st ++ [x] in if Nat.eqb (length buf) p then ((buf, Some (mean buf)), Some (mean buf)) else ((buf, None), None) end).
  set (st2 := fun (st : list Qc * option Qc) x => match snd st with Some prev => let v := s2 prev x in ((fst st, Some v), Some v)
     | None => let buf := fst st ++ [x] in if Nat.eqb (length buf) p then ((buf, Some (mean buf)), Some (mean buf)) else ((buf, None), None) end).
  assert (G : forall xs ys a b, length xs = length ys -> length (fst a) = length (fst b) -> same_def (snd a) (snd b) ->
              Forall2 same_def (mealy st1 a xs) (mealy st2 b ys)).
  { induction xs as [|x xs IH]; intros [|y ys] a b Hl Hb Hd; try discriminate; cbn [mealy]; [constructor|].
    destruct a as [b1 o1], b as [b2 o2]. cbn [fst snd] in *. unfold st1 at 1, st2 at 1. cbn [fst snd].
    destruct o1 as [v1|], o2 as [v2|].
    - cbv zeta. constructor; [split; discriminate|]. apply IH; [cbn in Hl; lia|exact Hb|split; discriminate].
    - destruct Hd as [_ Hd]. discriminate (Hd eq_refl).
    - destruct Hd as [Hd _]. discriminate (Hd eq_refl).
    - cbv zeta. rewrite !app_length, Hb. cbn [length]. destruct (Nat.eqb (length b2 + 1) p).
      + constructor; [split; discriminate|]. apply IH; [cbn in Hl; lia|cbn [fst]; rewrite !app_length, Hb; reflexivity|split; discriminate].
      + constructor; [split; reflexivity|]. apply IH; [cbn in Hl; lia|cbn [fst]; rewrite !app_length, Hb; reflexivity|split; reflexivity]. }
  intros xs ys Hl. apply G; [exact Hl|reflexivity|split; reflexivity].
Qed.

Lemma keltner_gen m : 0 <= m -> forall (es ats : series), Forall2 same_def es ats -> Forall nonneg_opt ats ->
  Forall3 ordered3 (map2 (opt2 (fun e a => e - a * m)) es ats) es (map2 (opt2 (fun e a => e + a * m)) es ats).
Proof.
  intros Hm es ats Hd. unfold map2. induction Hd as [|e a es ats D0 Hd IH]; intros Hn; cbn [combine map Forall3]; [exact I|].
  apply Forall_cons_iff in Hn. destruct Hn as [Ha Hn]. cbn [fst snd]. split; [|apply IH; exact Hn].
  destruct e as [e|], a as [a|]; cbn [opt2 ordered3]; try exact I.
  cbn [nonneg_opt] in Ha. set (am := a * m). assert (H : 0 <= am) by (unfold am; revert Ha Hm; qc_arith; intros; nra).
    clearbody am. split; revert H; qc_arith; intros; lra.
Qed.

Lemma true_range_length ks : length (true_range ks) = length ks.
Proof. unfold true_range. generalize (@None Qc). induction ks as [|k r IH]; intros s; cbn [mealy length]; [reflexivity|]. f_equal. apply IH. Qed.

(* lower <= middle <= upper at every index where the channel is defined, and the three bands are defined at the same indices *)
Theorem keltner_ordered p m ks : (0 < p)%nat -> 0 <= m -> Forall sane ks ->
  Forall3 ordered3 (keltner_lower p m ks) (keltner_middle p ks) (keltner_upper p m ks).
Proof.
  intros Hp Hm Hs. unfold keltner_lower, keltner_middle, keltner_upper. apply keltner_gen; [exact Hm| |apply atr_nonneg; assumption].
  unfold ema, atr. apply seeded_same_def. rewrite true_range_length, map_length. reflexivity.
Qed.

(* ------------------------------------------------------------------ ATR scales with price (factor >= 0): true range, then the seeded smoother *)
Definition scale_kc (c : Qc) (k : kc) : kc :=
  {| k_ts := k_ts k; k_o := c * k_o k; k_c := c * k_c k; k_h := c * k_h k; k_l := c * k_l k; k_v := k_v k |}.
Lemma max_scale c x y : 0 <= c -> (if qltb (c * x) (c * y) then c * y else c * x) = c * (if qltb x y then y else x).
Proof.
  intros Hc. destruct (qltb_spec (c * x) (c * y)) as [A|A], (qltb_spec x y) as [B|B]; try reflexivity.
  - apply Qcnot_lt_le in B. exfalso. pose proof (Qcmult_le_compat_r _ _ c B Hc) as K. rewrite !(Qcmult_comm _ c) in K. exact (Qcle_not_lt _ _ K A).
  - apply Qcnot_lt_le in A. pose proof (Qcmult_le_compat_r _ _ c (Qclt_le_weak _ _ B) Hc) as K. rewrite !(Qcmult_comm _ c) in K. apply Qcle_antisym; assumption.
Qed.
Lemma qabs_scale c x : 0 <= c -> qabs (c * x) = c * qabs x.
Proof.
  intros Hc. unfold qabs. destruct (qltb_spec (c * x) 0) as [A|A], (qltb_spec x 0) as [B|B]; try ring.
  - apply Qcnot_lt_le in B. exfalso. pose proof (Qcmult_le_compat_r _ _ c B Hc) as K. rewrite !(Qcmult_comm _ c) in K.
    replace (c * 0) with (0 : Qc) in K by ring. exact (Qcle_not_lt _ _ K A).
  - apply Qcnot_lt_le in A. pose proof (Qcmult_le_compat_r _ _ c (Qclt_le_weak _ _ B) Hc) as K. rewrite (Qcmult_comm x c) in K.
    replace (0 * c) with (0 : Qc) in K by ring. assert (E : c * x = 0) by (apply Qcle_antisym; assumption).
    replace (c * - x) with (- (c * x)) by ring. rewrite E. ring.
Qed.
Lemma true_range_homogeneous c ks : 0 <= c -> true_range (map (scale_kc c) ks) = map (Qcmult c) (true_range ks).
Proof.
  intros Hc. unfold true_range.
  apply (mealy_sim _ (scale_kc c) (Qcmult c) (fun s1 s2 => s2 = option_map (Qcmult c) s1)); [|reflexivity].
  intros [pc|] s2 k ->; cbn [option_map fst snd scale_kc k_h k_l k_c]; (split; [reflexivity|]); [|ring].
  replace (c * k_h k - c * pc) with (c * (k_h k - pc)) by ring. replace (c * k_l k - c * pc) with (c * (k_l k - pc)) by ring.
  replace (c * k_h k - c * k_l k) with (c * (k_h k - k_l k)) by ring.
  rewrite !qabs_scale by exact Hc. rewrite (max_scale c _ _ Hc). apply (max_scale c _ _ Hc).
Qed.
Lemma seeded_homogeneous p (step : Qc -> Qc -> Qc) c : (forall a x, step (c * a) (c * x) = c * step a x) ->
  forall xs, seeded p step (map (Qcmult c) xs) = map (scale_opt c) (seeded p step xs).
Proof.
  intros H xs. unfold seeded.
  apply (mealy_sim _ (Qcmult c) (scale_opt c) (fun s1 s2 => fst s2 = map (Qcmult c) (fst s1) /\ snd s2 = scale_opt c (snd s1))); [|split; reflexivity].
  intros [b1 [p1|]] [b2 o2] x [Hb Ho]; cbn [fst snd] in *; subst b2 o2; cbn [scale_opt snd fst].
  - rewrite H. split; [split; reflexivity|reflexivity].
  - rewrite map_last_app, map_length.
    destruct (Nat.eqb (length (b1 ++ [x])) p); cbn [fst snd scale_opt]; [|repeat split; reflexivity].
    assert (M : mean (map (Qcmult c) (b1 ++ [x])) = c * mean (b1 ++ [x])) by (apply mean_scale; destruct b1; discriminate).
    rewrite M. repeat split; reflexivity.
Qed.
Theorem atr_homogeneous c p ks : 0 <= c -> atr p (map (scale_kc c) ks) = map (scale_opt c) (atr p ks).
Proof.
  intros Hc. unfold atr. rewrite (true_range_homogeneous c ks Hc). apply seeded_homogeneous. intros a x. unfold Qcdiv. ring.
Qed.
