(* Proofs/ListLemmas.v — list facts used by the refinement proofs. *)
From Coq Require Import ZArith List Bool Lia.
From JV Require Import Spec.ListSpec.
Import ListNotations.

Section L.
Context {A : Type}.
Implicit Types l p rs : list A.

Lemma zlen_app l p : zlen (l ++ p) = (zlen l + zlen p)%Z.
Proof. unfold zlen. rewrite app_length. lia. Qed.

Lemma zlen_nonneg l : (0 <= zlen l)%Z.
Proof. unfold zlen. lia. Qed.

Lemma firstn_app_le n l p : n <= length l -> firstn n (l ++ p) = firstn n l.
Proof.
  intros H. rewrite firstn_app. replace (n - length l) with 0 by lia.
  rewrite firstn_O, app_nil_r. reflexivity.
Qed.

Lemma firstn_app_exact l p : firstn (length l) (l ++ p) = l.
Proof. rewrite firstn_app_le by lia. apply firstn_all. Qed.

Lemma skipn_app_le n l p : n <= length l -> skipn n (l ++ p) = skipn n l ++ p.
Proof.
  intros H. rewrite skipn_app. replace (n - length l) with 0 by lia. reflexivity.
Qed.

Lemma skipn_app_exact l p : skipn (length l) (l ++ p) = p.
Proof. rewrite skipn_app, skipn_all, Nat.sub_diag. reflexivity. Qed.

Lemma upd_app l p k x : k < length l -> upd (l ++ p) k x = upd l k x ++ p.
Proof.
  intros H. unfold upd. rewrite firstn_app_le by lia. rewrite skipn_app_le by lia.
  rewrite <- app_assoc. reflexivity.
Qed.

Lemma upd_length l k x : k < length l -> length (upd l k x) = length l.
Proof.
  intros H. unfold upd. rewrite app_length. cbn [length]. rewrite firstn_length, skipn_length. lia.
Qed.

Lemma upd_range_app l p k rs : k + length rs <= length l ->
  upd_range (l ++ p) k rs = upd_range l k rs ++ p.
Proof.
  intros H. unfold upd_range. rewrite firstn_app_le by lia. rewrite skipn_app_le by lia.
  rewrite <- !app_assoc. reflexivity.
Qed.

Lemma upd_range_length l k rs : k + length rs <= length l ->
  length (upd_range l k rs) = length l.
Proof.
  intros H. unfold upd_range. rewrite !app_length, firstn_length, skipn_length. lia.
Qed.

Lemma remove_nth_app l p k : k < length l -> remove_nth (l ++ p) k = remove_nth l k ++ p.
Proof.
  intros H. unfold remove_nth. rewrite firstn_app_le by lia. rewrite skipn_app_le by lia.
  rewrite <- app_assoc. reflexivity.
Qed.

Lemma remove_nth_length l k : k < length l -> length (remove_nth l k) = length l - 1.
Proof.
  intros H. unfold remove_nth. rewrite app_length, firstn_length, skipn_length. lia.
Qed.

Lemma nth_last l d : l <> [] -> nth (length l - 1) l d = last l d.
Proof.
  intros H. destruct (exists_last H) as (l' & x & ->).
  rewrite app_length, last_last. cbn [length].
  replace (length l' + 1 - 1) with (length l') by lia.
  rewrite app_nth2 by lia. rewrite Nat.sub_diag. reflexivity.
Qed.

(* writing a block at the end of l inside l ++ p, p long enough *)
Lemma upd_range_at_end l p rs : length rs <= length p ->
  upd_range (l ++ p) (length l) rs = (l ++ rs) ++ skipn (length rs) p.
Proof.
  intros H. unfold upd_range. rewrite firstn_app_exact.
  rewrite skipn_app. rewrite skipn_all2 by lia. cbn [app].
  replace (length l + length rs - length l) with (length rs) by lia.
  rewrite <- app_assoc. reflexivity.
Qed.

Lemma upd_at_end l p x : p <> [] -> upd (l ++ p) (length l) x = (l ++ [x]) ++ tl p.
Proof.
  intros H. unfold upd. rewrite firstn_app_exact.
  rewrite skipn_app. rewrite skipn_all2 by lia. cbn [app].
  replace (S (length l) - length l) with 1 by lia.
  destruct p as [|y p]; [congruence|]. cbn. rewrite <- app_assoc. reflexivity.
Qed.

Lemma skipn_skipn' : forall b a l, skipn a (skipn b l) = skipn (a + b) l.
Proof.
  induction b as [|b IH]; intros a l.
  - rewrite Nat.add_0_r. reflexivity.
  - rewrite Nat.add_succ_r. destruct l as [|x l]; [rewrite !skipn_nil; reflexivity|]. cbn [skipn]. apply IH.
Qed.

Lemma repeat_length_z (z : A) k : zlen (repeat z k) = Z.of_nat k.
Proof. unfold zlen. rewrite repeat_length. reflexivity. Qed.

End L.
