(* Proofs/LifecycleProofs.v — C05: one terminal transition, idempotent execute/cancel, registry and trade records,
   for every history of lifecycle operations and every assignment of position effects. *)
From Coq Require Import List Bool Arith Lia.
From JV Require Import Model.Lifecycle.
Import ListNotations.

(* ------------------------------------------------------------------ status bookkeeping *)
Lemma status_set_same l id s : status_of l id <> None -> status_of (set_status l id s) id = Some s.
Proof.
  induction l as [|[i x] r IH]; cbn [status_of set_status]; [congruence|].
  destruct (Nat.eqb i id) eqn:E; cbn [status_of]; rewrite E; [reflexivity|exact IH].
Qed.
Lemma status_set_other l id id' s : id' <> id -> status_of (set_status l id s) id' = status_of l id'.
Proof.
  intros H. induction l as [|[i x] r IH]; cbn [status_of set_status]; [reflexivity|].
  destruct (Nat.eqb i id) eqn:E; cbn [status_of].
  - apply Nat.eqb_eq in E. subst i. destruct (Nat.eqb id id') eqn:E2; [apply Nat.eqb_eq in E2; congruence|reflexivity].
  - destruct (Nat.eqb i id'); [reflexivity|exact IH].
Qed.
Lemma status_app_new l id : status_of l id = None -> status_of (l ++ [(id, Active)]) id = Some Active.
Proof.
  induction l as [|[i x] r IH]; cbn [app status_of]; [rewrite Nat.eqb_refl; reflexivity|].
  destruct (Nat.eqb i id); [discriminate|exact IH].
Qed.
Lemma status_app_old l id id' s : status_of l id' = Some s -> status_of (l ++ [(id, Active)]) id' = Some s.
Proof.
  induction l as [|[i x] r IH]; cbn [app status_of]; [discriminate|].
  destruct (Nat.eqb i id'); [auto|exact IH].
Qed.

Definition final_of (w : world) (id : nat) (s : st) : Prop := status_of (statuses w) id = Some s /\ st_final s = true.

(* ------------------------------------------------------------------ (i) a final status never changes *)
Lemma cancel_keeps_final w id id' s : final_of w id' s -> final_of (cancel w id) id' s.
Proof.
  intros [H F]. unfold cancel, is_active. destruct (status_of (statuses w) id) as [[| |]|] eqn:E; try (split; assumption).
  unfold final_of. cbn [with_statuses statuses]. destruct (Nat.eq_dec id' id) as [->|N].
  - rewrite E in H. injection H as <-. discriminate F.
  - rewrite status_set_other by exact N. split; assumption.
Qed.
Lemma fold_cancel_keeps_final ids : forall w id' s, final_of w id' s -> final_of (fold_left cancel ids w) id' s.
Proof. induction ids as [|i r IH]; intros w id' s H; cbn [fold_left]; [exact H|]. apply IH. apply cancel_keeps_final. exact H. Qed.

Lemma execute_cancel_keeps_final w id' s : final_of w id' s -> final_of (execute_cancel w) id' s.
Proof.
  intros H. unfold execute_cancel, reset_trade, cancel_all, final_of. cbn [statuses].
  apply (fold_cancel_keeps_final (active w) w id' s H).
Qed.

Lemma execute_keeps_final w id c id' s : final_of w id' s -> final_of (execute w id c) id' s.
Proof.
  intros [H F]. unfold execute, is_active. destruct (status_of (statuses w) id) as [[| |]|] eqn:E; try (split; assumption).
  assert (N : id' <> id) by (intros ->; rewrite E in H; injection H as <-; discriminate F).
  assert (H1 : status_of (set_status (statuses w) id Executed) id' = Some s) by (rewrite status_set_other by exact N; exact H).
  cbn [pos_open statuses storage active to_exec temp trades next].
  destruct (match c with Close => true | _ => false end && pos_open w).
  - apply execute_cancel_keeps_final. unfold final_of. cbn [statuses]. split; [exact H1|exact F].
  - destruct (match c with Flip => true | _ => false end && pos_open w); unfold final_of; cbn [statuses]; split; [exact H1|exact F|exact H1|exact F].
Qed.

Lemma exec_list_keeps_final ids : forall w fl id' s, final_of w id' s -> final_of (exec_list w ids fl) id' s.
Proof. induction ids as [|i r IH]; intros w fl id' s H; cbn [exec_list]; [exact H|]. destruct (is_active w i); [apply IH; apply execute_keeps_final; exact H|apply IH; exact H]. Qed.

Theorem final_status_never_changes w o id s : final_of w id s -> final_of (lstep w o) id s.
Proof.
  intros H. destruct o as [m|i| |i c|fl| |]; cbn [lstep].
  - destruct H as [H F]. split; [|exact F]. cbn [submit statuses]. apply status_app_old. exact H.
  - apply cancel_keeps_final. exact H.
  - destruct (pos_open w); [exact H|apply execute_cancel_keeps_final; exact H].
  - apply execute_keeps_final. exact H.
  - pose proof (exec_list_keeps_final (to_exec w) w fl id s H) as [A B]. split; assumption.
  - exact H.
  - unfold check_reset. destruct (negb (pos_open w) && _); exact H.
Qed.

Theorem final_forever ops : forall w id s, final_of w id s -> final_of (fold_left lstep ops w) id s.
Proof. induction ops as [|o r IH]; intros w id s H; cbn [fold_left]; [exact H|]. apply IH. apply final_status_never_changes. exact H. Qed.

(* ------------------------------------------------------------------ (ii) execute / cancel on a final order change nothing at all *)
Theorem execute_final_is_identity w id c s : final_of w id s -> execute w id c = w.
Proof. intros [H F]. unfold execute, is_active. rewrite H. destruct s; [discriminate F|reflexivity|reflexivity]. Qed.
Theorem cancel_final_is_identity w id s : final_of w id s -> cancel w id = w.
Proof. intros [H F]. unfold cancel, is_active. rewrite H. destruct s; [discriminate F|reflexivity|reflexivity]. Qed.
Theorem unknown_order_is_identity w id c : status_of (statuses w) id = None -> execute w id c = w /\ cancel w id = w.
Proof. intros H. unfold execute, cancel, is_active. rewrite H. split; reflexivity. Qed.

(* ------------------------------------------------------------------ (iii) registry: every order that is not final is listed as active *)
Definition Reg (w : world) : Prop :=
  (forall id, is_active w id = true -> In id (active w) /\ In id (storage w)) /\
  (forall id, status_of (statuses w) id <> None -> id < next w) /\
  (forall id, In id (active w) \/ In id (storage w) \/ In id (to_exec w) -> status_of (statuses w) id <> None).

Lemma cancel_active w id id' : is_active (cancel w id) id' = true -> is_active w id' = true /\ id' <> id.
Proof.
  unfold cancel. destruct (is_active w id) eqn:E.
  - unfold is_active at 1. cbn [with_statuses statuses]. destruct (Nat.eq_dec id' id) as [->|N].
    + rewrite status_set_same; [discriminate|]. unfold is_active in E. destruct (status_of (statuses w) id); [discriminate|discriminate E].
    + rewrite status_set_other by exact N. intros H. split; [exact H|exact N].
  - intros H. split; [exact H|]. intros ->. congruence.
Qed.
Lemma cancel_lists w id : active (cancel w id) = active w /\ storage (cancel w id) = storage w /\ to_exec (cancel w id) = to_exec w /\
  temp (cancel w id) = temp w /\ trades (cancel w id) = trades w /\ pos_open (cancel w id) = pos_open w /\ next (cancel w id) = next w.
Proof. unfold cancel. destruct (is_active w id); repeat split; reflexivity. Qed.
Lemma cancel_known w id id' : status_of (statuses (cancel w id)) id' <> None <-> status_of (statuses w) id' <> None.
Proof.
  unfold cancel. destruct (is_active w id) eqn:E; [|tauto]. cbn [with_statuses statuses].
  destruct (Nat.eq_dec id' id) as [->|N].
  - unfold is_active in E. destruct (status_of (statuses w) id) eqn:E2; [|discriminate E]. rewrite status_set_same by congruence. split; congruence.
  - rewrite status_set_other by exact N. tauto.
Qed.

Lemma fold_cancel_spec ids : forall w,
  (forall id', is_active (fold_left cancel ids w) id' = true -> is_active w id' = true /\ ~ In id' ids) /\
  active (fold_left cancel ids w) = active w /\ to_exec (fold_left cancel ids w) = to_exec w /\ temp (fold_left cancel ids w) = temp w /\
  trades (fold_left cancel ids w) = trades w /\ pos_open (fold_left cancel ids w) = pos_open w /\ next (fold_left cancel ids w) = next w /\
  (forall id', status_of (statuses (fold_left cancel ids w)) id' <> None <-> status_of (statuses w) id' <> None).
Proof.
  induction ids as [|i r IH]; intros w; cbn [fold_left].
  - repeat split; auto; tauto.
  - destruct (IH (cancel w i)) as (A & B & Cc & D & E & F & G & H). destruct (cancel_lists w i) as (L1 & L2 & L3 & L4 & L5 & L6 & L7).
    repeat split; try congruence.
    + apply (proj1 (cancel_active w i id' (proj1 (A id' H0)))).
    + intros [<-|Hin]; [apply (proj2 (cancel_active w i _ (proj1 (A _ H0)))); reflexivity|apply (proj2 (A id' H0)); exact Hin].
    + intros X. apply (cancel_known w i id'). apply H. exact X.
    + intros X. apply H. apply (cancel_known w i id'). exact X.
Qed.

Lemma execute_cancel_reg w : Reg w -> Reg (execute_cancel w).
Proof.
  intros (R1 & R2 & R3). unfold execute_cancel, reset_trade, cancel_all. destruct (fold_cancel_spec (active w) w) as (A & B & Cc & D & E & F & G & H).
  unfold Reg. cbn [statuses active storage to_exec next]. repeat split.
  - exfalso. unfold is_active in H0. cbn [statuses] in H0. destruct (A id H0) as [X Y]. apply Y. apply (R1 id X).
  - exfalso. unfold is_active in H0. cbn [statuses] in H0. destruct (A id H0) as [X Y]. apply Y. apply (R1 id X).
  - intros id X. rewrite G. apply R2. apply H. exact X.
  - intros id [[]|[[]|X]]. apply H. apply R3. right. right. rewrite <- Cc. exact X.
Qed.

Lemma execute_reg w id c : Reg w -> Reg (execute w id c).
Proof.
  intros HR. pose proof HR as (R1 & R2 & R3). unfold execute. destruct (is_active w id) eqn:E; [|exact HR].
  assert (Hk : status_of (statuses w) id <> None) by (unfold is_active in E; destruct (status_of (statuses w) id); [congruence|discriminate E]).
  assert (HR1 : forall po tm tr, Reg {| statuses := set_status (statuses w) id Executed; storage := storage w; active := active w; to_exec := to_exec w;
                                        temp := tm; trades := tr; pos_open := po; next := next w |}).
  { intros po tm tr. unfold Reg, is_active. cbn [statuses storage active to_exec next]. repeat split.
    - destruct (Nat.eq_dec id0 id) as [->|N]; [rewrite status_set_same in H by exact Hk; discriminate H|].
      rewrite status_set_other in H by exact N. apply (R1 id0). exact H.
    - destruct (Nat.eq_dec id0 id) as [->|N]; [rewrite status_set_same in H by exact Hk; discriminate H|].
      rewrite status_set_other in H by exact N. apply (R1 id0). exact H.
    - intros id0 X. apply R2. destruct (Nat.eq_dec id0 id) as [->|N]; [exact Hk|]. rewrite status_set_other in X by exact N. exact X.
    - intros id0 X. destruct (Nat.eq_dec id0 id) as [->|N]; [rewrite status_set_same by exact Hk; discriminate|].
      rewrite status_set_other by exact N. apply R3. exact X. }
  cbn [pos_open statuses storage active to_exec temp trades next].
  destruct (match c with Close => true | _ => false end && pos_open w); [apply execute_cancel_reg; apply HR1|].
  destruct (match c with Flip => true | _ => false end && pos_open w); apply HR1.
Qed.

Lemma exec_list_reg ids : forall w fl, Reg w -> Reg (exec_list w ids fl).
Proof. induction ids as [|i r IH]; intros w fl H; cbn [exec_list]; [exact H|]. destruct (is_active w i); [apply IH; apply execute_reg; exact H|apply IH; exact H]. Qed.

Theorem registry_invariant w o : Reg w -> Reg (lstep w o).
Proof.
  intros HR. pose proof HR as (R1 & R2 & R3). destruct o as [m|i| |i c|fl| |]; cbn [lstep].
  - (* submit *)
    assert (Hnew : status_of (statuses w) (next w) = None).
    { destruct (status_of (statuses w) (next w)) eqn:E; [|reflexivity]. assert (next w < next w) by (apply R2; congruence). lia. }
    unfold Reg, is_active. cbn [submit statuses storage active to_exec next]. repeat split.
    + destruct (Nat.eq_dec id (next w)) as [->|N]; [apply in_or_app; right; left; reflexivity|].
      apply in_or_app. left. apply (R1 id). unfold is_active. destruct (status_of (statuses w) id) eqn:E.
      * rewrite (status_app_old _ _ _ _ E) in H. exact H.
      * exfalso. clear -H E N. induction (statuses w) as [|[j x] r IH]; cbn [app status_of] in *.
        -- destruct (Nat.eqb (next w) id) eqn:E2; [apply Nat.eqb_eq in E2; congruence|discriminate H].
        -- destruct (Nat.eqb j id); [discriminate E|apply IH; assumption].
    + destruct (Nat.eq_dec id (next w)) as [->|N]; [apply in_or_app; right; left; reflexivity|].
      apply in_or_app. left. apply (R1 id). unfold is_active. destruct (status_of (statuses w) id) eqn:E.
      * rewrite (status_app_old _ _ _ _ E) in H. exact H.
      * exfalso. clear -H E N. induction (statuses w) as [|[j x] r IH]; cbn [app status_of] in *.
        -- destruct (Nat.eqb (next w) id) eqn:E2; [apply Nat.eqb_eq in E2; congruence|discriminate H].
        -- destruct (Nat.eqb j id); [discriminate E|apply IH; assumption].
    + intros id X. destruct (status_of (statuses w) id) eqn:E; [assert (id < next w) by (apply R2; congruence); lia|].
      destruct (Nat.eq_dec id (next w)) as [->|N]; [lia|]. exfalso. apply X. clear -E N.
      induction (statuses w) as [|[j x] r IH]; cbn [app status_of] in *.
      * destruct (Nat.eqb (next w) id) eqn:E2; [apply Nat.eqb_eq in E2; congruence|reflexivity].
      * destruct (Nat.eqb j id); [discriminate E|apply IH; assumption].
    + intros id X. assert (Y : In id (active w) \/ In id (storage w) \/ In id (to_exec w) \/ id = next w).
      { destruct X as [X|[X|X]]; [apply in_app_or in X; destruct X as [X|[<-|[]]]; auto|apply in_app_or in X; destruct X as [X|[<-|[]]]; auto|].
        destruct m; [apply in_app_or in X; destruct X as [X|[<-|[]]]; auto|auto]. }
      destruct Y as [Y|[Y|[Y| -> ]]]; [| | |rewrite (status_app_new _ _ Hnew); discriminate];
        (destruct (status_of (statuses w) id) eqn:E; [rewrite (status_app_old _ _ _ _ E); discriminate|exfalso; apply (R3 id); [tauto|exact E]]).
  - (* cancel one *)
    destruct (cancel_lists w i) as (L1 & L2 & L3 & L4 & L5 & L6 & L7). unfold Reg. rewrite L1, L2, L3, L7. repeat split.
    + apply (R1 id). apply (cancel_active w i id H).
    + apply (R1 id). apply (cancel_active w i id H).
    + intros id X. apply R2. apply (cancel_known w i id). exact X.
    + intros id X. apply (cancel_known w i id). apply R3. exact X.
  - destruct (pos_open w); [exact HR|apply execute_cancel_reg; exact HR].
  - apply execute_reg. exact HR.
  - pose proof (exec_list_reg (to_exec w) w fl HR) as (A & B & Cc). unfold Reg, is_active. cbn [statuses storage active to_exec next]. repeat split.
    + apply (A id). exact H. + apply (A id). exact H. + exact B.
    + intros id [X|[X|[]]]; apply Cc; tauto.
  - unfold Reg, update_active, is_active. cbn [statuses storage active to_exec next]. repeat split.
    + apply filter_In. split; [apply (R1 id); exact H|exact H]. + apply (R1 id). exact H. + exact R2.
    + intros id [X|X]; [apply filter_In in X; apply R3; tauto|apply R3; tauto].
  - unfold check_reset. destruct (negb (pos_open w)); cbn [andb]; [|exact HR]. destruct (storage w) eqn:Es; [|exact HR].
    unfold Reg, reset_trade, is_active. cbn [statuses storage active to_exec next]. repeat split.
    + exfalso. destruct (R1 id H) as [_ X]. try rewrite Es in X. destruct X.
    + exfalso. destruct (R1 id H) as [_ X]. try rewrite Es in X. destruct X.
    + exact R2. + intros id [[]|[[]|X]]. apply R3. tauto.
Qed.

Theorem registry_always ops : Reg (fold_left lstep ops linit).
Proof.
  assert (G : forall w, Reg w -> Reg (fold_left lstep ops w)).
  { induction ops as [|o r IH]; intros w H; cbn [fold_left]; [exact H|]. apply IH. apply registry_invariant. exact H. }
  apply G. unfold Reg, linit, is_active. cbn. repeat split; try discriminate; try contradiction; try tauto.
Qed.

(* the orders reported as active are exactly the submitted orders that are not final *)
Theorem reported_active_is_exact ops id :
  let w := fold_left lstep ops linit in
  In id (filter (is_active w) (active w)) <-> status_of (statuses w) id = Some Active.
Proof.
  intros w. pose proof (registry_always ops) as (R1 & _). fold w in R1. rewrite filter_In. unfold is_active in *. split.
  - intros [_ H]. destruct (status_of (statuses w) id) as [[| |]|]; try discriminate; reflexivity.
  - intros H. split; [apply (R1 id); rewrite H; reflexivity|rewrite H; reflexivity].
Qed.

(* ------------------------------------------------------------------ (iv) every executed order is recorded in exactly one trade, once *)
Definition recorded (w : world) (id : nat) : nat := count_occ Nat.eq_dec (temp w ++ concat (trades w)) id.
Definition Tr (w : world) : Prop :=
  forall id, recorded w id = match status_of (statuses w) id with Some Executed => 1 | _ => 0 end.

Lemma count_app_comm (a b : list nat) id : count_occ Nat.eq_dec (a ++ b) id = count_occ Nat.eq_dec (b ++ a) id.
Proof. rewrite !count_occ_app. lia. Qed.

Lemma cancel_tr w i : Tr w -> Tr (cancel w i).
Proof.
  intros H id. destruct (cancel_lists w i) as (_ & _ & _ & L4 & L5 & _). unfold recorded. rewrite L4, L5. fold (recorded w id). rewrite (H id).
  unfold cancel. destruct (is_active w i) eqn:E; [|reflexivity]. cbn [with_statuses statuses].
  destruct (Nat.eq_dec id i) as [->|N].
  - unfold is_active in E. destruct (status_of (statuses w) i) as [[| |]|] eqn:E2; try discriminate E. rewrite status_set_same by congruence. reflexivity.
  - rewrite status_set_other by exact N. reflexivity.
Qed.
Lemma fold_cancel_tr ids : forall w, Tr w -> Tr (fold_left cancel ids w).
Proof. induction ids as [|i r IH]; intros w H; cbn [fold_left]; [exact H|]. apply IH. apply cancel_tr. exact H. Qed.

Lemma execute_cancel_tr w : Tr w -> Tr (execute_cancel w).
Proof.
  intros H id. unfold execute_cancel, reset_trade, cancel_all, recorded. cbn [temp trades statuses].
  pose proof (fold_cancel_tr (active w) w H id) as X. unfold recorded in X. exact X.
Qed.

Lemma execute_tr w i c : Tr w -> Tr (execute w i c).
Proof.
  intros H. unfold execute. destruct (is_active w i) eqn:E; [|exact H].
  assert (Hk : status_of (statuses w) i = Some Active) by (unfold is_active in E; destruct (status_of (statuses w) i) as [[| |]|]; try discriminate E; reflexivity).
  assert (H0 : recorded w i = 0) by (rewrite (H i), Hk; reflexivity).
  assert (Base : forall id, count_occ Nat.eq_dec ((temp w ++ [i]) ++ concat (trades w)) id =
                            match status_of (set_status (statuses w) i Executed) id with Some Executed => 1 | _ => 0 end).
  { intros id. rewrite count_occ_app, count_occ_app. cbn [count_occ]. destruct (Nat.eq_dec id i) as [->|N].
    - rewrite status_set_same by congruence. destruct (Nat.eq_dec i i); [|contradiction]. unfold recorded in H0. rewrite count_occ_app in H0. lia.
    - rewrite status_set_other by exact N. destruct (Nat.eq_dec i id); [congruence|]. rewrite <- (H id). unfold recorded. rewrite count_occ_app. lia. }
  cbn [pos_open statuses storage active to_exec temp trades next].
  destruct (match c with Close => true | _ => false end && pos_open w).
  - apply execute_cancel_tr. intros id. unfold recorded. cbn [temp trades statuses app]. rewrite concat_app. cbn [concat]. rewrite app_nil_r.
    rewrite count_app_comm. apply Base.
  - destruct (match c with Flip => true | _ => false end && pos_open w).
    + intros id. unfold recorded. cbn [temp trades statuses app]. rewrite concat_app. cbn [concat]. rewrite app_nil_r. rewrite count_app_comm. apply Base.
    + intros id. unfold recorded. cbn [temp trades statuses]. apply Base.
Qed.

Lemma exec_list_tr ids : forall w fl, Tr w -> Tr (exec_list w ids fl).
Proof. induction ids as [|i r IH]; intros w fl H; cbn [exec_list]; [exact H|]. destruct (is_active w i); [apply IH; apply execute_tr; exact H|apply IH; exact H]. Qed.

Theorem trades_invariant w o : Reg w -> Tr w -> Tr (lstep w o).
Proof.
  intros (R1 & R2 & R3) H. destruct o as [m|i| |i c|fl| |]; cbn [lstep].
  - intros id. unfold recorded. cbn [submit temp trades statuses]. fold (recorded w id). rewrite (H id).
    destruct (status_of (statuses w) id) eqn:E; [rewrite (status_app_old _ _ _ _ E); reflexivity|].
    destruct (Nat.eq_dec id (next w)) as [->|N]; [rewrite (status_app_new _ _ E); reflexivity|].
    assert (X : status_of (statuses w ++ [(next w, Active)]) id = None).
    { clear -E N. induction (statuses w) as [|[j x] r IH]; cbn [app status_of] in *.
      - destruct (Nat.eqb (next w) id) eqn:E2; [apply Nat.eqb_eq in E2; congruence|reflexivity].
      - destruct (Nat.eqb j id); [discriminate E|apply IH; assumption]. }
    rewrite X. reflexivity.
  - apply cancel_tr. exact H.
  - destruct (pos_open w); [exact H|apply execute_cancel_tr; exact H].
  - apply execute_tr. exact H.
  - pose proof (exec_list_tr (to_exec w) w fl H) as X. intros id. specialize (X id). unfold recorded in *. cbn [temp trades statuses]. exact X.
  - exact H.
  - unfold check_reset. destruct (negb (pos_open w) && _); exact H.
Qed.

Theorem trades_always ops : Tr (fold_left lstep ops linit).
Proof.
  assert (G : forall w, Reg w -> Tr w -> Tr (fold_left lstep ops w)).
  { induction ops as [|o r IH]; intros w HR H; cbn [fold_left]; [exact H|]. apply IH; [apply registry_invariant; exact HR|apply trades_invariant; assumption]. }
  apply G; [|intros id; reflexivity]. unfold Reg, linit, is_active. cbn. repeat split; try discriminate; try contradiction; try tauto.
Qed.
